//go:build verif

package trzsz

// X04 "RelaySched" driver (hosted by C13): model-directed schedule replay with gates.
// spec/RelayGen.tla exports behaviours of Relay as sequences of steps
//     feed  {p: "c"|"s", u: chunk}          the next chunk of that side is handed to the relay's Read
//     hook  {p: In|Out|Wk, pt: point, a: n}  the goroutine waiting at that vhook point is released
// A real TrzszRelay runs on harness pipes; verifHook is a gate: every goroutine that reaches a vhook
// point of relay.go blocks there until the scheduler releases it.  The scheduler walks through the
// behaviour: it feeds the chunks itself and releases exactly the goroutine the model names, then waits
// until every goroutine of the relay is blocked again (runtime.Stack: no relay goroutine running or
// runnable) before the next step.  A reader that loaded `handshaking` while the worker holds the lock
// is released early so that it really waits inside Lock() (the model has one state for "about to lock"
// and "waiting for the lock").  If the goroutine the model wants does not show up within the grace
// time the run is `diverged`: all gates open, the remaining chunks are fed, nothing is concluded from
// the divergence.  A watchdog opens everything after a generous time (noise, never a verdict).
// The recorded events are those of c13_relay.go (reset / feed / hook / deliver / quiet), so that
// RelayTrace.tla validates the recordings unchanged.

import (
	"bytes"
	"encoding/json"
	"fmt"
	"io"
	"os"
	"runtime"
	"strings"
	"sync"
	"sync/atomic"
	"time"
)

func init() { vRegister("x04_sched", x04SchedDriver) }

const (
	x04ACT    = -1
	x04CFG    = -2
	x04TRIG   = -3
	x04END    = -4
	x04FAIL   = -5
	x04BADACT = -6
	x04BADCFG = -7
)

type x04Chunk struct {
	b []byte
	u []int
}

type x04Reader struct {
	ch     chan x04Chunk
	onRead func(u []int)
}

func (r *x04Reader) Read(p []byte) (int, error) {
	c, ok := <-r.ch
	if !ok {
		return 0, io.EOF
	}
	n := copy(p, c.b)
	if r.onRead != nil {
		r.onRead(c.u)
	}
	return n, nil
}

type x04Writer struct {
	gate  atomic.Pointer[chan struct{}] // when set: Write blocks until the channel is closed (a slow drain)
	mu    sync.Mutex
	to    string
	carry []byte
	emit  func(to string, toks []int)
}

func (w *x04Writer) Close() error { return nil }

// Write tokenises what the relay delivers (as c13Writer does): payload bytes (>= 0x80) are tokens
// themselves, an ASCII run up to '\n' is classified as trigger / ACT / CFG / EXIT / FAIL line.
func (w *x04Writer) Write(p []byte) (int, error) {
	if g := w.gate.Load(); g != nil {
		<-*g
	}
	w.mu.Lock()
	defer w.mu.Unlock()
	data := append(w.carry, p...)
	w.carry = nil
	var toks []int
	i := 0
	for i < len(data) {
		if data[i] >= 0x80 {
			toks = append(toks, int(data[i]))
			i++
			continue
		}
		j := i
		for j < len(data) && data[j] < 0x80 && data[j] != '\n' {
			j++
		}
		if j >= len(data) || data[j] != '\n' {
			if j < len(data) {
				toks = append(toks, x04Classify(data[i:j]))
				i = j
				continue
			}
			w.carry = append([]byte(nil), data[i:]...)
			break
		}
		toks = append(toks, x04Classify(data[i:j+1]))
		i = j + 1
	}
	if len(toks) > 0 {
		w.emit(w.to, toks)
	}
	return len(p), nil
}

func x04Classify(line []byte) int {
	round := func(second bool, tok int) int {
		if second {
			return tok - 10
		}
		return tok
	}
	payload := func(typ string) []byte {
		i := bytes.Index(line, []byte("#"+typ+":"))
		if i < 0 {
			return nil
		}
		dec, err := decodeString(string(bytes.TrimRight(line[i+len(typ)+2:], "\r\n")))
		if err != nil {
			return nil
		}
		return dec
	}
	switch {
	case bytes.Contains(line, []byte("::TRZSZ:TRANSFER:")):
		return round(bytes.Contains(line, []byte(":R:1.1.9:")), x04TRIG)
	case bytes.Contains(line, []byte("#ACT:")):
		return round(bytes.Contains(payload("ACT"), []byte(`"lang":"go2"`)), x04ACT)
	case bytes.Contains(line, []byte("#CFG:")):
		return round(bytes.Contains(payload("CFG"), []byte(`"timeout":21`)), x04CFG)
	case bytes.Contains(line, []byte("#EXIT:")):
		return round(bytes.Contains(payload("EXIT"), []byte("bye2")), x04END)
	case bytes.Contains(line, []byte("#FAIL:")) || bytes.Contains(line, []byte("#fail:")):
		return x04FAIL
	}
	return -9
}

func x04Render(toks []int, uid int64, confirm bool) []byte {
	var b bytes.Buffer
	for _, t := range toks {
		second := t <= -11
		k := t
		if second {
			k = t + 10
		}
		switch k {
		case x04TRIG:
			ver := "1.1.8"
			if second {
				ver = "1.1.9"
			}
			b.WriteString(fmt.Sprintf("::TRZSZ:TRANSFER:R:%s:%013d:0\r\n", ver, uid+map[bool]int64{false: 0, true: 100}[second]))
		case x04ACT:
			lang := "go"
			if second {
				lang = "go2"
			}
			act, _ := json.Marshal(&transferAction{Lang: lang, Version: "1.1.8", Confirm: confirm, Newline: "\n", Protocol: 4,
				SupportBinary: true, SupportDirectory: true})
			b.WriteString("#ACT:" + encodeString(string(act)) + "\n")
		case x04CFG:
			tmo := 20
			if second {
				tmo = 21
			}
			b.WriteString("#CFG:" + encodeString(fmt.Sprintf(`{"lang":"go","bufsize":10485760,"timeout":%d,"protocol":4}`, tmo)) + "\n")
		case x04END:
			txt := "bye"
			if second {
				txt = "bye2"
			}
			b.WriteString("#EXIT:" + encodeString(txt) + "\n")
		case x04BADACT:
			b.WriteString("#ACT:%%%%\n")
		case x04BADCFG:
			b.WriteString("#CFG:%%%%\n")
		default:
			b.WriteByte(byte(t))
		}
	}
	return b.Bytes()
}

// ---- the behaviour to replay

type x04Step struct {
	K  string `json:"k"`
	P  string `json:"p"`
	Pt string `json:"pt"`
	A  int    `json:"a"`
	U  []int  `json:"u"`
}

type x04Beh struct {
	Id      int       `json:"id"`
	Confirm bool      `json:"confirm"`
	Steps   []x04Step `json:"steps"`
	Slow    bool      `json:"slow"` // the server side drains slowly while the worker flushes
	P1      bool      `json:"p1"`   // one P: a freshly started goroutine waits in the run queue behind the woken ones
}

// ---- recorder (same event vocabulary as c13_relay.go; written out per run)

type x04Rec struct {
	mu sync.Mutex
	ev []map[string]any
}

func (t *x04Rec) Emit(ev map[string]any) {
	t.mu.Lock()
	t.ev = append(t.ev, ev)
	t.mu.Unlock()
}

// ---- gates

type x04Wait struct {
	proc  string
	point string
	a     []int
	rel   chan struct{}
}

type x04Sched struct {
	mu       sync.Mutex
	waiting  []*x04Wait
	free     bool
	notify   chan struct{}
	rec      *x04Rec
	id       int
	seen     map[string]map[int]bool // tokens delivered so far, per side
	ndeliv   int
	watchdog atomic.Bool
	writers  []*x04Writer
}

func (s *x04Sched) poke() {
	select {
	case s.notify <- struct{}{}:
	default:
	}
}

// x04Proc: which of the relay's activities is calling (wrapInput / wrapOutput / handshake)
func x04Proc() string {
	var pcs [32]uintptr
	n := runtime.Callers(3, pcs[:])
	fr := runtime.CallersFrames(pcs[:n])
	for {
		f, more := fr.Next()
		switch {
		case strings.HasSuffix(f.Function, "(*TrzszRelay).wrapInput"):
			return "In"
		case strings.HasSuffix(f.Function, "(*TrzszRelay).wrapOutput"):
			return "Out"
		case strings.Contains(f.Function, "(*TrzszRelay).handshake"):
			return "Wk"
		}
		if !more {
			return "?"
		}
	}
}

func (s *x04Sched) emitHook(point string, a []int) {
	s.rec.Emit(map[string]any{"e": "hook", "run": s.id, "p": point, "a": a})
}

func (s *x04Sched) hook(point string, args ...int) {
	a := make([]int, len(args))
	copy(a, args)
	if len(a) == 0 {
		a = []int{-1}
	}
	s.mu.Lock()
	if s.free {
		s.emitHook(point, a)
		s.mu.Unlock()
		return
	}
	w := &x04Wait{proc: x04Proc(), point: point, a: a, rel: make(chan struct{})}
	s.waiting = append(s.waiting, w)
	s.mu.Unlock()
	s.poke()
	<-w.rel
}

// take removes the waiter of (proc, point) if it is there
func (s *x04Sched) take(proc, point string) *x04Wait {
	s.mu.Lock()
	defer s.mu.Unlock()
	for i, w := range s.waiting {
		if w.proc == proc && w.point == point {
			s.waiting = append(s.waiting[:i], s.waiting[i+1:]...)
			return w
		}
	}
	return nil
}

func (s *x04Sched) peek(proc string) *x04Wait {
	s.mu.Lock()
	defer s.mu.Unlock()
	for _, w := range s.waiting {
		if w.proc == proc {
			return w
		}
	}
	return nil
}

func (s *x04Sched) await(proc, point string, d time.Duration) *x04Wait {
	deadline := time.Now().Add(d)
	for {
		if w := s.take(proc, point); w != nil {
			return w
		}
		left := time.Until(deadline)
		if left <= 0 || s.watchdog.Load() {
			return nil
		}
		if left > 20*time.Millisecond {
			left = 20 * time.Millisecond
		}
		t := time.NewTimer(left)
		select {
		case <-s.notify:
		case <-t.C:
		}
		t.Stop()
	}
}

// release: the event is recorded while the goroutine still stands at the point, then it runs on
func (s *x04Sched) release(w *x04Wait) {
	s.emitHook(w.point, w.a)
	close(w.rel)
}

// openAll: free-running mode from now on; whoever waits is released in arrival order
func (s *x04Sched) openAll() {
	s.mu.Lock()
	s.free = true
	ws := s.waiting
	s.waiting = nil
	for _, w := range ws {
		s.release(w)
	}
	s.mu.Unlock()
	for _, w := range s.writers {
		if g := w.gate.Swap(nil); g != nil {
			close(*g)
		}
	}
}

// x04Quiescent: no goroutine of the relay (readers, worker, writers) is running or runnable
func x04Quiescent(buf []byte) bool {
	n := runtime.Stack(buf, true)
	for _, blk := range bytes.Split(buf[:n], []byte("\n\n")) {
		if !bytes.Contains(blk, []byte("trzsz.(*TrzszRelay)")) && !bytes.Contains(blk, []byte("trzsz.NewTrzszRelay")) {
			continue
		}
		if bytes.Contains(blk, []byte("x04Replay")) { // the scheduler itself (it called NewTrzszRelay ... never on its stack, but be safe)
			continue
		}
		i := bytes.IndexByte(blk, '[')
		j := bytes.IndexByte(blk, ']')
		if i < 0 || j < i {
			continue
		}
		st := string(blk[i+1 : j])
		if strings.HasPrefix(st, "running") || strings.HasPrefix(st, "runnable") || strings.HasPrefix(st, "syscall") {
			return false
		}
	}
	return true
}

func (s *x04Sched) settle(buf []byte, d time.Duration) bool {
	deadline := time.Now().Add(d)
	for k := 0; ; k++ {
		if x04Quiescent(buf) {
			return true
		}
		if time.Now().After(deadline) || s.watchdog.Load() {
			return false
		}
		if k < 20 {
			runtime.Gosched()
		} else {
			time.Sleep(100 * time.Microsecond)
		}
	}
}

func (s *x04Sched) waitSeen(side string, tok int, d time.Duration) bool {
	deadline := time.Now().Add(d)
	for {
		s.mu.Lock()
		ok := s.seen[side][tok]
		s.mu.Unlock()
		if ok {
			return true
		}
		left := time.Until(deadline)
		if left <= 0 || s.watchdog.Load() {
			return false
		}
		if left > 20*time.Millisecond {
			left = 20 * time.Millisecond
		}
		t := time.NewTimer(left)
		select {
		case <-s.notify:
		case <-t.C:
		}
		t.Stop()
	}
}

type x04Result struct {
	Id       int      `json:"id"`
	Followed bool     `json:"followed"`
	DivAt    int      `json:"div_at"`
	DivWant  string   `json:"div_want,omitempty"`
	DivHave  string   `json:"div_have,omitempty"`
	ArgDiff  int      `json:"argdiff"`
	ArgAt    []string `json:"arg_at,omitempty"`
	Early    int      `json:"early"`
	Watchdog bool     `json:"watchdog"`
	Clean    bool     `json:"clean"`
	Slow     bool     `json:"slow"`
	SlowHit  bool     `json:"slow_hit"`
	P1       bool     `json:"p1"`
	Steps    int      `json:"steps"`
}

func x04Tok(t int) int {
	if t > 0 {
		return t + 127 // payload tokens of the model are 1, 2, ...: bytes 128, 129, ...
	}
	return t
}

func x04Replay(rec *x04Rec, b *x04Beh, grace, wdTime time.Duration) (res x04Result) {
	res = x04Result{Id: b.Id, DivAt: -1, Slow: b.Slow, P1: b.P1, Steps: len(b.Steps)}
	if b.P1 {
		defer runtime.GOMAXPROCS(runtime.GOMAXPROCS(1))
	}
	uid := (time.Now().UnixMilli()%1e10)*100 + int64(b.Id%100)
	uid = uid / 100 * 100
	rec.Emit(map[string]any{"e": "reset", "run": b.Id, "confirm": b.Confirm})
	s := &x04Sched{notify: make(chan struct{}, 1), rec: rec, id: b.Id, seen: map[string]map[int]bool{"s": {}, "c": {}}}
	verifHook = s.hook
	defer func() { verifHook = nil }()
	emit := func(to string, toks []int) {
		s.mu.Lock()
		rec.Emit(map[string]any{"e": "deliver", "run": b.Id, "to": to, "u": toks})
		for _, t := range toks {
			s.seen[to][t] = true
		}
		s.ndeliv += len(toks)
		s.mu.Unlock()
		s.poke()
	}
	toServer := &x04Writer{to: "s", emit: emit}
	toClient := &x04Writer{to: "c", emit: emit}
	s.writers = []*x04Writer{toServer, toClient}
	cin := &x04Reader{ch: make(chan x04Chunk)}
	sout := &x04Reader{ch: make(chan x04Chunk)}
	cin.onRead = func(u []int) { rec.Emit(map[string]any{"e": "feed", "run": b.Id, "side": "c", "u": u}) }
	sout.onRead = func(u []int) { rec.Emit(map[string]any{"e": "feed", "run": b.Id, "side": "s", "u": u}) }
	relay := NewTrzszRelay(cin, toClient, toServer, sout, TrzszOptions{})
	_ = relay
	wd := time.AfterFunc(wdTime, func() {
		s.watchdog.Store(true)
		s.openAll()
		s.poke()
	})
	defer wd.Stop()
	buf := make([]byte, 1<<19)

	// causality of the environment on the real streams (as in c13_relay.go): the client answers the trigger it
	// saw, the server answers the ACT it received, the client ends a transfer whose CFG it saw
	cause := func(side string, u []int) {
		for _, t := range u {
			k, off := t, 0
			if t <= -11 {
				k, off = t+10, -10
			}
			switch {
			case side == "c" && (k == x04ACT || k == x04BADACT):
				s.waitSeen("c", x04TRIG+off, 3*time.Second)
			case side == "s" && (k == x04CFG || k == x04BADCFG):
				s.waitSeen("s", x04ACT+off, 3*time.Second)
			case side == "c" && k == x04END:
				s.waitSeen("c", x04CFG+off, 3*time.Second)
			}
		}
	}
	openGates := func() bool {
		any := false
		for _, w := range s.writers {
			if g := w.gate.Swap(nil); g != nil {
				close(*g)
				any = true
			}
		}
		return any
	}

	feed := func(st x04Step) bool {
		u := make([]int, len(st.U))
		for i, t := range st.U {
			u[i] = x04Tok(t)
		}
		cause(st.P, u)
		rd := cin
		if st.P == "s" {
			rd = sout
		}
		c := x04Chunk{x04Render(u, uid, b.Confirm), u}
		for _, d := range []time.Duration{grace, 5 * time.Second} {
			t := time.NewTimer(d)
			select {
			case rd.ch <- c:
				t.Stop()
				return true
			case <-t.C:
			}
			// the reader is not in Read: held up behind a slowly draining peer?  let it drain and try once more
			if !openGates() {
				return false
			}
			res.SlowHit = true
		}
		return false
	}

	consumed := make([]bool, len(b.Steps))
	wkHolds := false
	loadPt := map[string]string{"In": "relay.in.load", "Out": "relay.out.load"}
	// a reader that loaded `handshaking` and whose next step in the model is its Lock after the worker's Unlock
	// is released now: it will wait inside Lock()
	tryEarly := func(from int) {
		if !wkHolds {
			return
		}
		for j := from; j < len(b.Steps); j++ {
			st := b.Steps[j]
			if consumed[j] || st.K != "hook" || (st.P != "In" && st.P != "Out") {
				continue
			}
			first := true // the first step of this reader from here on
			for i := from; i < j; i++ {
				if !consumed[i] && ((b.Steps[i].K == "hook" && b.Steps[i].P == st.P) ||
					(b.Steps[i].K == "feed" && b.Steps[i].P == map[string]string{"In": "c", "Out": "s"}[st.P])) {
					first = false
				}
			}
			if st.Pt != loadPt[st.P] || st.A != 1 {
				continue
			}
			// in the model the Lock comes after a reset / a trigger that follows the worker's Unlock: the early
			// release would take the lock in front of it
			late := false
			for i := from; i < j; i++ {
				if !consumed[i] && b.Steps[i].K == "hook" && ((b.Steps[i].Pt == "relay.reset" && b.Steps[i].A == 2) || b.Steps[i].Pt == "relay.out.trigger") {
					late = true
				}
			}
			if late {
				break
			}
			// the readers enter Lock() in the order of the model's Lock steps: a later one never overtakes
			if !first {
				break
			}
			w := s.peek(st.P)
			if w == nil || w.point != st.Pt || w.a[0] != 1 {
				break
			}
			if w = s.take(st.P, st.Pt); w == nil {
				break
			}
			consumed[j] = true
			res.Early++
			s.release(w)
			s.settle(buf, grace)
		}
	}
	closeGate := func(w *x04Writer) {
		g := make(chan struct{})
		w.gate.Store(&g)
	}
	fedC, fedS := 0, 0
	i := 0
	for ; i < len(b.Steps) && !s.watchdog.Load(); i++ {
		st := b.Steps[i]
		if consumed[i] {
			continue
		}
		tryEarly(i)
		if consumed[i] {
			continue
		}
		if st.K == "feed" {
			if !feed(st) {
				res.DivAt, res.DivWant = i, "feed "+st.P
				break
			}
			if st.P == "c" {
				fedC++
			} else {
				fedS++
			}
			s.settle(buf, grace)
			continue
		}
		w := s.await(st.P, st.Pt, grace)
		if w == nil && openGates() {
			// a slow drain holds somebody up (the flush, or a reader behind it): let it go on
			res.SlowHit = true
			s.settle(buf, grace)
			w = s.await(st.P, st.Pt, grace)
		}
		if w == nil {
			res.DivAt, res.DivWant = i, st.P+" "+st.Pt
			if h := s.peek(st.P); h != nil {
				res.DivHave = h.point
			}
			break
		}
		if w.a[0] != st.A {
			res.ArgDiff++
			res.ArgAt = append(res.ArgAt, fmt.Sprintf("%s=%d/model %d", st.Pt, w.a[0], st.A))
		}
		if st.P == "Wk" && st.Pt == "relay.flush.lock" {
			wkHolds = true
			// put the reader back into consideration before the drain starts
			tryEarly(i + 1)
			if b.Slow {
				s.settle(buf, grace)
				closeGate(toServer)
				closeGate(toClient)
			}
		}
		if st.P == "Wk" && st.Pt == "relay.flush.done" {
			wkHolds = false
		}
		s.release(w)
		// the client's answer may arrive before the freshly started worker has run at all
		if st.Pt == "relay.out.trigger" && i+1 < len(b.Steps) && b.Steps[i+1].K == "feed" && b.Steps[i+1].P == "c" {
			continue
		}
		s.settle(buf, grace)
	}
	res.Followed = i >= len(b.Steps) && !s.watchdog.Load()

	// whatever happened: open every gate, feed what is left (in the model's order), wait for the relay to come to rest
	s.openAll()
	stuck := false
	if !res.Followed {
		nc, ns := 0, 0
		for _, st := range b.Steps {
			if st.K != "feed" {
				continue
			}
			if st.P == "c" {
				nc++
				if nc <= fedC {
					continue
				}
			} else {
				ns++
				if ns <= fedS {
					continue
				}
			}
			if s.watchdog.Load() || !feed(st) {
				stuck = true
				break
			}
		}
	}
	if !stuck {
		// at rest: every goroutine of the relay is blocked (readers in Read, writers waiting for their channel)
		// and nothing was delivered meanwhile
		rest := false
		for deadline := time.Now().Add(10 * time.Second); time.Now().Before(deadline) && !s.watchdog.Load(); {
			s.mu.Lock()
			n0 := s.ndeliv
			s.mu.Unlock()
			if !s.settle(buf, time.Second) {
				continue
			}
			time.Sleep(2 * time.Millisecond)
			s.mu.Lock()
			n1 := s.ndeliv
			s.mu.Unlock()
			if n1 == n0 && x04Quiescent(buf) {
				rest = true
				break
			}
		}
		stuck = !rest
	}
	res.Watchdog = s.watchdog.Load()
	res.Clean = !stuck && !res.Watchdog
	if res.Clean {
		rec.Emit(map[string]any{"e": "quiet", "run": b.Id})
		close(cin.ch)
		close(sout.ch)
		s.settle(buf, time.Second)
	}
	return res
}

func x04SchedDriver(d *vCtx) error {
	shards := d.pInt("shards", 8)
	grace := time.Duration(d.pInt("grace_ms", 400)) * time.Millisecond
	wdTime := time.Duration(d.pInt("watchdog_s", 30)) * time.Second
	plans := d.pStr("plans", "")
	return vShards(d, shards, func(si, n int) error {
		_ = os.Unsetenv("TMUX")
		devnull, _ := os.OpenFile(os.DevNull, os.O_WRONLY, 0)
		os.Stdout = devnull
		var behs []x04Beh
		raw, err := os.ReadFile(plans)
		if err != nil {
			return err
		}
		if err := json.Unmarshal(raw, &behs); err != nil {
			return err
		}
		tf, err := os.Create(d.path("trace.ndjson"))
		if err != nil {
			return err
		}
		defer tf.Close()
		nf, err := os.Create(d.path("noise.ndjson"))
		if err != nil {
			return err
		}
		defer nf.Close()
		var infos []x04Result
		resume := vResumeAfter()
		for k := range behs {
			b := &behs[k]
			if b.Id%n != si || b.Id <= resume {
				continue
			}
			rec := &x04Rec{}
			r := x04Replay(rec, b, grace, wdTime)
			infos = append(infos, r)
			out := tf
			if r.Watchdog {
				out = nf
			}
			enc := json.NewEncoder(out)
			enc.SetEscapeHTML(false)
			rec.mu.Lock()
			for _, e := range rec.ev {
				_ = enc.Encode(e)
			}
			rec.mu.Unlock()
			d.add("runs", 1)
			if r.Followed {
				d.add("followed", 1)
			} else {
				d.add("diverged", 1)
			}
			if r.Watchdog {
				d.add("watchdog", 1)
			}
			if !r.Clean {
				// goroutines of that relay are still around (they would call the next run's gate): fresh process
				d.add("unclean", 1)
				vRequestRestart(d, b.Id)
				break
			}
		}
		return vWriteJSON(d.path("infos.json"), infos)
	})
}
