//go:build verif

package trzsz

// X01 "BufSize": binding of spec/BufSize.tla (adaptive buffer size of the sending side and the
// receiver's acceptance bound) to the real code.
//
//   x01_tv      real transfers (real client <-> e2e wire <-> real server role bodies) whose
//               sender is observed from outside:
//                 * its io.Writer is wrapped: every Write that starts a DATA message gives the
//                   announced size and whether the chunk went out whole or as a piece,
//                 * the package's own injectable clock `timeNowFunc` is replaced: a call from
//                   sendDataV2 is the begin time of a chunk (shifted according to the case's plan:
//                   that steers the acknowledgement's class fast / mid / slow k seconds without
//                   waiting), a call from recvCheckV2 under pipelineRecvCurrentAck /
//                   pipelineRecvFinalAck is the start of the ack goroutine's next turn: there the
//                   real bufferSize / bufInitPhase / lastChunkTimeArr of the sending
//                   trzszTransfer are read (same goroutine that wrote them),
//                 * the wire tap gives the length carried by every acknowledgement; it can hold
//                   an acknowledgement back for real (slow chunk on the real clock, needed for
//                   protocol 1 which reads time.Now directly).
//               One ndjson trace per shard for BufSizeTrace.
//   x01_gen     (configuration, size) pairs exported by TLC (BufSizeGen) against the real
//               checkBinarySize, the real escapeData expansion and the real sendDataWriter.
//   x01_replay  re-runs saved cases.

import (
	"bytes"
	"context"
	"encoding/json"
	"fmt"
	"io"
	"os"
	"path/filepath"
	"runtime"
	"strconv"
	"strings"
	"sync"
	"time"
)

func init() {
	vRegister("x01_tv", x01TV)
	vRegister("x01_gen", x01Gen)
	vRegister("x01_replay", x01Replay)
}

type x01Case struct {
	ID        int      `json:"id"`
	Label     string   `json:"label"`
	Seed      int64    `json:"seed"`
	Upload    bool     `json:"upload"`
	Binary    bool     `json:"binary"`
	Escape    bool     `json:"escape"`
	Compress  int      `json:"compress"` // 0 auto 1 yes 2 no
	Protocol  int      `json:"protocol"`
	Bufsize   int64    `json:"bufsize"`
	Sizes     []int64  `json:"sizes"`
	Kind      int      `json:"kind"`
	Plan      []string `json:"plan"`      // class of the k-th DATA message of the run: f | m | s<k> | r (real clock)
	Default   string   `json:"default"`   // class once the plan is exhausted
	RealDelay []int    `json:"realdelay"` // data acknowledgements (0-based, within their file) held back 2.1 s at the wire
	PauseAt   int      `json:"pauseat"`   // pause the sending client after its DATA message with this index (-1: never)
	PauseMs   int      `json:"pausems"`
	MaxChunk  int      `json:"maxchunk"`
}

// ---------------------------------------------------------------- recorder of one run

type x01Run struct {
	mu       sync.Mutex
	c        *x01Case
	evs      []map[string]any
	sender   func() *trzszTransfer
	receiver func() *trzszTransfer
	client   func() *trzszTransfer
	over     bool
	started  bool // reset emitted
	binary   bool
	proto    int
	// sender's writes
	expectPayload bool
	dataIdx       int // DATA messages begun (sendDataV2 calls)
	dataLogged    int
	// ack goroutine
	turns     int // hook calls of the current file's ack goroutine
	finalSeen bool
	lastIdx   int
	acked     int // acknowledgements confirmed in this file
	// wire tap
	pairs    []int64 // len of every "len/step" acknowledgement
	ints     []int64 // every integer acknowledgement
	pairBase int
	intBase  int
	delayed  int
	// protocol 1
	p1Pending bool
	p1Chunks  int
	ambiguous string
}

var x01Cur *x01Run

func (r *x01Run) emit(ev map[string]any) {
	r.evs = append(r.evs, ev)
}

// x01Class: the shift applied to the begin time of a chunk (chunkTime = real elapsed + shift).
func x01Shift(class string) time.Duration {
	switch {
	case class == "" || class == "r":
		return 0
	case class == "f":
		return -time.Hour
	case class == "m":
		return 900 * time.Millisecond
	case strings.HasPrefix(class, "s"):
		k, _ := strconv.Atoi(class[1:])
		if k < 2 {
			k = 2
		}
		return time.Duration(k)*time.Second + 150*time.Millisecond
	}
	return 0
}

// x01Now replaces timeNowFunc while a run is recorded.
func x01Now() time.Time {
	now := time.Now()
	r := x01Cur
	if r == nil {
		return now
	}
	var pcs [8]uintptr
	n := runtime.Callers(2, pcs[:])
	frames := runtime.CallersFrames(pcs[:n])
	for i := 0; i < 6; i++ {
		fr, more := frames.Next()
		fn := fr.Function
		switch {
		case strings.HasSuffix(fn, ".sendDataV2"):
			r.mu.Lock()
			k := r.dataIdx
			r.dataIdx++
			class := r.c.Default
			if k < len(r.c.Plan) {
				class = r.c.Plan[k]
			}
			r.mu.Unlock()
			return now.Add(-x01Shift(class))
		case strings.HasSuffix(fn, ".pipelineRecvCurrentAck"):
			r.ackTurn(false)
			return now
		case strings.HasSuffix(fn, ".pipelineRecvFinalAck"):
			r.ackTurn(true)
			return now
		}
		if !more {
			break
		}
	}
	return now
}

// ackTurn runs in the sender's ack goroutine at the start of a turn of its loop (or of the final
// ack loop): everything the previous turn stored is visible to this goroutine.
func (r *x01Run) ackTurn(final bool) {
	t := r.sender()
	if t == nil {
		return
	}
	r.mu.Lock()
	defer r.mu.Unlock()
	if r.over {
		return
	}
	if r.turns > 0 && !r.finalSeen {
		idx := t.lastChunkTimeIdx
		ad := idx != r.lastIdx
		ms := int64(0)
		if ad {
			ms = t.lastChunkTimeArr[(idx-1+kLastChunkTimeCount)%kLastChunkTimeCount].Milliseconds()
		}
		r.lastIdx = idx
		ln := int64(-1)
		if k := r.pairBase + r.acked; k < len(r.pairs) {
			ln = r.pairs[k]
		} else {
			r.ambiguous = "ack turn without an acknowledgement on the wire"
		}
		r.acked++
		r.emit(map[string]any{"e": "ack", "len": ln, "ad": ad, "ms": ms, "size": t.bufferSize.Load(), "phase": t.bufInitPhase.Load()})
	}
	r.turns++
	if final {
		r.finalSeen = true
	}
}

// senderWrite sees every Write of the sending role (before it reaches the wire).
func (r *x01Run) senderWrite(b []byte) {
	t := r.sender()
	if t == nil {
		return
	}
	r.mu.Lock()
	defer r.mu.Unlock()
	if r.over {
		return
	}
	if r.expectPayload { // the piece after a bare "#DATA:" (base64 mode, split chunk)
		r.expectPayload = false
		r.logData(t, int64(len(b)), false)
		return
	}
	switch {
	case bytes.HasPrefix(b, []byte("#SIZE:")):
		if !r.started {
			r.started = true
			r.binary = t.transferConfig.Binary
			r.proto = t.transferConfig.Protocol
			if r.proto < 2 {
				r.proto = 1
			}
			mode := "b64"
			if r.binary {
				mode = "bin"
			}
			rmax := int64(-1)
			if rt := r.receiver(); rt != nil {
				rmax = rt.transferConfig.MaxBufSize
			}
			r.emit(map[string]any{"e": "reset", "run": r.c.ID, "label": r.c.Label, "max": t.transferConfig.MaxBufSize, "rmax": rmax,
				"mode": mode, "proto": r.proto, "init": t.bufferSize.Load(), "phase0": t.bufInitPhase.Load(), "upload": r.c.Upload})
		}
		raw, _ := strconv.ParseInt(strings.TrimRight(string(b[6:]), "!\r\n"), 10, 64)
		r.emit(map[string]any{"e": "file", "raw": raw, "total": int64(0)})
		r.turns, r.finalSeen, r.acked = 0, false, 0
		r.lastIdx = t.lastChunkTimeIdx
		r.pairBase, r.intBase = len(r.pairs), len(r.ints)
		r.p1Pending, r.p1Chunks = false, 0
	case bytes.HasPrefix(b, []byte("#DATA:")):
		rest := b[6:]
		if len(rest) == 0 {
			r.expectPayload = true
			return
		}
		nl := bytes.IndexByte(rest, '\n')
		if nl < 0 {
			r.ambiguous = "DATA write without a line end"
			return
		}
		field := rest[:nl]
		if len(field) == 1 && field[0] == '=' {
			return // keep-alive while paused
		}
		if r.proto == 1 {
			r.p1Ack(t)
			n := int64(len(field))
			if r.binary {
				n, _ = strconv.ParseInt(string(field), 10, 64)
			}
			r.emit(map[string]any{"e": "p1data", "n": n})
			r.p1Pending = true
			return
		}
		if r.binary {
			n, err := strconv.ParseInt(string(field), 10, 64)
			if err != nil {
				r.ambiguous = "DATA header is not a number"
				return
			}
			r.logData(t, n, n == 0 || len(rest) > nl+1)
		} else {
			r.logData(t, int64(len(field)), true)
		}
	case bytes.HasPrefix(b, []byte("#MD5:")):
		if r.proto == 1 {
			r.p1Ack(t)
		}
		r.emit(map[string]any{"e": "eof"})
	}
}

func (r *x01Run) logData(t *trzszTransfer, n int64, whole bool) {
	r.emit(map[string]any{"e": "data", "n": n, "whole": whole})
	k := r.dataLogged
	r.dataLogged++
	if r.c.PauseAt >= 0 && k == r.c.PauseAt {
		if ct := r.client(); ct != nil {
			r.emit(map[string]any{"e": "pause"})
			ct.pauseTransferringFiles()
			go func() {
				time.Sleep(time.Duration(r.c.PauseMs) * time.Millisecond)
				r.mu.Lock()
				defer r.mu.Unlock()
				if r.over {
					ct.resumeTransferringFiles()
					return
				}
				r.emit(map[string]any{"e": "resume"})
				ct.resumeTransferringFiles()
			}()
		}
	}
}

// p1Ack: protocol 1 runs in one goroutine; when the sender writes its next message the chunk
// before it has been acknowledged and its time is in lastChunkTimeArr.
func (r *x01Run) p1Ack(t *trzszTransfer) {
	if !r.p1Pending {
		return
	}
	r.p1Pending = false
	idx := t.lastChunkTimeIdx
	ms := t.lastChunkTimeArr[(idx-1+kLastChunkTimeCount)%kLastChunkTimeCount].Milliseconds()
	ln := int64(-1)
	if k := r.intBase + 1 + r.p1Chunks; k < len(r.ints) {
		ln = r.ints[k]
	} else {
		r.ambiguous = "protocol 1 chunk without an acknowledgement on the wire"
	}
	r.p1Chunks++
	r.emit(map[string]any{"e": "p1ack", "len": ln, "ms": ms})
}

// tap sees every parsed message of the wire before it is delivered.
func (r *x01Run) tap(m *e2eMsg, phase string) {
	if phase != "before" || m.Typ != "SUCC" || m.Keep {
		return
	}
	recvDir := "s2c"
	if !r.c.Upload {
		recvDir = "c2s"
	}
	if m.Dir != recvDir {
		return
	}
	s := string(m.Raw)
	delay := false
	r.mu.Lock()
	if i := strings.IndexByte(s, '/'); i > 0 {
		if a, err := strconv.ParseInt(s[:i], 10, 64); err == nil {
			k := len(r.pairs) - r.pairBase
			r.pairs = append(r.pairs, a)
			delay = x01Has(r.c.RealDelay, k)
		}
	} else if a, err := strconv.ParseInt(s, 10, 64); err == nil {
		k := len(r.ints) - r.intBase - 1
		r.ints = append(r.ints, a)
		delay = r.proto == 1 && x01Has(r.c.RealDelay, k)
	}
	if delay {
		r.delayed++
	}
	r.mu.Unlock()
	if delay {
		time.Sleep(2100 * time.Millisecond)
	}
}

func x01Has(l []int, k int) bool {
	for _, x := range l {
		if x == k {
			return true
		}
	}
	return false
}

type x01Writer struct {
	inner io.Writer
	r     *x01Run
	on    bool
}

func (x *x01Writer) Write(b []byte) (int, error) {
	if x.on {
		x.r.senderWrite(b)
	}
	return x.inner.Write(b)
}

func (x *x01Writer) Close() error { return nil }

// finish annotates the recorded events: total DATA bytes per file and the offsets at which its
// DATA messages end (chunk boundaries can only be there), distance to the next ack / data event.
func (r *x01Run) finish() []map[string]any {
	evs := r.evs
	for i, ev := range evs {
		if ev["e"] != "file" {
			continue
		}
		var total int64
		bounds := []int64{}
		for j := i + 1; j < len(evs) && evs[j]["e"] != "eof" && evs[j]["e"] != "file"; j++ {
			if evs[j]["e"] == "data" {
				total += evs[j]["n"].(int64)
				if n := len(bounds); n == 0 || bounds[n-1] != total {
					bounds = append(bounds, total)
				}
			}
		}
		ev["total"] = total
		ev["bounds"] = bounds
	}
	nextAck, nextData := -1, -1
	for i := len(evs) - 1; i >= 0; i-- {
		switch evs[i]["e"] {
		case "ack":
			nextAck = i
		case "data":
			nextData = i
		case "eof", "end":
			nextAck, nextData = -1, -1
		}
		evs[i]["na"], evs[i]["nd"] = -1, -1
		if nextAck >= 0 {
			evs[i]["na"] = nextAck - i
		}
		if nextData >= 0 {
			evs[i]["nd"] = nextData - i
		}
		if evs[i]["e"] == "file" {
			nextAck, nextData = -1, -1
		}
	}
	return evs
}

// x01Exec runs one case and returns its annotated events.
func x01Exec(c *x01Case, work string) ([]map[string]any, map[string]any, error) {
	srcRoot := filepath.Join(work, "src")
	dst := filepath.Join(work, "dst")
	if err := os.MkdirAll(srcRoot, 0755); err != nil {
		return nil, nil, err
	}
	if err := os.MkdirAll(dst, 0755); err != nil {
		return nil, nil, err
	}
	defer os.RemoveAll(work)
	var nodes []e2eNode
	for i, sz := range c.Sizes {
		nodes = append(nodes, e2eNode{Rel: fmt.Sprintf("x01-%d.dat", i), Size: sz, Kind: c.Kind})
	}
	tops, err := e2eMakeTree(srcRoot, nodes, c.Seed)
	if err != nil {
		return nil, nil, err
	}
	e2eSrcCache = map[string]map[string]e2eEntry{}
	pre := e2eSnapshot(dst)
	o := e2eOpts{Upload: c.Upload, Binary: c.Binary, Escape: c.Escape, Compress: c.Compress, Protocol: c.Protocol,
		Bufsize: c.Bufsize, Timeout: 15, MaxChunk: c.MaxChunk, Src: tops, Dst: dst}
	if o.Protocol == 0 {
		o.Protocol = 4
	}
	w := newE2EWire(c.Seed, c.MaxChunk)
	r := &x01Run{c: c}
	hooks := &e2eHooks{watchdog: 60 * time.Second}
	hooks.ready = func(w *e2eWire, client func() *trzszTransfer, server *trzszTransfer, f *TrzszFilter) {
		r.client = client
		srv := func() *trzszTransfer { return server }
		if c.Upload {
			r.sender, r.receiver = client, srv
		} else {
			r.sender, r.receiver = srv, client
		}
		f.serverIn = &x01Writer{inner: f.serverIn, r: r, on: c.Upload}
		server.writer = &x01Writer{inner: server.writer, r: r, on: !c.Upload}
		w.onMsg = r.tap
	}
	x01Cur = r
	old := timeNowFunc
	timeNowFunc = x01Now
	res := e2eRun(o, w, hooks)
	timeNowFunc = old
	r.mu.Lock()
	r.over = true
	r.mu.Unlock()
	x01Cur = nil
	if len(res.Hung) > 0 {
		e2eTainted = true
	}
	var names []string
	for _, t := range tops {
		names = append(names, filepath.Base(t))
	}
	_, allSame, extra := e2eCompare(tops, names, dst, pre)
	r.mu.Lock()
	defer r.mu.Unlock()
	if !r.started {
		// nothing was sent (the transfer failed before the first SIZE): still a run the spec must judge
		r.emit(map[string]any{"e": "reset", "run": c.ID, "label": c.Label, "max": c.Bufsize, "rmax": c.Bufsize, "mode": "bin", "proto": 4,
			"init": int64(10240), "phase0": true, "upload": c.Upload})
	}
	r.emit(map[string]any{"e": "end", "cok": res.ClientOK, "sok": res.ServerOK, "same": allSame && len(extra) == 0 && len(tops) > 0,
		"cerr": res.ClientErr, "serr": res.ServerErr})
	evs := r.finish()
	detail := map[string]any{"case": c, "client_err": res.ClientErr, "server_err": res.ServerErr, "hung": res.Hung,
		"ambiguous": r.ambiguous, "delayed": r.delayed}
	return evs, detail, nil
}

// ---------------------------------------------------------------- cases

func x01Cases(seed int64, thorough bool) []*x01Case {
	var res []*x01Case
	add := func(c x01Case) *x01Case {
		cc := c
		cc.ID = len(res)
		cc.Seed = seed*100003 + int64(len(res))*7919
		if cc.Default == "" {
			cc.Default = "f"
		}
		if cc.Protocol == 0 {
			cc.Protocol = 4
		}
		if cc.PauseAt == 0 && cc.PauseMs == 0 {
			cc.PauseAt = -1
		}
		res = append(res, &cc)
		return &cc
	}
	K, M := int64(1024), int64(1024*1024)
	// fast acknowledgements all the way: doubling up to the negotiated maximum, probing ends there
	add(x01Case{Label: "fast-10M", Upload: true, Binary: true, Compress: 2, Bufsize: 10 * M, Sizes: []int64{700 * K}, Kind: 1})
	add(x01Case{Label: "fast-1M-reaches-max", Upload: true, Binary: true, Compress: 2, Bufsize: 1 * M, Sizes: []int64{5 * M}, Kind: 1})
	add(x01Case{Label: "fast-1G-down", Upload: false, Binary: true, Compress: 2, Protocol: 3, Bufsize: 1024 * M, Sizes: []int64{24 * M}, Kind: 1})
	add(x01Case{Label: "fast-16K-b64", Upload: false, Binary: false, Compress: 2, Protocol: 2, Bufsize: 16 * K, Sizes: []int64{300 * K}, Kind: 1})
	// small -B: the size starts above the negotiated maximum
	add(x01Case{Label: "1K-slow10-floor", Upload: true, Binary: true, Compress: 2, Bufsize: 1 * K, Sizes: []int64{120 * K}, Kind: 1,
		Plan: []string{"f", "f", "s10"}})
	add(x01Case{Label: "1K-slow20-below-floor", Upload: true, Binary: false, Compress: 2, Bufsize: 1 * K, Sizes: []int64{90 * K}, Kind: 1,
		Plan: []string{"m", "f", "s20", "f", "s3"}})
	add(x01Case{Label: "4K-slow3-then-double-to-max", Upload: true, Binary: true, Compress: 2, Protocol: 2, Bufsize: 4 * K, Sizes: []int64{150 * K}, Kind: 1,
		Plan: []string{"s3"}})
	add(x01Case{Label: "4K-down-all-fast", Upload: false, Binary: true, Compress: 2, Bufsize: 4 * K, Sizes: []int64{100 * K}, Kind: 1})
	add(x01Case{Label: "1K-all-mid", Upload: true, Binary: true, Compress: 2, Bufsize: 1 * K, Sizes: []int64{60 * K}, Kind: 1, Default: "m"})
	// shrink while bigger chunks are queued: split path; then grow again
	add(x01Case{Label: "shrink-split-regrow", Upload: true, Binary: true, Compress: 2, Bufsize: 10 * M, Sizes: []int64{3 * M}, Kind: 1,
		Plan: []string{"f", "f", "f", "f", "m", "f", "s7", "f", "f", "s2", "f", "f", "f", "f", "f", "f"}})
	add(x01Case{Label: "shrink-split-b64", Upload: false, Binary: false, Compress: 2, Protocol: 3, Bufsize: 1 * M, Sizes: []int64{2 * M}, Kind: 1,
		Plan: []string{"f", "f", "f", "m", "s5", "f", "f", "s3", "m", "f", "f"}})
	// escape tables, compression
	add(x01Case{Label: "escape-all-heavy", Upload: true, Binary: true, Escape: true, Compress: 2, Bufsize: 64 * K, Sizes: []int64{400 * K}, Kind: 2})
	add(x01Case{Label: "escape-default-compress", Upload: false, Binary: true, Compress: 1, Bufsize: 1 * M, Sizes: []int64{900 * K}, Kind: 2,
		Plan: []string{"f", "f", "s2", "f"}})
	add(x01Case{Label: "b64-compress-text", Upload: true, Binary: false, Compress: 1, Protocol: 3, Bufsize: 10 * M, Sizes: []int64{2 * M}, Kind: 0})
	add(x01Case{Label: "auto-compress", Upload: true, Binary: true, Compress: 0, Bufsize: 1 * M, Sizes: []int64{600 * K, 100}, Kind: 0})
	// several files: the size persists, probing does not restart, empty file
	add(x01Case{Label: "three-files", Upload: true, Binary: true, Compress: 2, Bufsize: 256 * K, Sizes: []int64{90 * K, 0, 700 * K, 5}, Kind: 1,
		Plan: []string{"f", "f", "f", "f", "s2"}})
	add(x01Case{Label: "files-down-b64", Upload: false, Binary: false, Compress: 2, Protocol: 2, Bufsize: 32 * K, Sizes: []int64{0, 50 * K, 200 * K}, Kind: 1})
	add(x01Case{Label: "tiny-file-ends-probing", Upload: true, Binary: true, Compress: 2, Bufsize: 10 * M, Sizes: []int64{300, 100 * K}, Kind: 1})
	// pause: adaptation suspended for kAckChanBufferSize+2 acknowledgements once probing is over
	add(x01Case{Label: "pause-after-probing", Upload: true, Binary: true, Compress: 2, Bufsize: 10 * M, Sizes: []int64{2 * M}, Kind: 1,
		Plan: []string{"f", "f", "m"}, PauseAt: 6, PauseMs: 350})
	add(x01Case{Label: "pause-while-probing", Upload: true, Binary: true, Compress: 2, Protocol: 3, Bufsize: 10 * M, Sizes: []int64{1 * M}, Kind: 1,
		PauseAt: 2, PauseMs: 250})
	add(x01Case{Label: "pause-then-slow", Upload: true, Binary: false, Compress: 2, Bufsize: 64 * K, Sizes: []int64{300 * K}, Kind: 1,
		Plan: []string{"m", "f", "f", "f", "f", "s2", "s2", "s2", "s2", "s2", "s2", "s2", "s2", "s2", "s2", "f", "f", "s2"}, Default: "m", PauseAt: 4, PauseMs: 200})
	// protocol 1 (real clock: sendFileData reads time.Now itself)
	add(x01Case{Label: "p1-bin-4K", Upload: true, Binary: true, Compress: 2, Protocol: 1, Bufsize: 4 * K, Sizes: []int64{40 * K, 0, 3000}, Kind: 2, Default: "r"})
	add(x01Case{Label: "p1-b64-1M", Upload: true, Binary: false, Compress: 2, Protocol: 1, Bufsize: 1 * M, Sizes: []int64{300 * K}, Kind: 1, Default: "r"})
	add(x01Case{Label: "p1-down-escape-64K", Upload: false, Binary: true, Escape: true, Compress: 2, Protocol: 1, Bufsize: 64 * K, Sizes: []int64{500 * K}, Kind: 2, Default: "r"})
	add(x01Case{Label: "p1-1K", Upload: false, Binary: true, Compress: 2, Protocol: 1, Bufsize: 1 * K, Sizes: []int64{20 * K}, Kind: 1, Default: "r"})
	add(x01Case{Label: "p1-1G", Upload: true, Binary: true, Compress: 2, Protocol: 1, Bufsize: 1024 * M, Sizes: []int64{6 * M}, Kind: 2, Default: "r"})
	// protocol 1 up to its maximum with blocks that grow by escaping: needs the factor 2 of the receiver's bound
	add(x01Case{Label: "p1-4M-escaped-above-max", Upload: true, Binary: true, Escape: true, Compress: 2, Protocol: 1, Bufsize: 4 * M, Sizes: []int64{13 * M}, Kind: 2, Default: "r"})
	// real clock
	add(x01Case{Label: "real-clock", Upload: true, Binary: true, Compress: 2, Bufsize: 10 * M, Sizes: []int64{3 * M}, Kind: 1, Default: "r"})
	add(x01Case{Label: "real-clock-down", Upload: false, Binary: false, Compress: 0, Protocol: 3, Bufsize: 64 * K, Sizes: []int64{1 * M}, Kind: 0, Default: "r"})
	// a really slow acknowledgement (held back 2.1 s at the wire)
	add(x01Case{Label: "real-slow-ack", Upload: true, Binary: true, Compress: 2, Bufsize: 10 * M, Sizes: []int64{400 * K}, Kind: 1, Default: "r", RealDelay: []int{2}})
	add(x01Case{Label: "p1-real-slow-ack", Upload: true, Binary: true, Compress: 2, Protocol: 1, Bufsize: 64 * K, Sizes: []int64{60 * K}, Kind: 1, Default: "r", RealDelay: []int{3}})
	// seeded plans
	rng := newX01Rng(seed)
	bufs := []int64{1 * K, 2 * K, 4 * K, 10 * K, 10*K + 1, 16 * K, 100 * K, 1 * M, 10 * M, 1024 * M, 3000, 77777}
	classes := []string{"f", "f", "f", "f", "m", "m", "s2", "s3", "s7", "s20", "s2"}
	nrand, scale := 24, 40
	if thorough {
		nrand, scale = 400, 160
	}
	for i := 0; i < nrand; i++ {
		c := x01Case{Label: fmt.Sprintf("seeded-%d", i), Upload: rng.Intn(2) == 0, Binary: rng.Intn(3) != 0, Escape: rng.Intn(3) == 0,
			Compress: 2, Protocol: 2 + rng.Intn(3), Bufsize: bufs[rng.Intn(len(bufs))], Kind: 1 + rng.Intn(2)}
		if rng.Intn(5) == 0 {
			c.Compress = rng.Intn(2)
			c.Kind = 0
		}
		np := rng.Intn(30)
		for j := 0; j < np; j++ {
			c.Plan = append(c.Plan, classes[rng.Intn(len(classes))])
		}
		c.Default = []string{"f", "f", "m"}[rng.Intn(3)]
		// the number of DATA messages (and recorded events) grows with size / buffer size; a size
		// that was shrunk stays small when the later acknowledgements are not fast
		unit := c.Bufsize
		if unit > 64*K {
			unit = 64 * K
		}
		if unit < 4*K || c.Default != "f" {
			unit = 4 * K
		}
		nf := 1 + rng.Intn(2)
		for j := 0; j < nf; j++ {
			c.Sizes = append(c.Sizes, int64(rng.Intn(scale))*unit/int64(nf)+int64(rng.Intn(5000)))
		}
		if c.Upload && c.Protocol >= 3 && rng.Intn(4) == 0 {
			c.PauseAt = rng.Intn(12)
			c.PauseMs = 150 + rng.Intn(300)
		}
		if rng.Intn(6) == 0 {
			c.MaxChunk = 4096
		}
		add(c)
	}
	if thorough {
		add(x01Case{Label: "fast-1G-big", Upload: true, Binary: true, Compress: 2, Bufsize: 1024 * M, Sizes: []int64{96 * M}, Kind: 1})
		add(x01Case{Label: "real-slow-3s", Upload: false, Binary: true, Compress: 2, Protocol: 2, Bufsize: 1 * M, Sizes: []int64{900 * K}, Kind: 1, Default: "r", RealDelay: []int{1, 4}})
		add(x01Case{Label: "p1-real-slow-b64", Upload: false, Binary: false, Compress: 2, Protocol: 1, Bufsize: 10 * M, Sizes: []int64{200 * K}, Kind: 1, Default: "r", RealDelay: []int{5}})
		for _, b := range []int64{1 * K, 2 * K, 5 * K, 10*K - 1, 10 * K, 20 * K, 1 * M, 1024 * M} {
			for _, up := range []bool{true, false} {
				for _, bin := range []bool{true, false} {
					add(x01Case{Label: fmt.Sprintf("grid-%d", b), Upload: up, Binary: bin, Compress: 2, Protocol: 2 + int(b%3), Bufsize: b, Sizes: []int64{500 * K}, Kind: 1,
						Plan: []string{"f", "f", "s4", "f", "m", "s20", "f", "f", "f", "f", "f", "f", "f", "s2"}})
					add(x01Case{Label: fmt.Sprintf("grid-p1-%d", b), Upload: up, Binary: bin, Escape: bin, Compress: 2, Protocol: 1, Bufsize: b, Sizes: []int64{300 * K}, Kind: 2, Default: "r"})
				}
			}
		}
	}
	return res
}

type x01Rng struct{ s uint64 }

func newX01Rng(seed int64) *x01Rng { return &x01Rng{uint64(seed)*0x9E3779B97F4A7C15 + 0x1234567} }
func (r *x01Rng) Intn(n int) int {
	r.s ^= r.s << 13
	r.s ^= r.s >> 7
	r.s ^= r.s << 17
	return int((r.s >> 11) % uint64(n))
}

// ---------------------------------------------------------------- drivers

func x01WriteEvents(tr *vTrace, evs []map[string]any) {
	for _, ev := range evs {
		tr.Emit(ev, nil)
	}
	tr.Flush()
}

func x01TV(d *vCtx) error {
	thorough := d.pBool("thorough", false)
	shards := d.pInt("shards", 16)
	only := d.pStr("only", "")
	cases := x01Cases(d.seed, thorough)
	return vShards(d, shards, func(si, n int) error {
		base := e2eShmBase()
		defer os.RemoveAll(base)
		if err := e2eCaptureStdout(d.out); err != nil {
			return err
		}
		tr, err := vNewTrace(d.path("trace.ndjson"))
		if err != nil {
			return err
		}
		var details []map[string]any
		// heavy cases first within a shard does not matter; spread by index
		for ji := si; ji < len(cases); ji += n {
			if ji <= vResumeAfter() {
				continue
			}
			c := cases[ji]
			if only != "" && !strings.Contains(c.Label, only) {
				continue
			}
			vMarkCurrent(d, ji, c)
			evs, detail, err := x01Exec(c, e2eWorkDir(base, c.ID))
			if err != nil {
				return err
			}
			x01WriteEvents(tr, evs)
			details = append(details, detail)
			d.add("runs", 1)
			d.add("events", len(evs))
			if e2eTainted {
				_ = vWriteJSON(d.path("details.json"), details)
				vRequestRestart(d, ji)
				break
			}
		}
		_ = os.Remove(d.path("current.json"))
		d.set("cases_total", len(cases))
		if err := tr.Close(); err != nil {
			return err
		}
		return vWriteJSON(d.path("details.json"), details)
	})
}

func x01Replay(d *vCtx) error {
	var cases []*x01Case
	b, err := os.ReadFile(d.pStr("cases", ""))
	if err != nil {
		return err
	}
	if err := json.Unmarshal(b, &cases); err != nil {
		return err
	}
	base := e2eShmBase()
	defer os.RemoveAll(base)
	if err := e2eCaptureStdout(d.out); err != nil {
		return err
	}
	tr, err := vNewTrace(d.path("trace.ndjson"))
	if err != nil {
		return err
	}
	var details []map[string]any
	for _, c := range cases {
		evs, detail, err := x01Exec(c, e2eWorkDir(base, c.ID))
		if err != nil {
			return err
		}
		x01WriteEvents(tr, evs)
		details = append(details, detail)
		fmt.Fprintf(os.Stderr, "replayed case %d (%s): %v\n", c.ID, c.Label, detail)
	}
	d.set("runs", len(cases))
	if err := tr.Close(); err != nil {
		return err
	}
	return vWriteJSON(d.path("details.json"), details)
}

// ---------------------------------------------------------------- spec -> impl

type x01GenCase struct {
	Kind  string `json:"kind"` // sent: a block the model's sender wrote | probe: a point of the bound function
	Max   int64  `json:"max"`
	Mode  string `json:"mode"`
	Proto int    `json:"proto"`
	N     int64  `json:"n"`
	X     int64  `json:"x"`
	Acc   bool   `json:"acc"`
}

// x01Gen: for every exported case the real checkBinarySize must agree with the model's bound
// (a block the model's sender can write must be accepted), the real escapeData must not expand a
// block of n bytes by more than the x the model allows (n), and the real encoder
// (escape writer -> sendDataWriter) must cut chunks of at most the buffer size.
func x01Gen(d *vCtx) error {
	f, err := os.Open(d.path("cases.ndjson"))
	if err != nil {
		return err
	}
	defer f.Close()
	dec := json.NewDecoder(f)
	var mism []map[string]any
	bad := func(c *x01GenCase, what string, got any) {
		if len(mism) < 200 {
			mism = append(mism, map[string]any{"case": c, "what": what, "got": got})
		}
	}
	tables := map[bool]*escapeTable{}
	for _, all := range []bool{false, true} {
		var chars []interface{}
		b, _ := json.Marshal(getEscapeChars(all))
		_ = json.Unmarshal(b, &chars)
		tb, err := escapeCharsToTable(chars)
		if err != nil {
			return err
		}
		tables[all] = tb
	}
	n, real, encoded := 0, 0, 0
	seenEnc := map[string]bool{}
	for dec.More() {
		var c x01GenCase
		if err := dec.Decode(&c); err != nil {
			return err
		}
		n++
		if c.Mode != "bin" {
			continue // base64 blocks are lines: no size bound at the receiver
		}
		t := &trzszTransfer{}
		t.transferConfig.MaxBufSize = c.Max
		t.transferConfig.Binary = true
		got := t.checkBinarySize(c.N+c.X) == nil
		if got != c.Acc {
			if c.Kind == "sent" && c.Acc {
				bad(&c, "receiver-rejects-sender-block", got)
			} else {
				bad(&c, "bound-differs", got)
			}
			continue
		}
		if c.Kind != "sent" || c.N <= 0 {
			continue
		}
		// the real expansion of a block of N bytes, worst-case content, both built-in tables
		if c.N <= 4<<20 {
			for _, all := range []bool{false, true} {
				data := bytes.Repeat([]byte{escapeLeaderByte}, int(c.N))
				esc := escapeData(data, tables[all])
				real++
				if int64(len(esc)) > 2*c.N {
					bad(&c, "expansion-above-2x", len(esc))
				}
				if c.Proto == 1 && t.checkBinarySize(int64(len(esc))) != nil {
					bad(&c, "receiver-rejects-escaped-block", len(esc))
				}
			}
		}
		// the real encoder with bufferSize = N: no chunk above N, and every chunk accepted
		key := fmt.Sprintf("%d/%d", c.Max, c.N)
		if c.Proto >= 2 && c.N <= 1<<20 && !seenEnc[key] {
			seenEnc[key] = true
			encoded++
			if what, got := x01EncoderChunks(c.Max, c.N, tables[true]); what != "" {
				bad(&c, what, got)
			}
		}
	}
	d.set("replayed", n)
	d.set("real_expansions", real)
	d.set("real_encoder_runs", encoded)
	return vWriteJSON(d.path("mismatches.json"), mism)
}

func contextForX01() (*pipelineContext, context.CancelCauseFunc) {
	c, cancel := context.WithCancelCause(context.Background())
	return &pipelineContext{c, cancel, make(chan struct{}, 1)}, cancel
}

// x01EncoderChunks drives the real escape writer -> sendDataWriter with the buffer size fixed
// at size (probing over) and returns a complaint when a chunk is longer than size or is not
// accepted by the real receiver bound of the same configuration.
func x01EncoderChunks(max, size int64, table *escapeTable) (string, any) {
	t := newTransfer(io.Discard, nil, false, nil)
	t.transferConfig.MaxBufSize = max
	t.transferConfig.Binary = true
	t.transferConfig.EscapeTable = table
	t.bufferSize.Store(size)
	t.bufInitPhase.Store(false)
	ch := make(chan trzszData, 4096)
	c, cancel := contextForX01()
	defer cancel(nil)
	w := newEscapeWriter(table, newSendDataWriter(t, c, ch))
	payload := bytes.Repeat([]byte{escapeLeaderByte, 'a', 0x7e}, int(size)+7)
	if err := writeAll(w, payload); err != nil {
		return "encoder-write-error", err.Error()
	}
	_ = w.Close()
	close(ch)
	total := 0
	for dt := range ch {
		total += len(dt.data)
		if int64(len(dt.data)) > size {
			return "chunk-above-size", len(dt.data)
		}
		if len(dt.data) > 0 && t.checkBinarySize(int64(len(dt.data))) != nil {
			return "receiver-rejects-encoder-chunk", len(dt.data)
		}
	}
	if total != len(escapeData(payload, table)) {
		return "encoder-lost-bytes", total
	}
	return "", nil
}
