//go:build verif

package trzsz

// Common harness machinery (injected into package trzsz by -overlay; see /verif/vlib.py).
// One Go test, TestVerifDriver, dispatches on $VERIF_DRIVER to a registered driver.  A driver
// records ndjson events / case results under $VERIF_OUT and returns a summary that is written
// to summary.json.  Drivers never decide a verdict on their own where a TLA+ spec is the
// oracle: they record what the real code did and TLC judges it.

import (
	"bufio"
	"encoding/json"
	"fmt"
	"math/rand"
	"os"
	"path/filepath"
	"strconv"
	"sync"
	"testing"
)

type vDriver func(d *vCtx) error

var vDrivers = map[string]vDriver{}

func vRegister(name string, fn vDriver) { vDrivers[name] = fn }

type vCtx struct {
	t       *testing.T
	out     string
	seed    int64
	params  map[string]any
	summary map[string]any
	mu      sync.Mutex
}

func (d *vCtx) pInt(key string, def int) int {
	if v, ok := d.params[key]; ok {
		switch x := v.(type) {
		case float64:
			return int(x)
		case string:
			if n, err := strconv.Atoi(x); err == nil {
				return n
			}
		}
	}
	return def
}

func (d *vCtx) pStr(key, def string) string {
	if v, ok := d.params[key]; ok {
		if s, ok := v.(string); ok {
			return s
		}
	}
	return def
}

func (d *vCtx) pBool(key string, def bool) bool {
	if v, ok := d.params[key]; ok {
		if b, ok := v.(bool); ok {
			return b
		}
	}
	return def
}

func (d *vCtx) set(key string, v any) {
	d.mu.Lock()
	defer d.mu.Unlock()
	d.summary[key] = v
}

func (d *vCtx) add(key string, n int) {
	d.mu.Lock()
	defer d.mu.Unlock()
	if cur, ok := d.summary[key].(int); ok {
		d.summary[key] = cur + n
	} else {
		d.summary[key] = n
	}
}

func (d *vCtx) rng(stream int64) *rand.Rand {
	return rand.New(rand.NewSource(d.seed*1000003 + stream))
}

func (d *vCtx) path(name string) string { return filepath.Join(d.out, name) }

// vTrace is an ndjson event recorder.  Emit is called at linearisation points; the sequence
// number is taken under the recorder's mutex, so file order is a legitimate order of events.
type vTrace struct {
	mu  sync.Mutex
	f   *os.File
	w   *bufio.Writer
	n   int
	enc *json.Encoder
}

func vNewTrace(path string) (*vTrace, error) {
	f, err := os.Create(path)
	if err != nil {
		return nil, err
	}
	w := bufio.NewWriterSize(f, 1<<20)
	enc := json.NewEncoder(w)
	enc.SetEscapeHTML(false)
	return &vTrace{f: f, w: w, enc: enc}, nil
}

// Emit writes one event.  `do`, when not nil, runs under the recorder's lock *after* the event
// was numbered (use it to make "log then make visible" atomic with respect to other emitters).
func (t *vTrace) Emit(ev map[string]any, do func()) {
	t.mu.Lock()
	defer t.mu.Unlock()
	t.n++
	_ = t.enc.Encode(ev)
	if do != nil {
		do()
	}
}

// Flush pushes buffered events to the file (call it at run boundaries when the process may die).
func (t *vTrace) Flush() {
	t.mu.Lock()
	defer t.mu.Unlock()
	_ = t.w.Flush()
}

func (t *vTrace) Len() int {
	t.mu.Lock()
	defer t.mu.Unlock()
	return t.n
}

func (t *vTrace) Close() error {
	t.mu.Lock()
	defer t.mu.Unlock()
	if err := t.w.Flush(); err != nil {
		return err
	}
	return t.f.Close()
}

func vInts(b []byte) []int {
	r := make([]int, len(b))
	for i, c := range b {
		r[i] = int(c)
	}
	return r
}

func vBytes(v any) []byte {
	arr, _ := v.([]any)
	r := make([]byte, len(arr))
	for i, x := range arr {
		if f, ok := x.(float64); ok {
			r[i] = byte(int(f))
		}
	}
	return r
}

func vWriteJSON(path string, v any) error {
	f, err := os.Create(path)
	if err != nil {
		return err
	}
	defer f.Close()
	enc := json.NewEncoder(f)
	enc.SetEscapeHTML(false)
	return enc.Encode(v)
}

func vReadNDJSON(path string) ([]map[string]any, error) {
	f, err := os.Open(path)
	if err != nil {
		return nil, err
	}
	defer f.Close()
	var res []map[string]any
	sc := bufio.NewScanner(f)
	sc.Buffer(make([]byte, 1<<20), 1<<28)
	for sc.Scan() {
		if len(sc.Bytes()) == 0 {
			continue
		}
		var m map[string]any
		if err := json.Unmarshal(sc.Bytes(), &m); err != nil {
			return nil, err
		}
		res = append(res, m)
	}
	return res, sc.Err()
}

func TestVerifDriver(t *testing.T) {
	name := os.Getenv("VERIF_DRIVER")
	if name == "" {
		t.Skip("VERIF_DRIVER not set")
	}
	fn, ok := vDrivers[name]
	if !ok {
		t.Fatalf("unknown driver %q", name)
	}
	out := os.Getenv("VERIF_OUT")
	if out == "" {
		t.Fatalf("VERIF_OUT not set")
	}
	seed, _ := strconv.ParseInt(os.Getenv("VERIF_SEED"), 10, 64)
	params := map[string]any{}
	if p := os.Getenv("VERIF_PARAMS"); p != "" {
		if err := json.Unmarshal([]byte(p), &params); err != nil {
			t.Fatalf("bad VERIF_PARAMS: %v", err)
		}
	}
	d := &vCtx{t: t, out: out, seed: seed, params: params, summary: map[string]any{"driver": name}}
	if err := fn(d); err != nil {
		t.Fatalf("driver %s: %v", name, err)
	}
	if err := vWriteJSON(filepath.Join(out, "summary.json"), d.summary); err != nil {
		t.Fatalf("summary: %v", err)
	}
	fmt.Println("driver done:", name)
}
