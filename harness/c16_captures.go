//go:build verif

package trzsz

// C16: the captured noisy strings of trzsz/buffer_test.go (TestBufferReadJunk, TestBufferReadOnWin)
// and trzsz/transfer_test.go (TestStripTmuxStatusLine) transcribed into items of the frozen
// grammar, the out-of-grammar probes, and the driver c16_rand.

import (
	"bytes"
	"fmt"
	"runtime"
	"sync"
)

// tiny item-list builder: L letters, T term, ...
type c16Seq struct{ items []c16Item }

func (s *c16Seq) L(str string) *c16Seq {
	for i := 0; i < len(str); i++ {
		s.items = append(s.items, c16I("let", int(str[i])))
	}
	return s
}
func (s *c16Seq) Csi(p string, f byte) *c16Seq { s.items = append(s.items, c16Csi(p, f)); return s }
func (s *c16Seq) Pad(c byte) *c16Seq           { s.items = append(s.items, c16I("pad", int(c))); return s }
func (s *c16Seq) CRLF() *c16Seq                { s.items = append(s.items, c16I("nl", 13, 10)); return s }
func (s *c16Seq) LF() *c16Seq                  { s.items = append(s.items, c16I("nl", 10)); return s }
func (s *c16Seq) Dup(c byte) *c16Seq           { s.items = append(s.items, c16I("dup", int(c))); return s }
func (s *c16Seq) Stray(c byte) *c16Seq         { s.items = append(s.items, c16I("stray", int(c))); return s }
func (s *c16Seq) Bang() *c16Seq                { s.items = append(s.items, c16I("bang")); return s }
func (s *c16Seq) Wrap() *c16Seq                { s.items = append(s.items, c16I("wrap")); return s }
func (s *c16Seq) Etx() *c16Seq                 { s.items = append(s.items, c16I("etx")); return s }
func (s *c16Seq) Txt(t string) *c16Seq {
	s.items = append(s.items, c16I("txt", c16Ints(t)...))
	return s
}
func (s *c16Seq) It(it c16Item) *c16Seq { s.items = append(s.items, it); return s }
func (s *c16Seq) T(lf bool) *c16Seq {
	if lf {
		s.items = append(s.items, c16I("term", 10))
	} else {
		s.items = append(s.items, c16I("term"))
	}
	return s
}

func c16W(typ, payload string) c16Want {
	return c16Want{Res: "ok", Line: c16Ints("#" + typ + ":" + payload), Typ: c16Ints(typ)}
}

type c16Capture struct {
	name string
	mode string
	etyp string
	raw  string // the bytes the items must render to (captured string, marker added where the
	// capture is a fragment of a line)
	seq  *c16Seq
	want []c16Want
}

const c16P = "\x1bP=1s\x1b\\\x1b[?25l\x1b[?12l\x1b[?25h\x1b[5 q\x1bP=2s\x1b\\" // transfer_test.go

func c16PItem(n int) c16Item {
	return c16St("1s", "\x1b[?25l\x1b[?12l\x1b[?25h\x1b[5 q", "2s", nil, n)
}

func c16Captures() []c16Capture {
	q := func() *c16Seq { return &c16Seq{} }
	caps := []c16Capture{
		// buffer_test.go TestBufferReadJunk: "test\r\n message\n", "test\r\n"," test\r\n"," test\r\n"," message\n"
		{"junk-wrap", "tmux", "DATA", "#DATA:test\r\nmessage\n",
			q().L("#DATA:test").Wrap().L("message").T(false), []c16Want{c16W("DATA", "testmessage")}},
		{"junk-wrap3", "tmux", "DATA", "#DATA:test\r\ntest\r\ntest\r\nmessage\n",
			q().L("#DATA:test").Wrap().L("test").Wrap().L("test").Wrap().L("message").T(false),
			[]c16Want{c16W("DATA", "testtesttestmessage")}},
		// transfer_test.go TestStripTmuxStatusLine
		{"status-1", "tmux", "DATA", "#DATA:ABC" + c16P + "123\n",
			q().L("#DATA:ABC").It(c16PItem(0)).L("123").T(false), []c16Want{c16W("DATA", "ABC123")}},
		{"status-2", "tmux", "DATA", "#DATA:ABC" + c16P + "123" + c16P + "XYZ\n",
			q().L("#DATA:ABC").It(c16PItem(0)).L("123").It(c16PItem(0)).L("XYZ").T(false),
			[]c16Want{c16W("DATA", "ABC123XYZ")}},
		{"status-4", "tmux", "DATA", "#DATA:ABC" + c16P + "123" + c16P + c16P + c16P + "XYZ\n",
			q().L("#DATA:ABC").It(c16PItem(0)).L("123").It(c16PItem(0)).It(c16PItem(0)).It(c16PItem(0)).L("XYZ").T(false),
			[]c16Want{c16W("DATA", "ABC123XYZ")}},
		// buffer_test.go TestBufferReadOnWin
		{"win-pad", "win", "DATA", "#DATA:test message\t1+/=!",
			q().L("#DATA:test").Pad(' ').L("message").Pad('\t').L("1+/=").T(false),
			[]c16Want{c16W("DATA", "testmessage1+/=")}},
		{"win-colour", "win", "DATA", "\x1b[01;32m#DATA:ABC\x1b[01;34mdef!\x1b[00m#DATA:x!\n",
			q().Csi("01;32", 'm').L("#DATA:ABC").Csi("01;34", 'm').L("def").T(false).Csi("00", 'm').L("#DATA:x").T(true),
			[]c16Want{c16W("DATA", "ABCdef"), c16W("DATA", "x")}},
		{"win-erase", "win", "DATA", "\x1b[29C#DATA:AAA\x1b[KBBBCCCCCCCCCCCCCCCCCCCC!",
			q().Csi("29", 'C').L("#DATA:AAA").Csi("", 'K').L("BBBCCCCCCCCCCCCCCCCCCCC").T(false),
			[]c16Want{c16W("DATA", "AAABBBCCCCCCCCCCCCCCCCCCCC")}},
		{"win-wrap-reprint", "win", "SUCC", "\r\n\x1b[90C#SUCC:eJzy8XR29Qt21TMCBAAA//8\r\n\x1b[25;119H8MnwJk!",
			q().CRLF().Csi("90", 'C').L("#SUCC:eJzy8XR29Qt21TMCBAAA//8").CRLF().Csi("25;119", 'H').Dup('8').L("MnwJk").T(false),
			[]c16Want{c16W("SUCC", "eJzy8XR29Qt21TMCBAAA//8MnwJk")}},
		{"win-stale-bang-softreset", "win", "SUCC",
			"\x1b[238X\x1b[238C\x1b[60;198H\x1b[?25h\x1b[H!\x1b[60;198H\x1b[?25l#SUCC:65536! \x08\x1b[?25h\x1b[?25l#SUCC:Soft\x1b[!pReset!",
			q().Csi("238", 'X').Csi("238", 'C').Csi("60;198", 'H').Csi("?25", 'h').Csi("", 'H').Bang().Csi("60;198", 'H').
				Csi("?25", 'l').L("#SUCC:65536").T(false).Pad(' ').Pad(8).Csi("?25", 'h').Csi("?25", 'l').
				L("#SUCC:Soft").Csi("!", 'p').L("Reset").T(false),
			[]c16Want{c16W("SUCC", "65536"), c16W("SUCC", "SoftReset")}},
		{"win-cursor-home-same", "win", "DATA", "#DATA:U4bz/o\x08\x1b[?25h\x1b[?25l\x1b[Hp\x1b[60;238H\x1b[?25h\x1b[?25l\r\np7bu8!",
			q().L("#DATA:U4bz/o").Pad(8).Csi("?25", 'h').Csi("?25", 'l').Csi("", 'H').Stray('p').Csi("60;238", 'H').
				Csi("?25", 'h').Csi("?25", 'l').CRLF().L("p7bu8").T(false),
			[]c16Want{c16W("DATA", "U4bz/op7bu8")}},
		{"win-pos-no-newline", "win", "DATA", "#DATA:hnWwqzbHU\x1b[199X\x1b[199C\x1b[60;40H\x1b[?25h\x1b[?25lUUcczgV!",
			q().L("#DATA:hnWwqzbHU").Csi("199", 'X').Csi("199", 'C').Csi("60;40", 'H').Csi("?25", 'h').Csi("?25", 'l').
				L("UUcczgV").T(false),
			[]c16Want{c16W("DATA", "hnWwqzbHUUUcczgV")}},
		{"win-cursor-home-other", "win", "DATA", "#DATA:8yOf8lh\x08\x1b[?25h\x1b[?25l\x1b[Hb\x1b[60;238H\x1b[?25h\x1b[?25l\r\ni2Czew!",
			q().L("#DATA:8yOf8lh").Pad(8).Csi("?25", 'h').Csi("?25", 'l').Csi("", 'H').Stray('b').Csi("60;238", 'H').
				Csi("?25", 'h').Csi("?25", 'l').CRLF().L("i2Czew").T(false),
			[]c16Want{c16W("DATA", "8yOf8lhi2Czew")}},
		{"win-bare-lf", "win", "DATA", "#DATA:BFjn6\x1b[30;1H\x1b[?25l\n\x1b[29;120H6jEF8aG!",
			q().L("#DATA:BFjn6").Csi("30;1", 'H').Csi("?25", 'l').LF().Csi("29;120", 'H').Dup('6').L("jEF8aG").T(false),
			[]c16Want{c16W("DATA", "BFjn6jEF8aG")}},
		{"win-two-lines", "win", "DATA", "#DATA:test1!\n#DATA:test2!\n",
			q().L("#DATA:test1").T(true).L("#DATA:test2").T(true), []c16Want{c16W("DATA", "test1"), c16W("DATA", "test2")}},
		{"win-ctrl-c", "win", "DATA", "#DATA:test\x03",
			q().L("#DATA:test").Etx(), []c16Want{{Res: "int", Line: c16Ints("#DATA:test"), Typ: c16Ints("DATA")}}},
		{"tmux-ctrl-c", "tmux", "DATA", "#DATA:test\x03",
			q().L("#DATA:test").Etx(), []c16Want{{Res: "int", Line: c16Ints("#DATA:test"), Typ: c16Ints("DATA")}}},
	}
	// TestStripTmuxStatusLine: "ABC"+P+"123"+P[:len(P)-i] for i < len(P)-2
	for i := 1; i < len(c16P)-2; i++ {
		n := len(c16P) - i
		caps = append(caps, c16Capture{fmt.Sprintf("status-trunc-%d", n), "tmux", "DATA",
			"#DATA:ABC" + c16P + "123" + c16P[:n] + "\n",
			q().L("#DATA:ABC").It(c16PItem(0)).L("123").It(c16PItem(n)).T(false), []c16Want{c16W("DATA", "ABC123")}})
	}
	return caps
}

// Out-of-grammar probes: inputs the documentation / captures do not cover.  They are run and
// reported (evidence `out_of_grammar`), never judged; NoiseTrace must refuse every one of them.
func c16Probes() []c16Capture {
	q := func() *c16Seq { return &c16Seq{} }
	return []c16Capture{
		{"oog-pos-after-reprint", "win", "T", "", // a second re-positioning between the re-print and an equal letter
			q().L("#T:a").CRLF().Csi("5;1", 'H').Dup('a').Csi("5;2", 'H').L("a").T(true), []c16Want{c16W("T", "aa")}},
		{"oog-newline-pos-no-reprint", "win", "T", "", // newline + re-positioning, next letter equal, not a re-print
			q().L("#T:a").CRLF().Csi("5;1", 'H').L("a").T(true), []c16Want{c16W("T", "aa")}},
		{"oog-pos-then-newline-no-reprint", "win", "T", "",
			q().L("#T:a").Csi("5;1", 'H').LF().L("a").T(true), []c16Want{c16W("T", "aa")}},
		{"oog-stale-bang-after-text", "win", "T", "", // a stale '!' behind text in front of the marker
			q().Txt("ab").Bang().L("#T:a").T(true), []c16Want{c16W("T", "a")}},
		{"oog-esc-letter", "win", "T", "", // ESC followed directly by a letter (no CSI)
			q().L("#T:a").Txt("\x1bM").L("b").T(true), []c16Want{c16W("T", "ab")}},
		{"oog-stale-expected-marker-before-other-type", "tmux", "T", "",
			q().Txt("#T:zz").L("#F:a").T(false), []c16Want{c16W("F", "a")}},
		{"oog-status-inside-marker", "tmux", "T", "",
			q().L("#").It(c16PItem(0)).L("T:a").T(false), []c16Want{c16W("T", "a")}},
		{"oog-crlf-terminator", "tmux", "T", "", // terminator rewritten to CR LF: indistinguishable from a wrap
			q().L("#T:a").Wrap().L("#T:b").T(false), []c16Want{c16W("T", "a"), c16W("T", "b")}},
		{"oog-short-truncated-status", "tmux", "T", "", // fewer than 3 bytes of a status block
			q().L("#T:a").It(c16St("", "", "", nil, 2)).T(false), []c16Want{c16W("T", "a")}},
		{"oog-hash-in-payload", "tmux", "T", "",
			q().L("#T:a#T:b").T(false), []c16Want{c16W("T", "a#T:b")}},
	}
}

func c16CapCase(cp c16Capture) (*c16Case, error) {
	c := &c16Case{Mode: cp.mode, Etyp: c16Ints(cp.etyp), Items: cp.seq.items, Want: cp.want, Name: cp.name}
	raw := c16RenderAll(c.Items, cp.mode)
	if cp.raw != "" && !bytes.Equal(raw, []byte(cp.raw)) {
		return nil, fmt.Errorf("capture %s: items render to %q, captured %q", cp.name, raw, cp.raw)
	}
	c.Bytes = vInts(raw)
	c.Chunks = []int{len(raw)}
	return c, nil
}

// c16Rand: random in-grammar cases, the captures, the probes.  Every execution is recorded for
// NoiseTrace (TLC judges); the comparison with the generator's own expectation is kept as a
// cross-check (`go_mismatches`).
func c16Rand(d *vCtx) error {
	nshort := d.pInt("short", 1500)
	nlong := d.pInt("long", 60)
	nchunk := d.pInt("chunkings", 3)
	capRand := d.pInt("cap_chunkings", 12)
	rec, err := c16NewRecorder(d, "rand", d.pInt("shards", 16), 0)
	if err != nil {
		return err
	}
	var cases []*c16Case
	for _, cp := range c16Captures() {
		c, err := c16CapCase(cp)
		if err != nil {
			return err
		}
		cases = append(cases, c)
	}
	ncap := len(cases)
	rng := d.rng(16)
	for i := 0; i < nshort; i++ {
		cases = append(cases, c16RandCase(rng, []int{0, 3, 12, 48}[i%4]))
	}
	for i := 0; i < nlong; i++ {
		c16ForceFull = i%8 == 2 // some payloads of the full 4 KiB
		cases = append(cases, c16RandCase(rng, []int{300, 1000, 3000}[i%3]))
	}
	c16ForceFull = false
	var mu sync.Mutex
	var all []c16Mismatch
	runs, maxlen := 0, 0
	nw := runtime.NumCPU()
	var wg sync.WaitGroup
	for w := 0; w < nw; w++ {
		wg.Add(1)
		go func(w int) {
			defer wg.Done()
			r := d.rng(int64(1700 + w))
			lr := 0
			var lm []c16Mismatch
			for ci := w; ci < len(cases); ci += nw {
				c := cases[ci]
				var chunkings [][]int
				if ci < ncap {
					chunkings = c16Chunkings(c, 0, capRand, r)
					n := len(c.Bytes)
					for i := 1; i < n; i++ { // every 2-split, whatever the length
						chunkings = append(chunkings, []int{i, n - i})
					}
				} else {
					chunkings = [][]int{c16FullLens(c.Chunks, len(c.Bytes))}
					if len(c.Bytes) <= 12 {
						chunkings = c16Chunkings(c, 12, 0, r)
					} else {
						for k := 1; k < nchunk; k++ {
							chunkings = append(chunkings, c16RandLens(len(c.Bytes), r, 1+r.Intn(200)))
						}
						if len(c.Bytes) < 400 {
							ones := make([]int, len(c.Bytes))
							for i := range ones {
								ones[i] = 1
							}
							chunkings = append(chunkings, ones, []int{len(c.Bytes)})
						}
					}
				}
				etyp := string(c16B(c.Etyp))
				raw := c16B(c.Bytes)
				wl := c16LineWant(c.Want)
				var first []c16Res
				for k, lens := range chunkings {
					chunks := c16Split(raw, lens)
					got := c16ExecLine(c.Mode, etyp, chunks, len(c.Want))
					lr++
					// recorded for TLC: the first chunking (captures: also whole and single bytes) and
					// every chunking whose result differs from the first one's
					id := 0
					if k == 0 {
						first = got
					}
					if k == 0 || (ci < ncap && k < 3) || !c16Same(got, first) {
						id = rec.record(c, lens, got)
					}
					if !c16Same(got, wl) {
						lm = append(lm, c16Mismatch{ID: id, Case: ci, Via: "recvLine", Chunks: lens, Want: wl, Got: got})
					}
					if k == 0 && c16Same(got, wl) {
						if gc, wc := c16ExecCheck(c.Mode, etyp, chunks, len(c.Want)), c16CheckWant(etyp, c.Want); !c16Same(gc, wc) {
							lm = append(lm, c16Mismatch{Case: ci, Via: "recvCheck", Chunks: lens, Want: wc, Got: gc, C: c})
						}
						if c16RelayApplies(c) {
							if gr, wr := c16ExecRelay(c.Mode, etyp, chunks, len(c.Want)), c16RelayWant(etyp, c.Want); !c16Same(gr, wr) {
								lm = append(lm, c16Mismatch{Case: ci, Via: "relay", Chunks: lens, Want: wr, Got: gr, C: c})
							}
						}
						lr += 2
					}
				}
			}
			mu.Lock()
			runs += lr
			all = append(all, lm...)
			mu.Unlock()
		}(w)
	}
	wg.Wait()
	for _, c := range cases {
		if len(c.Bytes) > maxlen {
			maxlen = len(c.Bytes)
		}
	}
	events, err := rec.close()
	if err != nil {
		return err
	}
	// the probes go to a file of their own
	prec, err := c16NewRecorder(d, "probe", 1, 2000000)
	if err != nil {
		return err
	}
	var probes []map[string]any
	for _, cp := range c16Probes() {
		c, err := c16CapCase(cp)
		if err != nil {
			return err
		}
		got := c16ExecLine(c.Mode, cp.etyp, [][]byte{c16B(c.Bytes)}, len(c.Want))
		id := prec.record(c, []int{len(c.Bytes)}, got)
		var gl []string
		for _, g := range got {
			gl = append(gl, g.Res+":"+string(c16B(g.Line)))
		}
		var wl []string
		for _, w := range c.Want {
			wl = append(wl, w.Res+":"+string(c16B(w.Line)))
		}
		probes = append(probes, map[string]any{"id": id, "name": cp.name, "mode": cp.mode,
			"input": fmt.Sprintf("%q", c16B(c.Bytes)), "sent": wl, "returned": gl})
	}
	if _, err := prec.close(); err != nil {
		return err
	}
	d.set("cases", len(cases))
	d.set("captures", ncap)
	d.set("runs", runs)
	d.set("recorded", rec.nextID-rec.base)
	d.set("events", events)
	d.set("max_stream_bytes", maxlen)
	d.set("go_mismatches", len(all))
	d.set("probes", probes)
	if len(all) > 200 {
		all = all[:200]
	}
	return vWriteJSON(d.path("mismatches.json"), all)
}
