//go:build verif

package trzsz

// C04 drivers (escape coding).  Spec: spec/Codec.tla.
//   c04_mbt   replays the behaviours TLC exported from CodecGen.tla into the real escapeWriter /
//             escapeData / escapeReader / unescapeData (table built through the real
//             getEscapeChars -> unicode.MarshalJSON -> escapeTable.UnmarshalJSON path).
//   c04_tv    records real calls (random tables, payloads biased to the protected bytes and 0xEE
//             runs, every byte value, every split point, small destinations, corrupted streams)
//             as events for CodecTrace.tla.
//   c04_wire  runs real in-process binary uploads (client trzszTransfer <-> server trzszTransfer)
//             and records every Write of the uploading client for CodecObs.tla.
// The drivers record; TLC judges.

import (
	"sync/atomic"
	"bytes"
	"compress/zlib"
	"encoding/base64"
	"encoding/json"
	"fmt"
	"io"
	"math/rand"
	"os"
	"path/filepath"
	"runtime"
	"strings"
	"sync"
	"time"
)

func init() {
	vRegister("c04_mbt", c04MBT)
	vRegister("c04_tv", c04TV)
	vRegister("c04_wire", c04Wire)
}

// ------------------------------------------------------------------ tables

type c04Table struct {
	tmode  string
	ann    [][]int // pairs [byte, code] read back from the JSON text with encoding/json only
	parsed [][]int // escapeCodes of the table the real UnmarshalJSON built
	inv    [][]int // unescapeCodes of that table
	table  *escapeTable
	js     string
	how    string
}

func c04CharsOf(pairs [][]int) [][]unicode {
	res := make([][]unicode, 0, len(pairs))
	for _, p := range pairs {
		res = append(res, []unicode{unicode(string(rune(p[0]))),
			unicode(string([]rune{rune(escapeLeaderByte), rune(p[1])}))})
	}
	return res
}

// c04ParseAnn reads an escape_chars JSON value without any code of the repository.
func c04ParseAnn(js []byte) [][]int {
	var raw [][]string
	if err := json.Unmarshal(js, &raw); err != nil {
		return [][]int{{-1, -1}}
	}
	res := make([][]int, 0, len(raw))
	for _, e := range raw {
		if len(e) != 2 {
			res = append(res, []int{-1, -1})
			continue
		}
		a, b := []rune(e[0]), []rune(e[1])
		if len(a) != 1 || len(b) != 2 || b[0] != rune(escapeLeaderByte) || a[0] > 255 || b[1] > 255 {
			res = append(res, []int{-1, -1})
			continue
		}
		res = append(res, []int{int(a[0]), int(b[1])})
	}
	return res
}

func c04ManualJSON(pairs [][]int) []byte {
	var sb strings.Builder
	sb.WriteByte('[')
	for i, p := range pairs {
		if i > 0 {
			sb.WriteByte(',')
		}
		fmt.Fprintf(&sb, "[\"\\u%04x\",\"\\u00ee\\u%04x\"]", p[0], p[1])
	}
	sb.WriteByte(']')
	return []byte(sb.String())
}

func c04TableArrays(t *escapeTable) (parsed, inv [][]int) {
	parsed, inv = [][]int{}, [][]int{}
	if t == nil {
		return
	}
	for b := 0; b < 256 && b < len(t.escapeCodes); b++ {
		if t.escapeCodes[b] != nil {
			parsed = append(parsed, []int{b, int(*t.escapeCodes[b])})
		}
	}
	for c := 0; c < 256 && c < len(t.unescapeCodes); c++ {
		if t.unescapeCodes[c] != nil {
			inv = append(inv, []int{c, int(*t.unescapeCodes[c])})
		}
	}
	return
}

// c04BuildTable builds the client's table the way a transfer does: the server side value
// ([][]unicode from getEscapeChars, or a hand-made one for an arbitrary announcement) is
// marshalled by the real unicode.MarshalJSON, and parsed into transferConfig.EscapeTable by
// the real escapeTable.UnmarshalJSON.  Announcements that the repository's marshaller cannot
// express (it does not quote '"' and '\\') are written with \u escapes, as other servers do.
func c04BuildTable(tmode string, pairs [][]int, manual bool) (*c04Table, error) {
	var chars [][]unicode
	switch tmode {
	case "base":
		chars = getEscapeChars(false)
	case "all":
		chars = getEscapeChars(true)
	default:
		chars = c04CharsOf(pairs)
	}
	how := "marshal"
	js, err := json.Marshal(chars)
	if tmode == "custom" && (err != nil || manual) {
		js, err, how = c04ManualJSON(pairs), nil, "manual"
	}
	if err != nil {
		return nil, fmt.Errorf("marshal escape chars (%s): %v", tmode, err)
	}
	cfg := transferConfig{}
	if err := json.Unmarshal([]byte(`{"escape_chars":`+string(js)+`}`), &cfg); err != nil {
		return nil, fmt.Errorf("unmarshal escape chars %s: %v", js, err)
	}
	t := &c04Table{tmode: tmode, table: cfg.EscapeTable, js: string(js), how: how}
	t.ann = c04ParseAnn(js)
	t.parsed, t.inv = c04TableArrays(cfg.EscapeTable)
	return t, nil
}

func (t *c04Table) event() map[string]any {
	return map[string]any{"e": "table", "tmode": t.tmode, "ann": t.ann, "parsed": t.parsed, "inv": t.inv}
}

// c04RandomTable: an arbitrary well-formed announcement (leader mapped, codes pairwise
// distinct, no code is a protected byte).
func c04RandomTable(rng *rand.Rand) [][]int {
	nkeys := 1 + rng.Intn(4)
	switch rng.Intn(4) {
	case 0:
		nkeys = 1 + rng.Intn(40)
	case 1:
		nkeys = 1 + rng.Intn(120)
	}
	isKey := map[int]bool{int(escapeLeaderByte): true}
	keys := []int{int(escapeLeaderByte)}
	for len(keys) < nkeys {
		b := rng.Intn(256)
		if rng.Intn(3) == 0 {
			b = []int{'~', '\r', '\n', 0x11, 0x13, 0x1b, 0, 255, '"', '\\', '#', ':', 0xef, 0xed, '1', 'A'}[rng.Intn(16)]
		}
		if !isKey[b] {
			isKey[b] = true
			keys = append(keys, b)
		}
	}
	var pool []int
	for c := 0; c < 256; c++ {
		if !isKey[c] || c == int(escapeLeaderByte) {
			pool = append(pool, c)
		}
	}
	rng.Shuffle(len(pool), func(i, j int) { pool[i], pool[j] = pool[j], pool[i] })
	rng.Shuffle(len(keys), func(i, j int) { keys[i], keys[j] = keys[j], keys[i] })
	pairs := make([][]int, len(keys))
	for i, k := range keys {
		pairs[i] = []int{k, pool[i]}
	}
	return pairs
}

// ------------------------------------------------------------------ small helpers

type c04Sink struct{ bytes.Buffer }

func (s *c04Sink) Close() error { return nil }

func c04Ints2(v any) [][]int {
	arr, _ := v.([]any)
	res := make([][]int, 0, len(arr))
	for _, x := range arr {
		b := vBytes(x)
		p := make([]int, len(b))
		for i, c := range b {
			p[i] = int(c)
		}
		res = append(res, p)
	}
	return res
}

func c04Guard(fn func()) (msg string) {
	defer func() {
		if r := recover(); r != nil {
			msg = fmt.Sprintf("panic: %v", r)
		}
	}()
	fn()
	return ""
}

// c04Source hands out the scripted chunks, one per Read, then io.EOF.
type c04Source struct {
	chunks [][]byte
	idx    int
	fed    int
	tr     *vTrace
}

func (s *c04Source) Read(p []byte) (int, error) {
	if s.idx >= len(s.chunks) {
		return 0, io.EOF
	}
	c := s.chunks[s.idx]
	n := copy(p, c)
	if n < len(c) {
		s.chunks[s.idx] = c[n:]
	} else {
		s.idx++
	}
	s.fed += n
	if s.tr != nil {
		s.tr.Emit(map[string]any{"e": "fill", "c": vInts(p[:n])}, nil)
	}
	return n, nil
}

// ------------------------------------------------------------------ MBT replay

// c04Filler: a byte that the table leaves alone (escaping it gives the byte itself).
func c04Filler(t *c04Table) (byte, bool) {
	for b := 0x41; b < 0x7b; b++ {
		if e := escapeData([]byte{byte(b)}, t.table); len(e) == 1 && e[0] == byte(b) {
			if d, rem, err := unescapeData([]byte{byte(b), byte(b)}, t.table, nil); err == nil && len(rem) == 0 && len(d) == 2 {
				return byte(b), true
			}
		}
	}
	return 0, false
}

// c04ReadAllGuarded reads the reader to its end with 32 KiB destinations; a reader that neither delivers nor ends
// within the time is reported (the goroutine is left behind).
func c04ReadAllGuarded(r readCloser, limit time.Duration) (out []byte, msg string) {
	type res struct {
		b   []byte
		msg string
	}
	ch := make(chan res, 1)
	go func() {
		var acc []byte
		m := c04Guard(func() {
			buf := make([]byte, 32*1024)
			for k := 0; k < 1<<20; k++ {
				n, err := r.Read(buf)
				acc = append(acc, buf[:n]...)
				if err == io.EOF {
					return
				}
				if err != nil {
					panic("read error: " + err.Error())
				}
			}
			panic("no end of stream after 2^20 reads")
		})
		ch <- res{acc, m}
	}()
	select {
	case x := <-ch:
		return x.b, x.msg
	case <-time.After(limit):
		return nil, "the reader did not end within " + limit.String() + " (it spins or blocks)"
	}
}

func c04MBT(d *vCtx) error {
	cases, err := vReadNDJSON(d.pStr("cases", d.path("cases.ndjson")))
	if err != nil {
		return err
	}
	type mism struct {
		Case int    `json:"case"`
		Step int    `json:"step"`
		Kind string `json:"kind"`
		Want any    `json:"want"`
		Got  any    `json:"got"`
		Msg  string `json:"msg"`
	}
	mismatches := []mism{}
	stretched := 0
	stretchOff := false
	stretchEvery := d.pInt("stretch_every", 6)
	badAt := map[int]int{}
	nbadBefore := func(ci int) int { return badAt[ci] }
	replayed, drift, reads, writes := 0, 0, 0, 0
	tcache := map[string]*c04Table{}
	for ci, c := range cases {
		tmode, _ := c["tmode"].(string)
		pairs := c04Ints2(c["table"])
		key := fmt.Sprintf("%s%v", tmode, pairs)
		t := tcache[key]
		if t == nil {
			t, err = c04BuildTable(tmode, pairs, ci%2 == 1)
			if err != nil {
				return err
			}
			tcache[key] = t
		}
		badAt[ci] = len(mismatches)
		bad := func(si int, kind string, want, got any, msg string) {
			mismatches = append(mismatches, mism{ci, si, kind, want, got, msg})
		}
		// the table the real code built must be the table the model used
		if tmode == "custom" && fmt.Sprint(c04Sorted(t.parsed)) != fmt.Sprint(c04Sorted(pairs)) {
			bad(-1, "table", pairs, t.parsed, "table parsed from the announcement differs")
			replayed++
			continue
		}
		steps, _ := c["steps"].([]any)
		sink := &c04Sink{}
		ew := newEscapeWriter(t.table, sink)
		var wire []byte
		var src *c04Source
		var er readCloser
		var decoded []byte
		startRead := func() {
			if src != nil {
				return
			}
			if wire == nil {
				wire = append([]byte{}, sink.Bytes()...)
			}
			var chunks [][]byte
			for _, st := range steps {
				s := st.(map[string]any)
				if s["a"] == "fill" {
					chunks = append(chunks, vBytes(s["c"]))
				}
			}
			src = &c04Source{chunks: chunks}
			er = newEscapeReader(t.table, src)
		}
		capNow := 0
	steps:
		for si, st := range steps {
			s := st.(map[string]any)
			switch s["a"] {
			case "write":
				p := vBytes(s["p"])
				want := vBytes(s["out"])
				before := sink.Len()
				var n int
				var werr error
				if msg := c04Guard(func() { n, werr = ew.Write(p) }); msg != "" {
					bad(si, "write", s, msg, "escapeWriter.Write panicked")
					break steps
				}
				got := append([]byte{}, sink.Bytes()[before:]...)
				var got2 []byte
				if msg := c04Guard(func() { got2 = escapeData(p, t.table) }); msg != "" {
					bad(si, "write", s, msg, "escapeData panicked")
					break steps
				}
				writes++
				if werr != nil || n != len(p) || !bytes.Equal(got, want) || !bytes.Equal(got2, want) {
					bad(si, "write", s, map[string]any{"n": n, "err": fmt.Sprint(werr), "writer": vInts(got), "escapeData": vInts(got2)},
						"escaped output differs from the model")
					break steps
				}
			case "inject":
				wire = vBytes(s["w"])
			case "read":
				startRead()
				capNow = int(s["cap"].(float64))
			case "fill":
			case "ret":
				startRead()
				want := s["res"].(string)
				buf := make([]byte, capNow)
				var n int
				var rerr error
				if msg := c04Guard(func() { n, rerr = er.Read(buf) }); msg != "" {
					bad(si, "read", s, msg, "escapeReader.Read panicked")
					break steps
				}
				reads++
				res := "ok"
				if rerr == io.EOF {
					res = "eof"
				} else if rerr != nil {
					res = "err"
				}
				if n < 0 || n > capNow {
					bad(si, "read", s, map[string]any{"n": n, "cap": capNow}, "Read returned more than the destination holds")
					break steps
				}
				decoded = append(decoded, buf[:n]...)
				got := map[string]any{"res": res, "buf": vInts(buf[:n]), "fed": src.fed, "err": fmt.Sprint(rerr)}
				if res == "ok" && want != "ok" {
					// the real reader cut its results differently (allowed by io.Reader): drain it
					drift++
					for k := 0; res == "ok"; k++ {
						if k > 2*len(wire)+8 {
							bad(si, "read", s, map[string]any{"reads_after_model_end": k}, "the reader keeps delivering data: more bytes than the stream holds")
							break steps
						}
						if msg := c04Guard(func() { n, rerr = er.Read(buf) }); msg != "" {
							bad(si, "read", s, msg, "escapeReader.Read panicked")
							break steps
						}
						if n < 0 || n > capNow {
							bad(si, "read", s, map[string]any{"n": n, "cap": capNow}, "Read returned more than the destination holds")
							break steps
						}
						decoded = append(decoded, buf[:n]...)
						if rerr == io.EOF {
							res = "eof"
						} else if rerr != nil {
							res = "err"
						}
					}
					got = map[string]any{"res": res, "decoded": vInts(decoded), "err": fmt.Sprint(rerr)}
				}
				if res != want {
					// an error or EOF where the model delivers data, or a different end of the stream
					bad(si, "read", s, got, "Read result class differs from the model")
					break steps
				}
				if !bytes.Equal(buf[:n], vBytes(s["buf"])) || src.fed != int(s["fed"].(float64)) {
					// same class, different cut: allowed by io.Reader; the decoded stream is compared below
					drift++
				}
				if res != "ok" {
					// end of the behaviour: everything delivered so far must be what the model delivered
					wantAll := c04DecodedOfCase(steps)
					if !bytes.Equal(decoded, wantAll) {
						bad(si, "stream", vInts(wantAll), vInts(decoded), "decoded stream differs from the model at "+res)
					}
					break steps
				}
			case "whole":
				if wire == nil {
					wire = append([]byte{}, sink.Bytes()...)
				}
				var buf, rem []byte
				var uerr error
				if msg := c04Guard(func() { buf, rem, uerr = unescapeData(append([]byte{}, wire...), t.table, nil) }); msg != "" {
					bad(si, "whole", s, msg, "unescapeData panicked")
					break steps
				}
				res := "ok"
				if uerr != nil {
					res = "unknown"
				} else if len(rem) != 0 {
					res = "remaining"
				}
				if res != s["res"].(string) || (res == "ok" && !bytes.Equal(buf, vBytes(s["buf"]))) {
					bad(si, "whole", s, map[string]any{"res": res, "buf": vInts(buf), "rem": vInts(rem), "err": fmt.Sprint(uerr)},
						"unescapeData(frame, table, nil) differs from the model")
				}
			}
		}
		// the same behaviour at the real scale of the reader's own staging buffer (32 KiB): the model's stream behind a
		// run of bytes that need no escaping, placed so that each of its bytes in turn is the last one of a full staging
		// buffer -- one frame, read with destinations of 32 KiB; the decoded stream is the run plus the model's payload
		if !stretchOff && ci%stretchEvery == 0 && src != nil && wire != nil && len(wire) > 0 && len(steps) > 0 {
			last, _ := steps[len(steps)-1].(map[string]any)
			if last != nil && last["a"] == "ret" && last["res"] == "eof" && len(mismatches) == nbadBefore(ci) {
				if fb, ok := c04Filler(t); ok {
					wantAll := c04DecodedOfCase(steps)
					for i := 0; i < len(wire) && i < 6; i++ {
						n := 32767 - i
						stream := append(bytes.Repeat([]byte{fb}, n), wire...)
						want := append(bytes.Repeat([]byte{fb}, n), wantAll...)
						got, msg := c04ReadAllGuarded(newEscapeReader(t.table, &c04Source{chunks: [][]byte{stream}}), 3*time.Second)
						stretched++
						if msg != "" || !bytes.Equal(got, want) {
							bad(-2, "stretched", map[string]any{"filler": n, "wire": vInts(wire), "want_len": len(want)},
								map[string]any{"got_len": len(got), "msg": msg}, "the model's stream placed across the end of the reader's 32 KiB staging buffer is not decoded as the model decodes it")
							stretchOff = msg != "" // a reader left spinning: one finding is enough
							break
						}
					}
				}
			}
		}
		replayed++
	}
	d.set("stretched_replays", stretched)
	d.set("replayed", replayed)
	d.set("mismatches", len(mismatches))
	d.set("drift", drift)
	d.set("reads", reads)
	d.set("writes", writes)
	return vWriteJSON(d.path("mismatches.json"), mismatches)
}

func c04Sorted(p [][]int) [][]int {
	q := append([][]int{}, p...)
	for i := 1; i < len(q); i++ {
		for j := i; j > 0 && q[j][0] < q[j-1][0]; j-- {
			q[j], q[j-1] = q[j-1], q[j]
		}
	}
	return q
}

func c04DecodedOfCase(steps []any) []byte {
	var res []byte
	for _, st := range steps {
		s := st.(map[string]any)
		if s["a"] == "ret" {
			res = append(res, vBytes(s["buf"])...)
		}
	}
	return res
}

// ------------------------------------------------------------------ recorded calls (c04_tv)

type c04Gen struct {
	rng   *rand.Rand
	prot  []int // protected bytes of the table
	codes []int
}

func c04NewGen(rng *rand.Rand, t *c04Table) *c04Gen {
	g := &c04Gen{rng: rng}
	for _, p := range t.parsed {
		if p[0] != int(escapeLeaderByte) {
			g.prot = append(g.prot, p[0])
		}
		g.codes = append(g.codes, p[1])
	}
	return g
}

// payload biased towards the leader, the protected bytes and the bytes that are codes
func (g *c04Gen) payload(n int) []byte {
	rng := g.rng
	s := make([]byte, 0, n)
	for len(s) < n {
		switch rng.Intn(8) {
		case 0:
			k := 1 + rng.Intn(5)
			for j := 0; j < k && len(s) < n; j++ {
				s = append(s, escapeLeaderByte)
			}
		case 1, 2:
			if len(g.prot) > 0 {
				s = append(s, byte(g.prot[rng.Intn(len(g.prot))]))
			} else {
				s = append(s, '~')
			}
		case 3:
			s = append(s, byte(g.codes[rng.Intn(len(g.codes))]))
		case 4:
			s = append(s, []byte{'~', '\r', 0x10, 0x11, 0x13, 0x18, 0x1b, 0x1d, 0x8d, 0x90, 0x91, 0x93, 0x9d, 0x02, '\n', 0}[rng.Intn(16)])
		default:
			s = append(s, byte(rng.Intn(256)))
		}
	}
	return s
}

func c04All256(rng *rand.Rand) []byte {
	s := make([]byte, 256)
	for i := range s {
		s[i] = byte(i)
	}
	rng.Shuffle(len(s), func(i, j int) { s[i], s[j] = s[j], s[i] })
	return s
}

func c04Cut(rng *rand.Rand, s []byte, maxChunk int) [][]byte {
	var res [][]byte
	for p := 0; p < len(s); {
		k := 1 + rng.Intn(maxChunk)
		if p+k > len(s) {
			k = len(s) - p
		}
		res = append(res, append([]byte{}, s[p:p+k]...))
		p += k
	}
	return res
}

type c04Plan struct {
	t      *c04Table
	segs   [][]byte // payload as written, one escapeWriter.Write / escapeData call each
	useFn  bool     // escapeData instead of escapeWriter.Write
	raw    []byte   // when not nil: injected stream instead of the writer
	rawFn  func(wire []byte) []byte
	kind   string // "reader" | "direct" | "whole"
	chunks func(wire []byte) [][]byte
	caps   func() int
}

// c04Record executes one plan on the real code and records it.
func c04Record(tr *vTrace, pl *c04Plan, run int) {
	tr.Emit(map[string]any{"e": "reset", "run": run}, nil)
	tr.Emit(pl.t.event(), nil)
	table := pl.t.table
	var wire []byte
	sink := &c04Sink{}
	ew := newEscapeWriter(table, sink)
	for _, p := range pl.segs {
		var out []byte
		msg := c04Guard(func() {
			if pl.useFn {
				out = append([]byte{}, escapeData(p, table)...)
			} else {
				before := sink.Len()
				n, err := ew.Write(p)
				if err != nil || n != len(p) {
					panic(fmt.Sprintf("Write returned %d, %v", n, err))
				}
				out = append([]byte{}, sink.Bytes()[before:]...)
			}
		})
		if msg != "" {
			tr.Emit(map[string]any{"e": "panic", "msg": msg}, nil)
			return
		}
		wire = append(wire, out...)
		tr.Emit(map[string]any{"e": "write", "p": vInts(p), "out": vInts(out)}, nil)
	}
	if pl.rawFn != nil {
		w := pl.rawFn(wire)
		// restart: the corrupted stream replaces the writer's
		tr.Emit(map[string]any{"e": "reset", "run": run}, nil)
		tr.Emit(pl.t.event(), nil)
		tr.Emit(map[string]any{"e": "inject", "w": vInts(w)}, nil)
		wire = w
	} else {
		tr.Emit(map[string]any{"e": "close"}, nil)
	}
	switch pl.kind {
	case "whole":
		var buf, rem []byte
		var err error
		if msg := c04Guard(func() { buf, rem, err = unescapeData(append([]byte{}, wire...), table, nil) }); msg != "" {
			tr.Emit(map[string]any{"e": "panic", "msg": msg}, nil)
			return
		}
		res := "ok"
		if err != nil {
			res = "unknown"
		} else if len(rem) != 0 {
			res = "remaining"
		}
		tr.Emit(map[string]any{"e": "whole", "res": res, "buf": vInts(buf)}, nil)
	case "reader":
		src := &c04Source{chunks: pl.chunks(wire), tr: tr}
		er := newEscapeReader(table, src)
		for i := 0; ; i++ {
			if i > 2*len(wire)+8 {
				// every Read delivers at least one byte: more reads than bytes means a runaway decoder
				tr.Emit(map[string]any{"e": "runaway", "reads": i, "wire_len": len(wire)}, nil)
				return
			}
			c := pl.caps()
			if c < 1 {
				c = 1
			}
			buf := make([]byte, c)
			tr.Emit(map[string]any{"e": "read", "cap": c}, nil)
			var n int
			var err error
			if msg := c04Guard(func() { n, err = er.Read(buf) }); msg != "" {
				tr.Emit(map[string]any{"e": "panic", "msg": msg}, nil)
				return
			}
			res := "ok"
			if err == io.EOF {
				res = "eof"
			} else if err != nil {
				res = "err"
			}
			if n < 0 || n > c {
				tr.Emit(map[string]any{"e": "overflow", "n": n, "cap": c}, nil)
				return
			}
			tr.Emit(map[string]any{"e": "ret", "res": res, "buf": vInts(buf[:n])}, nil)
			if res != "ok" {
				return
			}
		}
	case "direct":
		chunks := pl.chunks(wire)
		var cur []byte
		ci := 0
		needMore := true
		for i := 0; ; i++ {
			if i > 3*len(wire)+len(chunks)+8 {
				tr.Emit(map[string]any{"e": "runaway", "reads": i, "wire_len": len(wire)}, nil)
				return
			}
			if needMore || len(cur) == 0 {
				if ci >= len(chunks) {
					return
				}
				cur = append(append([]byte{}, cur...), chunks[ci]...)
				tr.Emit(map[string]any{"e": "feed", "c": vInts(chunks[ci])}, nil)
				ci++
				needMore = false
			}
			c := pl.caps()
			var dst []byte
			if c > 0 {
				dst = make([]byte, c)
			}
			in := append([]byte{}, cur...)
			var buf, rem []byte
			var err error
			if msg := c04Guard(func() { buf, rem, err = unescapeData(cur, table, dst) }); msg != "" {
				tr.Emit(map[string]any{"e": "panic", "msg": msg}, nil)
				return
			}
			tr.Emit(map[string]any{"e": "call", "in": vInts(in), "cap": c, "buf": vInts(buf), "rem": vInts(rem), "err": err != nil}, nil)
			if err != nil {
				return
			}
			if len(buf) == 0 {
				needMore = true
			}
			cur = append([]byte{}, rem...)
		}
	}
}

func c04Corrupt(rng *rand.Rand, t *c04Table) func([]byte) []byte {
	isCode := map[int]bool{}
	for _, p := range t.parsed {
		isCode[p[1]] = true
	}
	undefined := func() byte {
		for {
			b := rng.Intn(256)
			if !isCode[b] {
				return byte(b)
			}
		}
	}
	return func(wire []byte) []byte {
		w := append([]byte{}, wire...)
		switch rng.Intn(4) {
		case 0: // an undefined pair somewhere
			pos := rng.Intn(len(w) + 1)
			// do not cut a pair in two: move behind a leader run
			for pos < len(w) && pos > 0 && w[pos-1] == escapeLeaderByte {
				pos++
			}
			if pos > len(w) {
				pos = len(w)
			}
			ins := []byte{escapeLeaderByte, undefined()}
			w = append(w[:pos], append(ins, w[pos:]...)...)
		case 1: // a lone leader at the very end
			w = append(w, escapeLeaderByte)
		case 2: // truncated
			if len(w) > 0 {
				w = w[:rng.Intn(len(w))]
			}
		default: // arbitrary bytes
			for i := range w {
				if rng.Intn(6) == 0 {
					w[i] = byte(rng.Intn(256))
				}
			}
		}
		return w
	}
}

func c04TV(d *vCtx) error {
	shards := d.pInt("shards", 16)
	nrand := d.pInt("random", 1500)
	only := d.pInt("only", -1)
	traces := make([]*vTrace, shards)
	for i := range traces {
		t, err := vNewTrace(d.path(fmt.Sprintf("trace-%02d.ndjson", i)))
		if err != nil {
			return err
		}
		traces[i] = t
	}
	runs := 0
	counts := map[string]int{}
	do := func(pl *c04Plan) {
		if only < 0 || only == runs {
			c04Record(traces[runs%shards], pl, runs)
			counts[pl.kind]++
			counts["table_"+pl.t.tmode]++
			if pl.rawFn != nil {
				counts["raw"]++
			}
		}
		runs++
	}
	// ---- systematic part: three tables x every byte value x every split point x small destinations
	sysRng := d.rng(1)
	base, err := c04BuildTable("base", nil, false)
	if err != nil {
		return err
	}
	all, err := c04BuildTable("all", nil, false)
	if err != nil {
		return err
	}
	cust, err := c04BuildTable("custom", c04RandomTable(sysRng), false)
	if err != nil {
		return err
	}
	fixedCaps := func(c int) func() int { return func() int { return c } }
	splitAt := func(pos int) func([]byte) [][]byte {
		return func(w []byte) [][]byte {
			if pos <= 0 || pos >= len(w) {
				if len(w) == 0 {
					return nil
				}
				return [][]byte{append([]byte{}, w...)}
			}
			return [][]byte{append([]byte{}, w[:pos]...), append([]byte{}, w[pos:]...)}
		}
	}
	for _, t := range []*c04Table{base, all, cust} {
		for b := 0; b < 256; b++ {
			b2 := byte(sysRng.Intn(256))
			data := []byte{byte(b), b2, byte(b)}
			// split points 1..5 of the (<= 6 byte) escaped stream (all of them over the 256 values), destination sizes 1, 2 and large
			for k := 0; k < 3; k++ {
				pos := 1 + (b+2*k)%5
				c := []int{1, 2, 4096}[(b+k)%3]
				do(&c04Plan{t: t, segs: [][]byte{data}, kind: "reader", chunks: splitAt(pos), caps: fixedCaps(c)})
			}
			do(&c04Plan{t: t, segs: [][]byte{data[:1], data[1:]}, useFn: true, kind: "whole"})
			do(&c04Plan{t: t, segs: [][]byte{data}, kind: "direct", chunks: splitAt(1 + b%4), caps: fixedCaps(b % 3)})
		}
	}
	d.set("systematic_runs", runs)
	// ---- random part
	for i := 0; i < nrand; i++ {
		rng := d.rng(int64(1000 + i))
		var t *c04Table
		switch i % 4 {
		case 0:
			t = base
		case 1:
			t = all
		default:
			t, err = c04BuildTable("custom", c04RandomTable(rng), rng.Intn(2) == 0)
			if err != nil {
				return err
			}
		}
		g := c04NewGen(rng, t)
		n := rng.Intn(48)
		if rng.Intn(6) == 0 {
			n = 200 + rng.Intn(700)
		}
		data := g.payload(n)
		if i%5 == 0 {
			data = append(data, c04All256(rng)...) // every byte value in one payload
		}
		long := len(data) > 150
		pl := &c04Plan{t: t, segs: c04Cut(rng, data, 1+rng.Intn(len(data)+1)), useFn: rng.Intn(3) == 0}
		maxChunk := 1 + rng.Intn(4)
		if long {
			maxChunk = 16 + rng.Intn(300)
		} else if rng.Intn(3) == 0 {
			maxChunk = 1 + rng.Intn(40)
		}
		pl.chunks = func(w []byte) [][]byte { return c04Cut(rng, w, maxChunk) }
		capMax := 1 + rng.Intn(8)
		pl.caps = func() int { return 1 + rng.Intn(capMax) }
		if long {
			pl.caps = func() int { return 48 + rng.Intn(400) }
		}
		switch rng.Intn(8) {
		case 0:
			pl.kind = "whole"
		case 1, 2:
			pl.kind = "direct"
			if !long {
				pl.caps = func() int { return rng.Intn(capMax + 1) } // 0 = nil destination
			}
		default:
			pl.kind = "reader"
		}
		if rng.Intn(5) == 0 {
			pl.rawFn = c04Corrupt(rng, t)
		}
		do(pl)
	}
	events := 0
	for _, t := range traces {
		events += t.Len()
		if err := t.Close(); err != nil {
			return err
		}
	}
	d.set("runs", runs)
	d.set("events", events)
	d.set("shards", shards)
	for k, v := range counts {
		d.set("n_"+k, v)
	}
	return nil
}

// ------------------------------------------------------------------ wire level (c04_wire)

// c04Pipe is the connection one side writes to: it records the Write and delivers the bytes to
// the peer's input in pieces (as a pty / ssh channel would).
type c04Pipe struct {
	mu     sync.Mutex
	peer   *trzszTransfer
	writes [][]byte
	rng    *rand.Rand
	piece  int
}

func (w *c04Pipe) Write(p []byte) (int, error) {
	w.mu.Lock()
	defer w.mu.Unlock()
	w.writes = append(w.writes, append([]byte{}, p...))
	for i := 0; i < len(p); {
		k := len(p) - i
		if w.piece > 0 {
			k = 1 + w.rng.Intn(w.piece)
			if i+k > len(p) {
				k = len(p) - i
			}
		}
		w.peer.addReceivedData(append([]byte{}, p[i:i+k]...), false)
		i += k
	}
	return len(p), nil
}

// c04Abort: `failed` has returned an error.  As clientError / serverError do first, it stops
// accepting input and drains what is queued (so that the peer's Write into it cannot block);
// then the peer is stopped instead of waiting for its receive time-out.
func c04Abort(failed, peer *trzszTransfer) {
	failed.stopped.Store(true)
	failed.buffer.drainBuffer()
	peer.stopTransferringFiles(false)
}

type c04WireCfg struct {
	Run      int    `json:"run"`
	Escape   bool   `json:"escape"`
	Compress int    `json:"compress"`
	Proto    int    `json:"proto"` // 4 = current, 2 = server 1.1.0 (pipeline without compression), 1 = no protocol announced (sendData/recvData)
	Bufsize  int64  `json:"bufsize"`
	Piece    int    `json:"piece"`
	Sizes    []int  `json:"sizes"`
	Comp     string `json:"comp"`
	Slow     bool   `json:"slow"` // every third block looks 2.5 s slow to the sender: its buffer size shrinks while larger blocks are queued
}

func c04CfgAnn(serverWrites [][]byte) ([][]int, error) {
	for _, w := range serverWrites {
		if bytes.HasPrefix(w, []byte("#CFG:")) {
			line := bytes.TrimRight(w[5:], "\n")
			raw, err := base64.StdEncoding.DecodeString(string(line))
			if err != nil {
				return nil, err
			}
			z, err := zlib.NewReader(bytes.NewReader(raw))
			if err != nil {
				return nil, err
			}
			js, err := io.ReadAll(z)
			if err != nil {
				return nil, err
			}
			var m map[string]json.RawMessage
			if err := json.Unmarshal(js, &m); err != nil {
				return nil, err
			}
			ec, ok := m["escape_chars"]
			if !ok {
				return [][]int{}, nil
			}
			return c04ParseAnn(ec), nil
		}
	}
	return nil, fmt.Errorf("no CFG line among the server's writes")
}

func c04OneUpload(d *vCtx, tr *vTrace, cfg *c04WireCfg, rng *rand.Rand) (infra error) {
	dir, err := os.MkdirTemp(d.out, "up")
	if err != nil {
		return err
	}
	defer os.RemoveAll(dir)
	srcDir, dstDir := filepath.Join(dir, "src"), filepath.Join(dir, "dst")
	if err := os.MkdirAll(srcDir, 0o755); err != nil {
		return err
	}
	if err := os.MkdirAll(dstDir, 0o755); err != nil {
		return err
	}
	// payloads: biased to the protected bytes and 0xEE runs; every byte value occurs in the run
	allT, err := c04BuildTable("all", nil, false)
	if err != nil {
		return err
	}
	g := c04NewGen(rng, allT)
	var paths []string
	var contents [][]byte
	for i, n := range cfg.Sizes {
		data := g.payload(n)
		if cfg.Slow {
			// stretches without any protected byte (only a block that did not grow by escaping lets the sender
			// shrink its buffer size) alternate with stretches full of them (queued blocks that are split again)
			for p, clean := 0, true; p < n; clean = !clean {
				k := 2000 + rng.Intn(12000)
				if p+k > n {
					k = n - p
				}
				if clean {
					for j := p; j < p+k; j++ {
						data[j] = byte('a' + rng.Intn(26))
					}
				}
				p += k
			}
		}
		if i == 0 && n >= 256 && !cfg.Slow {
			copy(data[rng.Intn(n-255):], c04All256(rng))
		}
		p := filepath.Join(srcDir, fmt.Sprintf("f%d.bin", i))
		if err := os.WriteFile(p, data, 0o644); err != nil {
			return err
		}
		paths = append(paths, p)
		contents = append(contents, data)
	}
	cliW := &c04Pipe{rng: rand.New(rand.NewSource(rng.Int63())), piece: cfg.Piece}
	srvW := &c04Pipe{rng: rand.New(rand.NewSource(rng.Int63())), piece: cfg.Piece}
	cli := newTransfer(cliW, nil, false, nil)
	srv := newTransfer(srvW, nil, false, nil)
	cliW.peer, srvW.peer = srv, cli
	if cfg.Slow {
		// steer the sender's adaptive buffer size with the package's own injectable clock: the begin time of two
		// blocks in five lies 2.5 s in the past, so its acknowledgement looks slow and the size shrinks (pipelineRecvAck)
		old := timeNowFunc
		var calls atomic.Int64
		timeNowFunc = func() time.Time {
			if calls.Add(1)%5 < 2 {
				return time.Now().Add(-2500 * time.Millisecond)
			}
			return time.Now()
		}
		defer func() { timeNowFunc = old }()
		// evidence only: how many queued blocks the send stage had to split again after a shrink
		var gotLen atomic.Int64
		verifHook = func(point string, args ...int) {
			switch point {
			case "pipe.snd.got":
				gotLen.Store(int64(args[0]))
			case "pipe.snd.ack":
				if g := gotLen.Swap(0); g > int64(args[0]) {
					d.add("resplit_blocks", 1)
				}
			}
		}
		defer func() { verifHook = nil }()
		d.add("slow_runs", 1)
		defer func() { d.set("slow_last_bufsize", int(cli.bufferSize.Load())) }()
	}

	var localNames []string
	srvDone := make(chan error, 1)
	cliDone := make(chan error, 1)
	go func() {
		srvDone <- func() (err error) {
			defer func() {
				if r := recover(); r != nil {
					err = fmt.Errorf("panic: %v", r)
				}
			}()
			action, err := srv.recvAction()
			if err != nil {
				return err
			}
			if cfg.Proto == 1 {
				action.Protocol = 0 // a server that predates the protocol field: sendData / recvData path
			}
			args := &baseArgs{Binary: true, Escape: cfg.Escape, Bufsize: bufferSize{Size: cfg.Bufsize}, Timeout: 30,
				Compress: compressType(cfg.Compress)}
			if err := srv.sendConfig(args, action, getEscapeChars(args.Escape), noTmuxMode, 0); err != nil {
				return err
			}
			localNames, err = srv.recvFiles(dstDir, nil)
			if err != nil {
				return err
			}
			_, err = srv.recvExit()
			return err
		}()
	}()
	go func() {
		cliDone <- func() (err error) {
			defer func() {
				if r := recover(); r != nil {
					err = fmt.Errorf("panic: %v", r)
				}
			}()
			ver := &trzszVersion{1, 1, 8}
			if cfg.Proto == 2 {
				ver = &trzszVersion{1, 1, 0}
			}
			if err := cli.sendAction(true, ver, false); err != nil {
				return err
			}
			if _, err := cli.recvConfig(); err != nil {
				return err
			}
			files, err := checkPathsReadable(paths, false)
			if err != nil {
				return err
			}
			if _, err := cli.sendFiles(files, nil); err != nil {
				return err
			}
			return cli.clientExit("ok")
		}()
	}()
	var cerr, serr error
	var cok, sok bool
	watchdog := time.After(time.Duration(d.pInt("watchdog", 120)) * time.Second)
	for !(cok && sok) {
		select {
		case cerr = <-cliDone:
			cok = true
			if cerr != nil && !sok {
				c04Abort(cli, srv)
			}
		case serr = <-srvDone:
			sok = true
			if serr != nil && !cok {
				c04Abort(srv, cli)
			}
		case <-watchdog:
			stack := make([]byte, 1<<20)
			stack = stack[:runtime.Stack(stack, true)]
			_ = os.WriteFile(d.path(fmt.Sprintf("hang-run%d.stacks", cfg.Run)), stack, 0o644)
			return fmt.Errorf("upload run %d (%+v) did not finish within 120s", cfg.Run, *cfg)
		}
	}
	for _, e := range []error{cerr, serr} {
		if e != nil && strings.Contains(strings.ToLower(e.Error()), "timeout") {
			return fmt.Errorf("upload run %d timed out (%v / %v): not an observation", cfg.Run, cerr, serr)
		}
	}
	// ---- record the run
	srvW.mu.Lock()
	ann, annErr := c04CfgAnn(srvW.writes)
	srvW.mu.Unlock()
	if annErr != nil {
		if cerr == nil && serr == nil {
			return annErr
		}
		ann = [][]int{{-1, -1}}
	}
	parsed, inv := c04TableArrays(cli.transferConfig.EscapeTable)
	tmode := "base"
	if cfg.Escape {
		tmode = "all"
	}
	cfgJSON, _ := json.Marshal(cfg)
	tr.Emit(map[string]any{"e": "reset", "run": cfg.Run, "cfg": string(cfgJSON)}, nil)
	tr.Emit(map[string]any{"e": "table", "tmode": tmode, "ann": ann, "parsed": parsed, "inv": inv}, nil)
	for _, c := range contents {
		tr.Emit(map[string]any{"e": "src", "bytes": vInts(c), "comp": cfg.Comp}, nil)
	}
	cliW.mu.Lock()
	nbytes := 0
	for _, w := range cliW.writes {
		tr.Emit(map[string]any{"e": "cw", "b": vInts(w)}, nil)
		nbytes += len(w)
	}
	nw := len(cliW.writes)
	first, last := "", ""
	if nw > 0 {
		first, last = string(cliW.writes[0][:minInt(5, len(cliW.writes[0]))]), string(cliW.writes[nw-1][:minInt(6, len(cliW.writes[nw-1]))])
	}
	cliW.mu.Unlock()
	for i := range contents {
		var got []byte
		if i < len(localNames) {
			got, _ = os.ReadFile(filepath.Join(dstDir, localNames[i]))
		} else {
			got, _ = os.ReadFile(filepath.Join(dstDir, fmt.Sprintf("f%d.bin", i)))
		}
		tr.Emit(map[string]any{"e": "dst", "bytes": vInts(got)}, nil)
	}
	es := func(e error) string {
		if e == nil {
			return ""
		}
		return e.Error()
	}
	tr.Emit(map[string]any{"e": "done", "cerr": es(cerr), "serr": es(serr)}, nil)
	d.add("client_writes", nw)
	d.add("client_bytes", nbytes)
	if cerr == nil && serr == nil {
		d.add("uploads_ok", 1)
		if first == "#ACT:" && last == "#EXIT:" {
			d.add("act_to_exit", 1)
		}
	} else {
		d.add("uploads_failed", 1)
		d.set("last_failure", fmt.Sprintf("run %d: client=%v server=%v", cfg.Run, cerr, serr))
	}
	return nil
}

func c04WirePlan(run int, rng *rand.Rand) *c04WireCfg {
	cfg := &c04WireCfg{Run: run}
	cfg.Escape = run%2 == 1
	cfg.Compress = []int{kCompressNo, kCompressYes, kCompressAuto}[(run/2)%3]
	cfg.Proto = []int{4, 4, 2, 1}[(run/6)%4]
	cfg.Bufsize = []int64{1024, 4096, 10 * 1024 * 1024, 20000}[rng.Intn(4)]
	cfg.Piece = []int{0, 1 + rng.Intn(7), 64 + rng.Intn(4000)}[rng.Intn(3)]
	nfiles := 1 + rng.Intn(2)
	for i := 0; i < nfiles; i++ {
		var n int
		switch rng.Intn(6) {
		case 0:
			n = rng.Intn(3) // empty and tiny files
		case 1:
			n = 256 + rng.Intn(300) // below the 512 byte threshold of automatic compression
		case 2, 3:
			n = 600 + rng.Intn(6000)
		default:
			n = 9000 + rng.Intn(16000) // several DATA frames, frame boundaries inside the escaped stream
		}
		if i == 0 && n < 256 {
			n = 256 + rng.Intn(64)
		}
		cfg.Sizes = append(cfg.Sizes, n)
	}
	if cfg.Proto >= 2 && (run%8 == 5 || run%8 == 2) {
		cfg.Slow = true
		cfg.Bufsize = []int64{4096, 20000}[rng.Intn(2)]
		cfg.Sizes = []int{60000 + rng.Intn(60000)} // a dozen blocks and more: the encoder runs ahead of the acknowledgements
	}
	switch {
	case cfg.Compress == kCompressNo:
		cfg.Comp = "no"
	case cfg.Compress == kCompressYes && cfg.Proto >= 3:
		cfg.Comp = "yes"
	default:
		cfg.Comp = "auto"
	}
	return cfg
}

func c04Wire(d *vCtx) error {
	shards := d.pInt("shards", 16)
	n := d.pInt("uploads", 48)
	only := d.pInt("only", -1)
	traces := make([]*vTrace, shards)
	for i := range traces {
		t, err := vNewTrace(d.path(fmt.Sprintf("wire-%02d.ndjson", i)))
		if err != nil {
			return err
		}
		traces[i] = t
	}
	var cfgs []*c04WireCfg
	ran := 0
	for run := 0; run < n; run++ {
		if only >= 0 && run != only {
			continue
		}
		rng := d.rng(int64(500000 + run))
		cfg := c04WirePlan(run, rng)
		if err := c04OneUpload(d, traces[run%shards], cfg, rng); err != nil {
			return err
		}
		cfgs = append(cfgs, cfg)
		ran++
	}
	events := 0
	used := 0
	for _, t := range traces {
		events += t.Len()
		if t.Len() > 0 {
			used++
		}
		if err := t.Close(); err != nil {
			return err
		}
	}
	d.set("runs", ran)
	d.set("events", events)
	d.set("shards", shards)
	d.set("shards_used", used)
	return vWriteJSON(d.path("wire-cfgs.json"), cfgs)
}
