//go:build verif

package trzsz

// C03 drivers: real trzszBuffer executions recorded for WireTrace.tla (c03_tv) and TLC-exported
// behaviours of Wire.tla replayed into a real trzszBuffer (c03_mbt).

import (
	"bytes"
	"fmt"
	"io"
	"math/rand"
	"runtime"
	"strings"
	"sync"
	"time"
)

type c03Op struct {
	kind  string // line | junk | bin
	n     int
	timed bool
}

func c03ErrClass(err error) string {
	switch {
	case err == nil:
		return "ok"
	case err == errStopped:
		return "stopped"
	case err == errReceiveDataTimeout:
		return "timeout"
	case strings.Contains(err.Error(), "Interrupted"):
		return "int"
	default:
		return "err:" + err.Error()
	}
}

// c03Parked reports whether some goroutine is parked in (*trzszBuffer).nextBuffer's select.
func c03Parked() bool {
	buf := make([]byte, 1<<16)
	for {
		n := runtime.Stack(buf, true)
		if n < len(buf) {
			buf = buf[:n]
			break
		}
		buf = make([]byte, len(buf)*2)
	}
	for _, g := range bytes.Split(buf, []byte("\n\n")) {
		if bytes.Contains(g, []byte("(*trzszBuffer).nextBuffer")) {
			nl := bytes.IndexByte(g, '\n')
			if nl > 0 && bytes.Contains(g[:nl], []byte("[select")) {
				return true
			}
		}
	}
	return false
}

// c03PumpReader hands the chunks to the input pump, one per Read; each is recorded as a push when it is
// handed over (the reads of the run start only after the pump has ended).
type c03PumpReader struct {
	mu     sync.Mutex
	chunks [][]byte
	i      int
	attach bool
	done   bool
	tr     *vTrace
}

func (r *c03PumpReader) Read(p []byte) (int, error) {
	r.mu.Lock()
	defer r.mu.Unlock()
	if r.i >= len(r.chunks) {
		r.done = true
		return 0, io.EOF
	}
	c := r.chunks[r.i]
	r.i++
	n := copy(p, c)
	r.tr.Emit(map[string]any{"e": "push", "c": vInts(c[:n])}, nil)
	if r.attach && r.i == len(r.chunks) {
		r.done = true
		return n, io.EOF
	}
	return n, nil
}

func (r *c03PumpReader) ended() bool {
	r.mu.Lock()
	defer r.mu.Unlock()
	return r.done
}

// c03PumpAlive: the goroutine of wrapTransferInput is still running.
func c03PumpAlive() bool {
	buf := make([]byte, 1<<16)
	for {
		n := runtime.Stack(buf, true)
		if n < len(buf) {
			buf = buf[:n]
			break
		}
		buf = make([]byte, len(buf)*2)
	}
	return bytes.Contains(buf, []byte("trzsz.wrapTransferInput"))
}

type c03Run struct {
	tr       *vTrace
	b        *trzszBuffer
	done     chan struct{}
}

// waitSettled waits until the reader finished all its ops (false) or is parked in the select
// with an empty channel (true).  A reader that neither returns nor parks within 10 s is
// reported as hang (also returns true so that the run is ended by a stop).
func (r *c03Run) waitSettled() (parked bool, hang bool) {
	deadline := time.Now().Add(10 * time.Second)
	spins := 0
	for {
		select {
		case <-r.done:
			return false, false
		default:
		}
		if len(r.b.bufCh) == 0 {
			if spins > 2 && c03Parked() {
				select {
				case <-r.done:
					return false, false
				default:
				}
				if len(r.b.bufCh) == 0 {
					return true, false
				}
			}
		}
		spins++
		if spins < 50 {
			runtime.Gosched()
		} else {
			time.Sleep(50 * time.Microsecond)
		}
		if time.Now().After(deadline) {
			return true, true
		}
	}
}

// c03Execute runs one schedule on a fresh trzszBuffer and records it.
// mode 0: all chunks are pushed before the reads start; mode 1: reads start first, the pusher
// runs concurrently with random yields; mode 2: timed scenario (fire / newtimeout at parked points).
// mode 3 / 4: the chunks come through the input pump (wrapTransferInput) from a reader that returns one
// chunk per Read and reports the end of the stream with a separate empty read (3) or together with
// the last bytes (4: a Read may return n > 0 and an error); the reads start when the pump has ended.
// mode 5: as 3, but the stream has more reads than the buffer queues (10000): the reads start when the pump
// has ended or stands blocked on the full queue (a backlog must hold the pump back, never lose a read).
func c03Execute(tr *vTrace, chunks [][]byte, ops []c03Op, mode int, rng *rand.Rand) (hang bool) {
	b := newTrzszBuffer()
	var pumpT *trzszTransfer
	if mode >= 3 {
		pumpT = newTransfer(io.Discard, nil, false, nil)
		b = pumpT.buffer
	}
	r := &c03Run{tr: tr, b: b, done: make(chan struct{})}
	tr.Emit(map[string]any{"e": "reset"}, nil)
	push := func(c []byte) {
		cc := append([]byte(nil), c...)
		tr.Emit(map[string]any{"e": "push", "c": vInts(cc)}, func() { b.addBuffer(cc) })
	}
	// every timed read gets a fresh timer channel (as getNewTimeout does); curTimer is the one
	// the parked reader currently listens to (replaced by the driver after a newtimeout swap)
	var timerMu sync.Mutex
	var curTimer chan time.Time
	reader := func() {
		defer close(r.done)
		for _, op := range ops {
			var tc <-chan time.Time
			if op.timed && mode == 2 {
				c := make(chan time.Time, 1)
				timerMu.Lock()
				curTimer = c
				timerMu.Unlock()
				tc = c
			} else {
				timerMu.Lock()
				curTimer = nil
				timerMu.Unlock()
			}
			tr.Emit(map[string]any{"e": "begin", "op": op.kind, "n": op.n, "timed": tc != nil}, nil)
			var val []byte
			var err error
			switch op.kind {
			case "line":
				val, err = b.readLine(false, tc)
			case "junk":
				val, err = b.readLine(true, tc)
			case "bin":
				val, err = b.readBinary(op.n, tc)
			}
			res := c03ErrClass(err)
			tr.Emit(map[string]any{"e": "end", "res": res, "val": vInts(val), "idx": b.nextIdx}, nil)
			if err != nil {
				return
			}
		}
	}
	if mode >= 3 {
		pr := &c03PumpReader{chunks: chunks, attach: mode == 4, tr: tr}
		wrapTransferInput(pumpT, pr, false)
		deadline := time.Now().Add(10 * time.Second)
		for !pr.ended() || c03PumpAlive() {
			if mode == 5 && len(b.bufCh) == cap(b.bufCh) {
				break
			}
			if time.Now().After(deadline) {
				tr.Emit(map[string]any{"e": "hang"}, nil)
				return true
			}
			time.Sleep(20 * time.Microsecond)
		}
		go reader()
	} else if mode == 0 {
		for _, c := range chunks {
			push(c)
		}
		go reader()
	} else {
		go reader()
		for _, c := range chunks {
			if mode == 1 {
				switch rng.Intn(4) {
				case 0:
					runtime.Gosched()
				case 1:
					time.Sleep(time.Duration(rng.Intn(30)) * time.Microsecond)
				}
			} else if mode == 2 && rng.Intn(3) == 0 {
				// timed scenario: at a parked point fire the timer, possibly after installing a new one
				if parked, h := r.waitSettled(); parked && !h {
					timerMu.Lock()
					cur := curTimer
					timerMu.Unlock()
					if cur != nil {
						tr.Emit(map[string]any{"e": "quiescent"}, nil)
						if rng.Intn(2) == 0 {
							nt := make(chan time.Time, 1)
							tr.Emit(map[string]any{"e": "newtimeout"}, func() { b.setNewTimeout(nt) })
							tr.Emit(map[string]any{"e": "fire"}, func() { cur <- time.Now() })
							// the reader swaps to nt and carries on; later fires go to nt
							timerMu.Lock()
							curTimer = nt
							timerMu.Unlock()
							if p2, h2 := r.waitSettled(); p2 && !h2 {
								tr.Emit(map[string]any{"e": "quiescent"}, nil)
							}
						} else {
							tr.Emit(map[string]any{"e": "fire"}, func() { cur <- time.Now() })
						}
					}
				}
			}
			select {
			case <-r.done:
			default:
			}
			push(c)
		}
	}
	parked, h := r.waitSettled()
	if h {
		tr.Emit(map[string]any{"e": "hang"}, nil)
	}
	if parked {
		if !h {
			tr.Emit(map[string]any{"e": "quiescent"}, nil)
		}
		tr.Emit(map[string]any{"e": "stop"}, func() { b.stopBuffer() })
		select {
		case <-r.done:
		case <-time.After(10 * time.Second):
			tr.Emit(map[string]any{"e": "hang"}, nil)
			return true
		}
	}
	return h
}

func c03Segmentations(s []byte, mask int) [][]byte {
	// bit i of mask set => cut after byte i (0-based, i < len-1)
	var res [][]byte
	start := 0
	for i := 0; i < len(s); i++ {
		if i == len(s)-1 || mask&(1<<i) != 0 {
			res = append(res, s[start:i+1])
			start = i + 1
		}
	}
	return res
}

func init() {
	vRegister("c03_tv", c03TV)
	vRegister("c03_mbt", c03MBT)
}

func c03TV(d *vCtx) error {
	maxLen := d.pInt("maxlen", 4)
	shards := d.pInt("shards", 16)
	nrand := d.pInt("random", 1500)
	alphabet := []byte{'a', '\n', '\r', 3}
	if d.pBool("alpha6", false) {
		alphabet = []byte{'a', '\n', '\r', 3, '#', ':'}
	}
	opKinds := []c03Op{{"line", 0, false}, {"junk", 0, false}, {"bin", 1, false}, {"bin", 2, false}, {"bin", 0, false}}
	var opSeqs [][]c03Op
	for _, a := range opKinds {
		opSeqs = append(opSeqs, []c03Op{a, a, a, a, a, a})
		for _, b2 := range opKinds {
			if a != b2 {
				opSeqs = append(opSeqs, []c03Op{a, b2, a, b2, a, b2})
			}
		}
	}
	traces := make([]*vTrace, shards)
	for i := range traces {
		t, err := vNewTrace(d.path(fmt.Sprintf("trace-%02d.ndjson", i)))
		if err != nil {
			return err
		}
		traces[i] = t
	}
	rng := d.rng(3)
	runs, hangs, pumpRuns := 0, 0, 0
	// exhaustive part: every stream <= maxLen over the alphabet, every segmentation, the op sequences above
	var streams [][]byte
	var gen func(cur []byte)
	gen = func(cur []byte) {
		if len(cur) > 0 {
			streams = append(streams, append([]byte(nil), cur...))
		}
		if len(cur) == maxLen {
			return
		}
		for _, c := range alphabet {
			gen(append(cur, c))
		}
	}
	gen(nil)
	for _, s := range streams {
		for mask := 0; mask < 1<<(len(s)-1); mask++ {
			chunks := c03Segmentations(s, mask)
			for oi, ops := range opSeqs {
				mode := (runs + oi) % 2
				if c03Execute(traces[runs%shards], chunks, ops, mode, rng) {
					hangs++
				}
				runs++
			}
			// the same stream through the input pump, the end of the stream reported apart from / with the last bytes
			for pm := 3; pm <= 4; pm++ {
				ops := opSeqs[(runs+pm)%len(opSeqs)]
				if c03Execute(traces[runs%shards], chunks, ops, pm, rng) {
					hangs++
				}
				runs++
				pumpRuns++
			}
		}
	}
	d.set("pump_runs", pumpRuns)
	d.set("exhaustive_runs", runs)
	d.set("streams", len(streams))
	// random part: long streams over the whole byte range biased towards the bytes that matter
	for i := 0; i < nrand; i++ {
		n := 1 + rng.Intn(512)
		s := make([]byte, n)
		for j := range s {
			switch rng.Intn(10) {
			case 0:
				s[j] = '\n'
			case 1:
				s[j] = '\r'
			case 2:
				if rng.Intn(8) == 0 {
					s[j] = 3
				} else {
					s[j] = '#'
				}
			case 3:
				s[j] = ':'
			default:
				s[j] = byte(rng.Intn(256))
				if s[j] == 3 && rng.Intn(4) != 0 {
					s[j] = 'x'
				}
			}
		}
		var chunks [][]byte
		for p := 0; p < n; {
			k := 1 + rng.Intn(1+rng.Intn(64))
			if p+k > n {
				k = n - p
			}
			chunks = append(chunks, s[p:p+k])
			p += k
		}
		nops := 1 + rng.Intn(12)
		ops := make([]c03Op, nops)
		for j := range ops {
			switch rng.Intn(3) {
			case 0:
				ops[j] = c03Op{"line", 0, true}
			case 1:
				ops[j] = c03Op{"junk", 0, true}
			default:
				ops[j] = c03Op{"bin", rng.Intn(40), true}
			}
		}
		if c03Execute(traces[runs%shards], chunks, ops, i%5, rng) {
			hangs++
		}
		runs++
	}
	// deep backlog: more single-byte reads than the queue holds, lines of 40..90 bytes, through the input pump
	if deep := d.pInt("deep", 10400); deep > 0 {
		dt, err := vNewTrace(d.path(fmt.Sprintf("trace-%02d.ndjson", shards)))
		if err != nil {
			return err
		}
		var chunks [][]byte
		var ops []c03Op
		for len(chunks) < deep {
			n := 40 + rng.Intn(51)
			for j := 0; j < n; j++ {
				chunks = append(chunks, []byte{byte('a' + rng.Intn(26))})
			}
			chunks = append(chunks, []byte{'\n'})
			ops = append(ops, c03Op{"line", 0, false})
		}
		if c03Execute(dt, chunks, ops, 5, rng) {
			hangs++
		}
		runs++
		d.set("deep_backlog_reads", len(chunks))
		traces = append(traces, dt)
	}
	events := 0
	for _, t := range traces {
		events += t.Len()
		if err := t.Close(); err != nil {
			return err
		}
	}
	d.set("runs", runs)
	d.set("hangs", hangs)
	d.set("events", events)
	d.set("shards", shards)
	return nil
}

// c03MBT replays behaviours exported by TLC from WireGen.tla.  Each case is a list of steps
//   {a:"push", c:[..]} | {a:"start", op, n} | {a:"ret", res, val, idx} | {a:"blocked"}
// "ret" means the model's reader has returned at this point of the behaviour: the real reader
// must deliver the same result without any further push.  "blocked" (only last) means the
// model's reader is waiting: the real one must be parked.
func c03MBT(d *vCtx) error {
	cases, err := vReadNDJSON(d.pStr("cases", d.path("cases.ndjson")))
	if err != nil {
		return err
	}
	type mism struct {
		Case int    `json:"case"`
		Step int    `json:"step"`
		Want any    `json:"want"`
		Got  any    `json:"got"`
		Msg  string `json:"msg"`
	}
	var mismatches []mism
	replayed := 0
	for ci, c := range cases {
		steps, _ := c["steps"].([]any)
		b := newTrzszBuffer()
		type ret struct {
			res string
			val []byte
			idx int
		}
		resCh := make(chan ret, 1)
		pending := false
		bad := func(si int, want, got any, msg string) {
			mismatches = append(mismatches, mism{ci, si, want, got, msg})
		}
	steps:
		for si, st := range steps {
			s := st.(map[string]any)
			switch s["a"] {
			case "push":
				b.addBuffer(vBytes(s["c"]))
			case "start":
				op, n := s["op"].(string), int(s["n"].(float64))
				pending = true
				go func() {
					var val []byte
					var err error
					switch op {
					case "line":
						val, err = b.readLine(false, nil)
					case "junk":
						val, err = b.readLine(true, nil)
					case "bin":
						val, err = b.readBinary(n, nil)
					}
					resCh <- ret{c03ErrClass(err), append([]byte(nil), val...), b.nextIdx}
				}()
			case "ret":
				select {
				case r := <-resCh:
					pending = false
					want := s["res"].(string)
					if r.res != want || (want == "ok" && !bytes.Equal(r.val, vBytes(s["val"]))) || r.idx != int(s["idx"].(float64)) {
						bad(si, s, map[string]any{"res": r.res, "val": vInts(r.val), "idx": r.idx}, "result differs from the model")
						break steps
					}
				case <-time.After(10 * time.Second):
					bad(si, s, "no return within 10s", "complete item not delivered without further input")
					break steps
				}
			case "blocked":
				deadline := time.Now().Add(10 * time.Second)
				for {
					select {
					case r := <-resCh:
						pending = false
						bad(si, "blocked", map[string]any{"res": r.res, "val": vInts(r.val)}, "returned although the model waits")
						break steps
					default:
					}
					if len(b.bufCh) == 0 && c03Parked() {
						break
					}
					if time.Now().After(deadline) {
						bad(si, "blocked", "neither parked nor returned", "")
						break steps
					}
					runtime.Gosched()
				}
			}
		}
		if pending {
			b.stopBuffer()
			select {
			case <-resCh:
			case <-time.After(5 * time.Second):
			}
		}
		replayed++
	}
	d.set("replayed", replayed)
	d.set("mismatches", len(mismatches))
	return vWriteJSON(d.path("mismatches.json"), mismatches)
}
