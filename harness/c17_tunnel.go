//go:build verif

package trzsz

// C17 drivers (spec/Tunnel.tla, TunnelGen.tla, TunnelTrace.tla).
//
//   c17_mbt   every ordering exported by TLC from TunnelGen is forced onto the real code: the
//             server's acceptOnTunnel runs on a fake net.Listener whose Accept hands out net.Pipe
//             ends when the driver says so; each connection attempt is a scripted dialer whose
//             Writes / Reads / Close are driver steps; the client is a real TrzszFilter that
//             detects the trigger line and calls handleTrzsz -> connectToTunnel with a connector
//             under the driver's control (refuse | dead | good | bad reply | no reply, before or
//             after the real one-second timer); connection 1 runs through a harness proxy so
//             that the greeting and the reply can be held back.  A complete real transfer then
//             runs over whatever was adopted (or in-band).  Everything observed is recorded as
//             events for TunnelTrace.tla, which is the judge.
//   c17_tcp   the same over loopback TCP (listenForTunnel) with real dialers at random times,
//             including storms of connections that all know the greeting.
//   c17_relay one TrzszRelay hop (handleTunnelConn's double greeting) over loopback TCP.
//
// Observation points: the dialers' own connection ends, the fake listener, the connector, the
// proxy, the return values of recvAction / the role bodies, the destination files, and the code's
// own trace log (traceLogger records "rcvbuf" = reached the buffer, "ignout" = in-band input
// dropped, "tosvr" = written by the transfer), consumed through a channel installed by the
// harness.  Internals (t.tunnelConn) are only peeked at to decide how long to wait.

import (
	"bytes"
	"encoding/json"
	"fmt"
	"io"
	"math/rand"
	"net"
	"os"
	"path/filepath"
	"runtime"
	"runtime/debug"
	"runtime/pprof"
	"strings"
	"sync"
	"sync/atomic"
	"time"
)

func init() {
	vRegister("c17_mbt", c17MBT)
	vRegister("c17_tcp", c17TCP)
	vRegister("c17_relay", c17Relay)
}

// ---------------------------------------------------------------- recorder

type c17Rec struct {
	mu     sync.Mutex
	evs    []map[string]any
	sealed bool // the run is being torn down: late goroutines no longer record
}

func (r *c17Rec) seal() {
	r.mu.Lock()
	r.sealed = true
	r.mu.Unlock()
}

func (r *c17Rec) emit(ev map[string]any, do func()) {
	r.mu.Lock()
	if r.sealed {
		r.mu.Unlock()
		return
	}
	r.evs = append(r.evs, ev)
	if do != nil {
		do()
	}
	r.mu.Unlock()
}

func c17WaitFor(cond func() bool, max time.Duration) bool {
	deadline := time.Now().Add(max)
	sleep := 20 * time.Microsecond
	for {
		if cond() {
			return true
		}
		if time.Now().After(deadline) {
			return false
		}
		time.Sleep(sleep)
		if sleep < 2*time.Millisecond {
			sleep *= 2
		}
	}
}

// ---------------------------------------------------------------- fake listener

type c17Queued struct {
	idx  int
	conn net.Conn
}

type c17Listener struct {
	rec      *c17Rec
	cond     *sync.Cond // on rec.mu
	queue    []c17Queued
	released int
	closed   bool
	quiet    bool
	waiting  int
	accepts  int
	port     int
}

func newC17Listener(rec *c17Rec, port int) *c17Listener {
	return &c17Listener{rec: rec, cond: sync.NewCond(&rec.mu), port: port}
}

func (l *c17Listener) Accept() (net.Conn, error) {
	l.rec.mu.Lock()
	defer l.rec.mu.Unlock()
	l.waiting++
	for !l.closed && !(l.released > 0 && len(l.queue) > 0) {
		l.cond.Wait()
	}
	l.waiting--
	if l.closed {
		return nil, net.ErrClosed
	}
	q := l.queue[0]
	l.queue = l.queue[1:]
	l.released--
	l.accepts++
	if !l.rec.sealed {
		l.rec.evs = append(l.rec.evs, map[string]any{"e": "accept", "i": q.idx})
	}
	return q.conn, nil
}

func (l *c17Listener) Close() error {
	l.rec.mu.Lock()
	if !l.closed {
		l.closed = true
		if !l.quiet && !l.rec.sealed {
			l.rec.evs = append(l.rec.evs, map[string]any{"e": "lclose"})
		}
		for _, q := range l.queue {
			q.conn.Close()
		}
		l.queue = nil
	}
	l.cond.Broadcast()
	l.rec.mu.Unlock()
	return nil
}

func (l *c17Listener) Addr() net.Addr {
	return &net.TCPAddr{IP: net.IPv4(127, 0, 0, 1), Port: l.port}
}

// enqueue logs arrive/cdial and queues the server end; false = connection refused.
func (l *c17Listener) enqueue(ev string, idx int, conn net.Conn) bool {
	l.rec.mu.Lock()
	defer l.rec.mu.Unlock()
	ok := !l.closed
	e := map[string]any{"e": ev, "ok": ok}
	if ev == "arrive" {
		e["i"] = idx
	}
	if !l.rec.sealed {
		l.rec.evs = append(l.rec.evs, e)
	}
	if ok {
		l.queue = append(l.queue, c17Queued{idx, conn})
		l.cond.Broadcast()
	}
	return ok
}

// release lets one Accept return and waits until the loop is back in Accept or has closed.
func (l *c17Listener) release() {
	l.rec.mu.Lock()
	before := l.accepts
	if l.closed || len(l.queue) == 0 {
		l.rec.mu.Unlock()
		return
	}
	l.released++
	l.cond.Broadcast()
	l.rec.mu.Unlock()
	c17WaitFor(func() bool {
		l.rec.mu.Lock()
		defer l.rec.mu.Unlock()
		return l.closed || (l.accepts > before && l.waiting > 0)
	}, 5*time.Second)
}

func (l *c17Listener) isClosed() bool {
	l.rec.mu.Lock()
	defer l.rec.mu.Unlock()
	return l.closed
}

// ---------------------------------------------------------------- trace log tap

// c17Tap installs a channel into a traceLogger and classifies the records.
type c17Tap struct {
	side   string
	run    *c17Run
	ch     chan []byte
	done   chan struct{}
	quit   bool
	logger *traceLogger
}

var c17DevNull *os.File

func c17NewTap(run *c17Run, side string, logger *traceLogger) *c17Tap {
	t := &c17Tap{side: side, run: run, ch: make(chan []byte, 4096), done: make(chan struct{}), logger: logger}
	logger.traceLogChan.Store(&t.ch)
	logger.traceLogFile.Store(c17DevNull)
	go t.loop()
	return t
}

func (t *c17Tap) loop() {
	defer close(t.done)
	for rec := range t.ch {
		t.handle(rec)
		if t.quit {
			return
		}
	}
}

func (t *c17Tap) handle(rec []byte) {
	r := t.run
	if len(rec) < 3 || rec[0] != '[' {
		return
	}
	k := bytes.IndexByte(rec, ']')
	if k < 0 {
		return
	}
	typ := string(rec[1:k])
	if typ == "sync" {
		r.syncCh <- t.side
		return
	}
	if typ == "quit" {
		t.quit = true
		return
	}
	data, err := decodeString(strings.TrimSpace(string(rec[k+1:])))
	if err != nil {
		return
	}
	switch typ {
	case "rcvbuf":
		if i := bytes.Index(data, []byte("STRAY")); i >= 0 && i+6 < len(data) {
			c := data[i+5]
			src := -1
			if c >= '1' && c <= '9' {
				src = int(c - '0')
			} else if c == 'C' {
				src = 1
			}
			if src > 0 {
				r.rec.emit(map[string]any{"e": "fed", "side": t.side, "src": src}, nil)
				r.note("fed-" + t.side + fmt.Sprint(src))
			}
		}
		if bytes.Contains(data, []byte("INBANDGARBAGE")) {
			r.rec.emit(map[string]any{"e": "fed", "side": t.side, "src": 0}, nil)
			r.note("fed-" + t.side + "0")
			r.signal("garbage" + t.side)
		}
	case "ignout":
		if bytes.Contains(data, []byte("INBANDGARBAGE")) {
			r.rec.emit(map[string]any{"e": "ign", "side": t.side}, nil)
			r.signal("garbage" + t.side)
		}
	case "tosvr":
		if t.side == "C" {
			if bytes.HasPrefix(data, []byte("#ACT:")) {
				tun, ok := c17ParseAct(data)
				if ok {
					r.rec.emit(map[string]any{"e": "act", "tunnel": tun}, func() {
						r.actTunnel = tun
					})
					r.signal("act")
				}
			} else if bytes.HasPrefix(data, []byte("#EXIT:")) {
				r.signal("cexit")
			} else if bytes.HasPrefix(data, []byte("#FAIL:")) || bytes.HasPrefix(data, []byte("#fail:")) {
				r.signal("cfail")
			}
		}
	}
}

func c17ParseAct(line []byte) (tunnel bool, ok bool) {
	s := strings.TrimRight(string(line[5:]), "\r\n!")
	b, err := decodeString(s)
	if err != nil {
		return false, false
	}
	var a transferAction
	if json.Unmarshal(b, &a) != nil {
		return false, false
	}
	return a.TunnelConnected, true
}

// ---------------------------------------------------------------- one run

type c17Dialer struct {
	idx     int
	script  string
	d       net.Conn // dialer's end
	s       net.Conn // server's end (fake listener only)
	chunks  [][]byte
	classes []string
	wn      int
	arrived bool
	refused bool
	closed  bool // closed by the dialer itself
	gotEOF  bool
	gotRep  bool
	mu      sync.Mutex
}

type c17Run struct {
	id       int
	rng      *rand.Rand
	rec      *c17Rec
	upload   bool
	uid      string
	port     int
	cHello   string
	sHello   string
	work     string
	srcFiles []string
	dst      string

	st     *trzszTransfer
	filter *TrzszFilter
	tapS   *c17Tap
	tapC   *c17Tap
	syncCh chan string

	lis     *c17Listener
	dialers map[int]*c17Dialer

	// in-band plumbing
	c2sR *io.PipeReader
	c2sW *io.PipeWriter
	s2cR *io.PipeReader
	s2cW *io.PipeWriter
	cinR *io.PipeReader
	cinW *io.PipeWriter

	// connection 1
	outcome    string
	retCh      chan net.Conn
	ca, cb     net.Conn
	sa, sb     net.Conn
	connPort   atomic.Int64
	connCalls  atomic.Int64
	replyBytes []byte
	helloSeen  atomic.Bool // the client's greeting was read from cb
	cbReader   atomic.Bool // persistent reader on cb running
	cbClosed   atomic.Bool // the client closed its end (observed)
	teardown   atomic.Bool
	pclosed    bool

	binary    bool
	unknown   bool
	mild      bool // relay in the path: garbage without trigger / FAIL text (the relay itself reacts to those)
	relayPort atomic.Int64
	sigMu     sync.Mutex
	addrIdx   map[string]int
	sigs      map[string]chan struct{}
	notes     map[string]int
	actTunnel bool

	serverErr  error
	serverDone chan struct{}
	clientRes  chan error
	aux        map[string]any
}

func (r *c17Run) sig(name string) chan struct{} {
	r.sigMu.Lock()
	defer r.sigMu.Unlock()
	c, ok := r.sigs[name]
	if !ok {
		c = make(chan struct{})
		r.sigs[name] = c
	}
	return c
}

func (r *c17Run) signal(name string) {
	c := r.sig(name)
	r.sigMu.Lock()
	defer r.sigMu.Unlock()
	select {
	case <-c:
	default:
		close(c)
	}
}

func (r *c17Run) signalled(name string) bool {
	select {
	case <-r.sig(name):
		return true
	default:
		return false
	}
}

func (r *c17Run) waitSig(name string, max time.Duration) bool {
	select {
	case <-r.sig(name):
		return true
	case <-time.After(max):
		return false
	}
}

func (r *c17Run) note(k string) {
	r.sigMu.Lock()
	r.notes[k]++
	r.sigMu.Unlock()
}

// c17Greeting returns the greetings of this transfer and checks that they are derived from
// the id and the port.
func c17Greeting(uid string, port int) (string, string, bool) {
	c, s := getHelloConstant(uid, port)
	c2, s2 := getHelloConstant(uid, port+1)
	u2 := []byte(uid)
	if u2[0] == '9' {
		u2[0] = '8'
	} else {
		u2[0]++
	}
	c3, s3 := getHelloConstant(string(u2), port)
	derived := c != s && c != c2 && s != s2 && c != c3 && s != s3 &&
		strings.Contains(c, fmt.Sprint(port)) && strings.Contains(s, fmt.Sprint(port))
	return c, s, derived
}

func c17MakeChunks(script string, idx int, hello, shello string, uid string, port int, rng *rand.Rand) ([][]byte, []string) {
	marker := fmt.Sprintf("#DATA:STRAY%d;\n", idx)
	switch script {
	case "right":
		return [][]byte{[]byte(hello)}, []string{"hello"}
	case "wrong":
		v := []string{shello, "GET / HTTP/1.1\r\nHost: x\r\n\r\n", "::TRZSZ::CLIENT::HELLO::", "\n", strings.ToLower(hello),
			"::TRZSZ:TRANSFER:R:1.1.8:" + uid + ":" + fmt.Sprint(port), marker, " " + hello, strings.Repeat("\x00", len(hello))}
		return [][]byte{[]byte(v[rng.Intn(len(v))])}, []string{"wrong"}
	case "wrongid":
		u := []byte(uid)
		k := rng.Intn(len(u) - 2)
		u[k] = '0' + (u[k]-'0'+1+byte(rng.Intn(9)))%10
		oc, _ := getHelloConstant(string(u), port)
		op, _ := getHelloConstant(uid, port+1+rng.Intn(9))
		of, _ := getHelloConstant(uid+"00", port) // the complete id instead of the shortened one
		v := []string{oc, op, of, hello + fmt.Sprint(rng.Intn(10)), hello[:len(hello)-1], hello[1:]}
		return [][]byte{[]byte(v[rng.Intn(len(v))])}, []string{"wrongid"}
	case "long":
		v := []string{hello + marker, hello + "\n", hello + " ", hello + hello, hello + "\x00"}
		return [][]byte{[]byte(v[rng.Intn(len(v))])}, []string{"long"}
	case "split":
		k := 1 + rng.Intn(len(hello)-1)
		if rng.Intn(3) == 0 {
			k = len(hello) - 1
		}
		return [][]byte{[]byte(hello[:k]), []byte(hello[k:])}, []string{"half1", "half2"}
	case "flood":
		b := bytes.Repeat([]byte(marker+"#SUCC:1\n"), 20)
		if rng.Intn(2) == 0 {
			b = append([]byte(hello), b...)
		}
		return [][]byte{b}, []string{"flood"}
	}
	return nil, nil
}

type c17Case struct {
	ID      int              `json:"id"`
	Scripts []string         `json:"scripts"`
	Outcome string           `json:"outcome"`
	Steps   []map[string]any `json:"steps"`
	Replied []bool           `json:"replied"`
	Hpc     []string         `json:"hpc"`
	Adopted int              `json:"adopted"`
	Act     string           `json:"act"`
	Must    bool             `json:"must"`
	Mode    string           `json:"mode"` // "" = steps; "storm" = all right greetings released together
	Seed    int64            `json:"seed"`
}

func c17NewRun(id int, seed int64, base string, outcome string, upload bool) (*c17Run, error) {
	r := &c17Run{id: id, rng: rand.New(rand.NewSource(seed)), rec: &c17Rec{}, upload: upload, outcome: outcome,
		dialers: map[int]*c17Dialer{}, sigs: map[string]chan struct{}{}, notes: map[string]int{}, addrIdx: map[string]int{},
		retCh: make(chan net.Conn, 1), serverDone: make(chan struct{}), syncCh: make(chan string, 4), aux: map[string]any{}}
	r.uid = fmt.Sprintf("%011d00", (seed*7919+int64(id)*104729)%100000000000)
	if r.uid[0] == '0' {
		r.uid = "1" + r.uid[1:]
	}
	r.port = 20000 + int((seed+int64(id)*31)%40000)
	var derived bool
	r.cHello, r.sHello, derived = c17Greeting(r.uid, r.port)
	r.aux["greeting_derived"] = derived
	r.work = filepath.Join(base, fmt.Sprintf("run-%06d", id))
	src := filepath.Join(r.work, "src")
	r.dst = filepath.Join(r.work, "dst")
	if err := os.MkdirAll(src, 0755); err != nil {
		return nil, err
	}
	if err := os.MkdirAll(r.dst, 0755); err != nil {
		return nil, err
	}
	r.binary = r.rng.Intn(2) == 0
	nfiles := 1 + r.rng.Intn(2)
	for i := 0; i < nfiles; i++ {
		// small files: every protocol line costs the code's trace log (our observation point) a
		// fresh zlib writer (~1 MB of garbage per record)
		n := []int{0, 1, 37, 600, 3000, 12000}[r.rng.Intn(6)]
		b := make([]byte, n)
		switch r.rng.Intn(3) {
		case 0:
			r.rng.Read(b)
		case 1:
			for j := range b {
				const alpha = "#DATA:\n\x03\x1b!,"
				b[j] = alpha[r.rng.Intn(len(alpha))]
			}
		default:
			for j := range b {
				b[j] = byte('a' + j%7)
			}
		}
		p := filepath.Join(src, fmt.Sprintf("f%d-%d.bin", i, id))
		if err := os.WriteFile(p, b, 0644); err != nil {
			return nil, err
		}
		r.srcFiles = append(r.srcFiles, p)
	}
	return r, nil
}

// start wires server and client and shows the trigger line to the client's filter.
func (r *c17Run) start(listener net.Listener, connector func(int) net.Conn) {
	r.c2sR, r.c2sW = io.Pipe()
	r.s2cR, r.s2cW = io.Pipe()
	r.cinR, r.cinW = io.Pipe()
	slog := &traceLogger{}
	r.tapS = c17NewTap(r, "S", slog)
	r.st = newTransfer(r.s2cW, nil, false, slog)
	if listener != nil {
		r.st.acceptOnTunnel(listener, r.uid, r.port)
	}
	wrapTransferInput(r.st, r.c2sR, false)

	sink := &c17Sink{}
	r.filter = NewTrzszFilter(r.cinR, sink, r.c2sW, r.s2cR, TrzszOptions{TerminalColumns: 100, DetectTraceLog: true})
	r.tapC = c17NewTap(r, "C", r.filter.logger)
	if connector != nil {
		r.filter.SetTunnelConnector(connector)
	}
	mode := "S"
	if r.upload {
		mode = "R"
		r.filter.oneTimeUploadFiles = r.srcFiles
		r.clientRes = make(chan error, 1)
		r.filter.oneTimeUploadResult = r.clientRes
	} else {
		r.filter.SetDefaultDownloadPath(r.dst)
	}
	go r.serverRole()
	trigger := fmt.Sprintf("\x1b7\x07::TRZSZ:TRANSFER:%s:%s:%s:%d\r\n", mode, kTrzszVersion, r.uid, r.port)
	_, _ = r.s2cW.Write([]byte(trigger))
}

type c17Sink struct{}

func (c17Sink) Write(p []byte) (int, error) { return len(p), nil }
func (c17Sink) Close() error                { return nil }

func (r *c17Run) garbage(side string) []byte {
	if r.mild {
		return []byte(fmt.Sprintf("#DATA:INBANDGARBAGE%s\n", side))
	}
	return []byte(fmt.Sprintf("\x1b7\x07::TRZSZ:TRANSFER:R:%s:%s:%d\r\n#DATA:INBANDGARBAGE%s\n#FAIL:eJwDAAAAAAE=\n\x03", kTrzszVersion, r.uid, r.port, side))
}

// serverRole is the body of trz (upload) / tsz (download) after the trigger was printed.
func (r *c17Run) serverRole() {
	defer close(r.serverDone)
	st := r.st
	err := func() (err error) {
		defer func() {
			if p := recover(); p != nil {
				err = fmt.Errorf("panic: %v", p)
			}
		}()
		action, err := st.recvAction()
		if err != nil {
			return err
		}
		r.rec.emit(map[string]any{"e": "sact", "tunnel": action.TunnelConnected}, nil)
		r.signal("sact")
		args := &baseArgs{Quiet: true, Bufsize: bufferSize{Size: 10 * 1024 * 1024}, Timeout: 30, Binary: r.binary}
		if args.Binary && !action.SupportBinary { // as trz.go recvFiles / tsz.go sendFiles do
			args.Binary = false
		}
		if err := st.sendConfig(args, action, getEscapeChars(false), noTmuxMode, 0); err != nil {
			return err
		}
		if action.TunnelConnected {
			// both ends have agreed: whatever comes from the terminal from now on must be ignored
			r.rec.emit(map[string]any{"e": "inb", "side": "S"}, nil)
			_, _ = r.c2sW.Write(r.garbage("S"))
			r.waitSig("garbageS", 3*time.Second)
			r.rec.emit(map[string]any{"e": "inb", "side": "C"}, nil)
			_, _ = r.s2cW.Write(r.garbage("C"))
			r.waitSig("garbageC", 3*time.Second)
		}
		if r.upload {
			if _, err := st.recvFiles(r.dst, nil); err != nil {
				return err
			}
		} else {
			files, err := checkPathsReadable(r.srcFiles, false)
			if err != nil {
				return err
			}
			if _, err := st.sendFiles(files, nil); err != nil {
				return err
			}
		}
		_, err = st.recvExit()
		return err
	}()
	r.serverErr = err
	if err != nil {
		st.serverErrorQuiet(err)
	}
	if !r.mild {
		st.cleanup()
	}
	// with a relay in the path the server's end is closed last (see c17EOFConn): the relay's
	// pump loops for ever when its own side closes a connection it is still reading
}

// serverErrorQuiet tells the client about a failure like serverError does, without the
// terminal handling (which writes to the process' stdout).
func (t *trzszTransfer) serverErrorQuiet(err error) {
	t.stopped.Store(true)
	t.buffer.drainBuffer()
	_ = t.sendString("FAIL", err.Error())
}

// finishTransfer waits for both roles and emits ret / fs.
func (r *c17Run) finishTransfer(constrained bool) (hung bool) {
	wd := 100 * time.Second
	if r.unknown {
		// it cannot be told from outside whether a stranger that knew the greeting was adopted
		// somewhere on the path: let the transfer run, but do not wait beyond the code's own time-outs
		wd = 35 * time.Second
	} else if !constrained {
		// a stranger that knew the greeting was adopted: nothing is promised; end it quickly
		time.Sleep(30 * time.Millisecond)
		r.st.stopTransferringFiles(false)
		r.filter.StopTransferringFiles(false)
		wd = 3 * time.Second
	}
	deadline := time.After(wd)
	sdone, cdone := false, false
	cok := false
	cerr := ""
	serverDone := r.serverDone
	var clientCh <-chan error = r.clientRes
	exitCh, failCh := r.sig("cexit"), r.sig("cfail")
	for !(sdone && cdone) && !hung {
		select {
		case <-serverDone:
			sdone = true
			serverDone = nil
		case e, ok := <-clientCh:
			if ok {
				cdone, cok = true, e == nil
				if e != nil {
					cerr = e.Error()
				}
			}
			clientCh = nil
		case <-exitCh:
			exitCh = nil
			if !r.upload {
				cdone, cok = true, true
			}
		case <-failCh:
			failCh = nil
			if !r.upload {
				cdone, cok = true, false
				cerr = "client sent fail"
			}
		case <-deadline:
			hung = true
		}
	}
	// the client's handleTrzsz has returned when filter.transfer is nil again
	c17WaitFor(func() bool { return r.filter.transfer.Load() == nil }, 3*time.Second)
	sok := sdone && r.serverErr == nil
	serr := ""
	if r.serverErr != nil {
		serr = r.serverErr.Error()
	}
	if len(serr) > 200 {
		serr = serr[:200]
	}
	if len(cerr) > 200 {
		cerr = cerr[:200]
	}
	same, detail := r.compareFiles()
	if hung && constrained && !r.unknown {
		r.aux["hung"] = true
	}
	r.aux["server_err"], r.aux["client_err"], r.aux["fs_detail"] = serr, cerr, detail
	r.rec.emit(map[string]any{"e": "ret", "role": "V", "ok": sok, "msg": serr}, nil)
	r.rec.emit(map[string]any{"e": "ret", "role": "C", "ok": cok, "msg": cerr}, nil)
	r.rec.emit(map[string]any{"e": "fs", "same": same, "detail": detail}, nil)
	return hung && constrained && !r.unknown
}

func (r *c17Run) compareFiles() (bool, string) {
	want := map[string][]byte{}
	for _, p := range r.srcFiles {
		b, err := os.ReadFile(p)
		if err != nil {
			return false, "src unreadable"
		}
		want[filepath.Base(p)] = b
	}
	ents, err := os.ReadDir(r.dst)
	if err != nil {
		return false, "dst unreadable"
	}
	if len(ents) != len(want) {
		return false, fmt.Sprintf("%d entries, want %d", len(ents), len(want))
	}
	for _, e := range ents {
		w, ok := want[e.Name()]
		if !ok {
			return false, "unexpected " + e.Name()
		}
		g, err := os.ReadFile(filepath.Join(r.dst, e.Name()))
		if err != nil || !bytes.Equal(g, w) {
			return false, "differs " + e.Name()
		}
	}
	return true, ""
}

// drainTaps makes sure every record written so far has been classified.
func (r *c17Run) drainTaps() {
	time.Sleep(3 * time.Millisecond)
	for _, t := range []*c17Tap{r.tapS, r.tapC} {
		select {
		case t.ch <- []byte("[sync]"):
			select {
			case <-r.syncCh:
			case <-time.After(2 * time.Second):
			}
		case <-time.After(2 * time.Second):
		}
	}
}

func (r *c17Run) close() {
	r.rec.seal()
	r.teardown.Store(true)
	if r.lis != nil {
		r.lis.rec.mu.Lock()
		r.lis.quiet = true
		r.lis.rec.mu.Unlock()
		r.lis.Close()
	}
	for _, d := range r.dialers {
		if d.d != nil {
			d.d.Close()
		}
		if d.s != nil {
			d.s.Close()
		}
	}
	for _, c := range []net.Conn{r.ca, r.cb, r.sa, r.sb} {
		if c != nil {
			c.Close()
		}
	}
	select {
	case r.retCh <- nil:
	default:
	}
	if r.mild {
		time.Sleep(30 * time.Millisecond)
	}
	r.st.cleanup()
	for _, t := range []*c17Tap{r.tapS, r.tapC} {
		t.logger.traceLogChan.Store(nil)
		select {
		case t.ch <- []byte("[quit]"):
		default:
		}
	}
	r.cinW.Close()
	r.c2sW.Close()
	// the filter's wrapOutput goroutine stays for ever (see below): cut what it keeps alive
	r.filter.SetTunnelConnector(nil)
	r.filter.logger = nil
	// s2c stays open on purpose: TrzszFilter.wrapOutput polls for ever after EOF
	os.RemoveAll(r.work)
}

// ---------------------------------------------------------------- dialer operations

func (r *c17Run) dialerObserve(d *c17Dialer, max time.Duration, final bool) string {
	buf := make([]byte, 512)
	_ = d.d.SetReadDeadline(time.Now().Add(max))
	n, err := d.d.Read(buf)
	what := ""
	switch {
	case n > 0 && string(buf[:n]) == r.sHello:
		what = "reply"
		d.gotRep = true
	case n > 0:
		what = "other"
		r.aux[fmt.Sprintf("other-%d", d.idx)] = string(buf[:n])
	case err == io.EOF || err == io.ErrClosedPipe || (err != nil && !c17IsTimeout(err)):
		what = "closed"
		d.gotEOF = true
	default:
		what = "open"
	}
	if what == "open" && !final {
		return what // only the final pass states that a connection stayed open
	}
	r.rec.emit(map[string]any{"e": "got", "i": d.idx, "what": what}, nil)
	return what
}

func c17IsTimeout(err error) bool {
	if ne, ok := err.(net.Error); ok && ne.Timeout() {
		return true
	}
	return err == os.ErrDeadlineExceeded
}

func (r *c17Run) dialerWrite(d *c17Dialer, chunk []byte, cls string, max time.Duration) error {
	r.rec.emit(map[string]any{"e": "w", "i": d.idx, "cls": cls}, nil)
	d.wn++
	_ = d.d.SetWriteDeadline(time.Now().Add(max))
	_, err := d.d.Write(chunk)
	return err
}

// strayTail: the rest of the script and then protocol-looking bytes, for as long as the run lasts.
func (r *c17Run) strayTail(d *c17Dialer, wg *sync.WaitGroup) {
	defer wg.Done()
	if d.script == "silent" || d.closed || !d.arrived || d.refused {
		return
	}
	for d.wn < len(d.chunks) {
		k := d.wn
		if err := r.dialerWrite(d, d.chunks[k], d.classes[k], 800*time.Millisecond); err != nil {
			break
		}
	}
	marker := []byte(fmt.Sprintf("#DATA:STRAY%d;\n#SUCC:1\n\x03", d.idx))
	for k := 0; k < 2; k++ {
		if err := r.dialerWrite(d, marker, "data", 800*time.Millisecond); err != nil {
			return
		}
	}
}

// ---------------------------------------------------------------- connection 1 (proxy)

func (r *c17Run) connector(port int) net.Conn {
	r.connCalls.Add(1)
	r.connPort.Store(int64(port))
	r.signal("connector-called")
	return <-r.retCh
}

// pumpC2S: everything the client writes after its greeting goes to the server's end.
func (r *c17Run) pumpC2S() {
	r.cbReader.Store(true)
	buf := make([]byte, 64*1024)
	for {
		n, err := r.cb.Read(buf)
		if n > 0 && r.sa != nil {
			if _, werr := r.sa.Write(buf[:n]); werr != nil {
				r.note("c2s-undelivered")
			}
		}
		if err != nil {
			if !r.teardown.Load() && !r.pclosedNow() {
				r.cbClosed.Store(true)
				r.rec.emit(map[string]any{"e": "cclose"}, nil)
			}
			if r.sa != nil {
				r.sa.Close()
			}
			return
		}
	}
}

func (r *c17Run) pclosedNow() bool {
	r.rec.mu.Lock()
	defer r.rec.mu.Unlock()
	return r.pclosed
}

func (r *c17Run) pumpS2C() {
	buf := make([]byte, 64*1024)
	for {
		n, err := r.sa.Read(buf)
		if n > 0 {
			if _, werr := r.cb.Write(buf[:n]); werr != nil {
				r.note("s2c-undelivered")
			}
		}
		if err != nil {
			r.cb.Close()
			return
		}
	}
}

// ---------------------------------------------------------------- step replay

func (r *c17Run) serverAdopted() net.Conn {
	if p := r.st.tunnelConn.Load(); p != nil {
		return *p
	}
	return nil
}

func (r *c17Run) step(a string, i int) {
	switch a {
	case "arrive":
		d := r.dialers[i]
		d.d, d.s = net.Pipe()
		d.arrived = true
		if !r.lis.enqueue("arrive", i, d.s) {
			d.refused = true
			d.s.Close()
		}
	case "accept":
		r.lis.release()
	case "w":
		d := r.dialers[i]
		if d.wn < len(d.chunks) {
			k := d.wn
			_ = r.dialerWrite(d, d.chunks[k], d.classes[k], 2*time.Second)
		}
	case "obs":
		var what string
		var end net.Conn
		if i == 1 {
			what = r.obs1()
			end = r.sb
		} else {
			d := r.dialers[i]
			what = r.dialerObserve(d, 5*time.Second, false)
			end = d.s
		}
		if what == "reply" {
			// the handler goes on to the CAS; the winner then closes the listener
			c17WaitFor(func() bool { return r.serverAdopted() != nil }, 3*time.Second)
			if r.serverAdopted() == end {
				c17WaitFor(r.lis.isClosed, 3*time.Second)
			}
		}
	case "close":
		d := r.dialers[i]
		r.rec.emit(map[string]any{"e": "close", "i": i}, nil)
		d.closed = true
		d.d.Close()
		time.Sleep(200 * time.Microsecond)
	case "cdial":
		r.waitSig("connector-called", 5*time.Second)
		r.sa, r.sb = net.Pipe()
		if !r.lis.enqueue("cdial", 1, r.sb) {
			r.aux["dial_refused"] = true
			r.sa.Close()
			r.sb.Close()
			r.sa, r.sb = nil, nil
		}
	case "cret":
		r.waitSig("connector-called", 5*time.Second)
		var conn net.Conn
		res := "nil"
		if r.outcome != "refuse" && !(r.outcome == "good" && r.sa == nil) {
			r.ca, r.cb = net.Pipe()
			conn, res = r.ca, "conn"
			if r.outcome == "dead" || r.pclosedNow() {
				r.cb.Close()
				r.cbReader.Store(true)
			}
		}
		r.rec.emit(map[string]any{"e": "cret", "res": res}, nil)
		r.retCh <- conn
		if conn == nil || r.outcome == "dead" || r.signalled("act") {
			// the connector goroutine finishes on its own; after the time-out it closes the connection
			time.Sleep(300 * time.Microsecond)
		}
	case "cfwd":
		r.cfwd(5 * time.Second)
	case "crep":
		if r.outcome == "good" && (r.replyBytes == nil || r.cb == nil) {
			return // the run went another (valid) way than the model's ordering: nothing to deliver
		}
		if r.outcome != "good" && (r.cb == nil || !r.helloSeen.Load() || r.cbClosed.Load()) {
			return // the client never wrote its greeting (it had timed out already) or is gone
		}
		if r.outcome == "good" {
			r.rec.emit(map[string]any{"e": "creply", "cls": "hello"}, nil)
			_ = r.cb.SetWriteDeadline(time.Now().Add(5 * time.Second))
			_, _ = r.cb.Write(r.replyBytes)
			_ = r.cb.SetWriteDeadline(time.Time{})
			go r.pumpS2C()
			// adopted -> ACT over the tunnel at once; after the time-out -> the client closes
			select {
			case <-r.sig("act"):
			case <-time.After(3 * time.Second):
			}
		} else {
			v := []string{r.cHello, r.sHello + "0", r.sHello[:len(r.sHello)-1], r.sHello + "\n", "\n", strings.ToLower(r.sHello),
				strings.Replace(r.sHello, "SERVER", "CLIENT", 1)}
			if len(r.uid) > 3 {
				_, o := getHelloConstant("9"+r.uid[1:], r.port+1)
				v = append(v, o)
			}
			b := v[r.rng.Intn(len(v))]
			r.rec.emit(map[string]any{"e": "creply", "cls": "other"}, nil)
			_ = r.cb.SetWriteDeadline(time.Now().Add(5 * time.Second))
			_, _ = r.cb.Write([]byte(b))
			_ = r.cb.SetWriteDeadline(time.Time{})
			c17WaitFor(func() bool { return r.cbClosed.Load() || r.signalled("act") }, 3*time.Second)
		}
	case "peof":
		// only after the server was seen to close connection 1
		if r.sa == nil || r.obs1() != "closed" {
			return
		}
		r.rec.emit(map[string]any{"e": "peof"}, func() { r.pclosed = true })
		if r.cb != nil {
			r.cb.Close()
		}
		time.Sleep(300 * time.Microsecond)
	case "timer":
		// the one-second timer has certainly fired once the ACT line is out
		r.waitSig("act", 4*time.Second)
	}
}

// cfwd reads what the client wrote first on connection 1 (completing its Write) and hands it
// on to the server's end.
func (r *c17Run) cfwd(max time.Duration) {
	if r.cb == nil || r.cbReader.Load() {
		return
	}
	buf := make([]byte, 512)
	_ = r.cb.SetReadDeadline(time.Now().Add(max))
	n, err := r.cb.Read(buf)
	_ = r.cb.SetReadDeadline(time.Time{})
	if n > 0 {
		cls := "other"
		if string(buf[:n]) == r.cHello {
			cls = "hello"
		}
		r.rec.emit(map[string]any{"e": "cwrite", "cls": cls}, nil)
		r.helloSeen.Store(true)
		r.aux["client_hello_ok"] = cls == "hello"
		data := append([]byte(nil), buf[:n]...)
		if r.sa != nil {
			go func() { _, _ = r.sa.Write(data) }()
		}
		go r.pumpC2S()
		return
	}
	if err != nil && !c17IsTimeout(err) {
		r.cbClosed.Store(true)
		r.cbReader.Store(true)
		if !r.pclosedNow() {
			r.rec.emit(map[string]any{"e": "cclose"}, nil)
		}
		if r.sa != nil {
			r.sa.Close()
		}
	}
}

func (r *c17Run) obs1() string {
	if r.sa == nil {
		return ""
	}
	buf := make([]byte, 512)
	_ = r.sa.SetReadDeadline(time.Now().Add(5 * time.Second))
	n, err := r.sa.Read(buf)
	_ = r.sa.SetReadDeadline(time.Time{})
	switch {
	case n > 0 && string(buf[:n]) == r.sHello:
		r.replyBytes = append([]byte(nil), buf[:n]...)
		r.rec.emit(map[string]any{"e": "got", "i": 1, "what": "reply"}, nil)
		return "reply"
	case n > 0:
		r.aux["other-1"] = string(buf[:n])
		r.rec.emit(map[string]any{"e": "got", "i": 1, "what": "other"}, nil)
		return "other"
	case err != nil && !c17IsTimeout(err):
		r.rec.emit(map[string]any{"e": "got", "i": 1, "what": "closed"}, nil)
		return "closed"
	}
	return "open"
}

func c17Int(v any) int {
	if f, ok := v.(float64); ok {
		return int(f)
	}
	return 0
}

// c17RunCase replays one exported ordering and returns the recorded events plus side information.
func c17RunCase(c *c17Case, base string) ([]map[string]any, map[string]any, error) {
	seed := c.Seed*1000003 + int64(c.ID)
	r, err := c17NewRun(c.ID, seed, base, c.Outcome, (c.ID+int(c.Seed))%2 == 0)
	if err != nil {
		return nil, nil, err
	}
	r.rec.emit(map[string]any{"e": "reset", "run": c.ID, "scripts": c.Scripts, "outcome": c.Outcome}, nil)
	for i := 2; i <= len(c.Scripts); i++ {
		d := &c17Dialer{idx: i, script: c.Scripts[i-1]}
		d.chunks, d.classes = c17MakeChunks(d.script, i, r.cHello, r.sHello, r.uid, r.port, r.rng)
		r.dialers[i] = d
	}
	r.lis = newC17Listener(r.rec, r.port)
	r.start(r.lis, r.connector)
	// the accept loop is in Accept and the client has called the connector before the first step
	c17WaitFor(func() bool {
		r.rec.mu.Lock()
		defer r.rec.mu.Unlock()
		return r.lis.waiting > 0
	}, 5*time.Second)
	r.waitSig("connector-called", 5*time.Second)

	if c.Mode == "storm" {
		r.storm(c)
	} else {
		for _, s := range c.Steps {
			a, _ := s["a"].(string)
			r.step(a, c17Int(s["i"]))
		}
	}
	// the ACT line is out in every complete behaviour (the timer fires at the latest)
	if !r.waitSig("act", 5*time.Second) {
		r.aux["no_act"] = true
	}
	// strangers keep writing protocol-looking bytes; connection 1 too once the client has given it up
	var wg sync.WaitGroup
	for _, d := range r.dialers {
		wg.Add(1)
		go r.strayTail(d, &wg)
	}
	r.rec.mu.Lock()
	actInband := r.signalled("act") && !r.actTunnel
	r.rec.mu.Unlock()
	if actInband && r.cb != nil && !r.cbClosed.Load() {
		go func() {
			_ = r.cb.SetWriteDeadline(time.Now().Add(1500 * time.Millisecond))
			_, _ = r.cb.Write([]byte("#DATA:STRAYC;\n#SUCC:1\n\x03"))
		}()
	}
	adopted := r.serverAdopted()
	constrained := adopted == nil || (r.sb != nil && adopted == r.sb)
	hung := r.finishTransfer(constrained)
	wg.Wait()
	r.drainTaps()
	r.rec.emit(map[string]any{"e": "end"}, nil)
	// final observations: what each connection attempt sees now
	for i := 2; i <= len(c.Scripts); i++ {
		d := r.dialers[i]
		if !d.arrived || d.closed || d.gotEOF {
			continue
		}
		if d.refused {
			r.rec.emit(map[string]any{"e": "got", "i": i, "what": "closed"}, nil)
			continue
		}
		max := 40 * time.Millisecond
		if i-1 < len(c.Hpc) && c.Hpc[i-1] == "closed" || c.Mode == "storm" && d.script != "right" {
			max = 4 * time.Second
		}
		for k := 0; k < 3; k++ {
			w := r.dialerObserve(d, max, true)
			if w != "reply" {
				break
			}
		}
	}
	if r.cb != nil && !r.cbReader.Load() {
		// the connector returned a connection and nothing was read from it yet
		max := 40 * time.Millisecond
		if c.Act == "inband" || r.signalled("act") && !r.actTunnel {
			max = 4 * time.Second
		}
		r.cfwd(max)
	}
	r.drainTaps()
	// side information for the MBT comparison (not part of the verdict)
	info := map[string]any{"id": c.ID, "hung": hung, "aux": r.aux, "notes": r.notes, "upload": r.upload,
		"conn_port": r.connPort.Load(), "port": r.port, "conn_calls": r.connCalls.Load()}
	ad := 0
	if adopted != nil {
		ad = -1
		if r.sb != nil && adopted == r.sb {
			ad = 1
		}
		for i, d := range r.dialers {
			if d.s != nil && adopted == d.s {
				ad = i
			}
		}
	}
	info["adopted"] = ad
	info["act_tunnel"] = r.actTunnel
	rep := make([]bool, len(c.Scripts))
	rep[0] = r.replyBytes != nil
	for i, d := range r.dialers {
		rep[i-1] = d.gotRep
	}
	info["replied"] = rep
	r.close()
	evs := r.rec.evs
	return evs, info, nil
}

// storm: every connection that knows the greeting is answered at the same moment, so that the
// handlers race for the compare-and-swap for real.
func (r *c17Run) storm(c *c17Case) {
	order := r.rng.Perm(len(c.Scripts) - 1)
	useClient := r.outcome == "good"
	clientAt := r.rng.Intn(len(order) + 1)
	for k := 0; k <= len(order); k++ {
		if useClient && k == clientAt {
			r.step("cdial", 1)
			r.step("accept", 0)
		}
		if k < len(order) {
			r.step("arrive", order[k]+2)
			r.step("accept", 0)
		}
	}
	if useClient {
		r.step("cret", 1)
		r.step("cfwd", 1)
	} else {
		r.step("cret", 1)
	}
	// everybody presents the first chunk
	for _, k := range order {
		d := r.dialers[k+2]
		if len(d.chunks) > 0 && !d.refused {
			_ = r.dialerWrite(d, d.chunks[0], d.classes[0], 2*time.Second)
		}
	}
	time.Sleep(time.Duration(r.rng.Intn(300)) * time.Microsecond)
	// ... and all the replies are taken together
	var wg sync.WaitGroup
	gate := make(chan struct{})
	for _, k := range order {
		d := r.dialers[k+2]
		if d.script != "right" || d.refused {
			continue
		}
		wg.Add(1)
		go func(d *c17Dialer) {
			defer wg.Done()
			<-gate
			r.dialerObserve(d, 5*time.Second, false)
		}(d)
	}
	var got1 string
	if useClient && r.sa != nil {
		wg.Add(1)
		go func() {
			defer wg.Done()
			<-gate
			got1 = r.obs1()
		}()
	}
	close(gate)
	wg.Wait()
	c17WaitFor(func() bool { return r.serverAdopted() != nil }, 3*time.Second)
	c17WaitFor(r.lis.isClosed, 3*time.Second)
	if useClient && r.sa != nil {
		if got1 == "reply" {
			r.step("crep", 1)
		} else if got1 == "closed" {
			r.step("peof", 1)
		}
	}
}

func c17MBT(d *vCtx) error {
	var err error
	debug.SetMemoryLimit(int64(d.pInt("memlimit_mb", 512)) << 20)
	os.Unsetenv("TMUX")
	if c17DevNull, err = os.OpenFile(os.DevNull, os.O_WRONLY, 0); err != nil {
		return err
	}
	cases, err := vReadNDJSON(d.pStr("cases", d.path("cases.ndjson")))
	if err != nil {
		return err
	}
	shards := d.pInt("shards", 8)
	par := d.pInt("par", 48)
	return vShards(d, shards, func(si, sn int) error {
		tr, err := vNewTrace(d.path("trace.ndjson"))
		if err != nil {
			return err
		}
		base, err := os.MkdirTemp(d.out, "work-")
		if err != nil {
			return err
		}
		var mu sync.Mutex
		var infos []map[string]any
		var wg sync.WaitGroup
		sem := make(chan struct{}, par)
		var firstErr error
		n := 0
		for ci := range cases {
			if ci%sn != si {
				continue
			}
			b, _ := json.Marshal(cases[ci])
			c := &c17Case{}
			if err := json.Unmarshal(b, c); err != nil {
				return err
			}
			if c.Seed == 0 {
				c.Seed = d.seed
			}
			n++
			wg.Add(1)
			sem <- struct{}{}
			go func(c *c17Case) {
				defer wg.Done()
				defer func() { <-sem }()
				evs, info, err := c17RunCase(c, base)
				mu.Lock()
				defer mu.Unlock()
				if err != nil {
					if firstErr == nil {
						firstErr = err
					}
					return
				}
				for _, e := range evs {
					tr.Emit(e, nil)
				}
				infos = append(infos, info)
			}(c)
		}
		wg.Wait()
		if firstErr != nil {
			return firstErr
		}
		d.set("runs", n)
		d.set("events", tr.Len())
		if err := tr.Close(); err != nil {
			return err
		}
		os.RemoveAll(base)
		if hp := d.pStr("heapprof", ""); hp != "" {
			runtime.GC()
			if f, err := os.Create(hp); err == nil {
				_ = pprof.WriteHeapProfile(f)
				f.Close()
			}
		}
		return vWriteJSON(d.path("infos.json"), infos)
	})
}

// ---------------------------------------------------------------- loopback TCP

// c17RecLis wraps the real listener of listenForTunnel: Accept and Close are logged, accepted
// connections are handed out as recording connections.
type c17RecLis struct {
	net.Listener
	run    *c17Run
	closed atomic.Bool
}

func (l *c17RecLis) Accept() (net.Conn, error) {
	c, err := l.Listener.Accept()
	if err != nil {
		return c, err
	}
	r := l.run
	ra := c.RemoteAddr().String()
	// which connection attempt this is gets resolved from the peer address when the run is over
	r.rec.emit(map[string]any{"e": "accept", "addr": ra}, nil)
	return &c17RecConn{Conn: c, run: r, addr: ra}, nil
}

// resolveAddrs replaces the peer address in recorded events by the connection number.
func (r *c17Run) resolveAddrs() {
	r.sigMu.Lock()
	defer r.sigMu.Unlock()
	out := r.rec.evs[:0]
	for _, e := range r.rec.evs {
		if a, ok := e["addr"].(string); ok {
			idx := r.addrIdx[a]
			if idx == 0 {
				r.notes["unknown-peer"]++
				continue
			}
			delete(e, "addr")
			e["i"] = idx
		}
		out = append(out, e)
	}
	r.rec.evs = out
}

func (l *c17RecLis) Close() error {
	if l.closed.CompareAndSwap(false, true) && !l.run.teardown.Load() {
		l.run.rec.emit(map[string]any{"e": "lclose"}, nil)
	}
	return l.Listener.Close()
}

// c17RecConn: server end of an accepted connection; logs the handler's first Read and its
// Write of the server greeting.
type c17RecConn struct {
	net.Conn
	run   *c17Run
	addr  string
	reads atomic.Int64
}

func (c *c17RecConn) Read(b []byte) (int, error) {
	n, err := c.Conn.Read(b)
	if c.reads.Add(1) == 1 && !c.run.teardown.Load() {
		hello := n > 0 && string(b[:n]) == c.run.cHello
		c.run.rec.emit(map[string]any{"e": "sread", "addr": c.addr, "hello": hello, "n": n}, nil)
	}
	return n, err
}

func (c *c17RecConn) Write(b []byte) (int, error) {
	if string(b) == c.run.sHello && c.reads.Load() <= 1 && !c.run.teardown.Load() {
		c.run.rec.emit(map[string]any{"e": "sreply", "addr": c.addr}, nil)
	}
	return c.Conn.Write(b)
}

// c17RecCConn: the connection the connector returns to the client; logs the client's first
// Write (before it is made), its first Read and its Close.
type c17RecCConn struct {
	net.Conn
	run    *c17Run
	writes atomic.Int64
	reads  atomic.Int64
	closed atomic.Bool
}

func (c *c17RecCConn) Write(b []byte) (int, error) {
	if c.writes.Add(1) == 1 && !c.run.teardown.Load() {
		cls := "other"
		if string(b) == c.run.cHello {
			cls = "hello"
		}
		c.run.rec.emit(map[string]any{"e": "cwrite", "cls": cls}, nil)
	}
	return c.Conn.Write(b)
}

func (c *c17RecCConn) Read(b []byte) (int, error) {
	n, err := c.Conn.Read(b)
	if c.reads.Add(1) == 1 && !c.run.teardown.Load() {
		cls := "other"
		if n > 0 && string(b[:n]) == c.run.sHello {
			cls = "hello"
		} else if n == 0 {
			cls = "eof"
		}
		c.run.rec.emit(map[string]any{"e": "cread", "cls": cls}, nil)
	}
	return n, err
}

func (c *c17RecCConn) Close() error {
	if c.closed.CompareAndSwap(false, true) && !c.run.teardown.Load() {
		c.run.rec.emit(map[string]any{"e": "cclose"}, nil)
	}
	return c.Conn.Close()
}

func (r *c17Run) register(conn net.Conn, idx int) {
	r.sigMu.Lock()
	r.addrIdx[conn.LocalAddr().String()] = idx
	r.sigMu.Unlock()
}

// tcpStray runs one scripted connection attempt against 127.0.0.1:port.
func (r *c17Run) tcpStray(d *c17Dialer, port int, start <-chan struct{}, delay time.Duration, wg *sync.WaitGroup) {
	defer wg.Done()
	<-start
	time.Sleep(delay)
	conn, err := net.DialTimeout("tcp", fmt.Sprintf("127.0.0.1:%d", port), 3*time.Second)
	d.arrived = true
	if err != nil {
		d.refused = true
		r.rec.emit(map[string]any{"e": "arrive", "i": d.idx, "ok": false}, nil)
		return
	}
	if tc, ok := conn.(*net.TCPConn); ok {
		_ = tc.SetNoDelay(true)
	}
	d.d = conn
	r.register(conn, d.idx)
	r.rec.emit(map[string]any{"e": "arrive", "i": d.idx, "ok": true}, nil)
	if d.script == "silent" {
		return
	}
	for k := range d.chunks {
		if err := r.dialerWrite(d, d.chunks[k], d.classes[k], 2*time.Second); err != nil {
			break
		}
		if k+1 < len(d.chunks) && r.rng.Intn(2) == 0 {
			time.Sleep(time.Duration(r.rng.Intn(3000)) * time.Microsecond)
		}
	}
	// what does it get: the reply, or a close
	w := r.dialerObserve(d, 4*time.Second, false)
	if w == "reply" {
		// a stranger that knew the greeting: keeps talking
		for k := 0; k < 2; k++ {
			if err := r.dialerWrite(d, []byte(fmt.Sprintf("#DATA:STRAY%d;\n#SUCC:1\n", d.idx)), "data", time.Second); err != nil {
				break
			}
		}
	} else if w != "closed" {
		_ = r.dialerWrite(d, []byte(fmt.Sprintf("#DATA:STRAY%d;\n#SUCC:1\n", d.idx)), "data", time.Second)
	}
}

type c17TCPPlan struct {
	ID      int      `json:"id"`
	Seed    int64    `json:"seed"`
	Scripts []string `json:"scripts"` // index 0 = connection 1 ("genuine" | "absent")
	Outcome string   `json:"outcome"` // good | refuse
	LateMs  int      `json:"late_ms"` // connector delay
	Delays  []int    `json:"delays"`  // per stranger, microseconds
	Relay   bool     `json:"relay"`
	// RelayLeg (relay runs): the relay's own connection towards the server's tunnel port: "" = fine,
	// "refuse" = its connector returns nil, "dead" = a connection that is closed at once, "wrong" = a
	// connection to something that does not present the server's greeting.  The genuine client then gets
	// no answer to its greeting and the transfer must proceed in-band.
	RelayLeg string `json:"relay_leg,omitempty"`
}

func c17RunTCP(p *c17TCPPlan, base string) ([]map[string]any, map[string]any, error) {
	seed := p.Seed*1000003 + int64(p.ID)
	r, err := c17NewRun(p.ID, seed, base, p.Outcome, (p.ID+int(p.Seed))%2 == 0)
	if err != nil {
		return nil, nil, err
	}
	listener, port := listenForTunnel()
	if listener == nil {
		return nil, nil, fmt.Errorf("listenForTunnel failed")
	}
	r.port = port
	r.cHello, r.sHello, _ = c17Greeting(r.uid, r.port)
	r.rec.emit(map[string]any{"e": "reset", "run": p.ID, "scripts": p.Scripts, "outcome": p.Outcome, "tcp": true}, nil)
	for i := 2; i <= len(p.Scripts); i++ {
		d := &c17Dialer{idx: i, script: p.Scripts[i-1]}
		d.chunks, d.classes = c17MakeChunks(d.script, i, r.cHello, r.sHello, r.uid, r.port, r.rng)
		r.dialers[i] = d
	}
	start := make(chan struct{})
	connector := func(port int) net.Conn {
		r.connCalls.Add(1)
		r.connPort.Store(int64(port))
		<-start
		if p.LateMs > 0 {
			time.Sleep(time.Duration(p.LateMs) * time.Millisecond)
		}
		if p.Outcome != "good" {
			r.rec.emit(map[string]any{"e": "cret", "res": "nil"}, nil)
			return nil
		}
		conn, err := net.DialTimeout("tcp", fmt.Sprintf("127.0.0.1:%d", port), 3*time.Second)
		if err != nil {
			r.rec.emit(map[string]any{"e": "cdial", "ok": false}, nil)
			r.rec.emit(map[string]any{"e": "cret", "res": "nil"}, nil)
			return nil
		}
		r.register(conn, 1)
		r.rec.emit(map[string]any{"e": "cdial", "ok": true}, nil)
		r.rec.emit(map[string]any{"e": "cret", "res": "conn"}, nil)
		return &c17RecCConn{Conn: conn, run: r}
	}
	var wg sync.WaitGroup
	for i := 2; i <= len(p.Scripts); i++ {
		wg.Add(1)
		delay := time.Duration(0)
		if i-2 < len(p.Delays) {
			delay = time.Duration(p.Delays[i-2]) * time.Microsecond
		}
		go r.tcpStray(r.dialers[i], port, start, delay, &wg)
	}
	rl := &c17RecLis{Listener: listener, run: r}
	r.start(rl, connector)
	c17WaitFor(func() bool { return r.connCalls.Load() > 0 }, 5*time.Second)
	close(start)
	if !r.waitSig("act", 6*time.Second) {
		r.aux["no_act"] = true
	}
	wg.Wait()
	// nothing is promised when a stranger that knew the greeting was adopted by the server
	// (peek: the remote address of the adopted connection is a stranger's local address)
	anyReply := r.actTunnel
	for _, d := range r.dialers {
		if d.gotRep {
			anyReply = true
		}
	}
	if anyReply {
		c17WaitFor(func() bool { return r.serverAdopted() != nil }, 500*time.Millisecond)
	}
	constrained := true
	if ad := r.serverAdopted(); ad != nil {
		for _, d := range r.dialers {
			if d.d != nil && d.d.LocalAddr().String() == ad.RemoteAddr().String() {
				constrained = false
			}
		}
	}
	hung := r.finishTransfer(constrained)
	r.drainTaps()
	r.rec.emit(map[string]any{"e": "end"}, nil)
	for i := 2; i <= len(p.Scripts); i++ {
		d := r.dialers[i]
		if d.d == nil || d.gotEOF {
			continue
		}
		max := 40 * time.Millisecond
		if !d.gotRep && d.script != "silent" {
			max = 4 * time.Second
		}
		r.dialerObserve(d, max, true)
	}
	r.drainTaps()
	info := map[string]any{"id": p.ID, "hung": hung, "aux": r.aux, "notes": r.notes, "upload": r.upload,
		"conn_port": r.connPort.Load(), "port": r.port, "act_tunnel": r.actTunnel}
	r.rec.seal()
	r.teardown.Store(true)
	listener.Close()
	r.close()
	r.resolveAddrs()
	info["notes"] = r.notes
	return r.rec.evs, info, nil
}

func c17ReadPlans(d *vCtx) ([]*c17TCPPlan, error) {
	pf := d.pStr("plans", "")
	if pf == "" {
		return nil, nil
	}
	raw, err := vReadNDJSON(pf)
	if err != nil {
		return nil, err
	}
	res := []*c17TCPPlan{}
	for _, m := range raw {
		b, _ := json.Marshal(m)
		p := &c17TCPPlan{}
		if err := json.Unmarshal(b, p); err != nil {
			return nil, err
		}
		res = append(res, p)
	}
	return res, nil
}

func c17RandomTCPPlan(p *c17TCPPlan, rng *rand.Rand, scripts []string) {
	if rng.Intn(5) == 0 {
		p.Outcome = "refuse"
	}
	if rng.Intn(10) == 0 {
		p.LateMs = 1100 + rng.Intn(300)
	} else if rng.Intn(3) == 0 {
		p.LateMs = rng.Intn(8)
	}
	ns := rng.Intn(4)
	first := "absent"
	if p.Outcome == "good" {
		first = "genuine"
	}
	p.Scripts = []string{first}
	storm := rng.Intn(4) == 0
	for k := 0; k < ns; k++ {
		sc := scripts[rng.Intn(len(scripts))]
		if storm {
			sc = "right"
		}
		p.Scripts = append(p.Scripts, sc)
		dl := rng.Intn(4000)
		if storm || rng.Intn(3) == 0 {
			dl = 0
		}
		p.Delays = append(p.Delays, dl)
	}
}

func c17TCP(d *vCtx) error {
	var err error
	debug.SetMemoryLimit(int64(d.pInt("memlimit_mb", 512)) << 20)
	os.Unsetenv("TMUX")
	if c17DevNull, err = os.OpenFile(os.DevNull, os.O_WRONLY, 0); err != nil {
		return err
	}
	n := d.pInt("runs", 200)
	par := d.pInt("par", 32)
	shards := d.pInt("shards", 4)
	scripts := []string{"wrong", "wrongid", "long", "right", "split", "silent", "flood"}
	return vShards(d, shards, func(si, sn int) error {
		tr, err := vNewTrace(d.path("trace.ndjson"))
		if err != nil {
			return err
		}
		base, err := os.MkdirTemp(d.out, "work-")
		if err != nil {
			return err
		}
		rng := d.rng(int64(1700 + si))
		var mu sync.Mutex
		var infos []map[string]any
		var plans []*c17TCPPlan
		var wg sync.WaitGroup
		sem := make(chan struct{}, par)
		var firstErr error
		cnt := 0
		fixed, err := c17ReadPlans(d)
		if err != nil {
			return err
		}
		total := n
		if fixed != nil {
			total = len(fixed)
		}
		for id := si; id < total; id += sn {
			p := &c17TCPPlan{ID: id + 1, Seed: d.seed, Outcome: "good"}
			if fixed != nil {
				p = fixed[id]
			} else {
				c17RandomTCPPlan(p, rng, scripts)
			}
			plans = append(plans, p)
			cnt++
			wg.Add(1)
			sem <- struct{}{}
			go func(p *c17TCPPlan) {
				defer wg.Done()
				defer func() { <-sem }()
				evs, info, err := c17RunTCP(p, base)
				mu.Lock()
				defer mu.Unlock()
				if err != nil {
					if firstErr == nil {
						firstErr = err
					}
					return
				}
				for _, e := range evs {
					tr.Emit(e, nil)
				}
				info["plan"] = p
				infos = append(infos, info)
			}(p)
		}
		wg.Wait()
		if firstErr != nil {
			return firstErr
		}
		d.set("runs", cnt)
		d.set("events", tr.Len())
		if err := tr.Close(); err != nil {
			return err
		}
		os.RemoveAll(base)
		return vWriteJSON(d.path("infos.json"), infos)
	})
}

// ---------------------------------------------------------------- one relay hop

// c17PortTap sits between the relay and the client's filter and learns the port the relay
// advertises in the trigger line it forwards.
type c17PortTap struct {
	w   io.Writer
	run *c17Run
	buf []byte
}

func (t *c17PortTap) Write(p []byte) (int, error) {
	if !t.run.signalled("relay-port") {
		t.buf = append(t.buf, p...)
		if m := trzszRegexp.FindSubmatch(t.buf); len(m) > 4 && m[4] != nil && bytes.Contains(t.buf[bytes.Index(t.buf, m[0]):], []byte("\n")) {
			var port int
			fmt.Sscanf(string(m[4][1:]), "%d", &port)
			t.run.relayPort.Store(int64(port))
			t.run.signal("relay-port")
		}
		if len(t.buf) > 4096 {
			t.buf = t.buf[len(t.buf)-1024:]
		}
	}
	return t.w.Write(p)
}
func (t *c17PortTap) Close() error { return nil }

// c17EOFConn reports every read error as io.EOF.  tunnelRelay.wrapOutput / wrapInput loop for
// ever (allocating 32 KiB per turn) on a read error other than io.EOF, e.g. after the relay
// itself closed the connection; that is outside this property but would starve the harness.
type c17EOFConn struct{ net.Conn }

func (c *c17EOFConn) Read(b []byte) (int, error) {
	n, err := c.Conn.Read(b)
	if err != nil && err != io.EOF {
		err = io.EOF
	}
	return n, err
}

type c17WC struct{ io.Writer }

func (c17WC) Close() error { return nil }

// c17RunRelay: server <-> TrzszRelay <-> client filter; strangers dial the relay's port.
func c17RunRelay(p *c17TCPPlan, base string) ([]map[string]any, map[string]any, error) {
	seed := p.Seed*1000003 + int64(p.ID)
	r, err := c17NewRun(p.ID, seed, base, p.Outcome, (p.ID+int(p.Seed))%2 == 0)
	if err != nil {
		return nil, nil, err
	}
	r.mild = true
	t0 := time.Now()
	listener, sport := listenForTunnel()
	if listener == nil {
		return nil, nil, fmt.Errorf("listenForTunnel failed")
	}
	r.port = sport
	if p.RelayLeg != "" {
		// judged as a run in which the client gets no tunnel (see the projection at the end)
		r.rec.emit(map[string]any{"e": "reset", "run": p.ID, "scripts": []string{"absent"}, "outcome": "refuse", "relay": true}, nil)
	} else {
		r.rec.emit(map[string]any{"e": "reset", "run": p.ID, "scripts": p.Scripts, "outcome": p.Outcome, "relay": true}, nil)
	}

	// in-band plumbing: server <-> relay <-> filter
	r.c2sR, r.c2sW = io.Pipe() // relay -> server
	r.s2cR, r.s2cW = io.Pipe() // server -> relay
	rcR, rcW := io.Pipe()      // relay -> client
	crR, crW := io.Pipe()      // client -> relay
	r.cinR, r.cinW = io.Pipe()
	slog := &traceLogger{}
	r.tapS = c17NewTap(r, "S", slog)
	r.st = newTransfer(r.s2cW, nil, false, slog)
	r.st.acceptOnTunnel(listener, r.uid, sport)
	wrapTransferInput(r.st, r.c2sR, false)
	relay := NewTrzszRelay(crR, &c17PortTap{w: rcW, run: r}, c17WC{r.c2sW}, r.s2cR, TrzszOptions{})
	var wrongLis net.Listener
	if p.RelayLeg == "wrong" {
		if wrongLis, err = net.Listen("tcp", "127.0.0.1:0"); err == nil {
			defer wrongLis.Close()
			go func() {
				for {
					c, e := wrongLis.Accept()
					if e != nil {
						return
					}
					go func() { // reads the greeting, says something else, stays open for a while
						buf := make([]byte, 200)
						_, _ = c.Read(buf)
						_, _ = c.Write([]byte("HTTP/1.1 400 Bad Request\r\n\r\n"))
						time.Sleep(3 * time.Second)
						c.Close()
					}()
				}
			}()
		}
	}
	relay.SetTunnelConnector(func(port int) net.Conn {
		switch p.RelayLeg {
		case "refuse":
			return nil
		case "wrong":
			if wrongLis != nil {
				port = wrongLis.Addr().(*net.TCPAddr).Port
			}
		}
		c, err := net.DialTimeout("tcp", fmt.Sprintf("127.0.0.1:%d", port), 3*time.Second)
		if err != nil {
			return nil
		}
		if p.RelayLeg == "dead" {
			c.Close()
		}
		return &c17EOFConn{Conn: c}
	})
	// steering only: which connection the relay adopts (it forgets it again when it resets)
	var relayAdopted atomic.Value
	go func() {
		for !r.teardown.Load() {
			if tr := relay.tunnelRelay.Load(); tr != nil {
				relayAdopted.Store(tr.clientConn.RemoteAddr().String())
				return
			}
			time.Sleep(50 * time.Microsecond)
		}
	}()
	start := make(chan struct{})
	connector := func(port int) net.Conn {
		r.connCalls.Add(1)
		r.connPort.Store(int64(port))
		<-start
		if p.LateMs > 0 {
			time.Sleep(time.Duration(p.LateMs) * time.Millisecond)
		}
		if p.Outcome != "good" {
			r.rec.emit(map[string]any{"e": "cret", "res": "nil"}, nil)
			return nil
		}
		conn, err := net.DialTimeout("tcp", fmt.Sprintf("127.0.0.1:%d", port), 3*time.Second)
		if err != nil {
			r.rec.emit(map[string]any{"e": "cdial", "ok": false}, nil)
			r.rec.emit(map[string]any{"e": "cret", "res": "nil"}, nil)
			return nil
		}
		r.register(conn, 1)
		r.rec.emit(map[string]any{"e": "cdial", "ok": true}, nil)
		r.rec.emit(map[string]any{"e": "cret", "res": "conn"}, nil)
		return &c17RecCConn{Conn: conn, run: r}
	}
	r.filter = NewTrzszFilter(r.cinR, &c17Sink{}, crW, rcR, TrzszOptions{TerminalColumns: 100, DetectTraceLog: true})
	r.tapC = c17NewTap(r, "C", r.filter.logger)
	r.filter.SetTunnelConnector(connector)
	mode := "S"
	if r.upload {
		mode = "R"
		r.filter.oneTimeUploadFiles = r.srcFiles
		r.clientRes = make(chan error, 1)
		r.filter.oneTimeUploadResult = r.clientRes
	} else {
		r.filter.SetDefaultDownloadPath(r.dst)
	}
	go r.serverRole()
	trigger := fmt.Sprintf("\x1b7\x07::TRZSZ:TRANSFER:%s:%s:%s:%d\r\n", mode, kTrzszVersion, r.uid, sport)
	_, _ = r.s2cW.Write([]byte(trigger))
	if !r.waitSig("relay-port", 5*time.Second) {
		r.close()
		listener.Close()
		return nil, nil, fmt.Errorf("relay did not advertise a port")
	}
	rport := int(r.relayPort.Load())
	// from here on "the greeting" is the one of the client <-> relay hop
	r.cHello, r.sHello, _ = c17Greeting(r.uid, rport)
	for i := 2; i <= len(p.Scripts); i++ {
		d := &c17Dialer{idx: i, script: p.Scripts[i-1]}
		d.chunks, d.classes = c17MakeChunks(d.script, i, r.cHello, r.sHello, r.uid, rport, r.rng)
		if d.script == "wrongid" && r.rng.Intn(2) == 0 {
			// the greeting of the server's own port, presented to the relay
			h, _ := getHelloConstant(r.uid, sport)
			d.chunks = [][]byte{[]byte(h)}
		}
		r.dialers[i] = d
	}
	var wg sync.WaitGroup
	for i := 2; i <= len(p.Scripts); i++ {
		wg.Add(1)
		delay := time.Duration(0)
		if i-2 < len(p.Delays) {
			delay = time.Duration(p.Delays[i-2]) * time.Microsecond
		}
		go r.tcpStray(r.dialers[i], rport, start, delay, &wg)
	}
	c17WaitFor(func() bool { return r.connCalls.Load() > 0 }, 5*time.Second)
	close(start)
	if !r.waitSig("act", 6*time.Second) {
		r.aux["no_act"] = true
	}
	wg.Wait()
	anyReply := r.actTunnel
	for _, d := range r.dialers {
		if d.gotRep {
			anyReply = true
		}
	}
	if anyReply {
		c17WaitFor(func() bool { a, _ := relayAdopted.Load().(string); return a != "" }, 500*time.Millisecond)
	}
	constrained := true
	if a, _ := relayAdopted.Load().(string); a != "" {
		for _, d := range r.dialers {
			if d.d != nil && d.d.LocalAddr().String() == a {
				constrained = false
			}
		}
	}
	for _, d := range r.dialers {
		// a stranger the relay answered had its own upstream connection greeted by the server,
		// which may be the one the server adopted: nothing is promised then
		if d.gotRep && constrained {
			r.unknown = true
		}
	}
	tA := time.Now()
	hung := r.finishTransfer(constrained)
	tB := time.Now()
	r.drainTaps()
	r.rec.emit(map[string]any{"e": "end"}, nil)
	for i := 2; i <= len(p.Scripts); i++ {
		d := r.dialers[i]
		if d.d == nil || d.gotEOF {
			continue
		}
		max := 40 * time.Millisecond
		if !d.gotRep && d.script != "silent" {
			max = 4 * time.Second
		}
		r.dialerObserve(d, max, true)
	}
	r.drainTaps()
	info := map[string]any{"id": p.ID, "hung": hung, "aux": r.aux, "notes": r.notes, "upload": r.upload,
		"conn_port": r.connPort.Load(), "port": rport, "act_tunnel": r.actTunnel,
		"ms_setup": tA.Sub(t0).Milliseconds(), "ms_transfer": tB.Sub(tA).Milliseconds(), "ms_final": time.Since(tB).Milliseconds()}
	r.rec.seal()
	r.teardown.Store(true)
	listener.Close()
	r.close()
	crW.Close()
	r.s2cW.Close()
	if p.RelayLeg != "" {
		// The relay's listener needs its own leg to the server before it answers; Tunnel.tla's listener
		// is the server's.  A run with a failing leg is therefore judged on what the two ends agree and
		// on the transfer's result only (the projection on a run whose connector gave no tunnel): the
		// greeting exchange with the relay is left out of the recorded events.
		var evs []map[string]any
		for _, e := range r.rec.evs {
			switch e["e"] {
			case "reset", "act", "sact", "ret", "fs", "end":
				evs = append(evs, e)
			}
		}
		return evs, info, nil
	}
	return r.rec.evs, info, nil
}

func c17Relay(d *vCtx) error {
	var err error
	debug.SetMemoryLimit(int64(d.pInt("memlimit_mb", 512)) << 20)
	os.Unsetenv("TMUX")
	os.Setenv("PATH", "/nonexistent") // TrzszRelay.resetToStandby runs `tmux refresh-client`
	if c17DevNull, err = os.OpenFile(os.DevNull, os.O_WRONLY, 0); err != nil {
		return err
	}
	n := d.pInt("runs", 100)
	par := d.pInt("par", 16)
	shards := d.pInt("shards", 4)
	scripts := []string{"wrong", "wrongid", "long", "right", "split", "silent", "flood"}
	return vShards(d, shards, func(si, sn int) error {
		tr, err := vNewTrace(d.path("trace.ndjson"))
		if err != nil {
			return err
		}
		base, err := os.MkdirTemp(d.out, "work-")
		if err != nil {
			return err
		}
		id0 := d.pInt("id0", 0)
		rng := d.rng(int64(1800 + si + 1000*id0))
		var mu sync.Mutex
		var infos []map[string]any
		var wg sync.WaitGroup
		sem := make(chan struct{}, par)
		var firstErr error
		cnt := 0
		fixed, err := c17ReadPlans(d)
		if err != nil {
			return err
		}
		total := n
		if fixed != nil {
			total = len(fixed)
		}
		for id := si; id < total; id += sn {
			p := &c17TCPPlan{ID: id0 + id + 1, Seed: d.seed, Outcome: "good", Relay: true}
			if fixed != nil {
				p = fixed[id]
			} else {
				if rng.Intn(6) == 0 {
					p.Outcome = "refuse"
				}
				if rng.Intn(12) == 0 {
					p.LateMs = 1100 + rng.Intn(300)
				}
				first := "absent"
				if p.Outcome == "good" {
					first = "genuine"
				}
				p.Scripts = []string{first}
				ns := rng.Intn(3)
				if p.Outcome == "good" && p.LateMs == 0 && rng.Intn(4) == 0 {
					p.RelayLeg = []string{"refuse", "dead", "wrong"}[rng.Intn(3)]
					ns = 0
				}
				for k := 0; k < ns; k++ {
					p.Scripts = append(p.Scripts, scripts[rng.Intn(len(scripts))])
					p.Delays = append(p.Delays, rng.Intn(3000))
				}
			}
			cnt++
			wg.Add(1)
			sem <- struct{}{}
			go func(p *c17TCPPlan) {
				defer wg.Done()
				defer func() { <-sem }()
				evs, info, err := c17RunRelay(p, base)
				mu.Lock()
				defer mu.Unlock()
				if err != nil {
					if firstErr == nil {
						firstErr = err
					}
					return
				}
				for _, e := range evs {
					tr.Emit(e, nil)
				}
				info["plan"] = p
				infos = append(infos, info)
			}(p)
		}
		wg.Wait()
		if firstErr != nil {
			return firstErr
		}
		d.set("runs", cnt)
		d.set("events", tr.Len())
		if err := tr.Close(); err != nil {
			return err
		}
		os.RemoveAll(base)
		return vWriteJSON(d.path("infos.json"), infos)
	})
}
