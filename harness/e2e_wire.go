//go:build verif

package trzsz

// End-to-end in-process harness: a real client (pump-less TrzszFilter running the real
// handleTrzsz -> uploadFiles/downloadFiles -> clientError) and a real server (the real
// recvFiles / sendFiles of trz.go / tsz.go, then serverError) joined by a wire that
//   * taps and parses every byte of both directions into protocol messages,
//   * re-chunks each direction with a seeded segmentation (split and merge),
//   * can rewrite ACT in flight (emulation of an older client: protocol 1..3),
//   * carries a plan: byte-level faults, go-silent / discard after message k, and callbacks at
//     message k (before/after delivery) used for stop / pause plans.
// Used by the drivers of C01, C02, C07..C12, C14, C18.

import (
	"bytes"
	"crypto/sha256"
	"encoding/hex"
	"encoding/json"
	"fmt"
	"math/rand"
	"os"
	"path/filepath"
	"sort"
	"strconv"
	"strings"
	"sync"
	"sync/atomic"
	"time"
)

// ---------------------------------------------------------------- protocol message parser

type e2eMsg struct {
	Dir  string // "c2s" | "s2c"
	K    int    // index of the message within its direction (0-based)
	G    int    // global index over both directions, in tap order
	Typ  string // ACT CFG NUM NAME SIZE DATA SUCC MD5 HASH COMP EXIT FAIL fail ... or "?" for junk
	Raw  []byte // payload between ':' and the line terminator (DATA binary: the n bytes)
	Off  int    // offset of the first byte of the message in the direction's stream
	Len  int    // total bytes on the wire including terminator / binary block
	Keep bool   // keep-alive ("=")
}

// e2eParser cuts one direction's byte stream into messages.  It is the harness's own parser
// (independent of trzszBuffer): '#TYPE:payload<nl>' where <nl> is "\n" or "!\n"; in binary
// mode '#DATA:n<nl>' is followed by n raw bytes.
type e2eParser struct {
	dir     string
	buf     []byte
	off     int // stream offset of buf[0]
	k       int
	binary  *bool // shared flag: set once CFG announced binary
	winNL   *bool // shared flag: "!\n" framing
	pending *e2eMsg
	need    int
}

func (p *e2eParser) feed(b []byte, emit func(m *e2eMsg)) {
	p.buf = append(p.buf, b...)
	for {
		if p.pending != nil {
			if len(p.buf) < p.need {
				return
			}
			m := p.pending
			m.Raw = append([]byte(nil), p.buf[:p.need]...)
			m.Len += p.need
			p.buf = p.buf[p.need:]
			p.off += p.need
			p.pending = nil
			emit(m)
			continue
		}
		i := bytes.IndexByte(p.buf, '\n')
		if i < 0 {
			return
		}
		line := p.buf[:i]
		total := i + 1
		if *p.winNL && len(line) > 0 && line[len(line)-1] == '!' {
			line = line[:len(line)-1]
		}
		m := &e2eMsg{Dir: p.dir, K: p.k, Off: p.off, Len: total, Typ: "?"}
		p.k++
		if len(line) > 0 && line[0] == '#' {
			if c := bytes.IndexByte(line, ':'); c > 0 {
				m.Typ = string(line[1:c])
				m.Raw = append([]byte(nil), line[c+1:]...)
			}
		}
		if m.Typ == "?" {
			m.Raw = append([]byte(nil), line...)
		}
		if len(m.Raw) == 1 && m.Raw[0] == '=' {
			m.Keep = true
		}
		p.buf = p.buf[total:]
		p.off += total
		if m.Typ == "DATA" && *p.binary && !m.Keep {
			if n, err := strconv.Atoi(string(m.Raw)); err == nil {
				if n > 0 {
					p.pending = m
					p.need = n
					continue
				}
				m.Raw = nil // "#DATA:0": the finish flag
			}
		}
		emit(m)
	}
}

// value decodes a message payload into a small JSON-able description used in trace events.
func (m *e2eMsg) value() map[string]any {
	v := map[string]any{}
	s := string(m.Raw)
	switch m.Typ {
	case "DATA":
		v["k"] = "data"
		v["n"] = len(m.Raw)
		if m.Keep {
			v["k"] = "keep"
			v["n"] = 0
		}
		return v
	case "COMP":
		v["k"] = "str"
		v["s"] = s
		return v
	}
	if m.Keep {
		v["k"] = "keep"
		return v
	}
	if n, err := strconv.ParseInt(s, 10, 64); err == nil {
		v["k"] = "int"
		v["a"] = n
		return v
	}
	if i := strings.IndexByte(s, '/'); i > 0 {
		a, e1 := strconv.ParseInt(s[:i], 10, 64)
		b, e2 := strconv.ParseInt(s[i+1:], 10, 64)
		if e1 == nil && e2 == nil {
			v["k"] = "pair"
			v["a"] = a
			v["b"] = b
			return v
		}
	}
	dec, err := decodeString(s)
	if err != nil {
		v["k"] = "undecodable"
		return v
	}
	var j map[string]any
	if len(dec) > 0 && dec[0] == '{' && json.Unmarshal(dec, &j) == nil {
		v["k"] = "json"
		v["j"] = j
		return v
	}
	if m.Typ == "MD5" || (m.Typ == "SUCC" && len(dec) == 16 && !isPrintable(dec)) {
		v["k"] = "bin"
		v["h"] = hex.EncodeToString(dec)
		return v
	}
	v["k"] = "str"
	v["s"] = string(dec)
	return v
}

func isPrintable(b []byte) bool {
	for _, c := range b {
		if c < 0x20 || c > 0x7e {
			return false
		}
	}
	return true
}

// flat is the typed, TLC-friendly form of value(): always the fields k (kind), a, b (integers,
// -1 when unused) and s (string, "" when unused).
//   int: a   pair: a/b   data: a = payload length   keep: keep-alive   bin: s = hex digest
//   str: s   json NAME: s = joined path, a = size, b = 1 dir | 2 archive | 0 file
//   json {name,size}: s = name, a = size      json {step,match}: a = step, b = match
//   json HASH {step,hash,over}: a = step, b = over, s = hash    ACT/CFG: a = protocol, b = binary
func (m *e2eMsg) flat() map[string]any {
	v := m.value()
	f := map[string]any{"k": v["k"], "a": int64(-1), "b": int64(-1), "s": ""}
	b2i := func(x any) int64 {
		if t, ok := x.(bool); ok && t {
			return 1
		}
		return 0
	}
	num := func(x any) int64 {
		switch t := x.(type) {
		case float64:
			return int64(t)
		case int64:
			return t
		case int:
			return int64(t)
		}
		return -1
	}
	switch v["k"] {
	case "int":
		f["a"] = num(v["a"])
	case "pair":
		f["a"], f["b"] = num(v["a"]), num(v["b"])
	case "data", "keep":
		f["a"] = num(v["n"])
	case "bin":
		f["s"] = v["h"]
	case "str":
		f["s"] = v["s"]
	case "json":
		j := v["j"].(map[string]any)
		switch {
		case m.Typ == "ACT" || m.Typ == "CFG":
			f["a"] = num(j["protocol"])
			if _, ok := j["protocol"]; !ok {
				f["a"] = int64(0)
			}
			f["b"] = b2i(j["binary"])
		case j["path_name"] != nil:
			var parts []string
			if arr, ok := j["path_name"].([]any); ok {
				for _, x := range arr {
					parts = append(parts, fmt.Sprint(x))
				}
			}
			f["s"] = strings.Join(parts, "/")
			f["a"] = num(j["size"])
			f["b"] = b2i(j["is_dir"]) + 2*b2i(j["archive"])
			f["k"] = "jname"
		case j["name"] != nil:
			f["s"] = fmt.Sprint(j["name"])
			f["a"] = num(j["size"])
			f["k"] = "jtarget"
		case j["match"] != nil:
			f["a"], f["b"] = num(j["step"]), b2i(j["match"])
			f["k"] = "jhashack"
		case m.Typ == "HASH":
			f["a"], f["b"] = num(j["step"]), b2i(j["over"])
			if h, ok := j["hash"].(string); ok {
				f["s"] = h
			}
			f["k"] = "jhash"
		}
	}
	return f
}

// ---------------------------------------------------------------- wire

type e2eFault struct {
	Dir  string // direction
	Off  int    // byte offset in that direction's (original) stream
	Kind string // flip | del | dup | ins | trunc | linedel | linedup
	Val  byte   // bit mask for flip / inserted byte
	done bool
}

type e2ePipe struct {
	dmu      sync.Mutex // held across a whole Write: tap order = delivery order
	w        *e2eWire
	dir      string
	parser   *e2eParser
	deliver  func(b []byte) // hand bytes to the receiving side
	tap      bytes.Buffer   // every byte written by the sender (before faults)
	sent     int            // bytes written so far (original offsets)
	pend     []byte         // bytes held back for merging with the next write
	silent   bool           // swallow everything from now on (peer falls silent / discards)
	writeErr error          // Write returns this error from now on (connection write error)
	maxChunk int
	rng      *rand.Rand
}

type e2eWire struct {
	mu      sync.Mutex
	act     atomic.Int64 // number of writes seen (the watchdog measures inactivity, not total time)
	c2s     *e2ePipe
	s2c     *e2ePipe
	binary  bool
	winNL   bool
	g       int
	msgs    []*e2eMsg
	faults  []*e2eFault
	actProt int // >=0: rewrite ACT protocol to this value (0 = remove the field)
	actNoDir bool // rewrite ACT: support_dir = false
	// mutate: replace the payload (text between "#TYPE:" and the line terminator) of the message
	// with global index mutG by mutNew, when the whole line lies inside one write
	mutG       int
	mutNew     string
	mutType    string // when not empty also replace the type
	mutApplied bool
	// a second replacement in the same run (two fields of the peer that only do harm together)
	mut2G       int
	mut2New     string
	mut2Applied bool
	// onMsg is called (under the wire lock released) for every parsed message before it is
	// delivered (phase "before") and after the write that completed it was delivered ("after").
	onMsg func(m *e2eMsg, phase string)
	// silence plan: after message index K (global tap order) of direction Dir was delivered,
	// that direction swallows everything.
	silenceDir string
	silenceK   int
	// hold plan: message holdK of direction holdDir is delivered holdMs late
	holdDir string
	holdK   int
	holdMs  int
	tr         *vTrace
	run        int
	logLines   bool
	closed     bool
}

func newE2EWire(seed int64, maxChunk int) *e2eWire {
	w := &e2eWire{actProt: -1, silenceK: -1, mutG: -1, mut2G: -1, holdK: -1}
	mk := func(dir string, s int64) *e2ePipe {
		p := &e2ePipe{w: w, dir: dir, maxChunk: maxChunk, rng: rand.New(rand.NewSource(seed*7919 + s))}
		p.parser = &e2eParser{dir: dir, binary: &w.binary, winNL: &w.winNL}
		return p
	}
	w.c2s = mk("c2s", 1)
	w.s2c = mk("s2c", 2)
	return w
}

func (p *e2ePipe) Write(b []byte) (int, error) {
	w := p.w
	w.act.Add(1)
	p.dmu.Lock()
	defer p.dmu.Unlock()
	w.mu.Lock()
	if p.writeErr != nil {
		err := p.writeErr
		w.mu.Unlock()
		return 0, err
	}
	p.tap.Write(b)
	var done []*e2eMsg
	p.parser.feed(b, func(m *e2eMsg) {
		m.G = w.g
		w.g++
		w.msgs = append(w.msgs, m)
		done = append(done, m)
		if m.Typ == "CFG" {
			if j, ok := m.value()["j"].(map[string]any); ok {
				if bv, ok := j["binary"].(bool); ok && bv {
					w.binary = true
				}
			}
		}
	})
	out := append([]byte(nil), b...)
	// ACT rewrite (older-client emulation): only when the whole ACT line is inside this write
	if p.dir == "c2s" && w.actProt >= 0 {
		for _, m := range done {
			if m.Typ == "ACT" {
				out = e2eRewriteACT(out, w.actProt, w.winNL, w.actNoDir)
			}
		}
	}
	base := p.sent
	for _, m := range done {
		if m.G == w.mutG && !w.mutApplied && m.Off >= base && m.Off+m.Len <= base+len(b) && len(out) == len(b) {
			out = e2eMutateLine(out, m.Off-base, w.mutType, w.mutNew)
			w.mutApplied = true
		} else if m.G == w.mut2G && !w.mut2Applied && m.Off >= base && m.Off+m.Len <= base+len(b) && len(out) == len(b) {
			out = e2eMutateLine(out, m.Off-base, "", w.mut2New)
			w.mut2Applied = true
		}
	}
	p.sent += len(b)
	out = w.applyFaults(p.dir, base, out)
	cb := w.onMsg
	silencedBefore := p.silent
	w.mu.Unlock()

	for _, m := range done {
		if w.logLines && w.tr != nil {
			ev := map[string]any{"e": "line", "run": w.run, "dir": m.Dir, "g": m.G, "t": m.Typ, "v": m.flat()}
			w.tr.Emit(ev, nil)
		}
		if cb != nil {
			cb(m, "before")
		}
	}
	if w.holdDir == p.dir && w.holdK >= 0 {
		for _, m := range done {
			if m.K == w.holdK {
				time.Sleep(time.Duration(w.holdMs) * time.Millisecond) // this direction stands still meanwhile
			}
		}
	}
	if !silencedBefore && !p.isSilent() {
		p.push(out)
	}
	for _, m := range done {
		if cb != nil {
			cb(m, "after")
		}
		w.mu.Lock()
		if w.silenceDir == p.dir && w.silenceK >= 0 && m.K >= w.silenceK {
			p.silent = true
		}
		w.mu.Unlock()
	}
	return len(b), nil
}

func (p *e2ePipe) isSilent() bool {
	p.w.mu.Lock()
	defer p.w.mu.Unlock()
	return p.silent
}

// push re-chunks: merges with held-back bytes, splits into pieces of random size, sometimes
// holds the tail back for the next write (flushed by the flusher within a millisecond).
func (p *e2ePipe) push(out []byte) {
	data := append(p.pend, out...)
	p.pend = nil
	var pieces [][]byte
	if p.maxChunk <= 0 {
		pieces = [][]byte{data}
	} else {
		for len(data) > 0 {
			n := 1 + p.rng.Intn(p.maxChunk)
			if p.rng.Intn(4) == 0 {
				n = 1 + p.rng.Intn(1+p.rng.Intn(8))
			}
			if n >= len(data) {
				if len(data) < 32 && p.rng.Intn(3) == 0 {
					p.pend = append([]byte(nil), data...)
					go p.flushLater()
					break
				}
				n = len(data)
			}
			pieces = append(pieces, append([]byte(nil), data[:n]...))
			data = data[n:]
		}
	}
	deliver := p.deliver
	for _, pc := range pieces {
		deliver(pc) // under the pipe lock: keeps the order of pieces across concurrent writers
	}
}

func (p *e2ePipe) flushLater() {
	time.Sleep(300 * time.Microsecond)
	p.dmu.Lock()
	defer p.dmu.Unlock()
	if len(p.pend) > 0 && !p.isSilent() {
		d := p.pend
		p.pend = nil
		p.deliver(d)
	}
}

func (w *e2eWire) applyFaults(dir string, base int, out []byte) []byte {
	for _, f := range w.faults {
		if f.done || f.Dir != dir {
			continue
		}
		i := f.Off - base
		if f.Kind == "trunc" {
			if f.Off < base+len(out) {
				// everything from Off on is lost, and so is everything written later
				if i < 0 {
					i = 0
				}
				out = out[:i]
				if dir == "c2s" {
					w.c2s.silent = true
				} else {
					w.s2c.silent = true
				}
				f.done = true
			}
			continue
		}
		if i < 0 || i >= len(out) {
			continue
		}
		f.done = true
		switch f.Kind {
		case "flip":
			out[i] ^= f.Val
		case "del":
			out = append(out[:i:i], out[i+1:]...)
		case "dup":
			out = append(out[:i+1:i+1], out[i:]...)
		case "ins":
			out = append(out[:i:i], append([]byte{f.Val}, out[i:]...)...)
		case "linedel", "linedup":
			// the whole line that starts at Off is dropped / delivered twice (a burst of byte faults)
			if e := bytes.IndexByte(out[i:], '\n'); e >= 0 {
				line := append([]byte(nil), out[i:i+e+1]...)
				if f.Kind == "linedel" {
					out = append(out[:i:i], out[i+e+1:]...)
				} else {
					out = append(out[:i:i], append(line, out[i:]...)...)
				}
			}
		}
	}
	return out
}

func e2eRewriteACT(out []byte, prot int, win bool, noDir bool) []byte {
	i := bytes.Index(out, []byte("#ACT:"))
	if i < 0 {
		return out
	}
	j := bytes.IndexByte(out[i:], '\n')
	if j < 0 {
		return out
	}
	end := i + j
	payloadEnd := end
	if win && payloadEnd > i && out[payloadEnd-1] == '!' {
		payloadEnd--
	}
	dec, err := decodeString(string(out[i+5 : payloadEnd]))
	if err != nil {
		return out
	}
	var m map[string]any
	if json.Unmarshal(dec, &m) != nil {
		return out
	}
	if prot == 0 {
		delete(m, "protocol")
	} else {
		m["protocol"] = prot
	}
	if noDir {
		m["support_dir"] = false
	}
	enc, _ := json.Marshal(m)
	var nb bytes.Buffer
	nb.Write(out[:i+5])
	nb.WriteString(encodeString(string(enc)))
	nb.Write(out[payloadEnd:])
	return nb.Bytes()
}

// ---------------------------------------------------------------- trees and snapshots

type e2eEntry struct {
	Rel  string `json:"rel"`
	Dir  bool   `json:"dir"`
	Size int64  `json:"size"`
	Sum  string `json:"sum"`
	MT   int64  `json:"mt"`
}

func e2eSnapshot(root string) map[string]e2eEntry {
	res := map[string]e2eEntry{}
	_ = filepath.Walk(root, func(p string, info os.FileInfo, err error) error {
		if err != nil || p == root {
			return nil
		}
		rel, _ := filepath.Rel(root, p)
		e := e2eEntry{Rel: rel, Dir: info.IsDir(), MT: info.ModTime().UnixNano()}
		if info.Mode()&os.ModeSymlink != 0 {
			tgt, _ := os.Readlink(p)
			e.Sum = "symlink:" + tgt
		} else if info.Mode().IsRegular() {
			e.Size = info.Size()
			if b, err := os.ReadFile(p); err == nil {
				h := sha256.Sum256(b)
				e.Sum = hex.EncodeToString(h[:8])
			}
		}
		res[rel] = e
		return nil
	})
	return res
}

// e2eContent produces deterministic content: kind 0 compressible text, 1 incompressible,
// 2 every byte value cycling with runs of protected bytes.
func e2eContent(size int64, kind int, seed int64) []byte {
	b := make([]byte, size)
	r := rand.New(rand.NewSource(seed))
	switch kind {
	case 0:
		words := []string{"lorem ", "ipsum ", "dolor ", "sit ", "amet\n", "trzsz ", "0123456789 "}
		i := 0
		for i < len(b) {
			w := words[r.Intn(len(words))]
			i += copy(b[i:], w)
		}
	case 1:
		_, _ = r.Read(b)
	default:
		for i := range b {
			switch r.Intn(6) {
			case 0:
				b[i] = 0xee
			case 1:
				b[i] = []byte{0x7e, 0x0d, 0x10, 0x11, 0x13, 0x18, 0x1b, 0x1d, 0x8d, 0x90, 0x91, 0x93, 0x9d}[r.Intn(13)]
			default:
				b[i] = byte(i)
			}
		}
	}
	return b
}

func e2eSortedKeys(m map[string]e2eEntry) []string {
	ks := make([]string, 0, len(m))
	for k := range m {
		ks = append(ks, k)
	}
	sort.Strings(ks)
	return ks
}

func e2eFmt(format string, a ...any) string { return fmt.Sprintf(format, a...) }

// e2eMutateLine replaces, in the line starting at out[at] ("#TYPE:payload<nl>"), the payload
// (and optionally the type).  Bytes after the line terminator (a binary block) are kept.
func e2eMutateLine(out []byte, at int, newType, newPayload string) []byte {
	nl := bytes.IndexByte(out[at:], '\n')
	if nl < 0 || out[at] != '#' {
		return out
	}
	end := at + nl
	if end > at && out[end-1] == '!' {
		end--
	}
	colon := bytes.IndexByte(out[at:end], ':')
	if colon < 0 {
		return out
	}
	var nb bytes.Buffer
	nb.Write(out[:at])
	if newType == "\x00RAW" { // the whole line (head included) is replaced: damage at the framing level
		nb.WriteString(newPayload)
		nb.Write(out[end:])
		return nb.Bytes()
	}
	if newType != "" {
		nb.WriteString("#" + newType + ":")
	} else {
		nb.Write(out[at : at+colon+1])
	}
	nb.WriteString(newPayload)
	nb.Write(out[end:])
	return nb.Bytes()
}
