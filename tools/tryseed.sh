#!/bin/bash
# tools/tryseed.sh <worktree-with-change-applied> <ID> [tier]: run a check against a private worktree of
# /repo that carries a seeded change (VERIF_REPO), leaving /repo itself alone (other runs build from it).
set -u
wt=$1; id=$2; tier=${3:-quick}
cd /verif
VERIF_REPO=$wt ./check $id --tier $tier 2>&1 | grep -E "VIOLATION|KNOWN|tier=|INFRA|^  " | head -${LINES_MAX:-8} | cut -c1-260
