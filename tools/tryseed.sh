#!/bin/bash
# tools/tryseed.sh <patch.diff> <ID> [tier]: apply a seeded change to /repo, run the check, revert.
set -u
patch=$1; id=$2; tier=${3:-quick}
cd /verif
if [ -n "$(git -C /repo status --porcelain)" ]; then echo "/repo not clean"; exit 3; fi
git -C /repo apply "$patch" || { echo "patch does not apply"; exit 3; }
./check $id --tier $tier 2>&1 | grep -E "VIOLATION|KNOWN|tier=|INFRA|^  " | head -${LINES_MAX:-8} | cut -c1-260
git -C /repo checkout -- .
git -C /repo status --porcelain | head -3
