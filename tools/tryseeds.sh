#!/bin/bash
# tools/tryseeds.sh <prefix> <n1> <n2> ...: for each nN run check C<nN> (quick) against worktree <prefix>-c<nN>
# (3 at a time), print a one-line verdict per seed with the first violation key.
prefix=$1; shift
cd /verif
run() { n=$1; ID=C$n; out=$(VERIF_REPO=${prefix}-c$n ./check $ID --tier quick 2>&1); rc=$?
  key=$(echo "$out" | grep -m1 '^VIOLATION' | sed 's/.*replay=replays\/[A-Z0-9]*\///' | cut -c1-70)
  echo "$ID rc=$rc $( [ $rc = 1 ] && echo CAUGHT || ([ $rc = 0 ] && echo MISSED || echo INFRA) ) $key"; }
i=0
for n in "$@"; do run $n & i=$((i+1)); if [ $((i%3)) = 0 ]; then wait; fi; done; wait
