#!/bin/bash
# Runs every registered quick (or $1=thorough) check on /repo's current tree and prints one line each.
cd "$(dirname "$0")/.."
tier=${1:-quick}
for id in $(python3 -c "import json;print(' '.join(c['property_id'] for c in json.load(open('MANIFEST.json'))['checks']))"); do
  t0=$(date +%s)
  out=$(./check $id --tier $tier 2>&1)
  rc=$?
  echo "$id rc=$rc $(( $(date +%s) - t0 ))s $(echo "$out" | grep -cE '^VIOLATION') violations $(echo "$out" | grep -cE '^KNOWN-FINDING') known"
  if [ $rc != 0 ]; then echo "$out" | grep -E "INFRA-ERROR|^VIOLATION" | head -5 | cut -c1-600; echo "$out" | grep -A12 "INFRA-ERROR" | tail -12 | cut -c1-300; fi
done
