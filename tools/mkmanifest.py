#!/usr/bin/env python3
"""Regenerates /verif/MANIFEST.json from the table below (one entry per built check)."""
import json, os
V = os.path.dirname(os.path.dirname(os.path.abspath(__file__)))
props = [json.loads(l) for l in open(os.path.join(V, "properties.jsonl"))]

# id -> (technique, level text, level note, design ref, engine)
BUILT = {
 "C03": ("TLA+ spec Wire.tla checked exhaustively by TLC; trace validation of recorded trzszBuffer executions against WireTrace.tla; TLC-exported behaviours (WireGen.tla) replayed into the real buffer",
         "Exhaustive TLC model check of the buffer/reader design (all streams over the bytes that matter up to the bound, all segmentations, all interleavings of pushes and reads, all read-kind sequences) against a reference defined on the concatenated bytes only; bound to the code in both directions: every recorded real execution (exhaustive short streams x all segmentations, random long ones, concurrent pusher, timer scenarios) must be a behaviour of the spec with all invariants true at every step, and every exported spec behaviour must be reproduced by the real buffer.",
         "Trusts TLC, the harness recorder (events numbered under one mutex; pushes logged atomically with addBuffer) and the parked-reader detection via runtime.Stack; bounds: model streams <= 4 (quick) / 5 (thorough) bytes, implementation streams <= 4/5 exhaustive and <= 512 random.",
         "2/C03", "wire"),
 "C01": ("TLA+ spec Transfer.tla (message-level protocol model) checked exhaustively by TLC incl. liveness; trace validation of recorded real end-to-end transfers against TransferObs.tla (observables) and TransferTrace.tla (every protocol line)",
         "Exhaustive TLC model check of the transfer protocol design (protocols 1..4, both directions, refusal, several file sets, pipelined window) for Fidelity, NoSilentCorruption, NoFalseSuccess, CleanRunSucceeds and Termination; bound to the code by validating hundreds (quick) to thousands (thorough) of real fault-free transfers between the real client path and the real trz/tsz role bodies over a seeded re-chunking wire across the configuration matrix: Transfer's own property formulas are evaluated on the observed outcome, and every protocol line written must be a send the spec allows in that state with the logged value.",
         "Trusts TLC, the harness wire/parser/recorder and SHA-256; in-process roles (the process-level binaries, tunnel, fork and relay hops are covered under C14/C17 or listed as not covered in DESIGN.md); model bounds: <=3 entries, <=3 units per file, window 2.",
         "2/C01", "transfer"),
 "C02": ("TLA+ spec Transfer.tla with channel fault actions checked exhaustively by TLC; real transfers with byte-level faults at every message validated against TransferObs.tla",
         "Exhaustive TLC model check: for every single (quick) / double (thorough) message-level fault (delete, duplicate, damage, truncate) at every position and phase, protocols 1/2/4, both directions, a role counts a file as done or reports success only if the destination equals the source; bound to the code by injecting byte-level faults (flip, delete, duplicate, insert, truncate) at first/middle/last byte of every protocol message of both directions of real transfers and evaluating Transfer's NoSilentCorruption/Fidelity formulas on each observed outcome.",
         "Trusts TLC, the harness wire (fault injection by sender-stream offset), SHA-256; quick covers 4 base transfers (upload/download x base64/binary, protocol 4), thorough adds protocols 1-3, directory/archive mode, compression, double faults.",
         "2/C02", "transfer"),
 "C10": ("TLA+ spec Transfer.tla with UserStop/NoticeStop/DeleteCreated checked exhaustively by TLC incl. liveness; real transfers stopped before/after every protocol message validated against TransferObs.tla",
         "Exhaustive TLC model check with a user stop (client keep, client delete, server keep) enabled in every state of the protocol (protocols 1..4, both directions): no role reports success unless every file was completed and verified, completed files are never damaged by a plain stop, after a noticed stop-and-delete nothing created is left, and both roles always finish; bound to the code by delivering the stop synchronously inside the wire before and after every protocol message of real transfers (plain, archive and directory/overwrite modes, destinations with pre-existing content) and judging the observed results, time from the stop to each role's return, what is left at the destination and what pre-existing entries changed.",
         "Trusts TLC, the harness wire (stop injected at message boundaries; sub-message timing left to the scheduler), filesystem snapshots; prompt = timeout + 1.5 s + 8 s slack; one stop per transfer; process-level SIGINT/SIGTERM on real trz/tsz binaries is not exercised (stopTransferringFiles(false) is called, which is all the signal handler does).",
         "2/C10", "transfer"),
 "C11": ("TLA+ specs Transfer.tla (message level, time-outs, Termination) and Pipeline.tla (goroutine/channel level of sendFileDataV2, Termination + non-vacuity variant) checked by TLC; real transfers with silence / write errors / local failures at every message index validated against TransferObs.tla",
         "TLC checks liveness (every behaviour ends with both roles finished / every pipeline stage exited) on the message-level model with faults and on the stage-level model of the sending pipeline with peer silence, write errors and read errors at every step (the pre-fix WaitGroup variant of the same model must and does violate it); bound to the code by making the peer fall silent or the connection fail after every message index of either direction, failing destination writes and shrinking the source mid-transfer in real transfers, and judging: time from the fault to each role's return, results, fail lines, and transfer goroutines still alive one time-out later.",
         "Trusts TLC, the harness wire, runtime.Stack for leftover workers; wall-clock bound = read time-out + 1.5 s + 8 s slack; the receiving pipeline is covered by the real runs and the message-level model, its stage-level model is not written yet; perturbed goroutine schedules come only from the 96 concurrently running shard processes.",
         "2/C11", "transfer"),
 "C18": ("TLA+ spec Transfer.tla with pause/resume, keep-alive messages and a discrete read-timer clock checked exhaustively by TLC incl. liveness and an action property; real transfers paused before/after every protocol message validated against TransferObs.tla",
         "Exhaustive TLC model check with up to two pause/continue cycles of the client in every state (protocols 3 and 4, both directions): a pause during which the peer never waits a full time-out completes with both sides ok, no file data is written while paused (action property), no side ever reports success for a wrong file, every behaviour terminates; bound to the code by pausing the real client before/after every protocol message of real transfers and continuing after 0.2x/0.5x/1.3x/2.5x the time-out (and three short cycles), judging results, destination equality, time to return and the number of DATA lines written while paused.",
         "Trusts TLC and the harness wire; short pause = at most half the time-out (3 s); pause()/resume() are called directly instead of through the prompt UI; keep-alive lines are reported but not required.",
         "2/C18", "transfer"),
 "C12": ("TLA+ spec Transfer.tla with message damage checked by TLC; real transfers with one protocol field replaced in flight by boundary values, run in address-space-limited child processes, validated against TransferObs.tla (ObsNoCrash, ObsBoundedMemory, ObsReturnInTime)",
         "TLC checks that in the design every damaged, unexpected or forged message leads to Fail or a harmless continuation with all state in range; bound to the code by replacing, in real transfers, the payload of one message at a time (every message of both directions; NUM/SIZE/SUCC integers and len/step pairs, DATA headers and payloads, NAME/target/HASH/ACT/CFG JSON documents field by field, digests, EXIT text, forged FAIL, unknown types) with negative, zero, off-by-one, 2^31, 2^62, 2^63-1, non-numeric, empty, oversized, wrong-type, missing-field, truncated JSON/base64/zlib values, for both roles, base64/binary, prefix-hash and archive modes, with a progress display attached; each shard runs in a child process with RLIMIT_AS 6 GiB and a child that dies is attributed to the case it had marked.",
         "Single mutation per run; the honest peer continues normally after the mutated message; terminal-output scanners are covered by C05/C06/C19; 'session usable afterwards' is covered by C05's histories; results ok/fail are not judged (a renaming peer is indistinguishable from another honest transfer).",
         "2/C12", "transfer"),
 "C13": ("TLA+ spec Relay.tla (one action per shared-memory operation of wrapInput / wrapOutput / handshake) checked exhaustively by TLC incl. liveness and two mutant designs; recorded executions of a real TrzszRelay with seeded delays at the vhook points validated against RelayTrace.tla",
         "Exhaustive TLC model check of all interleavings of the relay's input reader, output reader and handshake worker around standby -> handshaking -> transferring -> standby for chunk arrival patterns before / inside / straddling / after the ACT and CFG lines, confirm and refuse: nothing duplicated, reordered, lost or delivered to the wrong side, chunks parked only while handshaking, everything eventually delivered; the designs without the re-check under the lock and with the status stored before the flush violate it (non-vacuity).  Bound to the code by driving a real relay with unique payload bytes around real trigger/ACT/CFG/EXIT lines under seeded random delays at 16 hook points and validating every feed/hook/deliver event against the same actions with every invariant evaluated at every step.",
         "Trusts TLC, the vhook points (add-only, build tag verif) and the harness tokeniser; schedules are perturbed randomly, not enumerated, on the real code; exhaustive only on the model (4-5 chunks per side); malformed ACT/CFG outcomes and the tunnel relay path are not in the model yet.",
         "2/C13", "relay"),
 "C14": ("TLA+ specs RelayCfg.tla (handshake rewrites composed with the servers' rule, exhaustive) and RelayObs.tla; TLC-exported cases replayed through the real relay handshake() and validated against RelayCfgTrace.tla; sequences of real transfers through 1-2 real relays validated against RelayObs.tla",
         "Exhaustive TLC check over all client capability sets x server options x relay situations that the relay never lets binary be negotiated without a tunnel, never raises the protocol above 4 or above the client's, only adds its tmux constraints to the server's configuration and only narrows the action; bound to the code by pushing exported cases through the real handshake() with a real server role and requiring exactly the rewrites the spec computes, and by sequences of four real transfers (success, fault, stop on either side, success) through one chain of 1 or 2 real relays, judging the action/configuration at both ends, the relays' return to standby, pass-through probes in both directions and file equality of successful transfers.",
         "Trusts TLC and the harness; (tunnel and Windows newline) and (server wants directories, client cannot) are excluded as unreachable / refused combinations; recovery runs are outside tmux and without tunnel; Ctrl-C ending only in the Relay model.",
         "2/C14", "relay"),
 "C05": ("TLA+ spec Filter.tla (output pump, input pump, handler goroutine, stop prompt, zmodem session, drag upload, wrapper exit) checked by TLC incl. liveness; recorded real NewTrzszFilter sessions validated against FilterTrace.tla; exported behaviours (FilterGen.tla) replayed; real trzsz wrapper runs",
         "Exhaustive TLC model check of the filter's concurrent pumps and handler over option sets and histories of up to two transfers (PassThroughOut/In, PtrClearedOnEveryExit, NoStuckFlags, ExitPassed, []<>ModePass); bound to the code by recording, per pump turn of a real filter on blocking pipes, the relation between bytes fed and bytes written for seeded chunk streams of every kind (binary, CSI/OSC/DCS, near-miss triggers, zmodem-like and OSC52 fragments, path-like input) under every option set after real histories (completed, failed, stopped, refused transfers, zmodem sessions, drag uploads), replaying exported behaviours, and running the real trzsz binary over pipe and pty for exit codes 0/1/2/42/255 and signals.",
         "Trusts TLC, the harness pipes (one chunk per Read) and the fake zenity; Windows drag paths, tunnel connector and UploadFiles API not exercised; three genuine defects are listed in known_findings.txt (prompt left open at the end of a transfer, skipUploadCommand stuck after a silent drag upload, wrapper loses the last output at exit).",
         "2/C05", "filter"),
 "C06": ("TLA+ spec Detector.tla (Detect written from the property, ordered id memory with pruning) checked by TLC; exported token-level sessions (DetectorGen.tla) replayed into real trzszDetector (client/relay/relay+tmux) and a real TrzszFilter; recorded runs validated against DetectorTrace.tla",
         "Exhaustive TLC model check over chunk sequences of trigger / partial trigger / finished-marker / control-mode tokens and id shapes (AtMostOnePerChunk, FieldsAsAdvertised, ShownFormInert, RelayFormStillRecognised, ReplaySuppressed, ScrollbackSuppressed, FreshIdFires); bound to the code by concretising tens of thousands of exported sessions with seeded modes, versions, ids, ports and prefixes and replaying them into real detectors and into a real filter (one #ACT per fired chunk, advertised version/port/id observed), including 300-chunk histories across the 100/50 pruning threshold and the first line real trz/tsz processes print.",
         "Trusts TLC and the concretiser; inputs the property does not decide (7-12 digit ids, 15-digit ids ending 00, control-mode framing on some lines only, port 0 with tunnel) are never generated; replay through a TrzszRelay object is left to C13/C14.",
         "2/C06", "detector"),
 "C15": ("TLA+ spec Archive.tla (scan, reader loop turns, writer with writeAll's short-count loop, source resize) checked by TLC; exported (tree, read sizes, write segmentation) cases (ArchiveGen.tla) replayed through the real archive reader/writer; recorded runs validated against ArchiveTrace.tla",
         "Exhaustive TLC model check over small trees, every read size and every independent write segmentation (Reconstructed, AnnouncedIsProduced, HeaderNeverInPayload, OneOpenFile, ShrinkIsError, WrittenIsPrefix); bound to the code by replaying thousands of exported cases and validating recorded runs of the real newArchiveReader -> archiveFileWriter.Write (driven by the real writeAll) on materialised trees, including 50/100/300-entry trees with descriptor counts from /proc/self/fd, unicode names, files of several read buffers, sources shrinking or growing between scan and read, and RLIMIT_NOFILE=64.",
         "Trusts TLC, /proc/self/fd accounting and SHA-256; the full protocol-4 transfer path is covered under C01 (archive mode) rather than here; the largest model config needs ~6M states (thorough).",
         "2/C15", "archive"),
 "C08": ("TLA+ spec Resume.tla (append.go step by step: pipelined prefix hashes, acks, stopNow, Over, seek/truncate at matchStep, protocols 2/3/4) checked by TLC incl. liveness; exported relations (ResumeGen.tla) run as real transfers with the real 10 MiB block size and validated against ResumeTrace.tla",
         "Exhaustive TLC model check over every relation between source and previous destination content for up to 3 blocks (absent, empty, every prefix, identical, longer, diverging at first/middle/last unit of every block) x protocols 2-4: FinalEqualsSrc, MatchIsProven, SkippedNeverExceedsProven, TailCut, KeptOnlyProven, OthersUntouched, NoStuck, Termination; bound to the code by materialising exported relations with the real 10 MiB comparison block (files of 0..30 MiB, differing at 10 MiB-1/10 MiB/10 MiB+1 and 20 MiB+-1), running real transfers in both directions, base64/binary, protocols 2-4, and validating the recorded HASH / ack / over / SIZE / payload events and the observed final state against the same actions.",
         "Trusts TLC, the e2e harness and SHA-256; seek/truncate offsets are judged from outside (final bytes, announced remaining SIZE) because no hook sits in append.go.",
         "2/C08", "resume"),
 "C19": ("TLA+ spec Zmodem.tla (one action per critical section of zmodem.go and of the zmodem branches of filter.go; helper, timers and user as environment) checked by TLC incl. liveness; exported plans (ZmodemGen.tla) realised on a real filter with puppet rz/sz helpers and validated against ZmodemTrace.tla",
         "Exhaustive TLC model check over helper behaviours (exits 0 / non-zero / immediately, silent, late output, cannot start), server behaviours (finishes, cancels before/after the helper, keeps sending, goes quiet), Ctrl-C anywhere, upload and download: VetoedHeaderStartsNothing, CancelSentToWaiter, SwallowOnlyWhileActive, InputFlowsAfter, NotStuck at quiescence, HandBack under fair timers; bound to the code by realising sampled plans on a real NewTrzszFilter{EnableZmodem} with commanded fake rz/sz processes (and without them on PATH), bracketing every server chunk and typed input with begin/end events whose observed disposition must equal the spec's, and probing the hand-back after the code's own quiet period plus slack.",
         "Trusts TLC, the puppet helpers and timing slack (0.5 s quiet + 2 s; 20 s timers + 2 s); one session per run; the start header arrives within one read; two genuine defects found were fixed in /repo.",
         "2/C19", "zmodem"),
}
checks = []
for p in props:
    pid = p["id"]
    if pid not in BUILT:
        continue
    tech, text, note, ref, eng = BUILT[pid]
    checks.append({
        "property_id": pid,
        "quick_cmd": "./check %s --tier quick" % pid,
        "thorough_cmd": "./check %s --tier thorough" % pid,
        "evidence_file": "evidence/%s.json" % pid,
        "replay_cmd_template": "./check %s --replay {path}" % pid,
        "engine": eng,
        "level_claimed": {"category": "model_checking", "text": text, "design_ref": ref},
        "level_note": note,
        "technique": tech,
    })
NA = {}
na = [{"property_id": p["id"], "reason": NA.get(p["id"], "check not built yet in this round (planned in DESIGN.md section 2); no claim is made")}
      for p in props if p["id"] not in BUILT]
hooks = json.load(open(os.path.join(V, "tools", "hooks.json"))) if os.path.exists(os.path.join(V, "tools", "hooks.json")) else []
m = {
 "version": 1,
 "setup_cmd": "./check --setup",
 "hooks": {
   "guard": "verif",
   "enable": "go build/test -tags verif (the harness is injected with -overlay from /verif/harness; hook call sites in /repo are no-ops without the tag)",
   "baseline_off_cmd": "cd /repo && GOFLAGS=-mod=mod GOPROXY=off go test -vet=off -count=1 -timeout 25m ./...",
   "source_commits": hooks,
   "add_only": True,
 },
 "engines": [
   {"name": "check", "path": "check", "serves_properties": [c["property_id"] for c in checks],
    "kind_free_text": "python3 orchestrator: builds the in-package Go harness from /repo's working tree (go test -c -tags verif -overlay), runs drivers, runs TLC (exhaustive, trace validation, MBT export), writes evidence"},
   {"name": "spec", "path": "spec", "serves_properties": [c["property_id"] for c in checks],
    "kind_free_text": "TLA+ modules: <X>.tla design + properties, <X>Trace.tla trace validation, <X>Gen.tla model-based test export"},
   {"name": "harness", "path": "harness", "serves_properties": [c["property_id"] for c in checks],
    "kind_free_text": "Go package-trzsz drivers (build tag verif) recording ndjson events of real executions and replaying TLC behaviours"},
 ],
 "checks": checks,
 "not_applicable": na,
 "notes": "Model-based verification with explicit TLA+ specifications; see DESIGN.md.  Exit 2 of a check = infrastructure failure, never a verdict.",
}
json.dump(m, open(os.path.join(V, "MANIFEST.json"), "w"), indent=1)
print("MANIFEST.json: %d checks, %d not_applicable" % (len(checks), len(na)))
