SPECIFICATION GSpec
CONSTANTS
  MaxMem = 2
  PruneN = 1
  MaxChunks = 1
  MaxToks = 2
  Roles = {"client", "relay", "relaytmux"}
  WinVals = {TRUE, FALSE}
  Modes = {"R"}
  Vers = {"new"}
  Ports <- PortsSmall
  Shapes = {"none", "short", "s00", "s10", "s20", "p11"}
  TsSet = {1}
  PartKinds = {"inmarker", "ver2", "badmode"}
  Markers = {"Saved"}
  Places = {"near", "far"}
  CtlKinds = {"none", "out", "fake"}
  WithJunk = TRUE
INVARIANTS Export
CHECK_DEADLOCK FALSE
