SPECIFICATION Spec
CONSTANTS
  Configs <- CfgFaultBig
  Window = 2
  MaxFaults = 0
  FaultKinds <- AllKinds
  StopRoles <- BothRoles
INVARIANTS TypeOK Fidelity NoSilentCorruption NoFalseSuccess CleanRunSucceeds DeleteExact
PROPERTIES Termination
CHECK_DEADLOCK FALSE
