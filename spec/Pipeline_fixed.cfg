SPECIFICATION Spec
CONSTANTS
  Blocks = 3
  Cap = 1
  InitChunks = 2
  OldWaitGroup = FALSE
  Faults = {"silent", "writeerr", "readerr"}
INVARIANTS TypeOK OkMeansComplete CleanOk
PROPERTIES Termination
CHECK_DEADLOCK FALSE
