SPECIFICATION TSpec
CONSTANTS
  Alphabet = {0}
  MaxLen = 0
  MaxChunk = 0
  MaxOps = 0
  BinSizes = {}
  WithStop = TRUE
  WithTimer = TRUE

CONSTRAINT HW
POSTCONDITION Accepted
CHECK_DEADLOCK FALSE
