SPECIFICATION Spec
CONSTANTS
  Configs <- CfgFault
  Window = 2
  MaxFaults = 1
  FaultKinds <- AllKinds
  MaxPauses = 0
  TimeoutTicks = 2
  MaxTicks = 3
  Weaken = "final"
  StopRoles <- NoRoles
INVARIANTS TypeOK Fidelity NoSilentCorruption NoFalseSuccess CleanRunSucceeds
CHECK_DEADLOCK FALSE
