SPECIFICATION Spec
CONSTANTS
  CliChunks <- NoCli
  SrvChunks <- SrvTonly
  Pairs <- P1
  PairRound <- R1
  CliTun <- CTmin
  SrvTun <- STmin
  Confirm <- Yes1
  ParkRule = "real"
  FlushRoute = "real"
  UseCAS = TRUE
  ClearTC = TRUE
  SpinOnError = FALSE
  SrvErrEOF = FALSE
  Window = FALSE
  LateOK = FALSE
  Closing = TRUE
INVARIANTS TunnelOrder TunnelNotInband InbandIgnoredWhileTunnel InbandOrder AtMostOneTunnelRelay BoundIsCurrent
  TunnelNothingLost InbandNothingLost TunnelNoJunk LoserClosed ResetClean ParkOnlyWhileHandshaking NoSpin
PROPERTIES Progress PumpsEnd
CHECK_DEADLOCK FALSE
