------------------------------- MODULE DestGen -------------------------------
(* Test-case export for Dest (model-based testing, spec -> implementation).  No history      *)
(* variable is needed: a behaviour of Dest is determined by its initial state, which the     *)
(* final state still carries (cfg, plan, pre).                                                *)
(*  Export07: every (pre, sources, configuration) of the C07 universe with the outcome the   *)
(*            design prescribes (names chosen, or refusal); harness/c07_dest.go materialises  *)
(*            each one and runs a real receive into it.                                       *)
(*  Export09: run with Validate = "ascoded" (the variant that mirrors the code as it was     *)
(*            when the check was written); every receive that ends with something touched    *)
(*            outside the destination is exported; checks/c09.py keeps the shortest names    *)
(*            per decode site and element kind and harness/c09_escape.go plays them.          *)
EXTENDS Dest, Json, TLCExt

PathList(f) == {[up |-> p[1], p |-> p[2], t |-> f[p].t, c |-> f[p].c] : p \in DOMAIN f}
EntryList == {[site |-> e.site, pid |-> e.pid, rel |-> e.rel, dir |-> e.dir, c |-> e.c] : e \in AllEntries(plan)}
Names(s) == {[pid |-> q, names |-> nameMap[q]] : q \in DOMAIN nameMap}
Leaf == LET t == Last(plan) IN IF t.subs # <<>> THEN Last(t.subs) ELSE t

(* the name universe of the configuration, for the drivers that play every name *)
ASSUME PrintT("NAMES " \o ToJson(HostileNames))

Export07 == (round = 1 /\ phase \in {"ok", "failed"}) =>
    PrintT("MBT " \o ToJson([pre |-> PathList(pre), entries |-> EntryList, cfg |-> cfg,
                              want |-> [phase |-> phase, reported |-> reported, exhausted |-> exhausted]]))

Export09 == (phase \in {"ok", "failed"} /\ outside # {}) =>
    PrintT("MBT " \o ToJson([cfg |-> cfg, site |-> Leaf.site, rel |-> Leaf.rel, pid |-> Leaf.pid, dir |-> Leaf.dir,
                              nsrc |-> Cardinality(AllEntries(plan)),
                              outside |-> {[up |-> p[1], p |-> p[2]] : p \in outside}]))
=============================================================================
