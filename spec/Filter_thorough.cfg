SPECIFICATION FairSpec
CONSTANTS
  MaxOut = 3
  MaxIn = 2
  MaxXfer = 2
  MaxZ = 1
  MaxDrag = 1
  FeedOut = {"plain", "cmdlike", "zmcancel", "zmhdr", "tlmark", "trig"}
  FeedIn = {"plain", "ctrlc", "pathex"}
  OptSets <- AllOpts
  ExitCodes = {0, 3}
  EchoAssumed = TRUE
INVARIANTS TypeOK PassThroughOut PassThroughIn PtrClearedOnEveryExit NoStuckFlags PromptOnlyInTransfer ExitPassed LastWordsDelivered
PROPERTY Live
CHECK_DEADLOCK FALSE
