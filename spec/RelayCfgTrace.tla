--------------------------- MODULE RelayCfgTrace ---------------------------
(* Conformance of the real relay handshake() (+ the real server role that composes the CFG)    *)
(* with RelayCfg: every recorded case {act, args, relay} -> {actOut, cfgIn, cfgOut} must be    *)
(* exactly what RewriteAct / ServerCfg / RewriteCfg compute, and the C14 invariants are        *)
(* evaluated on the observed values.                                                           *)
EXTENDS RelayCfg, IOUtils, TLCExt

TraceLog == ndJsonDeserialize(IOEnv.VERIF_TRACE)
VARIABLES l, okc
tvars == <<vars, l, okc>>
Ev == TraceLog[l]

TInit == /\ l = 1 /\ okc = TRUE /\ done = FALSE
         /\ act = [binary |-> FALSE, dir |-> FALSE, fork |-> FALSE, proto |-> 0, winnl |-> FALSE, tunnel |-> FALSE, confirm |-> TRUE]
         /\ args = [quiet |-> FALSE, overwrite |-> FALSE, binary |-> FALSE, directory |-> FALSE, bufk |-> 1, timeout |-> 0, compress |-> 0, stmux |-> FALSE, winsrv |-> FALSE, swidth |-> 0]
         /\ relay = [tmux |-> FALSE, width |-> 0]
         /\ actOut = RewriteAct(act) /\ cfgIn = ServerCfg(RewriteAct(act), args)
         /\ cfgOut = RewriteCfg(ServerCfg(RewriteAct(act), args), relay, act, args)

Same(r, s, fields) == \A f \in fields : r[f] = s[f]
ActF == {"binary", "dir", "fork", "proto", "winnl", "tunnel", "confirm"}
CfgF == {"quiet", "overwrite", "directory", "bufk", "timeout", "compress", "binary", "proto", "junk", "width", "newline"}

THs == /\ l <= Len(TraceLog) /\ Ev.e = "hs" /\ l' = l + 1
       /\ Ev.ok
       /\ act' = Ev.act /\ args' = Ev.args /\ relay' = Ev.relay
       /\ actOut' = Ev.actOut /\ cfgIn' = Ev.cfgIn /\ cfgOut' = Ev.cfgOut
       \* the implementation computes what the specification computes
       /\ Same(Ev.actOut, RewriteAct(Ev.act), ActF)
       /\ (Ev.confirm => /\ Same(Ev.cfgIn, ServerCfg(RewriteAct(Ev.act), Ev.args), CfgF)
                         /\ Same(Ev.cfgOut, RewriteCfg(ServerCfg(RewriteAct(Ev.act), Ev.args), Ev.relay, Ev.act, Ev.args), CfgF)
                         /\ Ev.status = 2)
       /\ (~Ev.confirm => Ev.status = 0)
       /\ okc' = Ev.confirm /\ UNCHANGED done

TSpec == TInit /\ [][THs]_tvars

TNoBinaryWithoutTunnel == okc => NoBinaryWithoutTunnel
TProtocolClamped == okc => ProtocolClamped
TOnlyAdds == okc => OnlyAdds
TActOnlyNarrows == ActOnlyNarrows
TNewlineAsDirect == okc => NewlineAsDirect

HW == IF l > TLCGet(1) THEN TLCSet(1, l) ELSE TRUE
ASSUME TLCSet(1, 0)
Accepted == IF TLCGet(1) = Len(TraceLog) + 1 THEN TRUE
            ELSE PrintT("HW " \o ToString(TLCGet(1))) /\ FALSE
=============================================================================
