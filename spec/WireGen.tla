------------------------------ MODULE WireGen ------------------------------
(* Test-case generator for Wire (model-based testing, spec -> implementation).  A history    *)
(* variable records the externally controllable / observable steps of a behaviour; when the  *)
(* behaviour ends (Finish) it is printed as one JSON line for harness/c03_wire.go (c03_mbt). *)
EXTENDS Wire, Json, TLCExt

VARIABLES hist, done
gvars == <<vars, hist, done>>

GInit == Init /\ hist = <<>> /\ done = FALSE

Blocked == Reading /\ nextIdx >= Len(nextBuf) /\ q = <<>> /\ ~(pc = "bin" /\ binN = 0)

GNext ==
    /\ ~done
    /\ \/ \E c \in Chunks : /\ Len(fed) + Len(c) <= MaxLen /\ Push(c)
                            /\ hist' = Append(hist, [a |-> "push", c |-> c]) /\ UNCHANGED done
       \/ \E op \in {"line", "junk"} : /\ Len(out) < MaxOps /\ Start(op, 0, FALSE)
                            /\ hist' = Append(hist, [a |-> "start", op |-> op, n |-> 0]) /\ UNCHANGED done
       \/ \E n \in BinSizes : /\ Len(out) < MaxOps /\ Start("bin", n, FALSE)
                            /\ hist' = Append(hist, [a |-> "start", op |-> "bin", n |-> n]) /\ UNCHANGED done
       \/ /\ ReadIter /\ UNCHANGED done
          /\ hist' = IF pc' \in {"idle", "dead"}
                     THEN Append(hist, [a |-> "ret", res |-> out'[Len(out')].res,
                                        val |-> out'[Len(out')].val, idx |-> nextIdx'])
                     ELSE hist
       \/ /\ done' = TRUE /\ UNCHANGED vars
          /\ hist' = IF Blocked THEN Append(hist, [a |-> "blocked"]) ELSE hist

GSpec == GInit /\ [][GNext]_gvars

Export == done => PrintT("MBT " \o ToJson([steps |-> hist]))
=============================================================================
