----------------------------- MODULE TransferMC -----------------------------
(* Model-checking instances of Transfer: configuration sets for the exhaustive configs.      *)
EXTENDS Transfer

F(d, n, c) == [dir |-> d, size |-> n, comp |-> c]

FilesSmall == { <<F(FALSE, 2, FALSE)>>, <<F(FALSE, 0, FALSE)>>, <<F(TRUE, 0, FALSE), F(FALSE, 1, TRUE)>> }
FilesTwo   == { <<F(FALSE, 2, FALSE), F(FALSE, 1, TRUE)>>, <<F(FALSE, 3, TRUE)>>,
                <<F(TRUE, 0, FALSE), F(FALSE, 2, FALSE), F(FALSE, 0, FALSE)>> }

CfgClean == [files : FilesSmall \cup FilesTwo, proto : 1..4, upload : BOOLEAN, confirm : BOOLEAN]
CfgFault == [files : FilesSmall, proto : {1, 2, 4}, upload : BOOLEAN, confirm : {TRUE}]
CfgFaultBig == [files : FilesSmall \cup FilesTwo, proto : 1..4, upload : BOOLEAN, confirm : {TRUE}]
CfgPause == [files : FilesSmall \cup {<<F(FALSE, 2, FALSE), F(FALSE, 1, TRUE)>>}, proto : {3, 4}, upload : BOOLEAN, confirm : {TRUE}]
AllKinds == {"del", "dup", "dmg", "trunc"}
BothRoles == {"C", "V"}
NoRoles == {}
=============================================================================
