SPECIFICATION Spec
CONSTANTS
  CliChunks <- NoCli
  SrvChunks <- SrvTonly
  Pairs <- P2
  PairRound <- R1
  CliTun <- CTmin
  SrvTun <- STmin
  Confirm <- Yes1
  ParkRule = "real"
  FlushRoute = "real"
  UseCAS = TRUE
  ClearTC = TRUE
  SpinOnError = TRUE
  SrvErrEOF = FALSE
  Window = FALSE
  LateOK = TRUE
  Closing = FALSE
INVARIANTS TunnelOrder TunnelNotInband InbandIgnoredWhileTunnel InbandOrder AtMostOneTunnelRelay BoundIsCurrent
  TunnelNothingLost InbandNothingLost TunnelNoJunk LoserClosed ResetClean ParkOnlyWhileHandshaking
PROPERTIES Progress
CHECK_DEADLOCK FALSE
