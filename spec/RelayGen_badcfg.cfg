SPECIFICATION GSpec
CONSTANTS
  CliChunks <- GCliB
  SrvChunks <- GSrvB
  Confirm = TRUE
  Recheck = TRUE
  FlushFirst = TRUE
  HoldCfg = 0
INVARIANTS Export Order NothingLost ParkOnlyWhileHandshaking JunkIsBeforeLine
CHECK_DEADLOCK FALSE
