------------------------------- MODULE Resume -------------------------------
(* trzsz/append.go + transfer.go: what happens to ONE destination file when a file is sent   *)
(* with overwrite (-y) and something may already be at that name.                             *)
(*   protocol 2   recvFileName -> createFile(truncate = true): open with O_TRUNC, everything  *)
(*                is sent again.                                                              *)
(*   protocol 3/4 recvFileNameV3 -> createDirOrFile(truncate = false); the SUCC answer        *)
(*                carries the size of what is there; sendPrefixHash / recvPrefixHash compare  *)
(*                cumulative MD5 prefixes every kPrefixHashStep = B units, the receiver cuts  *)
(*                its file at the last step both ends proved equal and the sender seeks to    *)
(*                the same offset and sends the rest (protocol 3 announces SIZE first).       *)
(* Contents are sequences of units; B units make one comparison block (B = 3: the first byte, *)
(* the middle and the last byte of a 10 MiB block).  src[i] = i; a unit of old is i (the same *)
(* as the source at that position) or -i (different / beyond the end of the source).          *)
(* The hash of a prefix is the prefix itself (assumption: no MD5 collision).                  *)
(* One action per step of the Go code:                                                        *)
(*   sender main     SendName RecvTarget SendPreSize SenderStop SenderSeek SendSize           *)
(*                   RecvSizeAck SendData RecvDataAck          (sendFileNameV3/sendPrefixHash) *)
(*   hash goroutine  HashTest HashSend HashOver                (pipelineSendHash)              *)
(*   ack goroutine   AckRecv                                   (pipelineRecvHashAck)           *)
(*   receiver        RecvName RecvPreSize RecvHashCompare RecvHashIgnore RecvOver RecvSize    *)
(*                   RecvData                                  (recvFileNameV3/recvPrefixHash) *)
(* Hashes travel ahead of their acks (two FIFO channels); after the first mismatch the        *)
(* receiver ignores hashes but keeps reading until Over; the sender's hash goroutine stops at *)
(* its next loop test once the main goroutine has set stopNow.                                *)
EXTENDS Integers, Sequences, FiniteSets, TLC

CONSTANTS B,            \* units per comparison block
          MaxBlocks,    \* the source spans at most MaxBlocks blocks
          Protocols,    \* subset of {2, 3, 4}
          AllPatterns,  \* BOOLEAN: every same/different pattern of old instead of the named relations
          StepCheck,    \* BOOLEAN: TRUE = pipelineRecvHashAck checks that every ack is for the next step that
                        \* was sent (the code since /repo c89a7df); FALSE = the code before: the matched
                        \* prefix was taken from whatever acks arrived (see ResumeFault.tla)
          AsCoded       \* BOOLEAN: FALSE = pipelineRecvHashAck answers matchStep 0 at once when the
                        \* compared size is 0 (required; the code since /repo cb319ea);
                        \* TRUE = the code before that fix (it waited for an ack that never comes)

VARIABLES proto, src, old, oldEx,      \* the case (never change)
          kind,                        \* name of the relation (label only)
          dir,                         \* destination directory: name -> [ex, c]
          spc, hpc, apc,               \* sender: main / hash goroutine / ack goroutine
          hstep, hsize, sMatch, chosen, stopNow, spos, rest,
          rpc, rpos, rMatch, rLatch, rHashed, tsize,
          s2r, r2s,                    \* FIFO channels
          payload,                     \* units put on the wire as file data
          nhash                        \* number of HASH lines sent (observation only)

case == <<proto, src, old, oldEx, kind>>
svars == <<spc, hpc, apc, hstep, hsize, sMatch, chosen, stopNow, spos, rest>>
rvars == <<rpc, rpos, rMatch, rLatch, rHashed, tsize>>
vars == <<case, dir, svars, rvars, s2r, r2s, payload, nhash>>

Names == {"f", "f.0", "g"}     \* "f" is transferred; "f.0" is the name a run without -y would make
Absent == [ex |-> FALSE, c |-> <<>>]
File(c) == [ex |-> TRUE, c |-> c]
Other == File(<<-1000, -1001>>)

Min(a, b) == IF a < b THEN a ELSE b
Pre(s, n) == SubSeq(s, 1, n)
From(s, n) == SubSeq(s, n + 1, Len(s))      \* s without its first n units
Ident(n) == [i \in 1..n |-> i]

(* length of the longest common prefix *)
CPL(a, b) == LET m == Min(Len(a), Len(b))
                 S == {k \in 0..m : \A i \in 1..k : a[i] = b[i]} IN
             CHOOSE k \in S : \A j \in S : j <= k

(* the steps at which sendPrefixHash hashes a file of which `size` units are compared *)
HashSteps(size) == {k \in 1..size : k % B = 0 \/ k = size}

(* the offset both ends must agree on: the largest hashed step up to which old equals src *)
Proven(s, o, ex, p) ==
    IF p < 3 \/ ~ex \/ o = <<>> THEN 0
    ELSE LET ok == {k \in HashSteps(Min(Len(s), Len(o))) : k <= CPL(s, o)} IN
         IF ok = {} THEN 0 ELSE CHOOSE k \in ok : \A j \in ok : j <= k

-----------------------------------------------------------------------------
(* The relation between src (n units) and what is at the destination.                         *)
MaxUnits == MaxBlocks * B

Diverge(n, d, m, tailSame) ==       \* equal up to d-1, different at d, m units long
    [i \in 1..m |-> IF i < d THEN i ELSE IF i = d THEN -i ELSE IF tailSame /\ i <= n THEN i ELSE -i]

Named(n) ==
    {[k |-> "absent", ex |-> FALSE, o |-> <<>>], [k |-> "empty", ex |-> TRUE, o |-> <<>>]}
    \cup {[k |-> "prefix", ex |-> TRUE, o |-> Ident(m)] : m \in 1..(n - 1)}
    \cup {[k |-> "identical", ex |-> TRUE, o |-> Ident(n)] : x \in (IF n > 0 THEN {1} ELSE {})}
    \cup {[k |-> "longer", ex |-> TRUE, o |-> [i \in 1..(n + t) |-> IF i <= n THEN i ELSE -i]] : t \in {1, B, B + 1}}
    \cup {[k |-> IF ts THEN "diverge-rejoin" ELSE "diverge", ex |-> TRUE, o |-> Diverge(n, d, m, ts)] :
             d \in 1..n, m \in 1..(n + 1), ts \in BOOLEAN}

Patterns(n) ==
    {[k |-> "pattern", ex |-> TRUE, o |-> [i \in 1..m |-> IF i <= n /\ i \in S THEN i ELSE -i]] :
        m \in 0..(n + 1), S \in SUBSET (1..(n + 1))}

Relations(n) ==
    {r \in (IF AllPatterns THEN Named(n) \cup Patterns(n) ELSE Named(n)) :
        \* Diverge with d > m is not a divergence; patterns are kept canonical (S inside 1..m)
        /\ (r.k \in {"diverge", "diverge-rejoin"} => \E i \in 1..Len(r.o) : i <= n /\ r.o[i] = -i)
        /\ Len(r.o) <= n + B + 1}

Init ==
    /\ proto \in Protocols
    /\ \E n \in 0..MaxUnits : \E r \in Relations(n) :
          /\ src = Ident(n) /\ old = r.o /\ oldEx = r.ex /\ kind = r.k
          /\ dir = [nm \in Names |-> IF nm = "f" THEN (IF r.ex THEN File(r.o) ELSE Absent)
                                      ELSE IF nm = "g" THEN Other ELSE Absent]
    /\ spc = "name" /\ hpc = "idle" /\ apc = "idle"
    /\ hstep = 0 /\ hsize = 0 /\ sMatch = 0 /\ chosen = -1 /\ stopNow = FALSE /\ spos = 0 /\ rest = -1
    /\ rpc = "name" /\ rpos = 0 /\ rMatch = 0 /\ rLatch = TRUE /\ rHashed = <<>> /\ tsize = 0
    /\ s2r = <<>> /\ r2s = <<>> /\ payload = <<>> /\ nhash = 0

(* used by the trace spec: the next recorded run starts from the given case *)
Load(p, s, o, ex, k) ==
    /\ proto' = p /\ src' = s /\ old' = o /\ oldEx' = ex /\ kind' = k
    /\ dir' = [nm \in Names |-> IF nm = "f" THEN (IF ex THEN File(o) ELSE Absent)
                                 ELSE IF nm = "g" THEN Other ELSE Absent]
    /\ spc' = "name" /\ hpc' = "idle" /\ apc' = "idle"
    /\ hstep' = 0 /\ hsize' = 0 /\ sMatch' = 0 /\ chosen' = -1 /\ stopNow' = FALSE /\ spos' = 0 /\ rest' = -1
    /\ rpc' = "name" /\ rpos' = 0 /\ rMatch' = 0 /\ rLatch' = TRUE /\ rHashed' = <<>> /\ tsize' = 0
    /\ s2r' = <<>> /\ r2s' = <<>> /\ payload' = <<>> /\ nhash' = 0

Msg(t, a, b, h) == [t |-> t, a |-> a, b |-> b, h |-> h]

-----------------------------------------------------------------------------
(* Sender, main goroutine.                                                                    *)

SendName ==                                   \* sendString("NAME", ...)
    /\ spc = "name"
    /\ s2r' = Append(s2r, Msg("NAME", 0, 0, <<>>))
    /\ spc' = "target"
    /\ UNCHANGED <<case, dir, hpc, apc, hstep, hsize, sMatch, chosen, stopNow, spos, rest, rvars, r2s, payload, nhash>>

(* the SUCC answer: protocol 2 a plain name; protocol >= 3 {name, size}.                      *)
(* sendPrefixHash: tgtFile.Size <= 0 -> nothing to compare.                                   *)
RecvTarget ==
    /\ spc = "target" /\ r2s # <<>> /\ Head(r2s).t = "TARGET"
    /\ r2s' = Tail(r2s)
    /\ LET sz == Head(r2s).a IN
       IF proto < 3 \/ sz <= 0
       THEN /\ spc' = "size" /\ rest' = Len(src)
            /\ UNCHANGED <<hsize, hpc, apc, chosen>>
       ELSE /\ hsize' = Min(Len(src), sz)
            /\ rest' = rest
            /\ IF proto < 4 THEN spc' = "presize" /\ UNCHANGED <<hpc, apc, chosen>>
               ELSE /\ spc' = "wait" /\ hpc' = "test"
                    /\ IF ~AsCoded /\ Min(Len(src), sz) = 0
                       THEN apc' = "done" /\ chosen' = 0
                       ELSE apc' = "recv" /\ chosen' = chosen
    /\ UNCHANGED <<case, dir, hstep, sMatch, stopNow, spos, rvars, s2r, payload, nhash>>

SendPreSize ==                                \* protocol 3: sendInteger("SIZE", srcFile.Size)
    /\ spc = "presize"
    /\ s2r' = Append(s2r, Msg("PRESIZE", Len(src), 0, <<>>))
    /\ spc' = "wait" /\ hpc' = "test"
    /\ IF ~AsCoded /\ hsize = 0 THEN apc' = "done" /\ chosen' = 0 ELSE apc' = "recv" /\ chosen' = chosen
    /\ UNCHANGED <<case, dir, hstep, hsize, sMatch, stopNow, spos, rest, rvars, r2s, payload, nhash>>

(* matchStep = <-matchChan; stopNow.Store(true)                                               *)
SenderStop ==
    /\ spc = "wait" /\ chosen >= 0
    /\ stopNow' = TRUE /\ spc' = "join"
    /\ UNCHANGED <<case, dir, hpc, apc, hstep, hsize, sMatch, chosen, spos, rest, rvars, s2r, r2s, payload, nhash>>

(* wg.Wait(); file.Seek(matchStep); return srcFile.Size - matchStep                           *)
SenderSeek ==
    /\ spc = "join" /\ hpc = "done"
    /\ spos' = chosen /\ rest' = Len(src) - chosen /\ spc' = "size"
    /\ UNCHANGED <<case, dir, hpc, apc, hstep, hsize, sMatch, chosen, stopNow, rvars, s2r, r2s, payload, nhash>>

SendSize ==                                   \* sendFileSize(file.getSize())
    /\ spc = "size"
    /\ s2r' = Append(s2r, Msg("SIZE", rest, 0, <<>>))
    /\ spc' = "sizeack"
    /\ UNCHANGED <<case, dir, hpc, apc, hstep, hsize, sMatch, chosen, stopNow, spos, rest, rvars, r2s, payload, nhash>>

RecvSizeAck ==
    /\ spc = "sizeack" /\ r2s # <<>> /\ Head(r2s).t = "SIZEACK" /\ Head(r2s).a = rest
    /\ r2s' = Tail(r2s) /\ spc' = "data"
    /\ UNCHANGED <<case, dir, hpc, apc, hstep, hsize, sMatch, chosen, stopNow, spos, rest, rvars, s2r, payload, nhash>>

(* sendFileDataV2: `rest` units read from the current file offset (one abstract DATA)          *)
SendData ==
    /\ spc = "data"
    /\ LET d == SubSeq(src, spos + 1, Min(spos + rest, Len(src))) IN
       /\ s2r' = Append(s2r, Msg("DATA", Len(d), 0, d))
       /\ payload' = payload \o d
       /\ spos' = spos + Len(d)
    /\ spc' = "dataack"
    /\ UNCHANGED <<case, dir, hpc, apc, hstep, hsize, sMatch, chosen, stopNow, rest, rvars, r2s, nhash>>

RecvDataAck ==                                \* final ack + MD5 of what was sent
    /\ spc = "dataack" /\ r2s # <<>> /\ Head(r2s).t = "DATAACK" /\ Head(r2s).a = rest
    /\ r2s' = Tail(r2s) /\ spc' = "done"
    /\ UNCHANGED <<case, dir, hpc, apc, hstep, hsize, sMatch, chosen, stopNow, spos, rest, rvars, s2r, payload, nhash>>

-----------------------------------------------------------------------------
(* Sender, pipelineSendHash.                                                                  *)

HashTest ==                                   \* for step < size && !stopNow.Load()
    /\ hpc = "test"
    /\ hpc' = IF hstep < hsize /\ ~stopNow THEN "send" ELSE "over"
    /\ UNCHANGED <<case, dir, spc, apc, hstep, hsize, sMatch, chosen, stopNow, spos, rest, rvars, s2r, r2s, payload, nhash>>

HashSend ==                                   \* file.Read(min(B, size-step)); sendHash(step, md5 of the prefix)
    /\ hpc = "send"
    /\ LET n == Min(B, hsize - hstep) IN
       /\ hstep' = hstep + n /\ spos' = spos + n
       /\ s2r' = Append(s2r, Msg("HASH", hstep + n, 0, Pre(src, hstep + n)))
    /\ nhash' = nhash + 1
    /\ hpc' = "test"
    /\ UNCHANGED <<case, dir, spc, apc, hsize, sMatch, chosen, stopNow, rest, rvars, r2s, payload>>

HashOver ==                                   \* sendHash({Over: true})
    /\ hpc = "over"
    /\ s2r' = Append(s2r, Msg("HASH", 0, 1, <<>>))
    /\ hpc' = "done"
    /\ UNCHANGED <<case, dir, spc, apc, hstep, hsize, sMatch, chosen, stopNow, spos, rest, rvars, r2s, payload, nhash>>

(* pipelineRecvHashAck: one turn of its loop                                                  *)
AckRecv ==
    /\ apc = "recv" /\ r2s # <<>> /\ Head(r2s).t = "ACK"
    /\ r2s' = Tail(r2s)
    /\ LET a == Head(r2s) IN
       IF StepCheck /\ a.a # Min(sMatch + B, hsize)      \* an ack for another step than the next one sent
       THEN chosen' = chosen /\ apc' = "fail" /\ sMatch' = sMatch
       ELSE IF a.b = 0                                 \* !hashAck.Match
       THEN chosen' = sMatch /\ apc' = "done" /\ sMatch' = sMatch
       ELSE /\ sMatch' = a.a
            /\ IF a.a = hsize THEN chosen' = a.a /\ apc' = "done"
               ELSE IF a.a > hsize THEN chosen' = chosen /\ apc' = "fail"
               ELSE chosen' = chosen /\ apc' = apc
    /\ UNCHANGED <<case, dir, spc, hpc, hstep, hsize, stopNow, spos, rest, rvars, s2r, payload, nhash>>

-----------------------------------------------------------------------------
(* Receiver.                                                                                  *)

WriteAt(c, pos, d) ==                        \* write(2) at an offset of a file
    Pre(c, Min(pos, Len(c))) \o d \o From(c, Min(pos + Len(d), Len(c)))

(* recvFileName[V3]: the name is the source's own name (overwrite); doCreateFile              *)
RecvName ==
    /\ rpc = "name" /\ s2r # <<>> /\ Head(s2r).t = "NAME"
    /\ s2r' = Tail(s2r)
    /\ LET c0 == IF dir["f"].ex THEN dir["f"].c ELSE <<>>
           c1 == IF proto < 3 THEN <<>> ELSE c0 IN          \* O_TRUNC only for protocol < 3
       /\ dir' = [dir EXCEPT !["f"] = File(c1)]
       /\ tsize' = Len(c1)
       /\ r2s' = Append(r2s, Msg("TARGET", IF proto < 3 THEN -1 ELSE Len(c1), 0, <<>>))
       /\ rpc' = IF proto >= 3 /\ Len(c1) > 0 THEN (IF proto < 4 THEN "presize" ELSE "hash") ELSE "size"
    /\ UNCHANGED <<case, svars, rpos, rMatch, rLatch, rHashed, payload, nhash>>

RecvPreSize ==                                \* protocol 3: recvInteger("SIZE")
    /\ rpc = "presize" /\ s2r # <<>> /\ Head(s2r).t = "PRESIZE"
    /\ s2r' = Tail(s2r) /\ rpc' = "hash"
    /\ UNCHANGED <<case, dir, svars, rpos, rMatch, rLatch, rHashed, tsize, r2s, payload, nhash>>

(* a hash while everything so far matched: read step - matchStep units from the file, feed     *)
(* the running MD5, compare, ack                                                               *)
RecvHashCompare ==
    /\ rpc = "hash" /\ s2r # <<>> /\ Head(s2r).t = "HASH" /\ Head(s2r).b = 0 /\ rLatch
    /\ s2r' = Tail(s2r)
    /\ LET h == Head(s2r)
           need == h.a - rMatch
           c == dir["f"].c IN
       IF need < 0 \/ rpos + need > Len(c)
       THEN rpc' = "fail" /\ UNCHANGED <<rpos, rMatch, rLatch, rHashed, r2s>>      \* io.ReadFull fails
       ELSE LET hd == rHashed \o SubSeq(c, rpos + 1, rpos + need)
                m == (h.h = hd) IN
            /\ rHashed' = hd /\ rpos' = rpos + need
            /\ rLatch' = m /\ rMatch' = IF m THEN h.a ELSE rMatch
            /\ r2s' = Append(r2s, Msg("ACK", h.a, IF m THEN 1 ELSE 0, <<>>))
            /\ rpc' = rpc
    /\ UNCHANGED <<case, dir, svars, tsize, payload, nhash>>

RecvHashIgnore ==                             \* if !match { continue }
    /\ rpc = "hash" /\ s2r # <<>> /\ Head(s2r).t = "HASH" /\ Head(s2r).b = 0 /\ ~rLatch
    /\ s2r' = Tail(s2r)
    /\ UNCHANGED <<case, dir, svars, rvars, r2s, payload, nhash>>

RecvOver ==                                   \* break; file.Seek(matchStep); file.Truncate(matchStep)
    /\ rpc = "hash" /\ s2r # <<>> /\ Head(s2r).t = "HASH" /\ Head(s2r).b = 1
    /\ s2r' = Tail(s2r)
    /\ rpos' = rMatch
    /\ dir' = [dir EXCEPT !["f"] = File(Pre(dir["f"].c, Min(rMatch, Len(dir["f"].c))))]
    /\ rpc' = "size"
    /\ UNCHANGED <<case, svars, rMatch, rLatch, rHashed, tsize, r2s, payload, nhash>>

RecvSize ==
    /\ rpc = "size" /\ s2r # <<>> /\ Head(s2r).t = "SIZE"
    /\ s2r' = Tail(s2r)
    /\ r2s' = Append(r2s, Msg("SIZEACK", Head(s2r).a, 0, <<>>))
    /\ rpc' = "data"
    /\ UNCHANGED <<case, dir, svars, rpos, rMatch, rLatch, rHashed, tsize, payload, nhash>>

RecvData ==                                   \* recvFileDataV2: write at the file offset, close
    /\ rpc = "data" /\ s2r # <<>> /\ Head(s2r).t = "DATA"
    /\ s2r' = Tail(s2r)
    /\ LET d == Head(s2r).h IN
       /\ dir' = [dir EXCEPT !["f"] = File(WriteAt(dir["f"].c, rpos, d))]
       /\ rpos' = rpos + Len(d)
       /\ r2s' = Append(r2s, Msg("DATAACK", Len(d), 0, <<>>))
    /\ rpc' = "done"
    /\ UNCHANGED <<case, svars, rMatch, rLatch, rHashed, tsize, payload, nhash>>

-----------------------------------------------------------------------------
SenderNext == SendName \/ RecvTarget \/ SendPreSize \/ SenderStop \/ SenderSeek \/ SendSize \/ RecvSizeAck
              \/ SendData \/ RecvDataAck
HashNext == HashTest \/ HashSend \/ HashOver \/ AckRecv
ReceiverNext == RecvName \/ RecvPreSize \/ RecvHashCompare \/ RecvHashIgnore \/ RecvOver \/ RecvSize \/ RecvData
Next == SenderNext \/ HashNext \/ ReceiverNext

Spec == Init /\ [][Next]_vars
FairSpec == Spec /\ WF_vars(Next)

-----------------------------------------------------------------------------
(* Properties (C08).                                                                          *)

Done == spc = "done" /\ rpc = "done"
Final == dir["f"].c
Truth == CPL(src, old)                        \* what really is equal (the ends never see this)
Expected == Proven(src, old, oldEx, proto)

TypeOK ==
    /\ spc \in {"name", "target", "presize", "wait", "join", "size", "sizeack", "data", "dataack", "done"}
    /\ hpc \in {"idle", "test", "send", "over", "done"}
    /\ apc \in {"idle", "recv", "done", "fail"}
    /\ rpc \in {"name", "presize", "hash", "size", "data", "done", "fail"}
    /\ hstep \in 0..hsize /\ spos >= 0 /\ rpos >= 0
    /\ Len(s2r) <= MaxBlocks + 3 /\ Len(r2s) <= MaxBlocks + 2

(* after a successful transfer the destination is the source                                  *)
FinalEqualsSrc == Done => (dir["f"].ex /\ Final = src)

(* neither end ever believes in more than what really is equal, and only in hashed steps      *)
MatchIsProven ==
    /\ rMatch <= Truth /\ sMatch <= Truth /\ chosen <= Truth
    /\ \A m \in {rMatch, sMatch} \cup (IF chosen >= 0 THEN {chosen} ELSE {}) :
          m = 0 \/ m % B = 0 \/ m = Min(Len(src), Len(old))
    /\ (chosen >= 0 /\ rpc \in {"size", "data", "done"}) => chosen = rMatch      \* both ends agree

(* what is not sent again was proven equal: payload = |src| - matchStep, never less than      *)
(* |src| - true common prefix; and everything that was proven is skipped                      *)
SkippedNeverExceedsProven ==
    /\ (spc \in {"dataack", "done"}) => (Len(payload) = Len(src) - chosen \/ (chosen = -1 /\ payload = src))
    /\ Done => (Len(payload) >= Len(src) - Truth /\ Len(payload) = Len(src) - Expected)
    /\ Done => payload = From(src, Len(src) - Len(payload))

(* a longer old file loses its tail *)
TailCut == (Done /\ Len(old) > Len(src)) => Len(Final) = Len(src)

(* the kept part of an existing file is never more than the proven block prefix *)
KeptOnlyProven == (rpc \in {"size", "data"} /\ proto >= 3 /\ oldEx /\ old # <<>>) => (rpos <= Truth /\ Len(Final) = rpos)

OthersUntouched == dir["g"] = Other /\ dir["f.0"] = Absent

NoFailure == apc # "fail" /\ rpc # "fail"

(* every run ends; the pre-fix variant (AsCoded) sits still in exactly one relation           *)
Stuck == ~Done /\ ~ENABLED Next
StuckOnlyEmptySrc == Stuck => (AsCoded /\ src = <<>> /\ oldEx /\ old # <<>> /\ proto >= 3)
NoStuck == ~Stuck
Termination == <>(Done \/ Stuck)

=============================================================================
