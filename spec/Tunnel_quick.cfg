SPECIFICATION Spec
CONSTANTS
  N = 2
  StrayScripts = {"wrong", "wrongid", "long", "right", "split", "silent", "flood"}
  Outcomes = {"refuse", "dead", "good", "badreply", "noreply"}
  Rendezvous = TRUE
  MaxData = 1
  Pumps = TRUE
INVARIANTS TypeOK AtMostOneAdopted AdoptedAuthenticated NoAnswerToStrangers OnlyAdoptedFeeds FallbackWorks AgreeConsistent NoLateAdoption
PROPERTIES InbandIgnoredAfterAgree
CHECK_DEADLOCK FALSE
