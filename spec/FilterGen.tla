----------------------------- MODULE FilterGen -----------------------------
(* Test-case generator for Filter (model-based testing, spec -> implementation).  A case is  *)
(* an option set, a history of 0..MaxHist sessions (transfers ending by success / failure /  *)
(* cancel / refusal, a zmodem session, a drag upload) and NProbes probe chunks fed while no  *)
(* session is active; every macro step is a fixed program over Filter's own actions, run to  *)
(* quiescence the way the driver does (harness/c05_filter.go, c05_mbt).  For every probe the *)
(* image the model's pump produces is exported; the real filter must produce the same.       *)
EXTENDS Filter, Json, TLCExt

CONSTANTS MaxHist, NProbes, GenOut, GenIn

VARIABLES hist, todo, done, nHist, nProbe
gvars == <<vars, hist, todo, done, nHist, nProbe>>

Op(o, k) == [op |-> o, k |-> k]
FeedO(k) == Op("feedOut", k)
FeedI(k) == Op("feedIn", k)
OutT == Op("out", "")
InT  == Op("in", "")

XferProg(how) ==
    <<FeedO("trig"), OutT>> \o
    (CASE how = "refused" -> <<Op("HRefuse", "")>>
       [] how = "cancel"  -> <<Op("HCAS", ""), Op("StopAPI", ""), Op("HEnd", "cancel")>>
       [] OTHER           -> <<Op("HCAS", ""), Op("HEnd", how)>>) \o
    <<Op("HExit", "")>>

ZProg == <<FeedO("zmhdr"), OutT, Op("ZStop", ""), FeedO("plain"), OutT, Op("ZCleanup", "")>>

DragProg(v) ==
    <<FeedI("pathex"), InT, Op("DragInterrupt", ""), FeedO("plain"), OutT, Op("DragCommand", ""), FeedO("cmdlike"), OutT>> \o
    (IF v = 0 THEN <<FeedO("trig"), OutT, Op("HCAS", ""), Op("HEnd", "success"), Op("HExit", "")>> ELSE <<>>) \o
    <<Op("DragReset", "")>>

Quiescent == ModePass /\ pcOut = "read" /\ pcIn = "read" /\ todo = <<>>

GInit == Init /\ hist = <<>> /\ todo = <<>> /\ done = FALSE /\ nHist = 0 /\ nProbe = 0

(* choose the next macro step *)
Choose ==
    /\ ~done /\ Quiescent /\ UNCHANGED <<vars, done>>
    /\ \/ /\ nProbe = 0 /\ nHist < MaxHist /\ nHist' = nHist + 1 /\ UNCHANGED nProbe
          /\ \/ \E how \in Hows : todo' = XferProg(how) /\ hist' = Append(hist, [a |-> "xfer", how |-> how])
             \/ opts.zmodem /\ zs = "none" /\ todo' = ZProg /\ hist' = Append(hist, [a |-> "zsess"])
             \/ opts.drag /\ \E v \in {0, 1} : todo' = DragProg(v) /\ hist' = Append(hist, [a |-> "drag", v |-> v])
       \/ /\ nProbe < NProbes /\ nProbe' = nProbe + 1 /\ UNCHANGED <<nHist, hist>>
          /\ \/ \E k \in GenOut : /\ k = "zmhdr" => ~opts.zmodem
                                  /\ todo' = <<FeedO(k), OutT>>
             \/ \E k \in GenIn : /\ k = "pathex" => ~opts.drag
                                 /\ todo' = <<FeedI(k), InT>>

IsProbe == Len(todo) = 1 /\ nProbe > 0      \* the turn that ends a probe program

Exec ==
    /\ ~done /\ todo # <<>> /\ todo' = Tail(todo) /\ UNCHANGED <<done, nHist, nProbe>>
    /\ LET o == Head(todo) IN
       CASE o.op = "feedOut" -> OutRead([k |-> o.k, id |-> 0]) /\ UNCHANGED hist
         [] o.op = "feedIn"  -> InRead([k |-> o.k, id |-> 0]) /\ UNCHANGED hist
         [] o.op = "out" -> /\ (OutToTransfer \/ OutForward)
                            /\ hist' = IF IsProbe
                                       THEN Append(hist, [a |-> "out", k |-> curOut.k, pre |-> OutImage.pre,
                                                          body |-> OutImage.body, post |-> OutImage.post])
                                       ELSE hist
         [] o.op = "in"  -> /\ InSend
                            /\ hist' = IF IsProbe
                                       THEN Append(hist, [a |-> "in", k |-> curIn.k, pre |-> InImage.pre,
                                                          body |-> InImage.body, post |-> InImage.post])
                                       ELSE hist
         [] o.op = "HRefuse" -> HRefuse /\ UNCHANGED hist
         [] o.op = "HCAS" -> HCAS /\ dragging' = FALSE /\ UNCHANGED hist
         [] o.op = "StopAPI" -> StopAPI /\ UNCHANGED hist
         [] o.op = "HEnd" -> HEnd(o.k) /\ UNCHANGED hist
         [] o.op = "HExit" -> HExit /\ UNCHANGED hist
         [] o.op = "ZStop" -> ZStop /\ UNCHANGED hist
         [] o.op = "ZCleanup" -> ZCleanup /\ UNCHANGED hist
         [] o.op = "DragInterrupt" -> DragInterrupt /\ UNCHANGED hist
         [] o.op = "DragCommand" -> DragCommand /\ UNCHANGED hist
         [] o.op = "DragReset" -> DragReset /\ UNCHANGED hist

Finish == /\ ~done /\ Quiescent /\ nProbe = NProbes
          /\ done' = TRUE /\ UNCHANGED <<vars, hist, todo, nHist, nProbe>>

GNext == Choose \/ Exec \/ Finish
GSpec == GInit /\ [][GNext]_gvars

Export == done => PrintT("MBT " \o ToJson([opts |-> opts, steps |-> hist]))
=============================================================================
