---------------------------- MODULE ResumeFault ----------------------------
(* Resume.tla with a faulty connection in the receiver-to-sender direction during the resume  *)
(* hash exchange: up to AckFaults whole lines are lost or delivered twice (C02: "dropped,       *)
(* duplicated ... anywhere on the connection").  With the step check of pipelineRecvHashAck      *)
(* (StepCheck = TRUE, /repo c89a7df) a transfer that completes still ends with the source's      *)
(* bytes; without it (the code before) a lost ack of a matching step followed by the ack of a   *)
(* step that does not match makes the sender resend from its own shorter prefix while the       *)
(* receiver has cut the file at the longer one: both ends finish, FinalEqualsSrc is false.      *)
EXTENDS Resume

CONSTANT AckFaults
VARIABLE nf
fvars == <<vars, nf>>

RemoveAt(s, i) == SubSeq(s, 1, i - 1) \o SubSeq(s, i + 1, Len(s))
DupAt(s, i) == SubSeq(s, 1, i) \o SubSeq(s, i, Len(s))

LoseLine == /\ nf < AckFaults /\ \E i \in 1..Len(r2s) : r2s' = RemoveAt(r2s, i)
            /\ nf' = nf + 1
            /\ UNCHANGED <<case, dir, svars, rvars, s2r, payload, nhash>>
DupLine ==  /\ nf < AckFaults /\ \E i \in 1..Len(r2s) : r2s' = DupAt(r2s, i)
            /\ nf' = nf + 1
            /\ UNCHANGED <<case, dir, svars, rvars, s2r, payload, nhash>>

FInit == Init /\ nf = 0
FNext == (Next /\ UNCHANGED nf) \/ LoseLine \/ DupLine
FSpec == FInit /\ [][FNext]_fvars
=============================================================================
