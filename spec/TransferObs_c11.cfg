SPECIFICATION TSpec
CONSTANTS
  Configs = {}
  Window = 2
  MaxFaults = 0
  FaultKinds = {}
  StopRoles = {}
INVARIANTS ObsFidelity ObsReturnInTime ObsPeerTold ObsNoWorkerLeft
CONSTRAINT HW
POSTCONDITION Accepted
CHECK_DEADLOCK FALSE
