\* call-sequence configuration: sizes, steps beyond the size, regressions, preSize changes,
\* throttling, pause, tmux pane mode, resize
SPECIFICATION Spec
CONSTANTS
  ColsSet = {5, 40, 100}
  PaneSet = {0, 60}
  CountSet = {2}
  NameKinds = {"ascii", "cjk"}
  NameWidths = {10, 44}
  HeavyKinds = {}
  HeavyWidths = {}
  TSet = {6}
  SSet = {7}
  ESet = {7}
  SizeKinds = {"0", "1", "3", "200", "p62", "n5"}
  StepKinds = {"m1", "0", "1", "sz-1", "sz", "sz+1", "p62"}
  PreKinds = {"0", "1", "sz"}
  DtSet = {0, 200}
  Acts = {"step", "done", "size", "pre", "pause", "resize", "name"}
  MaxCalls = 3
INVARIANTS TypeOK Fits PctRange PctMonotone BarCellsInRange NameOnlyShortened NameImpliesBar
CHECK_DEADLOCK FALSE
