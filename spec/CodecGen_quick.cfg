SPECIFICATION GSpec
CONSTANTS
  TableUniverse = {238, 126, 49}
  WithBuiltin = TRUE
  Bytes = {238, 126, 49, 120}
  MaxLen = 2
  MaxSeg = 2
  Caps = {1, 2}
  MaxRaw = 2
  Sim = FALSE
INVARIANTS Export RoundTrip UnknownCodeRejected
CHECK_DEADLOCK FALSE
