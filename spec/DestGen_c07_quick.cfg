SPECIFICATION Spec
CONSTANTS
  MaxSuffix = 1
  Validate = "required"
  Chain <- ChainDef
  Pres <- C07PresQuick
  Sources <- C07SourcesQuick
  HostileNames = {}
  HostileVar <- NoVar
  Cfgs <- C07Cfgs
  Rounds = 2
INVARIANTS Export07 TypeOK Untouched FreshTopLevel OneNamePerPath ReportedAreUsed WholeUnderOne NoFreshNameFails Confined
CHECK_DEADLOCK FALSE
