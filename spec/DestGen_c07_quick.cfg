SPECIFICATION Spec
CONSTANTS
  MaxSuffix = 1
  Validate = "required"
  Chain <- ChainDef
  Pres <- C07PresQuick
  Sources <- C07SourcesQuick
  HostileNames = {}
  HostileVar <- NoVar
  Cfgs <- C07Cfgs
  Rounds = 1
INVARIANTS Export07
CHECK_DEADLOCK FALSE
