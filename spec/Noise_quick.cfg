SPECIFICATION Spec
CONSTANTS
  Modes = {"win"}
  ExpType <- MC_ExpType
  LineTypes <- MC_LineTypes1
  PayBytes = {97, 98}
  MaxPay = 2
  MaxLines = 1
  MaxNoise = 2
  MaxPend = 2
  TxtSet <- MC_TxtSet
  CsiSet <- MC_CsiSet
  PadBytes = {32}
  NlSet <- MC_NlSet
  StSet <- MC_StSet
  WithEtx = TRUE
  Quirks = {}
INVARIANTS TypeOK Recovered CtrlCInterrupts Returned FlagsReset
CHECK_DEADLOCK FALSE
