SPECIFICATION Spec
CONSTANTS
  Symbols = {"TH", "TL", "Hj", "Hcr", "H3", "Hdown", "j", "CR", ";"}
  MaxSyms = 3
  MaxCuts = 1
  Quirks = {"WholeChunk"}
INVARIANTS TypeOK OnlyPromptKeysReachPrompt PromptClosedWithoutTransfer PausedOnlyWhilePrompt ChunkingIndependent
PROPERTIES NothingTypedReachesServerWhilePromptOpen EveryChoiceHasItsEffect
CHECK_DEADLOCK FALSE
