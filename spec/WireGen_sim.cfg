SPECIFICATION GSpec
CONSTANTS
  Alphabet = {97, 10, 13, 3, 35, 58}
  MaxLen = 12
  MaxChunk = 4
  MaxOps = 6
  BinSizes = {0, 1, 2, 3}
  WithStop = FALSE
  WithTimer = FALSE
INVARIANTS Export SegIndep NoWait
CHECK_DEADLOCK FALSE
