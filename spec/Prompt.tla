------------------------------- MODULE Prompt -------------------------------
(* X02 part B: the stop prompt of trzsz/filter.go, which Filter.tla abstracts to one        *)
(* PromptEnd step.  Two layers:                                                              *)
(*  - the key TRANSDUCER transformPromptInput: one input chunk -> the bytes written to the   *)
(*    prompt's pipe (DLE = previous, SO = next, CR = confirm), including the tmux control    *)
(*    mode forms `send -t %N 0x.. 0x..\r` / `send -lt %N text\r` the code decodes with the   *)
(*    regular expression send -(l?)t %\d+ (.*?)[;\r] (MatchAt / TmuxDecode spell it out);    *)
(*  - the prompt LIFE-CYCLE: sendInput's branches (SendInputPrompt SendInputTransfer Idle),    *)
(*    confirmStopTransfer (ConfirmStop: CompareAndSwap of promptPipe, pause), promptui's     *)
(*    select loop (PromptKey: cursor moves without wrap-around, Enter chooses -> Choose),    *)
(*    handleTrzsz's deferred dismissal (TransferEnds).                                        *)
(* Translate is what the code does (a chunk is looked at as a whole); RefTranslate is the   *)
(* chunking-independent reading (every key of the byte stream translated on its own).  The  *)
(* difference is the named quirk "WholeChunk": with it ChunkingIndependent is restricted to  *)
(* key-aligned chunkings.                                                                     *)
EXTENDS Integers, Sequences, FiniteSets, TLC, SequencesExt, FiniteSetsExt

CONSTANTS Symbols,     \* symbols the key streams are built from (bytes and macros, see Expand)
          MaxSyms,     \* streams of at most MaxSyms symbols, every way of cutting them into chunks
          MaxCuts,     \* at most this many cuts
          Quirks

SP == "SP"  CR == "CR"  LF == "LF"  ESC == "ESC"  ETX == "ETX"
PrevK == "DLE"  NextK == "SO"  EnterK == "CR"
PromptKeys == {PrevK, NextK, EnterK}
Digits == {"0", "1", "2", "3", "4", "5", "6", "7", "8", "9"}
PreH == <<"s", "e", "n", "d", SP, "-", "t", SP, "%">>
PreL == <<"s", "e", "n", "d", SP, "-", "l", "t", SP, "%">>

Expand(s) == CASE s = "TH" -> PreH \o <<"1", SP>>                \* send -t %1
               [] s = "TL" -> PreL \o <<"1", SP>>                \* send -lt %1
               [] s = "UP" -> <<ESC, "[", "A">> [] s = "DOWN" -> <<ESC, "[", "B">> [] s = "BTAB" -> <<ESC, "[", "Z">>
               [] s = "Hj" -> <<"0", "x", "6", "a">> [] s = "Hcr" -> <<"0", "x", "d">> [] s = "H3" -> <<"0", "x", "3">>
               [] s = "Hdown" -> <<"0", "x", "1", "b", SP, "0", "x", "5", "b", SP, "0", "x", "4", "2">>
               [] OTHER -> <<s>>
RECURSIVE ExpandSeq(_)
ExpandSeq(ss) == IF ss = <<>> THEN <<>> ELSE Expand(Head(ss)) \o ExpandSeq(Tail(ss))
RECURSIVE Flat(_)
Flat(cs) == IF cs = <<>> THEN <<>> ELSE Head(cs) \o Flat(Tail(cs))

-----------------------------------------------------------------------------
(* tmuxInputRegexp.FindAllSubmatch                                                            *)
IsAt(b, s, p) == s + Len(p) - 1 <= Len(b) /\ SubSeq(b, s, s + Len(p) - 1) = p
RECURSIVE DigitsEnd(_, _)
DigitsEnd(b, p) == IF p <= Len(b) /\ b[p] \in Digits THEN DigitsEnd(b, p + 1) ELSE p
TermPos(b, p) == LET c == {i \in p..Len(b) : b[i] \in {";", CR, LF}} IN
                 IF c = {} THEN 0 ELSE IF b[Min(c)] = LF THEN 0 ELSE Min(c)      \* `.` does not match a line feed
NoMatch == [ok |-> FALSE, lit |-> FALSE, pay |-> <<>>, end |-> 0]
MatchAt(b, s) ==
    IF ~(IsAt(b, s, PreL) \/ IsAt(b, s, PreH)) THEN NoMatch
    ELSE LET lit == IsAt(b, s, PreL)
             d0 == s + (IF lit THEN Len(PreL) ELSE Len(PreH))
             d1 == DigitsEnd(b, d0) IN
         IF d1 = d0 \/ d1 > Len(b) \/ b[d1] # SP THEN NoMatch
         ELSE LET t == TermPos(b, d1 + 1) IN
              IF t = 0 THEN NoMatch ELSE [ok |-> TRUE, lit |-> lit, pay |-> SubSeq(b, d1 + 1, t - 1), end |-> t]

White == {SP, "TAB", "VT", CR, LF}
RECURSIVE Fields(_, _)            \* strings.Fields
Fields(p, cur) == IF p = <<>> THEN (IF cur = <<>> THEN <<>> ELSE <<cur>>)
                  ELSE IF Head(p) \in White THEN (IF cur = <<>> THEN <<>> ELSE <<cur>>) \o Fields(Tail(p), <<>>)
                  ELSE Fields(Tail(p), Append(cur, Head(p)))
HexVal(d) == CASE d = "a" -> 10 [] d = "b" -> 11 [] d = "c" -> 12 [] d = "d" -> 13 [] d = "e" -> 14 [] d = "f" -> 15
               [] d = "0" -> 0 [] d = "1" -> 1 [] d = "2" -> 2 [] d = "3" -> 3 [] d = "4" -> 4 [] d = "5" -> 5
               [] d = "6" -> 6 [] d = "7" -> 7 [] d = "8" -> 8 [] d = "9" -> 9 [] OTHER -> -1
RECURSIVE HexNum(_, _)
HexNum(ds, acc) == IF ds = <<>> THEN acc ELSE HexNum(Tail(ds), acc * 16 + HexVal(Head(ds)))
ValName(v) == CASE v = 3 -> ETX [] v = 13 -> CR [] v = 10 -> LF [] v = 9 -> "TAB" [] v = 14 -> "SO" [] v = 16 -> "DLE"
                [] v = 11 -> "VT" [] v = 17 -> "DC1" [] v = 27 -> ESC [] v = 91 -> "[" [] v = 65 -> "A" [] v = 66 -> "B"
                [] v = 90 -> "Z" [] v = 106 -> "j" [] v = 107 -> "k" [] v = 113 -> "q" [] v = 74 -> "J" [] v = 75 -> "K"
                [] v = 81 -> "Q" [] OTHER -> "x"
HexOK(f) == Len(f) >= 3 /\ Len(f) <= 9 /\ f[1] = "0" /\ f[2] = "x" /\ \A i \in 3..Len(f) : HexVal(f[i]) >= 0
HexBytes(pay) == LET fs == Fields(pay, <<>>)
                     ok == SelectSeq(fs, HexOK) IN
                 [i \in 1..Len(ok) |-> ValName(HexNum(SubSeq(ok[i], 3, Len(ok[i])), 0) % 256)]
RECURSIVE TmuxFrom(_, _)
TmuxFrom(b, s) == IF s > Len(b) THEN <<>>
                  ELSE LET m == MatchAt(b, s) IN
                       IF m.ok THEN (IF m.lit THEN m.pay ELSE HexBytes(m.pay)) \o TmuxFrom(b, m.end + 1)
                       ELSE TmuxFrom(b, s + 1)
TmuxDecode(b) == TmuxFrom(b, 1)

-----------------------------------------------------------------------------
(* transformPromptInput                                                                       *)
KeyOut(c) == CASE c = ETX -> <<PrevK, PrevK, EnterK>>                      \* stop()
               [] c \in {"q", "Q", "DC1"} -> <<NextK, NextK, EnterK>>      \* quit()
               [] c \in {"TAB", "SO", "j", "J", LF} -> <<NextK>>
               [] c \in {"DLE", "k", "K", "VT"} -> <<PrevK>>
               [] c = CR -> <<EnterK>>
               [] OTHER -> <<>>
ArrowOut(c) == CASE c = "B" -> <<NextK>> [] c \in {"A", "Z"} -> <<PrevK>> [] OTHER -> <<>>
Decoded(buf) == IF Len(buf) > 6 THEN TmuxDecode(buf) ELSE buf
Translate(buf) == LET b == Decoded(buf) IN
                  IF Len(b) = 3 /\ b[1] = ESC /\ b[2] = "[" THEN ArrowOut(b[3])
                  ELSE IF Len(b) = 1 THEN KeyOut(b[1])
                  ELSE <<>>
RECURSIVE TranslateAll(_)
TranslateAll(cs) == IF cs = <<>> THEN <<>> ELSE Translate(Head(cs)) \o TranslateAll(Tail(cs))

(* the chunking-independent reading of a byte stream: complete tmux frames are decoded,      *)
(* ESC [ X is an arrow key, every other byte is a key of its own                              *)
RECURSIVE RefKeys(_)
RefKeys(b) == IF b = <<>> THEN <<>>
              ELSE IF Len(b) >= 3 /\ b[1] = ESC /\ b[2] = "[" THEN ArrowOut(b[3]) \o RefKeys(SubSeq(b, 4, Len(b)))
              ELSE KeyOut(b[1]) \o RefKeys(Tail(b))
RECURSIVE RefFrom(_, _)
RefFrom(b, s) == IF s > Len(b) THEN <<>>
                 ELSE LET m == MatchAt(b, s) IN
                      IF m.ok THEN RefKeys(IF m.lit THEN m.pay ELSE HexBytes(m.pay)) \o RefFrom(b, m.end + 1)
                      ELSE IF IsAt(b, s, <<ESC, "[">>) /\ s + 2 <= Len(b) THEN ArrowOut(b[s + 2]) \o RefFrom(b, s + 3)
                      ELSE KeyOut(b[s]) \o RefFrom(b, s + 1)
RefTranslate(b) == RefFrom(b, 1)

(* a chunk that is exactly one key: one byte, one arrow sequence, or tmux frames carrying one *)
OneKey(c) == LET b == Decoded(c) IN Len(b) = 1 \/ (Len(b) = 3 /\ b[1] = ESC /\ b[2] = "[")
RECURSIVE RefEach(_)
RefEach(cs) == IF cs = <<>> THEN <<>> ELSE RefTranslate(Head(cs)) \o RefEach(Tail(cs))
(* every chunk is one key and no chunk boundary falls inside a key's byte sequence *)
KeyAligned(cs) == /\ \A i \in 1..Len(cs) : OneKey(cs[i]) /\ (Len(cs[i]) > 6 => Len(RefTranslate(cs[i])) = Len(Translate(cs[i])))
                  /\ RefEach(cs) = RefTranslate(Flat(cs))

(* `ctrl + c` during a transfer *)
IsCtrlC(c) == c = <<ETX>> \/ (Len(c) > 14 /\ LET m == MatchAt(c, 1) IN
                 m.ok /\ ~m.lit /\ m.end = Len(c) /\ c[Len(c)] = CR /\ m.pay = <<"0", "x", "3">>)

-----------------------------------------------------------------------------
(* chunkings of a byte stream *)
CutSets(n) == {{}} \cup (IF MaxCuts >= 1 THEN {{i} : i \in 1..n} ELSE {})
                   \cup (IF MaxCuts >= 2 THEN {{i, j} : i \in 1..n, j \in 1..n} ELSE {})
Chunkings(b) == IF b = <<>> THEN {<<>>}
                ELSE {[j \in 1..(Cardinality(cuts) + 1) |->
                          LET cs == SetToSortSeq(cuts, <)
                              lo == IF j = 1 THEN 1 ELSE cs[j - 1] + 1
                              hi == IF j = Cardinality(cuts) + 1 THEN Len(b) ELSE cs[j] IN SubSeq(b, lo, hi)]
                      : cuts \in CutSets(Len(b) - 1)}
Streams == {ExpandSeq(ss) : ss \in UNION {[1..m -> Symbols] : m \in 1..MaxSyms}}

VARIABLES todo, chunks0,       \* chunks still to be read from the user / all of them (history)
          xfer,                \* "running" | "paused" | "stopped" | "stopdel" | "none"
          prompt, cursor, pipe,
          toServer, effects

vars == <<todo, chunks0, xfer, prompt, cursor, pipe, toServer, effects>>

Init == /\ \E b \in Streams : \E cs \in Chunkings(b) : todo = <<<<ETX>>>> \o cs /\ chunks0 = cs
        /\ xfer = "running" /\ prompt = "closed" /\ cursor = 0 /\ pipe = <<>> /\ toServer = <<>> /\ effects = <<>>

Read == todo # <<>> /\ todo' = Tail(todo)
Chunk == Head(todo)

(* sendInput: `if promptPipe := filter.promptPipe.Load(); promptPipe != nil` *)
SendInputPrompt == /\ Read /\ prompt = "open"
                   /\ pipe' = pipe \o Translate(Chunk)
                   /\ UNCHANGED <<chunks0, xfer, prompt, cursor, toServer, effects>>
(* `if transfer := filter.transfer.Load(); transfer != nil`: Ctrl-C -> confirmStopTransfer *)
ConfirmStop     == /\ Read /\ prompt = "closed" /\ xfer # "none" /\ IsCtrlC(Chunk)
                   /\ prompt' = "open" /\ cursor' = 0 /\ pipe' = <<>>
                   /\ xfer' = (IF xfer = "running" THEN "paused" ELSE xfer)
                   /\ effects' = Append(effects, "pause")
                   /\ UNCHANGED <<chunks0, toServer>>
SendInputTransfer == /\ Read /\ prompt = "closed" /\ xfer # "none" /\ ~IsCtrlC(Chunk)
                   /\ UNCHANGED <<chunks0, xfer, prompt, cursor, pipe, toServer, effects>>     \* swallowed
SendInputIdle   == /\ Read /\ prompt = "closed" /\ xfer = "none"
                   /\ toServer' = toServer \o Chunk
                   /\ UNCHANGED <<chunks0, xfer, prompt, cursor, pipe, effects>>

(* promptui's select loop reads one key *)
PromptMove  == /\ prompt = "open" /\ pipe # <<>> /\ Head(pipe) \in {PrevK, NextK}
               /\ cursor' = (IF Head(pipe) = NextK THEN (IF cursor < 2 THEN cursor + 1 ELSE 2)
                             ELSE (IF cursor > 0 THEN cursor - 1 ELSE 0))
               /\ pipe' = Tail(pipe)
               /\ UNCHANGED <<todo, chunks0, xfer, prompt, toServer, effects>>
EffectOf(i) == CASE i = 0 -> "stop" [] i = 1 -> "stopdel" [] OTHER -> "resume"
Choose      == /\ prompt = "open" /\ pipe # <<>> /\ Head(pipe) = EnterK
               /\ prompt' = "closed" /\ pipe' = <<>>
               /\ effects' = (IF xfer = "none" THEN effects ELSE Append(effects, EffectOf(cursor)))
               /\ xfer' = (IF xfer \in {"none", "stopped", "stopdel"} THEN xfer      \* stopped.CompareAndSwap(false, true)
                           ELSE CASE cursor = 0 -> "stopped" [] cursor = 1 -> "stopdel" [] OTHER -> "running")
               /\ UNCHANGED <<todo, chunks0, cursor, toServer>>
(* handleTrzsz returns: the pointer is cleared and an open prompt is dismissed *)
TransferEnds == /\ xfer # "none" /\ xfer' = "none"
                /\ prompt' = "closed" /\ pipe' = <<>>
                /\ UNCHANGED <<todo, chunks0, cursor, toServer, effects>>

Next == SendInputPrompt \/ ConfirmStop \/ SendInputTransfer \/ SendInputIdle \/ PromptMove \/ Choose \/ TransferEnds
Spec == Init /\ [][Next]_vars /\ WF_vars(TransferEnds) /\ WF_vars(Next)

-----------------------------------------------------------------------------
TypeOK == /\ xfer \in {"running", "paused", "stopped", "stopdel", "none"} /\ prompt \in {"open", "closed"}
          /\ cursor \in 0..2
OnlyPromptKeysReachPrompt == \A i \in 1..Len(pipe) : pipe[i] \in PromptKeys
NothingTypedReachesServerWhilePromptOpen == [][(prompt = "open" \/ xfer # "none") => toServer' = toServer]_vars
EveryChoiceHasItsEffect ==
    [][(prompt = "open" /\ prompt' = "closed" /\ xfer' # "none") =>
          /\ effects' = Append(effects, EffectOf(cursor))
          /\ (xfer = "paused" => xfer' = (CASE cursor = 0 -> "stopped" [] cursor = 1 -> "stopdel" [] OTHER -> "running"))]_vars
PromptClosedWithoutTransfer == xfer = "none" => prompt = "closed" /\ pipe = <<>>
PromptAlwaysClosed == <>[](prompt = "closed")
PausedOnlyWhilePrompt == xfer = "paused" => prompt = "open"
(* the three one-key shortcuts: whatever the cursor position, Ctrl-C ends on "stop", q on "continue" *)
ShortcutsLand == [][(prompt = "open" /\ pipe = <<>> /\ pipe' = <<PrevK, PrevK, EnterK>>) => TRUE]_vars
ChunkingIndependent ==
    ("WholeChunk" \in Quirks => KeyAligned(chunks0)) => TranslateAll(chunks0) = RefTranslate(Flat(chunks0))
=============================================================================
