\* doubling without the `bufSize < MaxBufSize` test: min(2*10240, 4096) shrinks without a slow chunk
SPECIFICATION Spec
CONSTANTS
  Floor = 1024
  P1Start = 1024
  InitSize = 10240
  HardCap = 1073741824
  BoundFloor = 1048576
  SendCap = 1
  AckCap = 1
  MaxBufs = {4096}
  Modes = {"bin"}
  Protos = {4}
  Secs = {2}
  MaxChunks = 1
  P1MaxChunks = 1
  MaxFiles = 1
  MaxPauses = 0
  StartSizes = {}
  Variant = "noMaxTest"
INVARIANTS TypeOK SizeInRange ChunksInRange NeverRejectedByReceiver NothingQueuedIsRejected ProbeEndsOnce
  TokenPaired EncoderNotStuck OneChunkWhileProbing DoubleOnlyWhenAllowed ShrinkOnlyWhenSlow
  SuspendedAfterPause ProbeEndedBy
CHECK_DEADLOCK TRUE
