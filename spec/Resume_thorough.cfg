SPECIFICATION FairSpec
CONSTANTS
  B = 3
  MaxBlocks = 3
  Protocols = {2, 3, 4}
  AllPatterns = TRUE
  StepCheck = TRUE
  AsCoded = FALSE
INVARIANTS TypeOK FinalEqualsSrc MatchIsProven SkippedNeverExceedsProven TailCut KeptOnlyProven OthersUntouched NoFailure NoStuck
PROPERTIES Termination
CHECK_DEADLOCK FALSE
