---------------------------- MODULE PromptTrace ----------------------------
(* Trace validation for Prompt: events recorded from the real code.                          *)
(*   keys{chunk[], got[]}      one call of the real transformPromptInput: got = the bytes it  *)
(*                             wrote to the pipe                                              *)
(*   reset | in{chunk[], fwd[]} | choice{effect, open} | ended{open}                          *)
(*                             a real confirmStopTransfer driven through sendInput: the      *)
(*                             life-cycle actions of Prompt must explain it                   *)
EXTENDS Prompt, Json, IOUtils, TLCExt
TraceLog == ndJsonDeserialize(IOEnv.VERIF_TRACE)
VARIABLE l
tvars == <<vars, l>>
Ev == TraceLog[l]
More == l <= Len(TraceLog)
IsEvent(e) == More /\ Ev.e = e /\ l' = l + 1

TInit == /\ l = 1 /\ todo = <<>> /\ chunks0 = <<>> /\ xfer = "running" /\ prompt = "closed" /\ cursor = 0
         /\ pipe = <<>> /\ toServer = <<>> /\ effects = <<>>
TKeys == IsEvent("keys") /\ Ev.got = Translate(Ev.chunk) /\ UNCHANGED vars
TReset == /\ IsEvent("reset") /\ todo' = <<>> /\ chunks0' = <<>> /\ xfer' = "running" /\ prompt' = "closed" /\ cursor' = 0
          /\ pipe' = <<>> /\ toServer' = <<>> /\ effects' = <<>>
(* the user's chunk goes through sendInput; what reached the server during it is logged *)
TIn == /\ More /\ Ev.e = "in" /\ todo = <<>> /\ todo' = <<Ev.chunk>> /\ UNCHANGED <<chunks0, xfer, prompt, cursor, pipe, toServer, effects, l>>
TSend == /\ More /\ Ev.e = "in" /\ todo # <<>>
         /\ (SendInputPrompt \/ ConfirmStop \/ SendInputTransfer \/ SendInputIdle)
         /\ toServer' = toServer \o Ev.fwd /\ l' = l + 1
TSilent == More /\ Ev.e \in {"choice", "ended", "in", "state"} /\ todo = <<>> /\ PromptMove /\ UNCHANGED l
TChoice == /\ IsEvent("choice") /\ Choose /\ Ev.effect = effects'[Len(effects')]
TEnded == /\ IsEvent("ended") /\ (IF xfer # "none" THEN TransferEnds ELSE UNCHANGED vars) /\ pipe' = <<>>
(* the observed state of the prompt after the driver waited for the pipe to drain *)
TState == /\ IsEvent("state") /\ pipe = <<>> /\ Ev.open = (prompt = "open") /\ Ev.xfer = xfer /\ UNCHANGED vars
TNext == TKeys \/ TReset \/ TIn \/ TSend \/ TSilent \/ TChoice \/ TEnded \/ TState
TSpec == TInit /\ [][TNext]_tvars
HW == IF l > TLCGet(1) THEN TLCSet(1, l) ELSE TRUE
ASSUME TLCSet(1, 0)
Accepted == IF TLCGet(1) = Len(TraceLog) + 1 THEN TRUE
            ELSE PrintT("HW " \o ToString(TLCGet(1))) /\ FALSE
=============================================================================
