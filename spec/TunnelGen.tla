----------------------------- MODULE TunnelGen -----------------------------
(* Ordering generator for Tunnel (model-based testing, spec -> implementation).  The steps  *)
(* the harness controls (arrival, release of Accept, a dialer's Write / Read / Close, the    *)
(* connector's dial and return, what travels over connection 1, waiting for the one-second   *)
(* timer) are recorded in `hist`; the code's own steps run to completion in between (the    *)
(* replayer waits for the real goroutines to settle after every step, so only these "eager" *)
(* behaviours can be forced).  A maximal behaviour is printed as one JSON line for           *)
(* harness/c17_tunnel.go (driver c17_mbt) together with what the model expects to observe.   *)
EXTENDS Tunnel, Json, TLCExt

VARIABLES hist, done
gvars == <<vars, hist, done>>

GInit == Init /\ hist = <<>> /\ done = FALSE

(* some step of the code itself is enabled *)
IntEnabled ==
    \/ apc = "check"
    \/ (apc = "accept" /\ ~lopen)
    \/ \E i \in Conns : \/ (hpc[i] = "read" /\ (unread[i] # <<>> \/ dclosed[i]))
                        \/ (hpc[i] = "reply" /\ dclosed[i])
                        \/ hpc[i] \in {"cas", "closeL"}
                        \/ (i \in wrappedS /\ unread[i] # <<>>)
    \/ cpc = "wcheck"
    \/ (cpc = "write" /\ (outcome = "dead" \/ pclosed))
    \/ (cpc = "read" /\ (creply # "none" \/ pclosed))
    \/ (selpc = "select" /\ chan # "empty")
    \/ (selpc = "done" /\ act = "none")
    \/ (act # "none" /\ ~sActSeen /\ (act = "inband" \/ 1 \in wrappedS))

Internal ==
    \/ AAcceptErr \/ ACheck
    \/ \E i \in Conns : HRead(i) \/ HReplyFail(i) \/ HCas(i) \/ HCloseListener(i) \/ SPump(i)
    \/ CCheck2 \/ CWriteErr \/ CRead \/ SelectConn \/ SendAction \/ SRecvAction

Step(a, i) == hist' = Append(hist, [a |-> a, i |-> i])

Controlled ==
    \/ \E i \in Strays : Arrive(i) /\ Step("arrive", i)
    \/ AAccept /\ Step("accept", acur')
    \/ \E i \in Strays : /\ hpc[i] = "read" /\ unread[i] = <<>> /\ wn[i] < Len(ScriptChunks(script[i]))
                         /\ DialerWrite(i, NextChunk(i)) /\ Step("w", i)
    \/ \E i \in Conns : HReply(i) /\ Step("obs", i)
    \/ \E i \in Strays : hpc[i] \in {"read", "reply"} /\ DialerClose(i) /\ Step("close", i)
    \/ CDial /\ Step("cdial", 1)
    \/ CReturn /\ Step("cret", 1)
    \/ CWrite("hello") /\ Step("cfwd", 1)
    \/ ProxyReply /\ Step("crep", 1)
    \/ RogueReply /\ Step("crep", 1)
    \/ ProxyEof /\ cpc # "exit" /\ Step("peof", 1)
    \/ TimerFires /\ Step("timer", 1)

Expect ==
    [scripts |-> script, outcome |-> outcome, steps |-> hist,
     replied |-> [i \in Conns |-> replied[i]],
     hpc |-> hpc, adopted |-> tunnelS, act |-> act, must |-> MustSucceed]

GNext ==
    /\ ~done
    /\ IF IntEnabled
       THEN Internal /\ UNCHANGED <<hist, done>>
       ELSE \/ Controlled /\ UNCHANGED done
            \/ (~ENABLED Controlled) /\ done' = TRUE /\ UNCHANGED <<vars, hist>>

GSpec == GInit /\ [][GNext]_gvars

Export == done => PrintT("MBT " \o ToJson(Expect))
=============================================================================
