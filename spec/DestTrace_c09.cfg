SPECIFICATION TSpec
CONSTANTS
  MaxSuffix = 999
  Validate = "required"
  Chain <- ChainDef
  Pres = {}
  Sources = {}
  HostileNames = {}
  HostileVar = {}
  Cfgs = {}
  Rounds = 1
INVARIANTS TypeOK Confined
CONSTRAINT HW
POSTCONDITION Accepted
CHECK_DEADLOCK FALSE
