SPECIFICATION TSpec
CONSTANTS
  N = 4
  StrayScripts = {}
  Outcomes = {}
  Rendezvous = FALSE
  MaxData = 0
  Pumps = FALSE
  Blind = FALSE
INVARIANTS TypeOK AtMostOneAdopted AdoptedAuthenticated NoAnswerToStrangers OnlyAdoptedFeeds FallbackWorks AgreeConsistent NoLateAdoption
CONSTRAINT HW
POSTCONDITION Accepted
CHECK_DEADLOCK FALSE
