SPECIFICATION RSpec
CONSTANTS
  Configs = {}
  Window = 2
  MaxFaults = 0
  FaultKinds = {}
  StopRoles = {}
  MaxPauses = 0
  TimeoutTicks = 2
  MaxTicks = 3
  Weaken = "none"
INVARIANTS ObsFidelity ObsNoHang RTriggerForwarded RNoBinaryWithoutTunnel RProtocolClamped ROnlyAdds RRecovers RConserved RRefusalReaches RSameResult
CONSTRAINT HW
POSTCONDITION Accepted
CHECK_DEADLOCK FALSE
