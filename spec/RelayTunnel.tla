---------------------------- MODULE RelayTunnel ----------------------------
(* relay.go, the tunnel path through a TrzszRelay (extension X03).  Processes:                       *)
(*   In / Out   the in-band pumps wrapInput / wrapOutput       Wk   handshake()                       *)
(*   Acc        the accept loop of acceptOnTunnel               H[p] handleTunnelConn of pair p       *)
(*   TI[p]/TO[p] tunnelRelay.wrapInput / wrapOutput of pair p   writers of newTunnelRelay (their end) *)
(* A *pair* p is one client connection accepted on the relay's listener plus the connection the      *)
(* relay's connector opened to the server for it.  Every shared-memory operation is its own action:  *)
(* status load, Lock + re-load (status, tunnelConnected), park / give up + Unlock, the worker's line  *)
(* reads, tunnelConnected.Store, the routed sends (tunnelRelay.Load && tunnelConnected.Load), the     *)
(* flush (lock, pop all with the same routing, status store), resetToStandby (CAS, then the clears), *)
(* the CAS of handleTunnelConn and tr.relay.Store, end of stream of the pumps and of the writers.    *)
(* Bytes are unique tokens (naturals); protocol items are negative; round r uses x - 10*(r-1).       *)
(* Channels to the writer goroutines are FIFO and merged with the writers (append = delivery).       *)
(* Reductions (exact under the stated environment): t.relay.Load + relayStatus.Load of a tunnel pump *)
(* are one action; the three clears of resetToStandby are one action (DoClear); the four greeting    *)
(* messages of a handler are one action (they touch no shared memory).                               *)
(* Named deviations of the code, modelled as constants / history:                                    *)
(*   JunkBeforeLine  (as in Relay.tla) tokens parked in front of the consumed ACT / CFG line are      *)
(*                   eaten by the junk-tolerant line read (`junk`).                                   *)
(*   SpinOnError     a tunnel pump leaves its loop only on io.EOF; any other read error (the relay's  *)
(*                   own Close of that connection, ECONNRESET) makes it spin for ever.               *)
(* Behaviours of the code that violate the properties below and are therefore kept out of the       *)
(* must-hold configurations by an environment constant (each is exercised by its own configuration   *)
(* and steered onto the real relay by checks/x03.py):                                                *)
(*   Window = TRUE   stdinBuffer / stdoutBuffer are shared by the in-band and the tunnel pumps and   *)
(*                   the route is chosen at flush time: an in-band chunk parked after the tunnel's   *)
(*                   ACT but before tunnelConnected.Store(true) is flushed into the tunnel           *)
(*                   (InbandIgnoredWhileTunnel); parked in-band server output goes to the client's   *)
(*                   tunnel connection when the transfer is refused.                                 *)
(*   LateOK = TRUE   a handler whose greeting completes after the transfer's reset wins the CAS on   *)
(*                   nil in standby (ResetClean, BoundIsCurrent when it also overtakes the clears).  *)
(*   TunPumpsAtRest  (timing assumption, see below) a tunnel pump stalled across a whole transfer    *)
(*                   still holds the relay pointer it loaded and parks into the next handshake.      *)
EXTENDS Integers, Sequences, SequencesExt, FiniteSets, TLC

CONSTANTS CliChunks,   \* in-band: chunks the client side feeds into clientIn
          SrvChunks,   \* in-band: chunks the server side feeds into serverOut
          Pairs,       \* connection pairs
          PairRound,   \* [Pairs -> round] the round whose trigger makes the pair's client dial
          CliTun,      \* [Pairs -> Seq(chunk)] what the client writes into its tunnel connection after the greeting
          SrvTun,      \* [Pairs -> Seq(chunk)] what the server writes into its tunnel connection after the greeting
          Confirm,     \* Seq(BOOLEAN): the ACT of round r confirms the transfer
          ParkRule,    \* "real": in-band pumps stop parking once tunnelConnected;  "always": `!tunnel &&` dropped (mutant)
          FlushRoute,  \* "real": parked chunks follow tunnelRelay && tunnelConnected;  "inband": always in-band (mutant)
          UseCAS,      \* TRUE: tunnelRelay.CompareAndSwap(nil, tr);  FALSE: plain Store (mutant)
          ClearTC,     \* TRUE: resetToStandby stores tunnelConnected = false;  FALSE: forgotten (mutant)
          SpinOnError, \* TRUE = the code (named deviation);  FALSE = every read error ends the pump
          SrvErrEOF,   \* the connector's connection reports its own Close as io.EOF (harness wrapper)
          Window,      \* environment: in-band chunks may arrive while a tunnel handshake has not yet stored tunnelConnected
          LateOK,      \* environment: a transfer may end while a handler has not finished yet
          Closing      \* environment: the ends close their tunnel connections after the transfer

ACT == -1      \* ACT line, "tunnel":false (sent in-band)
CFG == -2
TRIG == -3     \* trigger without a tunnel port
END == -4      \* #EXIT: / #FAIL: / #fail: line of a peer
FAIL == -5     \* the FAIL line the relay itself writes when a handshake fails
BADACT == -6
BADCFG == -7
TRIGT == -8    \* trigger with a tunnel port
ACTT == -9     \* ACT line, "tunnel":true (sent through the tunnel)
K(x) == IF x >= 0 THEN x ELSE -(((-x) - 1) % 10) - 1
R(x) == ((-x) - 1) \div 10 + 1
T(k, r) == k - 10 * (r - 1)

VARIABLES status, lock, tr, tconn, lst, trigT,      \* relayStatus, bufferLock, tunnelRelay (0 = nil), tunnelConnected, tunnelListener, trigger.tunnelPort # 0
          inQ, outQ, inRest, outRest, junk,         \* stdinBuffer / stdoutBuffer
          sin, cout, tsrv, tcli,                    \* delivered: serverIn, clientOut, server's tunnel conn [p], client's tunnel conn [p]
          fedC, fedS, fedTC, fedTS, nIn, nOut, nTI, nTO,
          pcI, bufI, stI, pcO, bufO, stO,
          pcTI, bufTI, stTI, pcTO, bufTO, stTO,      \* functions over Pairs
          pcW, wtok, werr, confirm,                 \* confirm: Seq(BOOLEAN), what the ACT of round r says
          acc, hp, trRelay, chC, chS,               \* accept loop, handler, t.relay # nil, clientBufChan / serverBufChan
          pcl, psv, rcC, rcS                        \* client end, server end, relay closed clientConn / serverConn

shared == <<status, lock, tr, tconn, lst, trigT>>
bufs == <<inQ, outQ, inRest, outRest, junk>>
outs == <<sin, cout, tsrv, tcli>>
hist == <<fedC, fedS, fedTC, fedTS, nIn, nOut, nTI, nTO>>
pI == <<pcI, bufI, stI>>
pO == <<pcO, bufO, stO>>
pTI == <<pcTI, bufTI, stTI>>
pTO == <<pcTO, bufTO, stTO>>
pW == <<pcW, wtok, werr, confirm>>
conn == <<acc, hp, trRelay, chC, chS, pcl, psv, rcC, rcS>>
vars == <<shared, bufs, outs, hist, pI, pO, pTI, pTO, pW, conn>>

HasK(s, ks) == \E i \in 1..Len(s) : K(s[i]) \in ks
IdxK(s, ks) == CHOOSE i \in 1..Len(s) : K(s[i]) \in ks /\ \A j \in 1..(i - 1) : K(s[j]) \notin ks
Has(s, x) == \E i \in 1..Len(s) : s[i] = x
Idx(s, x) == CHOOSE i \in 1..Len(s) : s[i] = x
Flat(ss) == FoldLeft(LAMBDA a, c : a \o c, <<>>, ss)
Set(s) == {s[i] : i \in 1..Len(s)}

Init ==
    /\ status = "S" /\ lock = <<"free", 0>> /\ tr = 0 /\ tconn = FALSE /\ lst = "none" /\ trigT = FALSE
    /\ inQ = <<>> /\ outQ = <<>> /\ inRest = <<>> /\ outRest = <<>> /\ junk = {}
    /\ sin = <<>> /\ cout = <<>> /\ tsrv = [p \in Pairs |-> <<>>] /\ tcli = [p \in Pairs |-> <<>>]
    /\ fedC = <<>> /\ fedS = <<>> /\ fedTC = [p \in Pairs |-> <<>>] /\ fedTS = [p \in Pairs |-> <<>>]
    /\ nIn = 0 /\ nOut = 0 /\ nTI = [p \in Pairs |-> 0] /\ nTO = [p \in Pairs |-> 0]
    /\ pcI = "read" /\ bufI = <<>> /\ stI = "S" /\ pcO = "read" /\ bufO = <<>> /\ stO = "S"
    /\ pcTI = [p \in Pairs |-> "off"] /\ bufTI = [p \in Pairs |-> <<>>] /\ stTI = [p \in Pairs |-> "S"]
    /\ pcTO = [p \in Pairs |-> "off"] /\ bufTO = [p \in Pairs |-> <<>>] /\ stTO = [p \in Pairs |-> "S"]
    /\ pcW = "off" /\ wtok = 0 /\ werr = FALSE /\ confirm = Confirm
    /\ acc = "off" /\ hp = [p \in Pairs |-> "idle"] /\ trRelay = [p \in Pairs |-> FALSE]
    /\ chC = [p \in Pairs |-> "open"] /\ chS = [p \in Pairs |-> "open"]
    /\ pcl = [p \in Pairs |-> "idle"] /\ psv = [p \in Pairs |-> "idle"]
    /\ rcC = [p \in Pairs |-> FALSE] /\ rcS = [p \in Pairs |-> FALSE]

(* the routing test of sendStringToServer / sendStringToClient / flushHandshakeBuffer *)
ViaTunnel == tr # 0 /\ tconn
ToServer(s, real) ==      \* s: sequence of tokens
    IF ViaTunnel /\ real THEN /\ tsrv' = [tsrv EXCEPT ![tr] = @ \o s] /\ sin' = sin
                         ELSE /\ sin' = sin \o s /\ tsrv' = tsrv
ToClient(s, real) ==
    IF ViaTunnel /\ real THEN /\ tcli' = [tcli EXCEPT ![tr] = @ \o s] /\ cout' = cout
                         ELSE /\ cout' = cout \o s /\ tcli' = tcli

(* resetToStandby after its CAS succeeded: close + forget the listener, t.relay.Store(nil),          *)
(* tunnelRelay.Store(nil), tunnelConnected.Store(false)                                              *)
DoClear ==
    /\ lst' = "none"
    /\ trRelay' = [p \in Pairs |-> IF p = tr THEN FALSE ELSE trRelay[p]]
    /\ tr' = 0
    /\ tconn' = (IF ClearTC THEN FALSE ELSE tconn)

(* ------------------------------ In: wrapInput ------------------------------ *)
InRead(c) ==
    /\ pcI = "read"
    /\ bufI' = c /\ nIn' = nIn + 1 /\ fedC' = fedC \o c /\ pcI' = "load"
    /\ UNCHANGED <<shared, bufs, outs, fedS, fedTC, fedTS, nOut, nTI, nTO, stI, pO, pTI, pTO, pW, conn>>

InLoad ==
    /\ pcI = "load"
    /\ stI' = status /\ pcI' = (IF status = "H" THEN "lock" ELSE "fwd")
    /\ UNCHANGED <<shared, bufs, outs, hist, bufI, pO, pTI, pTO, pW, conn>>

InLock ==      \* addHandshakeBuffer(stdinBuffer, buf, false): Lock; status, tunnelConnected re-read
    /\ pcI = "lock" /\ lock = <<"free", 0>>
    /\ lock' = <<"In", 0>> /\ stI' = status
    /\ pcI' = (IF status = "H" /\ (ParkRule = "always" \/ ~tconn) THEN "park" ELSE "skip")
    /\ UNCHANGED <<status, tr, tconn, lst, trigT, bufs, outs, hist, bufI, pO, pTI, pTO, pW, conn>>

InPark ==
    /\ pcI = "park" /\ lock = <<"In", 0>>
    /\ lock' = <<"free", 0>> /\ inQ' = Append(inQ, bufI) /\ bufI' = <<>> /\ pcI' = "read"
    /\ UNCHANGED <<status, tr, tconn, lst, trigT, outQ, inRest, outRest, junk, outs, hist, stI, pO, pTI, pTO, pW, conn>>

InSkip ==
    /\ pcI = "skip" /\ lock = <<"In", 0>>
    /\ lock' = <<"free", 0>> /\ pcI' = "fwd"
    /\ UNCHANGED <<status, tr, tconn, lst, trigT, bufs, outs, hist, bufI, stI, pO, pTI, pTO, pW, conn>>

InFwd ==       \* osStdinChan <- buf  (in-band, whatever the tunnel state)
    /\ pcI = "fwd"
    /\ sin' = sin \o bufI /\ bufI' = <<>>
    /\ pcI' = (IF stI = "T" /\ HasK(bufI, {END}) THEN "mark" ELSE "read")
    /\ UNCHANGED <<shared, bufs, cout, tsrv, tcli, hist, stI, pO, pTI, pTO, pW, conn>>

InMark ==      \* resetToStandby(transferring): the CAS
    /\ pcI = "mark"
    /\ IF status = "T" THEN status' = "S" /\ pcI' = "clear" ELSE status' = status /\ pcI' = "read"
    /\ UNCHANGED <<lock, tr, tconn, lst, trigT, bufs, outs, hist, bufI, stI, pO, pTI, pTO, pW, conn>>

InClear ==
    /\ pcI = "clear" /\ DoClear /\ pcI' = "read"
    /\ UNCHANGED <<status, lock, trigT, bufs, outs, hist, bufI, stI, pO, pTI, pTO, pW, acc, hp, chC, chS, pcl, psv, rcC, rcS>>

(* ------------------------------ Out: wrapOutput ------------------------------ *)
OutRead(c) ==
    /\ pcO = "read"
    /\ bufO' = c /\ nOut' = nOut + 1 /\ fedS' = fedS \o c /\ pcO' = "load"
    /\ UNCHANGED <<shared, bufs, outs, fedC, fedTC, fedTS, nIn, nTI, nTO, stO, pI, pTI, pTO, pW, conn>>

OutLoad ==
    /\ pcO = "load"
    /\ stO' = status /\ pcO' = (IF status = "H" THEN "lock" ELSE "fwd")
    /\ UNCHANGED <<shared, bufs, outs, hist, bufO, pI, pTI, pTO, pW, conn>>

OutLock ==
    /\ pcO = "lock" /\ lock = <<"free", 0>>
    /\ lock' = <<"Out", 0>> /\ stO' = status
    /\ pcO' = (IF status = "H" /\ (ParkRule = "always" \/ ~tconn) THEN "park" ELSE "skip")
    /\ UNCHANGED <<status, tr, tconn, lst, trigT, bufs, outs, hist, bufO, pI, pTI, pTO, pW, conn>>

OutPark ==
    /\ pcO = "park" /\ lock = <<"Out", 0>>
    /\ lock' = <<"free", 0>> /\ outQ' = Append(outQ, bufO) /\ bufO' = <<>> /\ pcO' = "read"
    /\ UNCHANGED <<status, tr, tconn, lst, trigT, inQ, inRest, outRest, junk, outs, hist, stO, pI, pTI, pTO, pW, conn>>

OutSkip ==
    /\ pcO = "skip" /\ lock = <<"Out", 0>>
    /\ lock' = <<"free", 0>> /\ pcO' = "fwd"
    /\ UNCHANGED <<status, tr, tconn, lst, trigT, bufs, outs, hist, bufO, stO, pI, pTI, pTO, pW, conn>>

OutFwd ==      \* transferring: bypass (+ end markers); otherwise the detector; a trigger goes to OutStoreH
    /\ pcO = "fwd"
    /\ IF stO # "T" /\ HasK(bufO, {TRIG, TRIGT})
       THEN pcO' = "trig" /\ UNCHANGED <<cout, bufO>>
       ELSE /\ cout' = cout \o bufO /\ bufO' = <<>>
            /\ pcO' = (IF stO = "T" /\ HasK(bufO, {END}) THEN "mark" ELSE "read")
    /\ UNCHANGED <<shared, bufs, sin, tsrv, tcli, hist, stO, pI, pTI, pTO, pW, conn>>

OutStoreH ==   \* relayStatus.Store(handshaking); r.trigger = trigger
    /\ pcO = "trig"
    /\ status' = "H" /\ trigT' = HasK(bufO, {TRIGT})
    /\ pcO' = (IF HasK(bufO, {TRIGT}) THEN "listen" ELSE "trig2")
    /\ UNCHANGED <<lock, tr, tconn, lst, bufs, outs, hist, bufO, stO, pI, pTI, pTO, pW, conn>>

OutListen ==   \* listenForTunnel: net.Listen, tunnelListener.Store, acceptOnTunnel; the port in the trigger is rewritten
    /\ pcO = "listen" /\ acc = "off"
    /\ lst' = "open" /\ acc' = "run" /\ pcO' = "trig2"
    /\ UNCHANGED <<status, lock, tr, tconn, trigT, bufs, outs, hist, bufO, stO, pI, pTI, pTO, pW, hp, trRelay, chC, chS, pcl, psv, rcC, rcS>>

OutTrigger ==  \* go handshake(); the trigger chunk goes on to the client
    /\ pcO = "trig2" /\ pcW \in {"off", "done"}
    /\ pcW' = "recvAct" /\ werr' = FALSE /\ wtok' = 0 /\ confirm' = confirm
    /\ cout' = cout \o bufO /\ bufO' = <<>> /\ pcO' = "read"
    /\ UNCHANGED <<shared, bufs, sin, tsrv, tcli, hist, stO, pI, pTI, pTO, conn>>

OutMark ==
    /\ pcO = "mark"
    /\ IF status = "T" THEN status' = "S" /\ pcO' = "clear" ELSE status' = status /\ pcO' = "read"
    /\ UNCHANGED <<lock, tr, tconn, lst, trigT, bufs, outs, hist, bufO, stO, pI, pTI, pTO, pW, conn>>

OutClear ==
    /\ pcO = "clear" /\ DoClear /\ pcO' = "read"
    /\ UNCHANGED <<status, lock, trigT, bufs, outs, hist, bufO, stO, pI, pTI, pTO, pW, acc, hp, chC, chS, pcl, psv, rcC, rcS>>

(* ------------------------------ Wk: handshake ------------------------------ *)
WkRecvAct ==   \* recvAction: junk-tolerant line read on stdinBuffer (in-band and tunnel chunks share it)
    /\ pcW = "recvAct" /\ inQ # <<>>
    /\ LET c == Head(inQ) IN
       IF HasK(c, {ACT, ACTT, BADACT})
       THEN LET i == IdxK(c, {ACT, ACTT, BADACT}) IN
            /\ inRest' = SubSeq(c, i + 1, Len(c)) /\ wtok' = c[i]
            /\ IF K(c[i]) # BADACT THEN pcW' = "storeTC" /\ werr' = werr /\ junk' = junk \cup {c[j] : j \in 1..(i - 1)}
                                   ELSE pcW' = "errC" /\ werr' = TRUE /\ junk' = junk \cup {c[j] : j \in 1..i}
       ELSE /\ junk' = junk \cup Set(c) /\ inRest' = inRest /\ pcW' = pcW /\ UNCHANGED <<wtok, werr>>
    /\ inQ' = Tail(inQ)
    /\ UNCHANGED <<shared, outQ, outRest, outs, hist, pI, pO, pTI, pTO, confirm, conn>>

WkStoreTC ==   \* r.tunnelConnected.Store(action.TunnelConnected)  (not under the lock)
    /\ pcW = "storeTC"
    /\ tconn' = (K(wtok) = ACTT) /\ pcW' = "sendAct"
    /\ UNCHANGED <<status, lock, tr, lst, trigT, bufs, outs, hist, pI, pO, pTI, pTO, wtok, werr, confirm, conn>>

WkSendAct ==   \* sendStringToServer("ACT"): tunnelRelay.Load() != nil && tunnelConnected.Load() ? clientBufChan : osStdinChan
    /\ pcW = "sendAct"
    /\ ToServer(<<wtok>>, TRUE)
    /\ pcW' = (IF confirm[R(wtok)] THEN "recvCfg" ELSE "flush")
    /\ UNCHANGED <<shared, bufs, cout, tcli, hist, pI, pO, pTI, pTO, wtok, werr, confirm, conn>>

WkRecvCfg ==
    /\ pcW = "recvCfg" /\ outQ # <<>>
    /\ LET c == Head(outQ) IN
       IF HasK(c, {CFG, BADCFG})
       THEN LET i == IdxK(c, {CFG, BADCFG}) IN
            /\ outRest' = SubSeq(c, i + 1, Len(c)) /\ wtok' = c[i]
            /\ IF K(c[i]) = CFG THEN pcW' = "sendCfg" /\ werr' = werr /\ junk' = junk \cup {c[j] : j \in 1..(i - 1)}
                               ELSE pcW' = "errC" /\ werr' = TRUE /\ junk' = junk \cup {c[j] : j \in 1..i}
       ELSE /\ junk' = junk \cup Set(c) /\ outRest' = outRest /\ pcW' = pcW /\ UNCHANGED <<wtok, werr>>
    /\ outQ' = Tail(outQ)
    /\ UNCHANGED <<shared, inQ, inRest, outs, hist, pI, pO, pTI, pTO, confirm, conn>>

WkSendCfg ==   \* sendStringToClient("CFG"): ... ? serverBufChan : bypassTmuxChan
    /\ pcW = "sendCfg"
    /\ ToClient(<<wtok>>, TRUE) /\ pcW' = "flush"
    /\ UNCHANGED <<shared, bufs, sin, tsrv, hist, pI, pO, pTI, pTO, wtok, werr, confirm, conn>>

WkErrC ==      \* sendError: FAIL to the client, then to the server, routed like everything else
    /\ pcW = "errC"
    /\ ToClient(<<FAIL>>, TRUE) /\ pcW' = "errS"
    /\ UNCHANGED <<shared, bufs, sin, tsrv, hist, pI, pO, pTI, pTO, wtok, werr, confirm, conn>>
WkErrS ==
    /\ pcW = "errS"
    /\ ToServer(<<FAIL>>, TRUE) /\ pcW' = "flush"
    /\ UNCHANGED <<shared, bufs, cout, tcli, hist, pI, pO, pTI, pTO, wtok, werr, confirm, conn>>

WkFlushLock == \* flushHandshakeBuffer: Lock; pop everything, each chunk routed by tunnelRelay && tunnelConnected
    /\ pcW = "flush" /\ lock = <<"free", 0>>
    /\ lock' = <<"Wk", 0>>
    /\ ToServer(inRest \o Flat(inQ), FlushRoute = "real")
    /\ ToClient(outRest \o Flat(outQ), FlushRoute = "real")
    /\ inQ' = <<>> /\ outQ' = <<>> /\ inRest' = <<>> /\ outRest' = <<>>
    /\ pcW' = "store"
    /\ UNCHANGED <<status, tr, tconn, lst, trigT, junk, hist, pI, pO, pTI, pTO, wtok, werr, confirm, conn>>

WkStore ==     \* relayStatus.Store(transferring)  /  resetToStandby(handshaking): the CAS
    /\ pcW = "store"
    /\ IF wtok # 0 /\ K(wtok) \in {CFG} /\ ~werr
       THEN status' = "T" /\ pcW' = "unlock"
       ELSE IF status = "H" THEN status' = "S" /\ pcW' = "clear" ELSE status' = status /\ pcW' = "unlock"
    /\ UNCHANGED <<lock, tr, tconn, lst, trigT, bufs, outs, hist, pI, pO, pTI, pTO, wtok, werr, confirm, conn>>

WkClear ==
    /\ pcW = "clear" /\ DoClear /\ pcW' = "unlock"
    /\ UNCHANGED <<status, lock, trigT, bufs, outs, hist, pI, pO, pTI, pTO, wtok, werr, confirm, acc, hp, chC, chS, pcl, psv, rcC, rcS>>

WkUnlock ==
    /\ pcW = "unlock" /\ lock = <<"Wk", 0>>
    /\ lock' = <<"free", 0>> /\ pcW' = "done"
    /\ UNCHANGED <<status, tr, tconn, lst, trigT, bufs, outs, hist, pI, pO, pTI, pTO, wtok, werr, confirm, conn>>

(* ------------------------------ Acc / H[p]: acceptOnTunnel, handleTunnelConn ------------------------------ *)
AccAccept(p) ==   \* Accept returned the connection of client p
    /\ acc = "run" /\ lst = "open" /\ pcl[p] = "dialed" /\ hp[p] = "idle"
    /\ IF tr # 0
       THEN /\ hp' = [hp EXCEPT ![p] = "refused"] /\ rcC' = [rcC EXCEPT ![p] = TRUE] /\ acc' = "exit"
            /\ pcl' = [pcl EXCEPT ![p] = "closed"]
       ELSE /\ hp' = [hp EXCEPT ![p] = "hello"] /\ UNCHANGED <<rcC, acc, pcl>>
    /\ UNCHANGED <<shared, bufs, outs, hist, pI, pO, pTI, pTO, pW, trRelay, chC, chS, psv, rcS>>

AccExit ==        \* the deferred function of the accept loop after it refused a connection
    /\ acc = "exit"
    /\ lst' = "none" /\ acc' = "off"
    /\ UNCHANGED <<status, lock, tr, tconn, trigT, bufs, outs, hist, pI, pO, pTI, pTO, pW, hp, trRelay, chC, chS, pcl, psv, rcC, rcS>>

AccErr ==         \* Accept failed: the listener was closed (by the winning handler or by resetToStandby)
    /\ acc = "run" /\ lst = "none"
    /\ acc' = "off"
    /\ UNCHANGED <<shared, bufs, outs, hist, pI, pO, pTI, pTO, pW, hp, trRelay, chC, chS, pcl, psv, rcC, rcS>>

HGreet(p) ==      \* hello1 read, connector called, hello2 written, hello3 read, hello4 written; newTunnelRelay
    /\ hp[p] = "hello"
    /\ hp' = [hp EXCEPT ![p] = "cas"] /\ psv' = [psv EXCEPT ![p] = "open"] /\ pcl' = [pcl EXCEPT ![p] = "open"]
    /\ UNCHANGED <<shared, bufs, outs, hist, pI, pO, pTI, pTO, pW, acc, trRelay, chC, chS, rcC, rcS>>

HCas(p) ==        \* r.tunnelRelay.CompareAndSwap(nil, tr)
    /\ hp[p] = "cas"
    /\ IF UseCAS => tr = 0
       THEN tr' = p /\ hp' = [hp EXCEPT ![p] = "bind"]
       ELSE tr' = tr /\ hp' = [hp EXCEPT ![p] = "lose"]
    /\ UNCHANGED <<status, lock, tconn, lst, trigT, bufs, outs, hist, pI, pO, pTI, pTO, pW, acc, trRelay, chC, chS, pcl, psv, rcC, rcS>>

HBind(p) ==       \* tr.relay.Store(r); go wrapInput; go wrapOutput
    /\ hp[p] = "bind"
    /\ trRelay' = [trRelay EXCEPT ![p] = TRUE]
    /\ pcTI' = [pcTI EXCEPT ![p] = "read"] /\ pcTO' = [pcTO EXCEPT ![p] = "read"]
    /\ hp' = [hp EXCEPT ![p] = "closeL"]
    /\ UNCHANGED <<shared, bufs, outs, hist, pI, pO, bufTI, stTI, bufTO, stTO, pW, acc, chC, chS, pcl, psv, rcC, rcS>>

HCloseL(p) ==     \* close + forget the listener
    /\ hp[p] = "closeL"
    /\ lst' = "none" /\ hp' = [hp EXCEPT ![p] = "done"]
    /\ UNCHANGED <<status, lock, tr, tconn, trigT, bufs, outs, hist, pI, pO, pTI, pTO, pW, acc, trRelay, chC, chS, pcl, psv, rcC, rcS>>

HLose(p) ==       \* close(clientBufChan); close(serverBufChan)
    /\ hp[p] = "lose"
    /\ chC' = [chC EXCEPT ![p] = "closed"] /\ chS' = [chS EXCEPT ![p] = "closed"] /\ hp' = [hp EXCEPT ![p] = "lost"]
    /\ UNCHANGED <<shared, bufs, outs, hist, pI, pO, pTI, pTO, pW, acc, trRelay, pcl, psv, rcC, rcS>>

(* the writer goroutines of newTunnelRelay: their channel was closed -> defer conn.Close() *)
WrSEnd(p) ==
    /\ chC[p] = "closed" /\ ~rcS[p]
    /\ rcS' = [rcS EXCEPT ![p] = TRUE]
    /\ UNCHANGED <<shared, bufs, outs, hist, pI, pO, pTI, pTO, pW, acc, hp, trRelay, chC, chS, pcl, psv, rcC>>
WrCEnd(p) ==
    /\ chS[p] = "closed" /\ ~rcC[p]
    /\ rcC' = [rcC EXCEPT ![p] = TRUE]
    /\ UNCHANGED <<shared, bufs, outs, hist, pI, pO, pTI, pTO, pW, acc, hp, trRelay, chC, chS, pcl, psv, rcS>>

(* ------------------------------ TI[p]: tunnelRelay.wrapInput ------------------------------ *)
TIRead(p, c) ==
    /\ pcTI[p] = "read" /\ ~rcC[p]
    /\ bufTI' = [bufTI EXCEPT ![p] = c] /\ nTI' = [nTI EXCEPT ![p] = @ + 1]
    /\ fedTC' = [fedTC EXCEPT ![p] = @ \o c] /\ pcTI' = [pcTI EXCEPT ![p] = "load"]
    /\ UNCHANGED <<shared, bufs, outs, fedC, fedS, fedTS, nIn, nOut, nTO, stTI, pI, pO, pTO, pW, conn>>

AfterT(st, buf) == IF st = "T" /\ HasK(buf, {END}) THEN "mark" ELSE "fwd"

TILoad(p) ==      \* t.relay.Load(); r.relayStatus.Load()
    /\ pcTI[p] = "load"
    /\ IF ~trRelay[p]
       THEN pcTI' = [pcTI EXCEPT ![p] = "fwd"] /\ stTI' = stTI
       ELSE /\ stTI' = [stTI EXCEPT ![p] = status]
            /\ pcTI' = [pcTI EXCEPT ![p] = IF status = "H" THEN "lock" ELSE AfterT(status, bufTI[p])]
    /\ UNCHANGED <<shared, bufs, outs, hist, bufTI, pI, pO, pTO, pW, conn>>

TILock(p) ==      \* addHandshakeBuffer(stdinBuffer, buf, true)
    /\ pcTI[p] = "lock" /\ lock = <<"free", 0>>
    /\ lock' = <<"TI", p>> /\ stTI' = [stTI EXCEPT ![p] = status]
    /\ pcTI' = [pcTI EXCEPT ![p] = IF status = "H" THEN "park" ELSE "skip"]
    /\ UNCHANGED <<status, tr, tconn, lst, trigT, bufs, outs, hist, bufTI, pI, pO, pTO, pW, conn>>

TIPark(p) ==
    /\ pcTI[p] = "park" /\ lock = <<"TI", p>>
    /\ lock' = <<"free", 0>> /\ inQ' = Append(inQ, bufTI[p]) /\ bufTI' = [bufTI EXCEPT ![p] = <<>>]
    /\ pcTI' = [pcTI EXCEPT ![p] = "read"]
    /\ UNCHANGED <<status, tr, tconn, lst, trigT, outQ, inRest, outRest, junk, outs, hist, stTI, pI, pO, pTO, pW, conn>>

TISkip(p) ==
    /\ pcTI[p] = "skip" /\ lock = <<"TI", p>>
    /\ lock' = <<"free", 0>> /\ pcTI' = [pcTI EXCEPT ![p] = AfterT(stTI[p], bufTI[p])]
    /\ UNCHANGED <<status, tr, tconn, lst, trigT, bufs, outs, hist, bufTI, stTI, pI, pO, pTO, pW, conn>>

TIMark(p) ==      \* resetToStandby(transferring) *before* the chunk is forwarded
    /\ pcTI[p] = "mark"
    /\ IF status = "T" THEN status' = "S" /\ pcTI' = [pcTI EXCEPT ![p] = "clear"]
                       ELSE status' = status /\ pcTI' = [pcTI EXCEPT ![p] = "fwd"]
    /\ UNCHANGED <<lock, tr, tconn, lst, trigT, bufs, outs, hist, bufTI, stTI, pI, pO, pTO, pW, conn>>

TIClear(p) ==
    /\ pcTI[p] = "clear" /\ DoClear /\ pcTI' = [pcTI EXCEPT ![p] = "fwd"]
    /\ UNCHANGED <<status, lock, trigT, bufs, outs, hist, bufTI, stTI, pI, pO, pTO, pW, acc, hp, chC, chS, pcl, psv, rcC, rcS>>

TIFwd(p) ==       \* t.clientBufChan <- buf
    /\ pcTI[p] = "fwd"
    /\ tsrv' = [tsrv EXCEPT ![p] = @ \o bufTI[p]] /\ bufTI' = [bufTI EXCEPT ![p] = <<>>]
    /\ pcTI' = [pcTI EXCEPT ![p] = "read"]
    /\ UNCHANGED <<shared, bufs, sin, cout, tcli, hist, stTI, pI, pO, pTO, pW, conn>>

TIEof(p) ==       \* Read returned io.EOF: the client closed its end and everything it wrote has been read
    /\ pcTI[p] = "read" /\ pcl[p] = "closed" /\ ~rcC[p]
    /\ pcTI' = [pcTI EXCEPT ![p] = "eofwait"]
    /\ UNCHANGED <<shared, bufs, outs, hist, bufTI, stTI, pI, pO, pTO, pW, conn>>

TIErr(p) ==       \* Read returned another error: the relay itself closed clientConn (writer of the other direction ended)
    /\ pcTI[p] = "read" /\ rcC[p]
    /\ pcTI' = [pcTI EXCEPT ![p] = IF SpinOnError THEN "spin" ELSE "eofwait"]
    /\ UNCHANGED <<shared, bufs, outs, hist, bufTI, stTI, pI, pO, pTO, pW, conn>>

TIBreak(p) ==     \* for t.relay.Load() != nil { sleep }; break; defer close(t.clientBufChan)
    /\ pcTI[p] = "eofwait" /\ ~trRelay[p]
    /\ pcTI' = [pcTI EXCEPT ![p] = "ended"] /\ chC' = [chC EXCEPT ![p] = "closed"]
    /\ UNCHANGED <<shared, bufs, outs, hist, bufTI, stTI, pI, pO, pTO, pW, acc, hp, trRelay, chS, pcl, psv, rcC, rcS>>

(* ------------------------------ TO[p]: tunnelRelay.wrapOutput ------------------------------ *)
TORead(p, c) ==
    /\ pcTO[p] = "read" /\ ~rcS[p]
    /\ bufTO' = [bufTO EXCEPT ![p] = c] /\ nTO' = [nTO EXCEPT ![p] = @ + 1]
    /\ fedTS' = [fedTS EXCEPT ![p] = @ \o c] /\ pcTO' = [pcTO EXCEPT ![p] = "load"]
    /\ UNCHANGED <<shared, bufs, outs, fedC, fedS, fedTC, nIn, nOut, nTI, stTO, pI, pO, pTI, pW, conn>>

TOLoad(p) ==
    /\ pcTO[p] = "load"
    /\ IF ~trRelay[p]
       THEN pcTO' = [pcTO EXCEPT ![p] = "fwd"] /\ stTO' = stTO
       ELSE /\ stTO' = [stTO EXCEPT ![p] = status]
            /\ pcTO' = [pcTO EXCEPT ![p] = IF status = "H" THEN "lock" ELSE AfterT(status, bufTO[p])]
    /\ UNCHANGED <<shared, bufs, outs, hist, bufTO, pI, pO, pTI, pW, conn>>

TOLock(p) ==
    /\ pcTO[p] = "lock" /\ lock = <<"free", 0>>
    /\ lock' = <<"TO", p>> /\ stTO' = [stTO EXCEPT ![p] = status]
    /\ pcTO' = [pcTO EXCEPT ![p] = IF status = "H" THEN "park" ELSE "skip"]
    /\ UNCHANGED <<status, tr, tconn, lst, trigT, bufs, outs, hist, bufTO, pI, pO, pTI, pW, conn>>

TOPark(p) ==
    /\ pcTO[p] = "park" /\ lock = <<"TO", p>>
    /\ lock' = <<"free", 0>> /\ outQ' = Append(outQ, bufTO[p]) /\ bufTO' = [bufTO EXCEPT ![p] = <<>>]
    /\ pcTO' = [pcTO EXCEPT ![p] = "read"]
    /\ UNCHANGED <<status, tr, tconn, lst, trigT, inQ, inRest, outRest, junk, outs, hist, stTO, pI, pO, pTI, pW, conn>>

TOSkip(p) ==
    /\ pcTO[p] = "skip" /\ lock = <<"TO", p>>
    /\ lock' = <<"free", 0>> /\ pcTO' = [pcTO EXCEPT ![p] = AfterT(stTO[p], bufTO[p])]
    /\ UNCHANGED <<status, tr, tconn, lst, trigT, bufs, outs, hist, bufTO, stTO, pI, pO, pTI, pW, conn>>

TOMark(p) ==
    /\ pcTO[p] = "mark"
    /\ IF status = "T" THEN status' = "S" /\ pcTO' = [pcTO EXCEPT ![p] = "clear"]
                       ELSE status' = status /\ pcTO' = [pcTO EXCEPT ![p] = "fwd"]
    /\ UNCHANGED <<lock, tr, tconn, lst, trigT, bufs, outs, hist, bufTO, stTO, pI, pO, pTI, pW, conn>>

TOClear(p) ==
    /\ pcTO[p] = "clear" /\ DoClear /\ pcTO' = [pcTO EXCEPT ![p] = "fwd"]
    /\ UNCHANGED <<status, lock, trigT, bufs, outs, hist, bufTO, stTO, pI, pO, pTI, pW, acc, hp, chC, chS, pcl, psv, rcC, rcS>>

TOFwd(p) ==       \* t.serverBufChan <- buf
    /\ pcTO[p] = "fwd"
    /\ tcli' = [tcli EXCEPT ![p] = @ \o bufTO[p]] /\ bufTO' = [bufTO EXCEPT ![p] = <<>>]
    /\ pcTO' = [pcTO EXCEPT ![p] = "read"]
    /\ UNCHANGED <<shared, bufs, sin, cout, tsrv, hist, stTO, pI, pO, pTI, pW, conn>>

TOEof(p) ==
    /\ pcTO[p] = "read" /\ psv[p] = "closed" /\ ~rcS[p]
    /\ pcTO' = [pcTO EXCEPT ![p] = "eofwait"]
    /\ UNCHANGED <<shared, bufs, outs, hist, bufTO, stTO, pI, pO, pTI, pW, conn>>

TOErr(p) ==       \* the relay itself closed serverConn; a wrapped connection may report that as io.EOF
    /\ pcTO[p] = "read" /\ rcS[p]
    /\ pcTO' = [pcTO EXCEPT ![p] = IF SpinOnError /\ ~SrvErrEOF THEN "spin" ELSE "eofwait"]
    /\ UNCHANGED <<shared, bufs, outs, hist, bufTO, stTO, pI, pO, pTI, pW, conn>>

TOBreak(p) ==
    /\ pcTO[p] = "eofwait" /\ ~trRelay[p]
    /\ pcTO' = [pcTO EXCEPT ![p] = "ended"] /\ chS' = [chS EXCEPT ![p] = "closed"]
    /\ UNCHANGED <<shared, bufs, outs, hist, bufTO, stTO, pI, pO, pTI, pW, acc, hp, trRelay, chC, pcl, psv, rcC, rcS>>

(* ------------------------------ environment ------------------------------ *)
Needs(c, ks, where, k) == \A i \in 1..Len(c) : K(c[i]) \in ks => Has(where, T(k, R(c[i])))
NeedsAny(c, ks, where, kk) == \A i \in 1..Len(c) : K(c[i]) \in ks => \E k \in kk : Has(where, T(k, R(c[i])))
Resolved(p) == hp[p] \in {"idle", "done", "lost", "refused"} /\ (chC[p] = "closed" => rcS[p]) /\ (chS[p] = "closed" => rcC[p])
NoneClearing == pcI \notin {"mark", "clear"} /\ pcO \notin {"mark", "clear"} /\ pcW \notin {"clear"}
                /\ \A p \in Pairs : pcTI[p] \notin {"mark", "clear"} /\ pcTO[p] \notin {"mark", "clear"}
WkIdle == pcW \in {"off", "done"}
(* the window in which the relay cannot yet know that the tunnel will be used *)
InWindow == trigT /\ status = "H" /\ ~tconn /\ pcW \notin {"off", "done", "flush", "store", "clear", "unlock"}
EndOK == WkIdle /\ (LateOK \/ \A p \in Pairs : pcl[p] = "idle" \/ Resolved(p))

(* timing assumption: a later transfer starts only when no tunnel pump is in the middle of a chunk (a pump that   *)
(* stalled between its status load and addHandshakeBuffer across a whole transfer would still hold the relay     *)
(* pointer it loaded before the reset and park into the next handshake: found by TLC, design level only)         *)
TunPumpsAtRest == \A p \in Pairs : pcTI[p] \in {"off", "read", "eofwait", "ended", "spin"} /\ pcTO[p] \in {"off", "read", "eofwait", "ended", "spin"}
CliReady == /\ nIn < Len(CliChunks)
            /\ LET c == CliChunks[nIn + 1] IN
               /\ NeedsAny(c, {ACT, BADACT}, cout, {TRIG, TRIGT})
               /\ Needs(c, {END}, cout, CFG)
               /\ (HasK(c, {END}) => EndOK)
               /\ (~Window => HasK(c, {ACT, BADACT}) \/ (~InWindow /\ ~HasK(bufO, {TRIGT})))
SrvReady == /\ nOut < Len(SrvChunks)
            /\ LET c == SrvChunks[nOut + 1] IN
               /\ Needs(c, {CFG, BADCFG}, sin, ACT)
               /\ (HasK(c, {END}) => EndOK /\ status = "T")
               /\ (~Window => HasK(c, {CFG, BADCFG}) \/ ~InWindow)
               /\ (HasK(c, {TRIGT}) /\ ~Window => pcI = "read")
               /\ \A i \in 1..Len(c) :      \* a later trigger only after the previous transfer ended and the relay has come to rest
                     (K(c[i]) \in {TRIG, TRIGT} /\ R(c[i]) > 1) =>
                         /\ status = "S" /\ WkIdle /\ NoneClearing /\ acc = "off" /\ nIn > 0 /\ TunPumpsAtRest
                         /\ Has(sin, T(END, R(c[i]) - 1)) \/ Has(cout, T(END, R(c[i]) - 1)) \/ Has(cout, FAIL)
                            \/ \E p \in Pairs : Has(tsrv[p], T(END, R(c[i]) - 1)) \/ Has(tcli[p], T(END, R(c[i]) - 1)) \/ Has(tcli[p], FAIL)
                            \/ ~confirm[R(c[i]) - 1]
                         /\ (LateOK \/ \A p \in Pairs : pcl[p] = "idle" \/ Resolved(p))

Dial(p) ==        \* the client saw the trigger of its round (with the relay's port) and connected
    /\ pcl[p] = "idle" /\ lst = "open"
    /\ pcl' = [pcl EXCEPT ![p] = "dialed"]
    /\ UNCHANGED <<shared, bufs, outs, hist, pI, pO, pTI, pTO, pW, acc, hp, trRelay, chC, chS, psv, rcC, rcS>>

DialDropped(p) == \* the listener was closed before Accept took the connection: the kernel resets it, the client gives up
    /\ pcl[p] = "dialed" /\ hp[p] = "idle" /\ lst = "none"
    /\ pcl' = [pcl EXCEPT ![p] = "closed"]
    /\ UNCHANGED <<shared, bufs, outs, hist, pI, pO, pTI, pTO, pW, acc, hp, trRelay, chC, chS, psv, rcC, rcS>>

CliTunReady(p) == /\ nTI[p] < Len(CliTun[p]) /\ pcl[p] = "open"
                  /\ LET c == CliTun[p][nTI[p] + 1] IN
                     /\ Needs(c, {END}, tcli[p], CFG)
                     /\ (HasK(c, {END}) => EndOK)
SrvTunReady(p) == /\ nTO[p] < Len(SrvTun[p]) /\ psv[p] = "open"
                  /\ LET c == SrvTun[p][nTO[p] + 1] IN
                     /\ Needs(c, {CFG, BADCFG}, tsrv[p], ACTT)
                     /\ (HasK(c, {END}) => EndOK /\ status = "T")

(* the ends close their tunnel connection once the transfer is over and everything they sent was forwarded *)
Over(p) == /\ nTI[p] = Len(CliTun[p]) /\ nTO[p] = Len(SrvTun[p]) /\ pcTI[p] = "read" /\ pcTO[p] = "read"
           /\ WkIdle /\ ~trRelay[p] /\ NoneClearing
CloseOK(p) == Closing /\ (hp[p] \in {"closeL", "done"} => Over(p)) /\ hp[p] \in {"closeL", "done", "lost"}
CliClose(p) ==
    /\ pcl[p] = "open"
    /\ pcl' = [pcl EXCEPT ![p] = "closed"]
    /\ UNCHANGED <<shared, bufs, outs, hist, pI, pO, pTI, pTO, pW, acc, hp, trRelay, chC, chS, psv, rcC, rcS>>
SrvClose(p) ==
    /\ psv[p] = "open"
    /\ psv' = [psv EXCEPT ![p] = "closed"]
    /\ UNCHANGED <<shared, bufs, outs, hist, pI, pO, pTI, pTO, pW, acc, hp, trRelay, chC, chS, pcl, rcC, rcS>>

NextRelay ==
    \/ InLoad \/ InLock \/ InPark \/ InSkip \/ InFwd \/ InMark \/ InClear
    \/ OutLoad \/ OutLock \/ OutPark \/ OutSkip \/ OutFwd \/ OutStoreH \/ OutListen \/ OutTrigger \/ OutMark \/ OutClear
    \/ WkRecvAct \/ WkStoreTC \/ WkSendAct \/ WkRecvCfg \/ WkSendCfg \/ WkErrC \/ WkErrS
    \/ WkFlushLock \/ WkStore \/ WkClear \/ WkUnlock
    \/ AccExit \/ AccErr
    \/ \E p \in Pairs :
          \/ AccAccept(p) \/ HGreet(p) \/ HCas(p) \/ HBind(p) \/ HCloseL(p) \/ HLose(p) \/ WrSEnd(p) \/ WrCEnd(p)
          \/ TILoad(p) \/ TILock(p) \/ TIPark(p) \/ TISkip(p) \/ TIMark(p) \/ TIClear(p) \/ TIFwd(p)
          \/ (nTI[p] = Len(CliTun[p]) /\ TIEof(p)) \/ TIErr(p) \/ TIBreak(p)
          \/ TOLoad(p) \/ TOLock(p) \/ TOPark(p) \/ TOSkip(p) \/ TOMark(p) \/ TOClear(p) \/ TOFwd(p)
          \/ (nTO[p] = Len(SrvTun[p]) /\ TOEof(p)) \/ TOErr(p) \/ TOBreak(p)

NextEnv ==
    \/ (CliReady /\ InRead(CliChunks[nIn + 1]))
    \/ (SrvReady /\ OutRead(SrvChunks[nOut + 1]))
    \/ \E p \in Pairs :
          \/ (Has(cout, T(TRIGT, PairRound[p])) /\ Dial(p)) \/ DialDropped(p)
          \/ (CloseOK(p) /\ CliClose(p)) \/ (CloseOK(p) /\ SrvClose(p))
          \/ (CliTunReady(p) /\ TIRead(p, CliTun[p][nTI[p] + 1]))
          \/ (SrvTunReady(p) /\ TORead(p, SrvTun[p][nTO[p] + 1]))

Next == NextRelay \/ NextEnv
Spec == Init /\ [][Next]_vars /\ WF_vars(Next)

-----------------------------------------------------------------------------
NoDup(s) == \A i, j \in 1..Len(s) : i # j => s[i] # s[j]
SubsequenceOf(a, b) ==
    /\ \A i \in 1..Len(a) : Has(b, a[i])
    /\ \A i, j \in 1..Len(a) : i < j => Idx(b, a[i]) < Idx(b, a[j])
Only(s, S) == SelectSeq(s, LAMBDA x : x \in S)
InbandToks == Set(fedC) \cup Set(fedS)
TunToks == UNION {Set(fedTC[p]) \cup Set(fedTS[p]) : p \in Pairs}

(* every byte written into a tunnel connection arrives at the other tunnel connection at most once and in order ... *)
TunnelOrder ==
    \A p \in Pairs :
        /\ NoDup(tsrv[p]) /\ NoDup(tcli[p])
        /\ SubsequenceOf(Only(tsrv[p], Set(fedTC[p])), fedTC[p])
        /\ SubsequenceOf(Only(tcli[p], Set(fedTS[p])), fedTS[p])
        /\ \A q \in Pairs : q # p => Set(tsrv[p]) \cap (Set(fedTC[q]) \cup Set(fedTS[q])) = {}
                                   /\ Set(tcli[p]) \cap (Set(fedTC[q]) \cup Set(fedTS[q])) = {}
        /\ Set(tsrv[p]) \cap Set(fedTS[p]) = {} /\ Set(tcli[p]) \cap Set(fedTC[p]) = {}
(* ... and never on the in-band side (parked tunnel chunks are flushed to the tunnel) *)
TunnelNotInband == (Set(sin) \cup Set(cout)) \cap TunToks = {}

(* in-band bytes are never mixed into a tunnel stream; the in-band streams stay ordered *)
InbandIgnoredWhileTunnel ==
    /\ \A p \in Pairs : (Set(tsrv[p]) \cup Set(tcli[p])) \cap InbandToks = {}
InbandOrder ==
    /\ NoDup(Only(sin, Set(fedC))) /\ NoDup(Only(cout, Set(fedS)))
    /\ SubsequenceOf(Only(sin, Set(fedC)), fedC) /\ SubsequenceOf(Only(cout, Set(fedS)), fedS)
    /\ Set(sin) \cap Set(fedS) = {} /\ Set(cout) \cap Set(fedC) = {}

AtMostOneTunnelRelay == Cardinality({p \in Pairs : trRelay[p]}) <= 1
BoundIsCurrent == \A p \in Pairs : trRelay[p] => tr = p

Idle == /\ pcI = "read" /\ pcO = "read" /\ WkIdle
        /\ \A p \in Pairs : pcTI[p] \in {"off", "read", "eofwait", "ended", "spin"} /\ pcTO[p] \in {"off", "read", "eofwait", "ended", "spin"}
Fed == /\ nIn = Len(CliChunks) /\ nOut = Len(SrvChunks)
       /\ \A p \in Pairs : hp[p] \in {"closeL", "done"} => nTI[p] = Len(CliTun[p]) /\ nTO[p] = Len(SrvTun[p])
Quiet == Fed /\ Idle /\ \A p \in Pairs : Resolved(p) /\ pcl[p] # "dialed"

TunnelNothingLost ==
    Quiet => /\ \A p \in Pairs : /\ \A x \in Set(fedTC[p]) : x \in junk \/ Has(tsrv[p], x)
                                 /\ \A x \in Set(fedTS[p]) : x \in junk \/ Has(tcli[p], x)
             /\ inQ = <<>> /\ outQ = <<>> /\ inRest = <<>> /\ outRest = <<>>
InbandNothingLost ==
    Quiet => /\ \A x \in Set(fedC) : x \in junk \/ Has(sin, x)
             /\ \A x \in Set(fedS) : x \in junk \/ Has(cout, x)
(* in a tunnel handshake the worker only ever eats in-band junk (JunkBeforeLine), never tunnel payload *)
TunnelNoJunk == \A x \in junk : x \in TunToks => K(x) \in {BADCFG, BADACT}

LoserClosed == Quiet => \A p \in Pairs : (hp[p] = "lost" => rcC[p] /\ rcS[p]) /\ (hp[p] = "refused" => rcC[p])

(* back in standby, nobody in the middle of a reset: no tunnel state is left *)
AtRest == status = "S" /\ NoneClearing /\ WkIdle /\ pcO \notin {"trig", "listen", "trig2"}
ResetClean == AtRest => tr = 0 /\ ~tconn /\ lst = "none" /\ \A p \in Pairs : ~trRelay[p]

ParkOnlyWhileHandshaking == (inQ # <<>> \/ outQ # <<>>) => status = "H"

Progress == <>[]Quiet
(* when an end has closed, the four goroutines of the pair end and the relay closes both connections *)
Ended(p) == pcTI[p] = "ended" /\ pcTO[p] = "ended" /\ rcC[p] /\ rcS[p]
PumpsEnd == \A p \in Pairs : (hp[p] = "done" /\ (pcl[p] = "closed" \/ psv[p] = "closed")) ~> Ended(p)
(* what the code does instead (SpinOnError): a pump ends or spins; a connection whose writer never ends stays open *)
EndedOrSpin(p) == /\ pcTI[p] \in {"ended", "spin"} /\ pcTO[p] \in {"ended", "spin"}
                  /\ (pcTI[p] = "ended" => rcS[p]) /\ (pcTO[p] = "ended" => rcC[p])
PumpsEndOrSpin == \A p \in Pairs : (hp[p] = "done" /\ (pcl[p] = "closed" \/ psv[p] = "closed")) ~> EndedOrSpin(p)
NoSpin == \A p \in Pairs : pcTI[p] # "spin" /\ pcTO[p] # "spin"
=============================================================================
