SPECIFICATION GSpec
CONSTANTS
  OSes = {"linux", "macos", "win"}
  AlphaLinux = {"RA", "RD", "R", "SL", "a", "d", "SP", "SQ", "BS", "PS", "PE", "P2", "CR", "OT"}
  AlphaMac = {"RA", "RD", "R", "SL", "a", "d", "SP", "SQ", "BS", "PS", "PE", "CR", "OT"}
  AlphaWin = {"WC", "MC", "YC", "a", "d", "SP", "DQ", "SQ", "BS", "SL", "CO", "C", "c", "PS", "OT"}
  MaxSyms = 12
  RootLen = 12
  FSNames = {"L1", "W1", "L0", "W0"}
  Quirks = {}
INVARIANTS Export
CHECK_DEADLOCK FALSE
