SPECIFICATION GSpec
CONSTANTS
  GenChunk = "free"
  Modes = {"tmux", "win"}
  ExpType <- MC_ExpType
  LineTypes <- MC_LineTypes
  PayBytes = {97, 98, 49, 61}
  MaxPay = 4
  MaxLines = 2
  MaxNoise = 5
  MaxPend = 9
  TxtSet <- MC_TxtSet
  CsiSet <- MC_CsiSetBig
  PadBytes = {32, 8, 9}
  NlSet <- MC_NlSet
  StSet <- MC_StSetBig
  WithEtx = TRUE
  Quirks = {}
INVARIANTS Export Recovered CtrlCInterrupts Returned
CHECK_DEADLOCK FALSE
