SPECIFICATION TSpec
CONSTANTS
  Modes = {"tmux", "win"}
  ExpType <- MC_ExpType
  LineTypes <- MC_LineTypes
  PayBytes <- MC_Base64
  MaxPay = 1000000
  MaxLines = 1000000
  MaxNoise = 1000000
  MaxPend = 0
  TxtSet = {}
  CsiSet = {}
  PadBytes = {}
  NlSet = {}
  StSet = {}
  WithEtx = TRUE
  Quirks = {}
INVARIANTS TypeOK Returned FlagsReset
CONSTRAINT HW
POSTCONDITION Accepted
CHECK_DEADLOCK FALSE
