SPECIFICATION Spec
CONSTANTS
  Files = {1}
  Texts = {3}
  Classes = {"io", "simple", "stop", "remote"}
  MaxInject = 1
  MaxNoise = 1
  WithBg = TRUE
  WithDead = {}
  AsCoded = FALSE
  Mutant = "nocas"
INVARIANTS TypeOK ToldAtMostOnce ToldUnlessPeerKnows KindMatchesTraceback ShownIsSent OnlyCreated TermResetOnce DrainBounded

CHECK_DEADLOCK FALSE
