--------------------------- MODULE ProgressTrace ---------------------------
(* Trace validation for Progress: consumes the ndjson events recorded by the Go driver c20   *)
(* (harness/c20_progress.go) from calls of the real textProgressBar.  One event per call:    *)
(*   new{cols,pane} | num{n} | name{rs} | size{v} | presize{v} | cols{c} | pause{b}          *)
(*   step{v,dt,lens,fz,out} | done{dt,lens,fz,out}                                            *)
(* The inputs of the event drive the model's own action; `out` is what the real code wrote   *)
(* (parsed from the bytes on its io.Writer) and is judged against the model's outp' and      *)
(* against the C20 conditions themselves (Broken).  A call that does not conform does not block the   *)
(* validation: it is printed as a BAD line (with the line number, the reasons and the model's *)
(* prediction), counted in TLCGet(2), and the validation carries on with the model's state,  *)
(* so that one known deviation does not hide another one.  The trace is accepted when every  *)
(* line was consumed and no BAD line was printed.                                            *)
(*                                                                                           *)
(* Outside the sane range of step/size (outp.cls # "ok": the code has no defined behaviour   *)
(* there, the model clamps) only the C20 conditions are judged - no panic, line fits,        *)
(* percentage within 0..100 and monotone, bar as wide as the room computed for it - not      *)
(* equality with the model's clamped rendering.                                              *)
EXTENDS Progress, Json, IOUtils, TLCExt

TraceLog == ndJsonDeserialize(IOEnv.VERIF_TRACE)

VARIABLES l,        \* next line
          obsPct    \* last percentage the real code showed for this file and size, -1 = none
tvars == <<vars, l, obsPct>>

Ev == TraceLog[l]
More == l <= Len(TraceLog)
IsEvent(e) == More /\ Ev.e = e /\ l' = l + 1

TInit ==
    /\ cols = 0 /\ pane = 0 /\ count = 0 /\ idx = 0 /\ name = <<>>
    /\ pre = Zero /\ size = Zero /\ step = Zero
    /\ first = TRUE /\ hasLast = FALSE /\ pausing = FALSE /\ lastPct = -1 /\ fin = FALSE
    /\ outp = NoOut("init")
    /\ calls = 0
    /\ l = 1 /\ obsPct = -1

Abs(x) == IF x < 0 THEN 0 - x ELSE x

(* fields of the prediction that must be equal to the observation *)
Diff(p, o, fz) ==
    LET pres == IF p.res = "rendered" THEN "rendered" ELSE "silent" IN
    IF o.res = "unknown" THEN {}                      \* child process gave no observation
    ELSE IF pres # o.res THEN {"res"}
    ELSE IF o.res # "rendered" THEN {}
    ELSE {f \in {"nf", "match", "bar", "total", "w", "pl", "pfx", "pn"} : p[f] # o[f]}
         \cup (IF p.match = "ell" /\ o.match = "ell" /\ p.k # o.k THEN {"k"} ELSE {})
         \cup (IF p.pct = o.pct \/ (fz /\ Abs(p.pct - o.pct) <= 1) THEN {} ELSE {"pct"})
         \cup (IF p.full = o.full \/ (fz /\ Abs(p.full - o.full) <= 1) THEN {} ELSE {"full"})

(* the C20 conditions on what the real code did *)
Broken(p, o, c, last) ==
    IF o.res \in {"panic", "crash", "hang"} THEN {"render-" \o o.res}    \* crash / hang: seen in a child process
    ELSE IF o.res # "rendered" THEN {}
    ELSE (IF c >= 5 /\ o.w > c THEN {"fits"} ELSE {})
         \cup (IF o.pct < 0 \/ o.pct > 100 THEN {"pct-range"} ELSE {})
         \cup (IF o.pct < last THEN {"pct-monotone"} ELSE {})
         \cup (IF o.bar /\ p.res = "rendered" /\ p.bar /\ p.nf = o.nf /\ p.match = o.match /\ p.pl = o.pl /\ o.total # p.total
               THEN {"bar-cells"} ELSE {})
         \cup (IF o.match = "none" THEN {"name"} ELSE {})

Judge ==
    LET p == outp'
        o == Ev.out
        broken == Broken(p, o, cols, obsPct)
        diff == IF p.cls \in {"ok", ""} THEN Diff(p, o, Ev.fz) ELSE {}
    IN  /\ obsPct' = (IF lastPct' = -1 THEN -1 ELSE IF o.res = "rendered" THEN o.pct ELSE obsPct)
        /\ IF broken = {} /\ diff = {}
           THEN TLCSet(4, TLCGet(4) \cup {IF p.res = "rendered" THEN <<p.rung, p.nf, p.match, p.bar, p.pfx>>
                                                                   ELSE <<0, 0, p.res, FALSE, "">>})
           ELSE /\ PrintT("BAD " \o ToJson([line |-> l, e |-> Ev.e, broken |-> broken, diff |-> diff,
                                           cls |-> p.cls, cols |-> cols,
                                           pred |-> [res |-> p.res, rung |-> p.rung, nf |-> p.nf, k |-> p.k,
                                                     match |-> p.match, bar |-> p.bar, total |-> p.total,
                                                     full |-> p.full, w |-> p.w, pct |-> p.pct, pl |-> p.pl,
                                                     pfx |-> p.pfx, pn |-> p.pn, prev |-> p.prev]]))
                /\ TLCSet(2, TLCGet(2) + 1)

Plain == obsPct' = (IF lastPct' = -1 THEN -1 ELSE obsPct) /\ UNCHANGED calls

TNew     == IsEvent("new") /\ NewBar(Ev.cols, Ev.pane) /\ Plain
TNum     == IsEvent("num") /\ OnNum(Ev.n) /\ Plain
TName    == IsEvent("name") /\ OnName(Ev.rs) /\ Plain
TSize    == IsEvent("size") /\ OnSize(Ev.v) /\ Plain
TPreSize == IsEvent("presize") /\ SetPreSize(Ev.v) /\ Plain
TCols    == IsEvent("cols") /\ Resize(Ev.c) /\ Plain
TPause   == IsEvent("pause") /\ SetPause(Ev.b) /\ Plain
TStep    == IsEvent("step") /\ OnStep(Ev.v, Ev.dt, Ev.lens) /\ Judge /\ UNCHANGED calls
TDone    == IsEvent("done") /\ OnDone(Ev.dt, Ev.lens) /\ Judge /\ UNCHANGED calls

TNext == TNew \/ TNum \/ TName \/ TSize \/ TPreSize \/ TCols \/ TPause \/ TStep \/ TDone

TSpec == TInit /\ [][TNext]_tvars

(* high-water mark of consumed lines in register 1, number of BAD lines in register 2, the     *)
(* (rung, fields, name, bar, prefix) combinations of conforming drawn updates in register 4    *)
HW == IF l > TLCGet(1) THEN TLCSet(1, l) ELSE TRUE
ASSUME TLCSet(1, 0) /\ TLCSet(2, 0) /\ TLCSet(4, {})
Accepted == /\ PrintT("SIGS " \o ToJson(TLCGet(4)))
            /\ IF TLCGet(1) = Len(TraceLog) + 1 /\ TLCGet(2) = 0 THEN TRUE
               ELSE PrintT("HW " \o ToString(TLCGet(1))) /\ PrintT("NBAD " \o ToString(TLCGet(2))) /\ FALSE
=============================================================================
