--------------------------- MODULE DragScanTrace ---------------------------
(* Trace validation for DragScan: the ndjson events recorded by harness/x02_dragprompt.go   *)
(* (driver x02_scan) from calls of the real detectDragFiles.  One event per call:           *)
(*   scan{os, fs, input[], drag, files[][], hasDir, ignore, isWin, after[]}                  *)
(* The machine of DragScan is loaded with the call's arguments, runs (its steps are silent) *)
(* and must return what the real call returned; `after` is the caller's slice after the call *)
(* (the scanner must not have written to it).  All design invariants are evaluated on the   *)
(* way.                                                                                      *)
EXTENDS DragScan, Json, IOUtils, TLCExt

TraceLog == ndJsonDeserialize(IOEnv.VERIF_TRACE)

VARIABLE l
tvars == <<vars, l>>
Ev == TraceLog[l]
More == l <= Len(TraceLog)

TInit == l = 1 /\ Start(TraceLog[1].os, TraceLog[1].fs, TraceLog[1].input)

TStep == More /\ Step /\ UNCHANGED l

Matches == /\ Ev.drag = res.drag /\ Ev.files = res.files /\ Ev.hasDir = res.hasDir
           /\ Ev.ignore = res.ignore /\ Ev.isWin = res.isWin
           /\ Ev.after = chunk

TReturn == /\ More /\ pc = "done" /\ Matches
           /\ l' = l + 1
           /\ IF l + 1 <= Len(TraceLog)
              THEN Load(TraceLog[l + 1].os, TraceLog[l + 1].fs, TraceLog[l + 1].input)
              ELSE UNCHANGED vars

TNext == TStep \/ TReturn
TSpec == TInit /\ [][TNext]_tvars

HW == IF l > TLCGet(1) THEN TLCSet(1, l) ELSE TRUE
ASSUME TLCSet(1, 0)
Accepted == IF TLCGet(1) = Len(TraceLog) + 1 THEN TRUE
            ELSE PrintT("HW " \o ToString(TLCGet(1))) /\ FALSE
=============================================================================
