SPECIFICATION TSpec
CONSTANTS
  CliChunks <- NoChunks
  SrvChunks <- NoChunks
  Pairs <- TPairs
  PairRound <- NoRound
  CliTun <- NoTun
  SrvTun <- NoTun
  Confirm <- NoConfirm
  ParkRule = "real"
  FlushRoute = "real"
  UseCAS = TRUE
  ClearTC = TRUE
  SpinOnError = TRUE
  SrvErrEOF = TRUE
  Window = TRUE
  LateOK = TRUE
  Closing = TRUE
INVARIANTS TTunnelOrder TTunnelNotInband TInbandIgnoredWhileTunnel TInbandOrder TTunnelNothingLost TInbandNothingLost
  TTunnelNoJunk TLoserClosed TResetClean TAtMostOne TBoundIsCurrent TParkOnly
CONSTRAINT HW
POSTCONDITION Accepted
CHECK_DEADLOCK FALSE
