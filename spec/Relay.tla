------------------------------- MODULE Relay -------------------------------
(* relay.go: the three concurrent activities of a TrzszRelay around one handshake --          *)
(*   In   wrapInput   (client -> server)      Out  wrapOutput (server -> client)               *)
(*   Wk   handshake   (spawned by Out when it sees a trigger)                                  *)
(* with every shared-memory operation as its own action: the atomic status load, the lock,    *)
(* the re-check under the lock, parking into stdinBuffer/stdoutBuffer, the worker's junk-     *)
(* tolerant line reads, the rewritten ACT/CFG, the flush (lock, pop all, status store) and    *)
(* resetToStandby.  Bytes are unique tokens (naturals); ACT, CFG, TRIG, END (negative) are the protocol*)
(* items; a chunk is a sequence of tokens.  The channels to the writer goroutines are FIFO    *)
(* and merged with the writers: appending to sin / cout is delivery.                          *)
(* Named deviation JunkBeforeLine: tokens parked between the moment `handshaking` is stored   *)
(* and the arrival of the ACT (CFG) line are consumed by the worker's junk-tolerant line read *)
(* and are not forwarded; they are recorded in `junk` and excluded from Conservation.          *)
EXTENDS Integers, Sequences, SequencesExt, FiniteSets, TLC

CONSTANTS CliChunks,     \* sequence of chunks the client sends (each a sequence of tokens, one contains ACT)
          SrvChunks,     \* sequence of chunks the server sends (one contains TRIG, one may contain CFG)
          Confirm,       \* the ACT confirms the transfer
          Recheck,       \* TRUE: status is re-read under the lock before parking (the real code)
          FlushFirst     \* TRUE: the worker stores the new status after draining the queues (the real code)

(* protocol items of round 1; round 2 (a second transfer through the same relay) uses x - 10 *)
ACT == -1
CFG == -2
TRIG == -3
END == -4
FAIL == -5        \* the FAIL line the relay itself writes to both sides when a handshake fails
BADACT == -6      \* an ACT line that cannot be decoded
BADCFG == -7      \* a CFG line that cannot be decoded
K(x) == IF x <= -11 THEN x + 10 ELSE x          \* kind of a protocol item, whatever its round
R(x) == IF x <= -11 THEN 2 ELSE 1               \* its round
T(k, r) == k - 10 * (r - 1)

VARIABLES status, lock, inQ, outQ, inRest, outRest, sin, cout, junk,
          fedC, fedS,          \* everything fed so far (history)
          nIn, nOut,           \* chunks fed so far
          pcI, bufI, stI,      \* In: pc, chunk in hand, status it loaded
          pcO, bufO, stO,      \* Out
          pcW,                 \* worker
          wtok, werr,          \* worker: the line it has just read, whether the handshake failed
          confirm              \* the ACT of this handshake confirms the transfer

vars == <<status, lock, inQ, outQ, inRest, outRest, sin, cout, junk, fedC, fedS, nIn, nOut, pcI, bufI, stI,
          pcO, bufO, stO, pcW, wtok, werr, confirm>>

HasK(s, ks) == \E i \in 1..Len(s) : K(s[i]) \in ks
IdxK(s, ks) == CHOOSE i \in 1..Len(s) : K(s[i]) \in ks /\ \A j \in 1..(i - 1) : K(s[j]) \notin ks
Has(s, x) == \E i \in 1..Len(s) : s[i] = x
Idx(s, x) == CHOOSE i \in 1..Len(s) : s[i] = x
Flat(ss) == FoldLeft(LAMBDA a, c : a \o c, <<>>, ss)

Init ==
    /\ status = "S" /\ lock = "free" /\ inQ = <<>> /\ outQ = <<>> /\ inRest = <<>> /\ outRest = <<>>
    /\ sin = <<>> /\ cout = <<>> /\ junk = {} /\ fedC = <<>> /\ fedS = <<>> /\ nIn = 0 /\ nOut = 0
    /\ pcI = "read" /\ bufI = <<>> /\ stI = "S" /\ pcO = "read" /\ bufO = <<>> /\ stO = "S" /\ pcW = "off" /\ wtok = 0 /\ werr = FALSE
    /\ confirm = Confirm

(* ---- In: wrapInput ---- *)
InRead(c) ==   \* clientIn.Read returns a chunk
    /\ pcI = "read"
    /\ bufI' = c /\ nIn' = nIn + 1 /\ fedC' = fedC \o c /\ pcI' = "load"
    /\ UNCHANGED <<status, lock, inQ, outQ, inRest, outRest, sin, cout, junk, fedS, nOut, stI, pcO, bufO, stO, pcW, wtok, werr, confirm>>

InLoad ==      \* status := relayStatus.Load()
    /\ pcI = "load"
    /\ stI' = status /\ pcI' = IF status = "H" THEN "lock" ELSE "fwd"
    /\ UNCHANGED <<status, lock, inQ, outQ, inRest, outRest, sin, cout, junk, fedC, fedS, nIn, nOut, bufI, pcO, bufO, stO, pcW, wtok, werr, confirm>>

(* addHandshakeBuffer is one critical section, but the status it re-reads can be changed by a    *)
(* lock-free CAS (resetToStandby of the other direction) right after the read: the read is the  *)
(* linearisation point, so Lock + re-load and park-or-give-up + Unlock are two actions.         *)
InLock ==      \* addHandshakeBuffer: Lock; status := relayStatus.Load()
    /\ pcI = "lock" /\ lock = "free"
    /\ lock' = "In" /\ stI' = (IF Recheck THEN status ELSE stI) /\ pcI' = "park"
    /\ UNCHANGED <<status, inQ, outQ, inRest, outRest, sin, cout, junk, fedC, fedS, nIn, nOut, bufI, pcO, bufO, stO, pcW, wtok, werr, confirm>>

InPark ==      \* ... park (still handshaking) or give up; Unlock
    /\ pcI = "park" /\ lock = "In"
    /\ lock' = "free"
    /\ IF stI = "H"
       THEN /\ inQ' = Append(inQ, bufI) /\ bufI' = <<>> /\ pcI' = "read"
       ELSE /\ pcI' = "fwd" /\ UNCHANGED <<inQ, bufI>>
    /\ UNCHANGED <<status, outQ, inRest, outRest, sin, cout, junk, fedC, fedS, nIn, nOut, stI, pcO, bufO, stO, pcW, wtok, werr, confirm>>

InFwd ==       \* osStdinChan <- buf
    /\ pcI = "fwd"
    /\ sin' = sin \o bufI /\ bufI' = <<>>
    /\ pcI' = IF stI = "T" /\ HasK(bufI, {END}) THEN "mark" ELSE "read"
    /\ UNCHANGED <<status, lock, inQ, outQ, inRest, outRest, cout, junk, fedC, fedS, nIn, nOut, stI, pcO, bufO, stO, pcW, wtok, werr, confirm>>

InMark ==      \* end marker seen while the loaded status was transferring: resetToStandby (a CAS)
    /\ pcI = "mark"
    /\ status' = (IF status = "T" THEN "S" ELSE status) /\ pcI' = "read"
    /\ UNCHANGED <<lock, inQ, outQ, inRest, outRest, sin, cout, junk, fedC, fedS, nIn, nOut, bufI, stI, pcO, bufO, stO, pcW, wtok, werr, confirm>>

(* ---- Out: wrapOutput ---- *)
OutRead(c) ==
    /\ pcO = "read"
    /\ bufO' = c /\ nOut' = nOut + 1 /\ fedS' = fedS \o c /\ pcO' = "load"
    /\ UNCHANGED <<status, lock, inQ, outQ, inRest, outRest, sin, cout, junk, fedC, nIn, pcI, bufI, stI, stO, pcW, wtok, werr, confirm>>

OutLoad ==
    /\ pcO = "load"
    /\ stO' = status /\ pcO' = IF status = "H" THEN "lock" ELSE "fwd"
    /\ UNCHANGED <<status, lock, inQ, outQ, inRest, outRest, sin, cout, junk, fedC, fedS, nIn, nOut, pcI, bufI, stI, bufO, pcW, wtok, werr, confirm>>

OutLock ==
    /\ pcO = "lock" /\ lock = "free"
    /\ lock' = "Out" /\ stO' = (IF Recheck THEN status ELSE stO) /\ pcO' = "park"
    /\ UNCHANGED <<status, inQ, outQ, inRest, outRest, sin, cout, junk, fedC, fedS, nIn, nOut, pcI, bufI, stI, bufO, pcW, wtok, werr, confirm>>

OutPark ==
    /\ pcO = "park" /\ lock = "Out"
    /\ lock' = "free"
    /\ IF stO = "H"
       THEN /\ outQ' = Append(outQ, bufO) /\ bufO' = <<>> /\ pcO' = "read"
       ELSE /\ pcO' = "fwd" /\ UNCHANGED <<outQ, bufO>>
    /\ UNCHANGED <<status, inQ, inRest, outRest, sin, cout, junk, fedC, fedS, nIn, nOut, pcI, bufI, stI, stO, pcW, wtok, werr, confirm>>

OutFwd ==      \* transferring: bypass (+ end markers); otherwise run the detector: a trigger goes to OutTrigger
    /\ pcO = "fwd"
    /\ IF stO # "T" /\ HasK(bufO, {TRIG})
       THEN pcO' = "trig" /\ UNCHANGED <<cout, bufO>>
       ELSE /\ cout' = cout \o bufO /\ bufO' = <<>>
            /\ pcO' = IF stO = "T" /\ HasK(bufO, {END}) THEN "mark" ELSE "read"
    /\ UNCHANGED <<status, lock, inQ, outQ, inRest, outRest, sin, junk, fedC, fedS, nIn, nOut, pcI, bufI, stI, stO, pcW, wtok, werr, confirm>>

OutStoreH ==   \* relayStatus.Store(handshaking)  ("store status before send to client")
    /\ pcO = "trig"
    /\ status' = "H" /\ pcO' = "trig2"
    /\ UNCHANGED <<lock, inQ, outQ, inRest, outRest, sin, cout, junk, fedC, fedS, nIn, nOut, pcI, bufI, stI, bufO, stO, pcW, wtok, werr, confirm>>

OutTrigger ==  \* go handshake(); the trigger chunk is sent on to the client
    /\ pcO = "trig2" /\ pcW \in {"off", "done"}
    /\ pcW' = "recvAct" /\ werr' = FALSE /\ wtok' = 0
    /\ cout' = cout \o bufO /\ bufO' = <<>> /\ pcO' = "read"
    /\ UNCHANGED <<status, lock, inQ, outQ, inRest, outRest, sin, junk, fedC, fedS, nIn, nOut, pcI, bufI, stI, stO, confirm>>

OutMark ==
    /\ pcO = "mark"
    /\ status' = (IF status = "T" THEN "S" ELSE status) /\ pcO' = "read"
    /\ UNCHANGED <<lock, inQ, outQ, inRest, outRest, sin, cout, junk, fedC, fedS, nIn, nOut, pcI, bufI, stI, bufO, stO, pcW, wtok, werr, confirm>>

(* ---- Wk: handshake ---- *)
(* recvAction: readLine(mayHasJunk) on stdinBuffer: chunks are consumed until the ACT line;     *)
(* everything in front of it is junk; the rest of its chunk stays as the partially read chunk  *)
WkRecvAct ==
    /\ pcW = "recvAct" /\ inQ # <<>>
    /\ LET c == Head(inQ) IN
       IF HasK(c, {ACT, BADACT})
       THEN LET i == IdxK(c, {ACT, BADACT}) IN
            /\ inRest' = SubSeq(c, i + 1, Len(c)) /\ wtok' = c[i]
            /\ IF K(c[i]) = ACT THEN pcW' = "sendAct" /\ werr' = werr /\ junk' = junk \cup {c[j] : j \in 1..(i - 1)}
                               ELSE pcW' = "errC" /\ werr' = TRUE /\ junk' = junk \cup {c[j] : j \in 1..i}
       ELSE /\ junk' = junk \cup {c[i] : i \in 1..Len(c)} /\ inRest' = inRest /\ pcW' = pcW /\ UNCHANGED <<wtok, werr>>
    /\ inQ' = Tail(inQ)
    /\ UNCHANGED <<status, lock, outQ, outRest, sin, cout, fedC, fedS, nIn, nOut, pcI, bufI, stI, pcO, bufO, stO, confirm>>

WkSendAct ==    \* the narrowed ACT goes to the server
    /\ pcW = "sendAct"
    /\ sin' = Append(sin, wtok)
    /\ pcW' = IF confirm THEN "recvCfg" ELSE "flush"
    /\ UNCHANGED <<status, lock, inQ, outQ, inRest, outRest, cout, junk, fedC, fedS, nIn, nOut, pcI, bufI, stI, pcO, bufO, stO, wtok, werr, confirm>>

WkRecvCfg ==
    /\ pcW = "recvCfg" /\ outQ # <<>>
    /\ LET c == Head(outQ) IN
       IF HasK(c, {CFG, BADCFG})
       THEN LET i == IdxK(c, {CFG, BADCFG}) IN
            /\ outRest' = SubSeq(c, i + 1, Len(c)) /\ wtok' = c[i]
            /\ IF K(c[i]) = CFG THEN pcW' = "sendCfg" /\ werr' = werr /\ junk' = junk \cup {c[j] : j \in 1..(i - 1)}
                               ELSE pcW' = "errC" /\ werr' = TRUE /\ junk' = junk \cup {c[j] : j \in 1..i}
       ELSE /\ junk' = junk \cup {c[i] : i \in 1..Len(c)} /\ outRest' = outRest /\ pcW' = pcW /\ UNCHANGED <<wtok, werr>>
    /\ outQ' = Tail(outQ)
    /\ UNCHANGED <<status, lock, inQ, inRest, sin, cout, fedC, fedS, nIn, nOut, pcI, bufI, stI, pcO, bufO, stO, confirm>>

WkSendCfg ==
    /\ pcW = "sendCfg"
    /\ cout' = Append(cout, wtok) /\ pcW' = "flush"
    /\ UNCHANGED <<status, lock, inQ, outQ, inRest, outRest, sin, junk, fedC, fedS, nIn, nOut, pcI, bufI, stI, pcO, bufO, stO, wtok, werr, confirm>>

(* sendError: a FAIL line to the client, then one to the server; then the flush of a failed handshake *)
WkErrC ==
    /\ pcW = "errC"
    /\ cout' = Append(cout, FAIL) /\ pcW' = "errS"
    /\ UNCHANGED <<status, lock, inQ, outQ, inRest, outRest, sin, junk, fedC, fedS, nIn, nOut, pcI, bufI, stI, pcO, bufO, stO, wtok, werr, confirm>>
WkErrS ==
    /\ pcW = "errS"
    /\ sin' = Append(sin, FAIL) /\ pcW' = "flush"
    /\ UNCHANGED <<status, lock, inQ, outQ, inRest, outRest, cout, junk, fedC, fedS, nIn, nOut, pcI, bufI, stI, pcO, bufO, stO, wtok, werr, confirm>>

(* flushHandshakeBuffer: Lock; pop everything (the partially read chunk first) to the writers;  *)
(* store the new status; Unlock.                                                              *)
WkFlushLock ==
    /\ pcW = "flush" /\ lock = "free"
    /\ lock' = "Wk"
    /\ IF FlushFirst
       THEN /\ sin' = sin \o inRest \o Flat(inQ) /\ cout' = cout \o outRest \o Flat(outQ)
            /\ inQ' = <<>> /\ outQ' = <<>> /\ inRest' = <<>> /\ outRest' = <<>>
       ELSE UNCHANGED <<sin, cout, inQ, outQ, inRest, outRest>>
    /\ pcW' = "store"
    /\ UNCHANGED <<status, junk, fedC, fedS, nIn, nOut, pcI, bufI, stI, pcO, bufO, stO, wtok, werr, confirm>>

WkStore ==      \* relayStatus.Store(transferring) / resetToStandby(handshaking)
    /\ pcW = "store"
    /\ status' = (IF confirm /\ ~werr THEN "T" ELSE "S")
    /\ pcW' = IF FlushFirst THEN "unlock" ELSE "flush2"
    /\ UNCHANGED <<lock, inQ, outQ, inRest, outRest, sin, cout, junk, fedC, fedS, nIn, nOut, pcI, bufI, stI, pcO, bufO, stO, wtok, werr, confirm>>

WkFlush2 ==     \* variant FlushFirst = FALSE: the queues are drained after the status was stored and the lock released
    /\ pcW = "flush2"
    /\ lock' = "free"
    /\ pcW' = "flush3"
    /\ UNCHANGED <<status, inQ, outQ, inRest, outRest, sin, cout, junk, fedC, fedS, nIn, nOut, pcI, bufI, stI, pcO, bufO, stO, wtok, werr, confirm>>

WkFlush3 ==
    /\ pcW = "flush3" /\ lock = "free"
    /\ sin' = sin \o inRest \o Flat(inQ) /\ cout' = cout \o outRest \o Flat(outQ)
    /\ inQ' = <<>> /\ outQ' = <<>> /\ inRest' = <<>> /\ outRest' = <<>> /\ pcW' = "done"
    /\ UNCHANGED <<status, lock, junk, fedC, fedS, nIn, nOut, pcI, bufI, stI, pcO, bufO, stO, wtok, werr, confirm>>

WkUnlock ==
    /\ pcW = "unlock"
    /\ lock' = "free" /\ pcW' = "done"
    /\ UNCHANGED <<status, inQ, outQ, inRest, outRest, sin, cout, junk, fedC, fedS, nIn, nOut, pcI, bufI, stI, pcO, bufO, stO, wtok, werr, confirm>>

(* ---- environment: the next chunk arrives (causality: ACT only after the trigger was shown to   *)
(*      the client, CFG only after the rewritten ACT reached the server) ---- *)
Needs(c, ks, where, k) ==      \* every item of kind ks in chunk c has its cause of kind k (same round) in `where`
    \A i \in 1..Len(c) : K(c[i]) \in ks => Has(where, T(k, R(c[i])))
CliReady == /\ nIn < Len(CliChunks)
            /\ Needs(CliChunks[nIn + 1], {ACT, BADACT}, cout, TRIG)
            /\ Needs(CliChunks[nIn + 1], {END}, cout, CFG)
            \* (the client ends a transfer only after replies of the server, which flow only once the flush is done)
            /\ (HasK(CliChunks[nIn + 1], {END}) => pcW = "done")
SrvReady == /\ nOut < Len(SrvChunks)
            /\ Needs(SrvChunks[nOut + 1], {CFG, BADCFG}, sin, ACT)
            /\ \A i \in 1..Len(SrvChunks[nOut + 1]) :      \* a second trigger only after the first transfer ended
                  (K(SrvChunks[nOut + 1][i]) = TRIG /\ R(SrvChunks[nOut + 1][i]) = 2) => status = "S" /\ pcW \in {"off", "done"} /\ nIn > 0

Next == (CliReady /\ InRead(CliChunks[nIn + 1])) \/ InLoad \/ InLock \/ InPark \/ InFwd \/ InMark
        \/ (SrvReady /\ OutRead(SrvChunks[nOut + 1])) \/ OutLoad \/ OutLock \/ OutPark \/ OutFwd \/ OutStoreH \/ OutTrigger \/ OutMark
        \/ WkRecvAct \/ WkSendAct \/ WkRecvCfg \/ WkSendCfg \/ WkErrC \/ WkErrS
        \/ WkFlushLock \/ WkStore \/ WkUnlock \/ WkFlush2 \/ WkFlush3

Spec == Init /\ [][Next]_vars /\ WF_vars(Next)

-----------------------------------------------------------------------------
FedC == fedC
FedS == fedS
NoDup(s) == \A i, j \in 1..Len(s) : i # j => s[i] # s[j]
SubsequenceOf(a, b) ==      \* a is b with some elements left out (unique tokens)
    /\ \A i \in 1..Len(a) : Has(b, a[i])
    /\ \A i, j \in 1..Len(a) : i < j => Idx(b, a[i]) < Idx(b, a[j])

(* C13: nothing is duplicated, reordered or delivered to the wrong side *)
NoGen(s) == SelectSeq(s, LAMBDA x : x # FAIL)          \* without what the relay itself generated
Order ==
    /\ NoDup(NoGen(sin)) /\ NoDup(NoGen(cout))
    /\ SubsequenceOf(NoGen(sin), FedC) /\ SubsequenceOf(NoGen(cout), FedS)

(* C13: nothing is lost: when everything has been fed and every activity is idle, every token *)
(* except the recorded junk has been delivered                                                *)
Idle == pcI = "read" /\ pcO = "read" /\ pcW \in {"off", "done"}
Quiet == nIn = Len(CliChunks) /\ nOut = Len(SrvChunks) /\ pcI = "read" /\ pcO = "read" /\ pcW \in {"off", "done"}
NothingLost ==
    Quiet => /\ \A i \in 1..Len(FedC) : FedC[i] \in junk \/ Has(sin, FedC[i])
             /\ \A i \in 1..Len(FedS) : FedS[i] \in junk \/ Has(cout, FedS[i])
             /\ inQ = <<>> /\ outQ = <<>> /\ inRest = <<>> /\ outRest = <<>>

(* a chunk sits in a handshake queue only while the status is handshaking *)
ParkOnlyWhileHandshaking == (inQ # <<>> \/ outQ # <<>>) => (status = "H" \/ pcW \in {"flush2", "flush3"})

(* junk is only what arrived while handshaking and in front of the line *)
JunkIsBeforeLine ==
    \A x \in junk : x \in Nat \/ K(x) \in {BADACT, BADCFG}

Progress == <>[]Quiet
=============================================================================
