SPECIFICATION Spec
CONSTANTS
  Blocks = 3
  Cap = 1
  Faults = {"silent", "writeerr", "dsterr", "decerr"}
INVARIANTS TypeOK OkMeansComplete CleanOk
PROPERTIES Termination
CHECK_DEADLOCK FALSE
