------------------------------ MODULE NoiseGen ------------------------------
(* Test-case generator for Noise (model-based testing, spec -> implementation).  History     *)
(* variables record the items produced, the chunks delivered and what the model's reader     *)
(* returned; a finished behaviour is printed as one JSON line for harness/c16_noise.go.      *)
(* GenChunk = "whole": the stream is delivered as one chunk (the harness applies every       *)
(* chunking itself); "free": chunks as chosen by the behaviour (used with -simulate).        *)
EXTENDS Noise, Json, TLCExt

CONSTANT GenChunk

VARIABLES hItems, hBytes, hChunks, hWant, hOut, done
hvars == <<hItems, hBytes, hChunks, hWant, hOut, done>>
gallvars == <<vars, hvars>>

GInit == Init /\ hItems = <<>> /\ hBytes = <<>> /\ hChunks = <<>> /\ hWant = <<>> /\ hOut = <<>> /\ done = FALSE

StreamOver == ph \in {"done", "dead"}
Finished == /\ StreamOver /\ pend = <<>>
            /\ \/ pc = "dead" \/ Blocked \/ (pc = "idle" /\ nout >= MaxLines)

GProduce(it, nt) ==
    /\ Produce(it, nt)
    /\ hItems' = Append(hItems, it) /\ hBytes' = hBytes \o Render(it, mode)
    /\ hWant' = IF it.k \in {"term", "etx"}
                THEN Append(hWant, [res |-> IF it.k = "etx" THEN "int" ELSE "ok", line |-> CurLine,
                                    typ |-> ltyp])
                ELSE hWant
    /\ UNCHANGED <<hChunks, hOut, done>>

GDeliver(n) ==
    /\ Deliver(n) /\ hChunks' = Append(hChunks, n)
    /\ UNCHANGED <<hItems, hBytes, hWant, hOut, done>>

GReader ==
    /\ ReaderStep
    /\ hOut' = IF nout' > nout THEN Append(hOut, lastOut') ELSE hOut
    /\ UNCHANGED <<hItems, hBytes, hChunks, hWant, done>>

GNext ==
    /\ ~done
    /\ \/ GReader
       \/ /\ Blocked /\ ~StreamOver /\ (GenChunk = "free" => Len(pend) < MaxPend)
          /\ \E it \in Universe :
               IF it.k = "term" /\ ln < MaxLines THEN \E nt \in LineTypes : GProduce(it, nt) ELSE GProduce(it, ExpType)
       \/ /\ Blocked /\ pend # <<>>
          /\ IF GenChunk = "whole" THEN StreamOver /\ GDeliver(Len(pend))
                                   ELSE \E n \in 1..Len(pend) : GDeliver(n)
       \/ /\ Finished /\ done' = TRUE
          /\ hOut' = IF Blocked /\ nout < Len(hWant) THEN Append(hOut, [res |-> "blocked", line |-> <<>>]) ELSE hOut
          /\ UNCHANGED <<vars, hItems, hBytes, hChunks, hWant>>

GSpec == GInit /\ [][GNext]_gallvars

Export == done => PrintT("MBT " \o ToJson([mode |-> mode, etyp |-> etyp, items |-> hItems, bytes |-> hBytes,
                                            chunks |-> hChunks, want |-> hWant, out |-> hOut]))
=============================================================================
