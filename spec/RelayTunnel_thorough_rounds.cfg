SPECIFICATION Spec
CONSTANTS
  CliChunks <- Cli3b
  SrvChunks <- Srv3b
  Pairs <- P2
  PairRound <- R3
  CliTun <- CT3b
  SrvTun <- ST3b
  Confirm <- Yes3
  ParkRule = "real"
  FlushRoute = "real"
  UseCAS = TRUE
  ClearTC = TRUE
  SpinOnError = TRUE
  SrvErrEOF = FALSE
  Window = FALSE
  LateOK = FALSE
  Closing = FALSE
INVARIANTS TunnelOrder TunnelNotInband InbandIgnoredWhileTunnel InbandOrder AtMostOneTunnelRelay BoundIsCurrent
  TunnelNothingLost InbandNothingLost TunnelNoJunk LoserClosed ResetClean ParkOnlyWhileHandshaking
PROPERTIES Progress
CHECK_DEADLOCK FALSE
