SPECIFICATION GSpec
CONSTANTS
  Alphabet = {97, 10, 13}
  MaxLen = 3
  MaxChunk = 2
  MaxOps = 2
  BinSizes = {1}
  WithStop = FALSE
  WithTimer = FALSE
INVARIANTS Export SegIndep NoWait
CHECK_DEADLOCK FALSE
