SPECIFICATION Spec
CONSTANTS
  CliChunks <- Cli1
  SrvChunks <- Srv1
  Confirm = TRUE
  Recheck = TRUE
  FlushFirst = FALSE
INVARIANTS Order NothingLost
PROPERTIES Progress
CHECK_DEADLOCK FALSE
