SPECIFICATION Spec
CONSTANTS
  CliChunks <- CliBadAct
  SrvChunks <- SrvForBad
  Confirm = TRUE
  Recheck = TRUE
  FlushFirst = TRUE
INVARIANTS Order NothingLost ParkOnlyWhileHandshaking JunkIsBeforeLine
PROPERTIES Progress
CHECK_DEADLOCK FALSE
