---------------------------- MODULE RelayTunnelMC ----------------------------
EXTENDS RelayTunnel
P1 == {1}
P2 == {1, 2}
R1 == [p \in P2 |-> 1]
\* one tunnel transfer: in-band noise on both sides, data around ACT / CFG / END in the tunnel
SrvT1 == << <<TRIGT>>, <<21>> >>
CliT1 == << <<11>> >>
CT1 == [p \in P2 |-> << <<ACTT, 1>>, <<3, END>> >>]
CT1b == [p \in P2 |-> << <<ACTT, 1>>, <<2>>, <<3, END>> >>]
ST1 == [p \in P2 |-> << <<CFG, 5>>, <<6>> >>]
Yes1 == <<TRUE>>
No1 == <<FALSE>>
\* minimal tunnel traffic (for the two-pair and closing configurations)
CTmin == [p \in P2 |-> << <<ACTT>>, <<3, END>> >>]
STmin == [p \in P2 |-> << <<CFG>>, <<6>> >>]
SrvTonly == << <<TRIGT>> >>
NoCli == <<>>
\* refused transfer
CTref == [p \in P2 |-> << <<ACTT, 1>>, <<2>> >>]
STref == [p \in P2 |-> << <<6>> >>]
\* the server ends the transfer (fail line through the tunnel); undecodable CFG
STend == [p \in P2 |-> << <<CFG, 5>>, <<6, END>> >>]
CTnoend == [p \in P2 |-> << <<ACTT, 1>>, <<2>> >>]
STbad == [p \in P2 |-> << <<BADCFG, 6>> >>]
\* tunnel, then in-band, then tunnel through the same relay
R3 == [p \in P2 |-> IF p = 1 THEN 1 ELSE 3]
Srv3 == << <<TRIGT>>, <<-13>>, <<-12>>, <<-28>> >>
Cli3 == << <<11>>, <<-11>>, <<12, -14>>, <<13>> >>
CT3 == [p \in P2 |-> IF p = 1 THEN << <<ACTT>>, <<3>> >> ELSE << <<-29, 4>> >>]
ST3 == [p \in P2 |-> IF p = 1 THEN << <<CFG, 6>>, <<END>> >> ELSE << <<7>> >>]
Yes3 == <<TRUE, TRUE, TRUE>>
YYN == <<TRUE, TRUE, FALSE>>
\* a trigger with a port, nobody dials, the transfer runs in-band and the server ends it
R9 == [p \in P2 |-> 9]
SrvFb == << <<TRIGT>>, <<CFG, 21>>, <<22, END>> >>
CliFb == << <<ACT, 11>>, <<12>> >>
\* thorough: more data and noise
CliT2 == << <<11>>, <<12>> >>
SrvT2 == << <<20, TRIGT>>, <<21>>, <<22>> >>
CT2 == [p \in P2 |-> << <<ACTT, 1>>, <<2>>, <<3>>, <<4, END>>, <<7>> >>]
ST2 == [p \in P2 |-> << <<CFG, 5>>, <<6>>, <<8>> >>]
CTcas == [p \in P2 |-> << <<ACTT, 1>>, <<3, END>> >>]
STcas == [p \in P2 |-> << <<CFG, 5>>, <<6>> >>]
Srv3b == << <<TRIGT>>, <<21>>, <<-13>>, <<-12, 22>>, <<-28>>, <<23>> >>
Cli3b == << <<11>>, <<-11, 14>>, <<12, -14>>, <<13>> >>
CT3b == [p \in P2 |-> IF p = 1 THEN << <<ACTT, 1>>, <<3, END>> >> ELSE << <<-29>>, <<4>>, <<-24>> >>]
ST3b == [p \in P2 |-> IF p = 1 THEN << <<CFG, 6>>, <<8>> >> ELSE << <<-22, 7>>, <<9>> >>]
=============================================================================
