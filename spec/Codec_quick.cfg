SPECIFICATION Spec
CONSTANTS
  TableUniverse = {238, 126, 49, 120}
  WithBuiltin = TRUE
  Bytes = {238, 126, 49, 120}
  MaxLen = 3
  MaxSeg = 2
  Caps = {1, 2, 3}
  MaxRaw = 3
INVARIANTS TypeOK NoProtectedByte WireIsEscape CursorOK RoundTrip CapRespected CarryIsLoneLeader UnknownCodeRejected
CHECK_DEADLOCK FALSE
