SPECIFICATION RSpec
CONSTANTS
  MaxMem = 100
  PruneN = 50
  MaxChunks = 6
  MaxToks = 4
  Roles = {"client", "relay", "relaytmux"}
  WinVals = {TRUE, FALSE}
  Modes = {"S", "R", "D"}
  Vers = {"zero", "p2", "new", "max"}
  Ports <- PortsAll
  Shapes = {"none", "short", "s00", "s10", "s20", "d15", "p11"}
  TsSet = {1, 2, 3}
  PartKinds = {"inmarker", "marker", "mode", "ver2", "badmode", "gover", "lower"}
  Markers = {"Saved", "Cancelled", "Stopped", "Interrupted", "CFG"}
  Places = {"near", "far"}
  CtlKinds = {"none", "none", "out", "ext", "fake"}
  WithJunk = TRUE
INVARIANTS Export
CHECK_DEADLOCK FALSE
