---------------------------- MODULE ProgressNum ----------------------------
(* Signed multi-limb integers for Progress.tla.  TLC's integers are 32 bit, textProgressBar  *)
(* works on int64 (sizes and steps up to 2^62 are part of the property's quantifier), so a   *)
(* number is [s |-> sign in {-1,0,1}, m |-> <<l1..l5>>], little endian limbs of 15 bits      *)
(* (75 bits; every product below has a multiplier < 2^15, so no 32-bit overflow in TLC).     *)
(* The Go driver logs numbers in the same shape ({"s":1,"m":[..]}).                          *)
EXTENDS Integers, Sequences

B == 32768
Mag0 == <<0, 0, 0, 0, 0>>
Zero == [s |-> 0, m |-> Mag0]

MagCmp(a, b) ==
    IF a[5] # b[5] THEN (IF a[5] > b[5] THEN 1 ELSE -1)
    ELSE IF a[4] # b[4] THEN (IF a[4] > b[4] THEN 1 ELSE -1)
    ELSE IF a[3] # b[3] THEN (IF a[3] > b[3] THEN 1 ELSE -1)
    ELSE IF a[2] # b[2] THEN (IF a[2] > b[2] THEN 1 ELSE -1)
    ELSE IF a[1] # b[1] THEN (IF a[1] > b[1] THEN 1 ELSE -1)
    ELSE 0

MagAdd(a, b) ==
    LET s1 == a[1] + b[1]
        s2 == a[2] + b[2] + (s1 \div B)
        s3 == a[3] + b[3] + (s2 \div B)
        s4 == a[4] + b[4] + (s3 \div B)
        s5 == a[5] + b[5] + (s4 \div B)
    IN  <<s1 % B, s2 % B, s3 % B, s4 % B, s5>>

(* a >= b *)
MagSub(a, b) ==
    LET d1 == a[1] - b[1]
        r1 == IF d1 < 0 THEN 1 ELSE 0
        d2 == a[2] - b[2] - r1
        r2 == IF d2 < 0 THEN 1 ELSE 0
        d3 == a[3] - b[3] - r2
        r3 == IF d3 < 0 THEN 1 ELSE 0
        d4 == a[4] - b[4] - r3
        r4 == IF d4 < 0 THEN 1 ELSE 0
        d5 == a[5] - b[5] - r4
    IN  <<d1 + r1 * B, d2 + r2 * B, d3 + r3 * B, d4 + r4 * B, d5>>

(* 0 <= k < 2^15 *)
MagMul(a, k) ==
    LET p1 == a[1] * k
        p2 == a[2] * k + (p1 \div B)
        p3 == a[3] * k + (p2 \div B)
        p4 == a[4] * k + (p3 \div B)
        p5 == a[5] * k + (p4 \div B)
    IN  <<p1 % B, p2 % B, p3 % B, p4 % B, p5>>

Add(x, y) ==
    IF x.s = 0 THEN y
    ELSE IF y.s = 0 THEN x
    ELSE IF x.s = y.s THEN [s |-> x.s, m |-> MagAdd(x.m, y.m)]
    ELSE LET c == MagCmp(x.m, y.m) IN
         IF c = 0 THEN Zero
         ELSE IF c > 0 THEN [s |-> x.s, m |-> MagSub(x.m, y.m)]
         ELSE [s |-> y.s, m |-> MagSub(y.m, x.m)]

Cmp(x, y) ==
    IF x.s # y.s THEN (IF x.s > y.s THEN 1 ELSE -1)
    ELSE IF x.s = 0 THEN 0
    ELSE x.s * MagCmp(x.m, y.m)

(* |n| < 2^30 *)
FromInt(n) ==
    IF n = 0 THEN Zero
    ELSE LET a == IF n < 0 THEN 0 - n ELSE n IN
         [s |-> IF n < 0 THEN -1 ELSE 1, m |-> <<a % B, (a \div B) % B, a \div (B * B), 0, 0>>]

Pow62 == [s |-> 1, m |-> <<0, 0, 0, 0, 4>>]          \* 2^62 = 4 * 2^60

(* round-half-up of k*x/z for magnitudes 0 < x < z and 0 <= k < 2^14: the largest r with     *)
(* (2r-1) z <= 2k x   (binary search, r in 0..k)                                             *)
RECURSIVE Bsearch(_, _, _, _)
Bsearch(lo, hi, z, tx) ==
    IF lo >= hi THEN lo
    ELSE LET mid == (lo + hi + 1) \div 2 IN
         IF MagCmp(MagMul(z, 2 * mid - 1), tx) <= 0 THEN Bsearch(mid, hi, z, tx)
         ELSE Bsearch(lo, mid - 1, z, tx)

RoundRatio(k, x, z) == Bsearch(0, k, z, MagMul(x, 2 * k))

(* The share k*st/sz rounded to an integer, with the ratio clamped to 0..1; a zero size      *)
(* counts as complete (as showProgress / getProgressBar do for fileSize = 0).                *)
Share(k, st, sz) ==
    IF sz.s = 0 THEN k
    ELSE IF st.s * sz.s <= 0 THEN 0
    ELSE IF MagCmp(st.m, sz.m) >= 0 THEN k
    ELSE RoundRatio(k, st.m, sz.m)
=============================================================================
