\* protocol 1 loop up to 1G (20 doublings), two files, both modes
SPECIFICATION Spec
CONSTANTS
  Floor = 1024
  P1Start = 1024
  InitSize = 10240
  HardCap = 1073741824
  BoundFloor = 1048576
  SendCap = 1
  AckCap = 1
  MaxBufs = {1024, 4096, 1073741824}
  Modes = {"bin", "b64"}
  Protos = {1}
  Secs = {2, 20}
  MaxChunks = 1
  P1MaxChunks = 21
  MaxFiles = 2
  MaxPauses = 0
  StartSizes = {}
  Variant = "coded"
INVARIANTS TypeOK SizeInRange ChunksInRange NeverRejectedByReceiver NothingQueuedIsRejected ProbeEndsOnce
  TokenPaired EncoderNotStuck OneChunkWhileProbing DoubleOnlyWhenAllowed ShrinkOnlyWhenSlow
  SuspendedAfterPause ProbeEndedBy
CHECK_DEADLOCK TRUE
