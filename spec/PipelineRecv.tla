---------------------------- MODULE PipelineRecv ----------------------------
(* Stage-level model of the receiving pipeline of one file (pipeline.go recvFileDataV2): one   *)
(* process per goroutine, one action per blocking operation, bounded channels with their close *)
(* flags, the shared cancellable context, savedSteps, the ack-immediately signal and the main  *)
(* routine's select.  The peer (sender) is the environment: it sends DATA chunks and the       *)
(* finish flag, or falls silent (then the data stage's read times out); writing to the         *)
(* destination or to the connection may fail; the decoder may fail.                            *)
(*   stages: rcv pipelineRecvData   sak pipelineSendAck   dec pipelineDecodeData               *)
(*           md  pipelineCalculateMD5   sav pipelineSaveData   main                            *)
EXTENDS Integers, Sequences, FiniteSets, TLC

CONSTANTS Blocks,     \* DATA chunks the sender has for this file (each decodes to one unit; size = Blocks)
          Cap,        \* capacity of ackLen / recvData / fileData / md5Source channels
          Faults      \* subset of {"silent", "writeerr", "dsterr", "decerr"}

VARIABLES wire,       \* messages the sender has written and the data stage has not read: sequence of "d" / "fin"
          sent,       \* chunks the sender has written so far (finish flag counted)
          ackQ, ackClosed, dataQ, dataClosed, fileQ, fileClosed, md5Q, md5Closed,
          digest, digClosed, succ, nowChan, nowClosed,   \* md5DigestChan, ctx.succ, ackImmediatelyChan
          cancelled, cause, saved, acked, finalAcks,
          pc, silent, result

vars == <<wire, sent, ackQ, ackClosed, dataQ, dataClosed, fileQ, fileClosed, md5Q, md5Closed, digest, digClosed, succ,
          nowChan, nowClosed, cancelled, cause, saved, acked, finalAcks, pc, silent, result>>

Stages == {"rcv", "sak", "dec", "md", "sav", "main"}
Size == Blocks

Init ==
    /\ wire = <<>> /\ sent = 0
    /\ ackQ = 0 /\ ackClosed = FALSE /\ dataQ = 0 /\ dataClosed = FALSE /\ fileQ = 0 /\ fileClosed = FALSE
    /\ md5Q = 0 /\ md5Closed = FALSE /\ digest = 0 /\ digClosed = FALSE /\ succ = 0 /\ nowChan = 0 /\ nowClosed = FALSE
    /\ cancelled = FALSE /\ cause = "none" /\ saved = 0 /\ acked = 0 /\ finalAcks = 0
    /\ pc = [s \in Stages |-> CASE s = "rcv" -> "read" [] s = "sak" -> "loop" [] s = "dec" -> "read"
                                [] s = "md" -> "loop" [] s = "sav" -> "loop" [] s = "main" -> "select"]
    /\ silent = FALSE /\ result = "none"

Cancel(c) == /\ cancelled' = TRUE /\ cause' = IF cancelled THEN cause ELSE c
Goto(s, l) == pc' = [pc EXCEPT ![s] = l]
Keep(vs) == UNCHANGED vs

(* ---------------- the sender (environment) ---------------- *)
PeerSend ==
    /\ ~silent /\ sent <= Blocks /\ Len(wire) < 2
    /\ wire' = Append(wire, IF sent < Blocks THEN "d" ELSE "fin") /\ sent' = sent + 1
    /\ UNCHANGED <<ackQ, ackClosed, dataQ, dataClosed, fileQ, fileClosed, md5Q, md5Closed, digest, digClosed, succ, nowChan,
                   nowClosed, cancelled, cause, saved, acked, finalAcks, pc, silent, result>>
PeerSilent ==
    /\ "silent" \in Faults /\ ~silent /\ silent' = TRUE
    /\ UNCHANGED <<wire, sent, ackQ, ackClosed, dataQ, dataClosed, fileQ, fileClosed, md5Q, md5Closed, digest, digClosed, succ,
                   nowChan, nowClosed, cancelled, cause, saved, acked, finalAcks, pc, result>>

(* ---------------- pipelineRecvData ---------------- *)
RcvRead ==    \* for ctx.Err() == nil { recv DATA (or time out) ...
    /\ pc["rcv"] = "read"
    /\ IF cancelled
       THEN /\ Goto("rcv", "done") /\ ackClosed' = TRUE /\ dataClosed' = TRUE /\ UNCHANGED <<wire, cancelled, cause>>
       ELSE \/ /\ wire # <<>> /\ wire' = Tail(wire)
               /\ Goto("rcv", IF Head(wire) = "fin" THEN "ackfin" ELSE "ack")
               /\ UNCHANGED <<ackClosed, dataClosed, cancelled, cause>>
            \/ /\ wire = <<>> /\ silent /\ Cancel("timeout") /\ Goto("rcv", "done")
               /\ ackClosed' = TRUE /\ dataClosed' = TRUE /\ UNCHANGED wire
    /\ UNCHANGED <<sent, ackQ, dataQ, fileQ, fileClosed, md5Q, md5Closed, digest, digClosed, succ, nowChan, nowClosed, saved,
                   acked, finalAcks, silent, result>>

RcvAck ==     \* select { ackChan <- len(data) ; <-ctx.Done() }
    /\ pc["rcv"] \in {"ack", "ackfin"}
    /\ \/ /\ ackQ < Cap /\ ackQ' = ackQ + 1
          /\ IF pc["rcv"] = "ackfin"     \* len(data) == 0: break; the deferred closes run
             THEN Goto("rcv", "done") /\ ackClosed' = TRUE /\ dataClosed' = TRUE
             ELSE Goto("rcv", "data") /\ UNCHANGED <<ackClosed, dataClosed>>
       \/ /\ cancelled /\ Goto("rcv", "done") /\ ackClosed' = TRUE /\ dataClosed' = TRUE /\ UNCHANGED ackQ
    /\ UNCHANGED <<wire, sent, dataQ, fileQ, fileClosed, md5Q, md5Closed, digest, digClosed, succ, nowChan, nowClosed, cancelled,
                   cause, saved, acked, finalAcks, silent, result>>

RcvData ==    \* select { recvDataChan <- buf ; <-ctx.Done() }
    /\ pc["rcv"] = "data"
    /\ \/ /\ dataQ < Cap /\ dataQ' = dataQ + 1 /\ Goto("rcv", "read") /\ UNCHANGED <<ackClosed, dataClosed>>
       \/ /\ cancelled /\ Goto("rcv", "done") /\ ackClosed' = TRUE /\ dataClosed' = TRUE /\ UNCHANGED dataQ
    /\ UNCHANGED <<wire, sent, ackQ, fileQ, fileClosed, md5Q, md5Closed, digest, digClosed, succ, nowChan, nowClosed, cancelled,
                   cause, saved, acked, finalAcks, silent, result>>

(* ---------------- pipelineSendAck ---------------- *)
SakLoop ==    \* for length := range ackChan { write "#SUCC:len/savedSteps" ; if ctx.Err() != nil return }
    /\ pc["sak"] = "loop"
    /\ \/ /\ ackQ > 0 /\ ackQ' = ackQ - 1
          /\ \/ /\ acked' = acked + 1 /\ UNCHANGED <<cancelled, cause>>
                /\ Goto("sak", IF cancelled THEN "done" ELSE "loop")
             \/ /\ "writeerr" \in Faults /\ Cancel("writeerr") /\ Goto("sak", "done") /\ UNCHANGED acked
       \/ /\ ackQ = 0 /\ ackClosed /\ Goto("sak", "final") /\ UNCHANGED <<ackQ, acked, cancelled, cause>>
    /\ UNCHANGED <<wire, sent, ackClosed, dataQ, dataClosed, fileQ, fileClosed, md5Q, md5Closed, digest, digClosed, succ, nowChan,
                   nowClosed, saved, finalAcks, silent, result>>

SakFinal ==   \* for ctx.Err() == nil { write "#SUCC:savedSteps"; step > size -> cancel; step == size -> succ <- ; break;
              \*                        select { <-ackImmediatelyChan ; <-time.After(200ms) } }
    /\ pc["sak"] = "final"
    /\ IF cancelled THEN Goto("sak", "done") /\ UNCHANGED <<finalAcks, succ, cancelled, cause>>
       ELSE \/ /\ (saved = Size \/ finalAcks < Blocks + 3)   \* (model bound on the 200 ms re-sends without progress)
               /\ finalAcks' = finalAcks + 1
               /\ IF saved = Size
                  THEN succ < 1 /\ succ' = succ + 1 /\ Goto("sak", "done") /\ UNCHANGED <<cancelled, cause>>
                  ELSE Goto("sak", "wait") /\ UNCHANGED <<succ, cancelled, cause>>
            \/ /\ "writeerr" \in Faults /\ Cancel("writeerr") /\ Goto("sak", "done") /\ UNCHANGED <<finalAcks, succ>>
    /\ UNCHANGED <<wire, sent, ackQ, ackClosed, dataQ, dataClosed, fileQ, fileClosed, md5Q, md5Closed, digest, digClosed, nowChan,
                   nowClosed, saved, acked, silent, result>>

SakWait ==    \* the 200 ms timer fires, or the save stage signalled / closed ackImmediatelyChan
    /\ pc["sak"] = "wait"
    /\ nowChan' = IF nowChan > 0 THEN nowChan - 1 ELSE nowChan
    /\ Goto("sak", "final")
    /\ UNCHANGED <<wire, sent, ackQ, ackClosed, dataQ, dataClosed, fileQ, fileClosed, md5Q, md5Closed, digest, digClosed, succ,
                   nowClosed, cancelled, cause, saved, acked, finalAcks, silent, result>>

(* ---------------- pipelineDecodeData ---------------- *)
DecRead ==    \* reader.Read: takes a chunk from recvDataChan (or EOF when it is closed and empty, or ctx.Done)
    /\ pc["dec"] = "read"
    /\ \/ /\ cancelled /\ Goto("dec", "done") /\ fileClosed' = TRUE /\ md5Closed' = TRUE /\ UNCHANGED <<dataQ, cancelled, cause>>
       \/ /\ ~cancelled /\ dataQ > 0 /\ dataQ' = dataQ - 1
          /\ \/ Goto("dec", "file") /\ UNCHANGED <<fileClosed, md5Closed, cancelled, cause>>
             \/ /\ "decerr" \in Faults /\ Cancel("decerr") /\ Goto("dec", "done") /\ fileClosed' = TRUE /\ md5Closed' = TRUE
       \/ /\ ~cancelled /\ dataQ = 0 /\ dataClosed /\ Goto("dec", "done") /\ fileClosed' = TRUE /\ md5Closed' = TRUE
          /\ UNCHANGED <<dataQ, cancelled, cause>>
    /\ UNCHANGED <<wire, sent, ackQ, ackClosed, dataClosed, fileQ, md5Q, digest, digClosed, succ, nowChan, nowClosed, saved, acked,
                   finalAcks, silent, result>>

DecFile ==    \* select { fileDataChan <- buf ; <-ctx.Done() }
    /\ pc["dec"] = "file"
    /\ \/ /\ fileQ < Cap /\ fileQ' = fileQ + 1 /\ Goto("dec", "md5") /\ UNCHANGED <<fileClosed, md5Closed>>
       \/ /\ cancelled /\ Goto("dec", "done") /\ fileClosed' = TRUE /\ md5Closed' = TRUE /\ UNCHANGED fileQ
    /\ UNCHANGED <<wire, sent, ackQ, ackClosed, dataQ, dataClosed, md5Q, digest, digClosed, succ, nowChan, nowClosed, cancelled,
                   cause, saved, acked, finalAcks, silent, result>>

DecMd5 ==     \* select { md5SourceChan <- buf ; <-ctx.Done() }
    /\ pc["dec"] = "md5"
    /\ \/ /\ md5Q < Cap /\ md5Q' = md5Q + 1 /\ Goto("dec", "read") /\ UNCHANGED <<fileClosed, md5Closed>>
       \/ /\ cancelled /\ Goto("dec", "done") /\ fileClosed' = TRUE /\ md5Closed' = TRUE /\ UNCHANGED md5Q
    /\ UNCHANGED <<wire, sent, ackQ, ackClosed, dataQ, dataClosed, fileQ, digest, digClosed, succ, nowChan, nowClosed, cancelled,
                   cause, saved, acked, finalAcks, silent, result>>

(* ---------------- pipelineCalculateMD5 ---------------- *)
MdLoop ==
    /\ pc["md"] = "loop"
    /\ \/ /\ md5Q > 0 /\ md5Q' = md5Q - 1
          /\ IF cancelled THEN Goto("md", "done") /\ digClosed' = TRUE ELSE UNCHANGED <<pc, digClosed>>
          /\ UNCHANGED digest
       \/ /\ md5Q = 0 /\ md5Closed /\ Goto("md", "done") /\ digClosed' = TRUE
          /\ digest' = (IF cancelled THEN 0 ELSE 1) /\ UNCHANGED md5Q
    /\ UNCHANGED <<wire, sent, ackQ, ackClosed, dataQ, dataClosed, fileQ, fileClosed, md5Closed, succ, nowChan, nowClosed, cancelled,
                   cause, saved, acked, finalAcks, silent, result>>

(* ---------------- pipelineSaveData ---------------- *)
SavLoop ==    \* for data := range fileDataChan { write; savedSteps.Store; if ctx.Err() != nil return } ; step # size -> cancel ;
              \* ackImmediatelyChan <- ; deferred close(ackImmediatelyChan)
    /\ pc["sav"] = "loop"
    /\ \/ /\ fileQ > 0 /\ fileQ' = fileQ - 1
          /\ \/ /\ saved' = saved + 1 /\ UNCHANGED <<cancelled, cause, nowChan>>
                /\ IF cancelled THEN Goto("sav", "done") /\ nowClosed' = TRUE ELSE UNCHANGED <<pc, nowClosed>>
             \/ /\ "dsterr" \in Faults /\ Cancel("dsterr") /\ Goto("sav", "done") /\ nowClosed' = TRUE /\ UNCHANGED <<saved, nowChan>>
       \/ /\ fileQ = 0 /\ fileClosed /\ UNCHANGED <<fileQ, saved>>
          /\ IF cancelled THEN Goto("sav", "done") /\ nowClosed' = TRUE /\ UNCHANGED <<cancelled, cause, nowChan>>
             ELSE IF saved # Size THEN Cancel("savesize") /\ Goto("sav", "done") /\ nowClosed' = TRUE /\ UNCHANGED nowChan
             ELSE /\ nowChan < 1 /\ nowChan' = nowChan + 1 /\ Goto("sav", "done") /\ nowClosed' = TRUE /\ UNCHANGED <<cancelled, cause>>
    /\ UNCHANGED <<wire, sent, ackQ, ackClosed, dataQ, dataClosed, fileClosed, md5Q, md5Closed, digest, digClosed, succ, acked,
                   finalAcks, silent, result>>

(* ---------------- main routine ---------------- *)
MainSelect ==
    /\ pc["main"] = "select"
    /\ \/ /\ succ > 0 /\ succ' = succ - 1 /\ Goto("main", "digest") /\ UNCHANGED <<result>>
       \/ /\ cancelled /\ result' = "err" /\ Goto("main", "done") /\ UNCHANGED <<succ>>
    /\ UNCHANGED <<wire, sent, ackQ, ackClosed, dataQ, dataClosed, fileQ, fileClosed, md5Q, md5Closed, digest, digClosed, nowChan,
                   nowClosed, cancelled, cause, saved, acked, finalAcks, silent>>

MainDigest ==
    /\ pc["main"] = "digest" /\ (digest > 0 \/ digClosed)
    /\ result' = "ok" /\ Goto("main", "done") /\ cancelled' = TRUE /\ UNCHANGED cause /\ digest' = 0
    /\ UNCHANGED <<wire, sent, ackQ, ackClosed, dataQ, dataClosed, fileQ, fileClosed, md5Q, md5Closed, digClosed, succ, nowChan,
                   nowClosed, saved, acked, finalAcks, silent>>

StageStep == RcvRead \/ RcvAck \/ RcvData \/ SakLoop \/ SakFinal \/ SakWait \/ DecRead \/ DecFile \/ DecMd5 \/ MdLoop
             \/ SavLoop \/ MainSelect \/ MainDigest
Next == StageStep \/ PeerSend \/ PeerSilent
Spec == Init /\ [][Next]_vars /\ WF_vars(StageStep) /\ WF_vars(PeerSend)

-----------------------------------------------------------------------------
AllDone == \A s \in Stages : pc[s] = "done"
Termination == <>[]AllDone
(* success only when everything was saved and the digest covers it *)
OkMeansComplete == result = "ok" => (saved = Size /\ cause = "none")
(* the receiver never acknowledges a final step beyond what it saved *)
CleanOk == (AllDone /\ ~silent /\ cause = "none") => result = "ok"
TypeOK == /\ ackQ \in 0..Cap /\ dataQ \in 0..Cap /\ fileQ \in 0..Cap /\ md5Q \in 0..Cap /\ succ \in 0..1 /\ nowChan \in 0..1
          /\ saved \in 0..Size
=============================================================================
