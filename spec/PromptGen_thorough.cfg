SPECIFICATION GSpec
CONSTANTS
  Symbols = {"j", "k", "CR", "ETX", "q", "DOWN", "UP", "x", "TH", "TL", "Hj", "Hcr", "H3", "Hdown", ";", "LF"}
  MaxSyms = 3
  MaxCuts = 2
  Quirks = {}
INVARIANTS Export
CHECK_DEADLOCK FALSE
