SPECIFICATION Spec
CONSTANTS
  Files = {1}
  Texts = {3}
  Classes = {"io", "stop", "remote"}
  MaxInject = 0
  MaxNoise = 0
  WithBg = FALSE
  WithDead = {}
  AsCoded = TRUE
  Mutant = "none"
INVARIANTS TypeOK ToldAtMostOnce ToldUnlessPeerKnows KindMatchesTraceback ShownIsSent OnlyCreated TermResetOnce DrainBounded

CHECK_DEADLOCK FALSE
