SPECIFICATION Spec
CONSTANTS
  TableUniverse = {238, 126, 49, 13, 120}
  WithBuiltin = TRUE
  Bytes = {238, 126, 49, 13, 120}
  MaxLen = 4
  MaxSeg = 2
  Caps = {1, 2, 3, 5}
  MaxRaw = 4
INVARIANTS TypeOK NoProtectedByte WireIsEscape CursorOK RoundTrip CapRespected CarryIsLoneLeader UnknownCodeRejected
CHECK_DEADLOCK FALSE
