SPECIFICATION TSpec
CONSTANTS
  Files <- AnyText
  Texts <- AnyText
  Classes = {"io", "simple", "proto", "panic", "timeout", "stop", "remote"}
  MaxInject = 8
  MaxNoise = 0
  WithBg = TRUE
  WithDead = {"dead", "mute"}
  AsCoded = TRUE
  Mutant = "none"
INVARIANTS ToldAtMostOnce ToldUnlessPeerKnows KindMatchesTraceback ShownIsSent TermResetOnce
CONSTRAINT HW
POSTCONDITION Accepted
CHECK_DEADLOCK FALSE
