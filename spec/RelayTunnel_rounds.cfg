SPECIFICATION Spec
CONSTANTS
  CliChunks <- Cli3
  SrvChunks <- Srv3
  Pairs <- P2
  PairRound <- R3
  CliTun <- CT3
  SrvTun <- ST3
  Confirm <- YYN
  ParkRule = "real"
  FlushRoute = "real"
  UseCAS = TRUE
  ClearTC = TRUE
  SpinOnError = TRUE
  SrvErrEOF = FALSE
  Window = FALSE
  LateOK = FALSE
  Closing = FALSE
INVARIANTS TunnelOrder TunnelNotInband InbandIgnoredWhileTunnel InbandOrder AtMostOneTunnelRelay BoundIsCurrent
  TunnelNothingLost InbandNothingLost TunnelNoJunk LoserClosed ResetClean ParkOnlyWhileHandshaking
PROPERTIES Progress
CHECK_DEADLOCK FALSE
