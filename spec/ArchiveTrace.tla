---------------------------- MODULE ArchiveTrace ----------------------------
(* Trace validation for Archive: consumes the ndjson events recorded by the Go driver c15_tv *)
(* (harness/c15_archive.go) from real executions of checkPathsReadable / archiveSourceFiles / *)
(* newArchiveReader.Read / archiveFileWriter.Write under the real writeAll.  Events:          *)
(*   reset | scan{res,dirfds} | entry{dir,hdr,size,parent} | newreader{announced}             *)
(*   resize{ent,len}                                                                         *)
(*   rd{n,got,res,rfds,wfds} | eof{total,badbytes} | abort{total,badbytes} | rclose{rfds,wfds}*)
(*   wa{len} | wr{len,c,res,rfds,wfds} | wclose{rfds,wfds}                                    *)
(*   treediff{missing,extra,kind,size,sha}                                                   *)
(* hdr = real length of the encoded header, rfds / wfds = descriptors of this process that   *)
(* refer to regular files below the source / destination directory (from /proc/self/fd).     *)
(* Loop turns of Read that do not return are silent steps (enabled only while the next       *)
(* event is an `rd`).                                                                        *)
(* Descriptors: fewer than the spec's open set is a mismatch (rejected); MORE than the spec's *)
(* open set does not stop the validation (the state machines are still checked to the end of *)
(* the file) but is kept as a high-water mark in TLC registers and fails the POSTCONDITION.   *)
EXTENDS Archive, Json, IOUtils, TLCExt

TraceLog == ndJsonDeserialize(IOEnv.VERIF_TRACE)

VARIABLE l
tvars == <<vars, l>>

Ev == TraceLog[l]
More == l <= Len(TraceLog)
IsEvent(e) == More /\ Ev.e = e /\ l' = l + 1

Res(st) == IF st = "run" THEN "ok" ELSE st

(* registers: 1 high-water mark of l, 2/3 largest excess of consumer/producer descriptors over *)
(* the spec's open set, 4/5 the line where that excess was first seen, 6/7 most directory      *)
(* handles below the source still open after checkPathsReadable returned and the line          *)
ObsFds ==
    LET wx == Ev.wfds - Cardinality(wOpen')
        rx == Ev.rfds - Cardinality(rOpen') IN
    /\ wx >= 0 /\ rx >= 0
    /\ IF wx > TLCGet(2) THEN (IF TLCGet(2) = 0 THEN TLCSet(4, l) ELSE TRUE) /\ TLCSet(2, wx) ELSE TRUE
    /\ IF rx > TLCGet(3) THEN (IF TLCGet(3) = 0 THEN TLCSet(5, l) ELSE TRUE) /\ TLCSet(3, rx) ELSE TRUE

TInit == Init /\ l = 1

TReset == IsEvent("reset") /\ Reset

(* checkPathsReadable returned: a readable tree is scanned without error, and the scan keeps   *)
(* no directory open (excess recorded like the other descriptors)                              *)
TScan == /\ IsEvent("scan") /\ Ev.res = "ok" /\ N = 0 /\ announced = -1
         /\ Ev.dirfds >= 0
         /\ IF Ev.dirfds > TLCGet(6) THEN (IF TLCGet(6) = 0 THEN TLCSet(7, l) ELSE TRUE) /\ TLCSet(6, Ev.dirfds) ELSE TRUE
         /\ UNCHANGED vars

TEntry == IsEvent("entry") /\ ScanEntry(Ev.dir, Ev.hdr, Ev.size, Ev.parent)

TNewReader == IsEvent("newreader") /\ NewReader /\ announced' = Ev.announced

TResize == IsEvent("resize") /\ SourceResize(Ev.ent, Ev.len)

(* Read(p) entered *)
TRdBegin == /\ More /\ Ev.e = "rd" /\ rCall = 0
            /\ RdBegin(Ev.n) /\ UNCHANGED l

(* a loop turn that does not return *)
TRdSilent == /\ More /\ Ev.e = "rd" /\ rCall > 0
             /\ RdTurn /\ rCall' > 0 /\ UNCHANGED l

TRdRet == /\ IsEvent("rd") /\ rCall > 0
          /\ RdTurn /\ rCall' = 0
          /\ Ev.got = rpos' - rpos
          /\ Ev.res = Res(rState')
          /\ ObsFds

TEof == /\ IsEvent("eof") /\ rState = "eof"
        /\ Ev.total = rpos /\ Ev.badbytes = 0
        /\ UNCHANGED vars

TAbort == /\ IsEvent("abort") /\ rState = "err"
          /\ Ev.total = rpos /\ Ev.badbytes = 0
          /\ UNCHANGED vars

TRdClose == IsEvent("rclose") /\ RdClose /\ ObsFds

TWa == IsEvent("wa") /\ WaBegin(Ev.len)

(* one Write call of writeAll's loop: it is handed the whole rest *)
TWr == /\ IsEvent("wr") /\ wPend = Ev.len
       /\ WrTurn
       /\ Ev.c = wpos' - wpos
       /\ Ev.res = Res(wState')
       /\ ObsFds

TWrClose == IsEvent("wclose") /\ WrClose /\ ObsFds

TTreeDiff == /\ IsEvent("treediff") /\ Done /\ rClosed /\ wClosed
             /\ Ev.missing = 0 /\ Ev.extra = 0 /\ Ev.kind = 0 /\ Ev.size = 0 /\ Ev.sha = 0
             /\ UNCHANGED vars

TNext == \/ TReset \/ TScan \/ TEntry \/ TNewReader \/ TResize
         \/ TRdBegin \/ TRdSilent \/ TRdRet \/ TEof \/ TAbort \/ TRdClose
         \/ TWa \/ TWr \/ TWrClose \/ TTreeDiff

TSpec == TInit /\ [][TNext]_tvars

HW == IF l > TLCGet(1) THEN TLCSet(1, l) ELSE TRUE
ASSUME TLCSet(1, 0) /\ TLCSet(2, 0) /\ TLCSet(3, 0) /\ TLCSet(4, 0) /\ TLCSet(5, 0) /\ TLCSet(6, 0) /\ TLCSet(7, 0)

Accepted ==
    /\ PrintT("FDX " \o ToString(TLCGet(2)) \o " " \o ToString(TLCGet(3)) \o " "
                    \o ToString(TLCGet(4)) \o " " \o ToString(TLCGet(5)) \o " "
                    \o ToString(TLCGet(6)) \o " " \o ToString(TLCGet(7)))
    /\ IF TLCGet(1) = Len(TraceLog) + 1 THEN TRUE
       ELSE PrintT("HW " \o ToString(TLCGet(1))) /\ FALSE
    /\ TLCGet(2) = 0 /\ TLCGet(3) = 0 /\ TLCGet(6) = 0
=============================================================================
