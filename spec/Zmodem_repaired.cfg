\* Repaired variant: with the two named deviations removed the strict property holds.
SPECIFICATION LiveSpec
CONSTANTS
  Ups = {TRUE, FALSE}
  Starts = {"ok", "nopath"}
  Vetoes = {"none", "can", "cno"}
  MaxHdr = 1
  MaxSrv = 1
  MaxHout = 1
  MaxCtrlC = 1
  MaxText = 0
  InitBeforePublish = TRUE
  ErrArms = {TRUE}
INVARIANTS TypeOK VetoedHeaderStartsNothing CancelSentToWaiter NoCrash NotStuck ActiveHasHelper LongQuietEndsAll CursorBack QuiescentDef
PROPERTIES HandBack ReturnedIsStable SwallowOnlyWhileActive InputFlowsAfter
CHECK_DEADLOCK FALSE
