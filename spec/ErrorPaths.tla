----------------------------- MODULE ErrorPaths -----------------------------
(* X05 -- how a trzsz transfer ends with an error: the error-termination sub-protocol that   *)
(* Transfer.tla abstracts into the single step `Fail`.  Code: trzsz/transfer.go clientError, *)
(* serverError, serverExit, resetTerm (termReseted CAS), cleanInput, deleteCreatedFiles,     *)
(* recvCheck (an incoming fail / FAIL / EXIT line becomes a trzszError), trzsz/comm.go       *)
(* trzszError (isTraceBack, isRemoteFail, isRemoteExit, isStopAndDelete), the deferred       *)
(* recover of filter.go handleTrzsz / trz.go / tsz.go.                                        *)
(*                                                                                            *)
(* Two roles, "C" client and "V" server.  The ordinary traffic of the transfer is abstract   *)
(* (`noise`: ordinary messages in flight, bounded by what a peer sends without hearing from  *)
(* us); only the lines that matter for termination are explicit: chan[r] holds the fail /    *)
(* FAIL / EXIT / junk lines in flight to r.  A text is a small integer (1 = "Stopped",       *)
(* 2 = "Stopped and deleted", others are opaque), a message or a displayed text is           *)
(* [x: text, tb: number of stack traces in it, fl: set of files it lists].                   *)
(*                                                                                            *)
(* One action per branch / loop turn of the Go code:                                          *)
(*   Local, NoticeStop, Remote      an error value reaches clientError / serverError          *)
(*   CleanDrain, CleanDone          loop turns of cleanInput (drain until silence)            *)
(*   TellC                          the rest of clientError                                   *)
(*   TellV                          the rest of serverError up to serverExit                  *)
(*   VExitOk, CExit                 the normal end (recvExit + serverExit / clientExit)       *)
(*   ResetTerm, BgReset             resetTerm called by serverExit / by switchToBackground    *)
(* Environment: user stop (keep / delete), forged or damaged lines from the "peer", a dead   *)
(* or muted connection, files created by the receiving role, ordinary traffic.               *)
EXTENDS Integers, Sequences, FiniteSets, TLC

CONSTANTS Files,       \* ids of the entries the receiving role may create
          Texts,       \* opaque text ids (>= 3) for locally produced / forged messages
          Classes,     \* enabled error classes, subset of
                       \*   {"io", "simple", "proto", "panic", "timeout", "stop", "remote"}
          MaxInject,   \* lines the environment may forge
          MaxNoise,    \* ordinary messages a peer sends without hearing from the other side
          WithBg,      \* switchToBackground (fork mode) may call resetTerm too
          WithDead,    \* subset of {"dead", "mute"}: a role's connection may start to return write errors / swallow its output
          AsCoded,     \* TRUE: createdFiles also records existing files opened for overwriting
                       \*       (doCreateFile appends whenever OpenFile(O_CREATE) succeeds)
                       \* FALSE: what the property demands (only entries this transfer created)
          Mutant       \* "none", or a deliberately wrong design (non-vacuity of the invariants):
                       \*   "answer"   a received fail line is answered with a fail line
                       \*   "allFAIL"  typ := "FAIL" unconditionally
                       \*   "listall"  the deleted-files list names every file, not the removed ones
                       \*   "nocas"    resetTerm without the termReseted test
                       \*   "notell"   serverError forgets to tell the peer
                       \*   "trace"    a received `fail` gets a stack trace appended
                       \*   "flood"    the peer never stops sending (cleanInput has no deadline)

Roles == {"C", "V"}
DrainBound == MaxNoise + MaxInject + 2   \* arrivals during one cleanInput: the peer's window, its own line(s), forged lines
Peer(r) == IF r = "C" THEN "V" ELSE "C"
STOPPED == 1
STOPDEL == 2

Msg(t, x, tb, fl) == [t |-> t, x |-> x, tb |-> tb, fl |-> fl]
NoMsg == Msg("none", 0, 0, {})
Txt(x, tb, fl) == [x |-> x, tb |-> tb, fl |-> fl]
NoErr == [cls |-> "none", x |-> 0, tb |-> 0, trace |-> FALSE, remote |-> "no", fl |-> {}, src |-> NoMsg]
NoTxt == Txt(0, 0, {})

VARIABLES
    upload,    \* TRUE: the client sends the files (the server is the receiving role)
    pc,        \* [Roles -> {"run", "clean", "tell", "xclean", "reset", "done"}]
    err,       \* [Roles -> error record] the value handed to clientError / serverError
    stopf,     \* [Roles -> {"no", "keep", "del"}] stopped / stopAndDelete flags
    chan,      \* [Roles -> Seq(Msg)] termination-relevant lines in flight to r
    dead,      \* [Roles -> BOOLEAN] r's writes return an error (nothing reaches the tap)
    mute,      \* [Roles -> BOOLEAN] what r writes is swallowed after the tap (peer went silent)
    made,      \* [Roles -> SUBSET Files] entries written by this transfer that are present
    tracked,   \* [Roles -> SUBSET Files] createdFiles
    preex,     \* entries that existed before the transfer (overwrite mode)
    deleted,   \* [Roles -> SUBSET Files] what deleteCreatedFiles removed (history)
    wrote,     \* [Roles -> Seq(Msg)] fail / FAIL / EXIT lines r wrote (history, what the tap sees)
    final,     \* the message the server hands to serverExit
    shown,     \* [Roles -> Seq(Txt)] V: final messages printed; C: the error returned to the API caller
    resets,    \* terminal reset sequences written by the server
    bgs,       \* "no" | "fired": the background path has called resetTerm
    noise,     \* [Roles -> Nat] ordinary messages in flight to r
    turns,     \* [Roles -> Nat] loop turns of the current cleanInput of r
    ninj       \* lines forged so far

vars == <<upload, pc, err, stopf, chan, dead, mute, made, tracked, preex, deleted, wrote, final, shown,
          resets, bgs, noise, turns, ninj>>

Rcv == IF upload THEN "V" ELSE "C"

Init ==
    /\ upload \in BOOLEAN
    /\ pc = [r \in Roles |-> "run"] /\ err = [r \in Roles |-> NoErr]
    /\ stopf = [r \in Roles |-> "no"] /\ chan = [r \in Roles |-> <<>>]
    /\ dead = [r \in Roles |-> FALSE] /\ mute = [r \in Roles |-> FALSE]
    /\ made = [r \in Roles |-> {}] /\ tracked = [r \in Roles |-> {}] /\ preex \in SUBSET Files
    /\ deleted = [r \in Roles |-> {}]
    /\ wrote = [r \in Roles |-> <<>>]
    /\ final = NoTxt /\ shown = [r \in Roles |-> <<>>]
    /\ resets = 0 /\ bgs = "no"
    /\ noise = [r \in Roles |-> 0] /\ turns = [r \in Roles |-> 0]
    /\ ninj = 0

-----------------------------------------------------------------------------
(* sendString(typ, text): the tap sees the line unless the connection is dead; the peer      *)
(* receives it unless the direction is muted.  The result of the write is ignored (`_ =`).   *)
Write(r, m) ==
    /\ wrote' = IF dead[r] THEN wrote ELSE [wrote EXCEPT ![r] = Append(@, m)]
    /\ chan' = IF dead[r] \/ mute[r] THEN chan ELSE [chan EXCEPT ![Peer(r)] = Append(@, m)]
NoWrite == UNCHANGED <<wrote, chan>>

(* typ := "fail"; if trace { typ = "FAIL" } *)
Kind(e) == IF Mutant = "allFAIL" \/ e.trace THEN "FAIL" ELSE "fail"

Fs == <<made, tracked, preex, deleted>>
Term == <<final, shown, resets, bgs>>
Traffic == <<noise>>
Envv == <<dead, mute, ninj, upload>>

-----------------------------------------------------------------------------
(* The receiving role creates (or opens for overwriting) an entry: doCreateFile /            *)
(* doCreateDirectory + addCreatedFiles.                                                       *)
Create(f) ==
    /\ pc[Rcv] = "run" /\ f \in Files \ made[Rcv] /\ f \notin deleted[Rcv]
    /\ made' = [made EXCEPT ![Rcv] = @ \cup {f}]
    /\ tracked' = [tracked EXCEPT ![Rcv] = IF AsCoded \/ f \notin preex THEN @ \cup {f} ELSE @]
    /\ UNCHANGED <<pc, err, stopf, chan, wrote, preex, deleted, turns>> /\ UNCHANGED <<Term, Traffic, Envv>>

(* deleteCreatedFiles: every recorded path that still exists is removed and reported *)
Removed(r) == tracked[r] \cap made[r]
Listed(r) == IF Mutant = "listall" THEN Files ELSE Removed(r)

-----------------------------------------------------------------------------
(* An error value reaches clientError / serverError.                                          *)
ToClean(r, e) ==
    /\ pc' = [pc EXCEPT ![r] = "clean"] /\ err' = [err EXCEPT ![r] = e] /\ turns' = [turns EXCEPT ![r] = 0]

(* a local failure: i/o error (plain Go error: trace by default, no stack in the text),       *)
(* simpleTrzszError (no trace), protocol violation / panic (newTrzszError(.., true): stack),  *)
(* receive time-out (errReceiveDataTimeout, only when nothing arrives)                        *)
LocalErr(cls, x) == [cls |-> cls, x |-> x, tb |-> IF cls \in {"proto", "panic"} THEN 1 ELSE 0,
                     trace |-> cls \in {"io", "proto", "panic"}, remote |-> "no", fl |-> {}, src |-> NoMsg]
Local(r, cls, x) ==
    /\ pc[r] = "run" /\ cls \in Classes \cap {"io", "simple", "proto", "panic", "timeout"} /\ x \in Texts
    /\ (cls = "timeout" => chan[r] = <<>> /\ noise[r] = 0)
    /\ IF cls = "proto"
       THEN \E i \in 1..Len(chan[r]) : chan[r][i].t = "junk" /\ chan' = [chan EXCEPT ![r] = SubSeq(@, i + 1, Len(@))]
       ELSE chan' = chan
    /\ ToClean(r, LocalErr(cls, x))
    /\ UNCHANGED <<stopf, wrote>> /\ UNCHANGED <<Fs, Term, Traffic, Envv>>
(* the same without the model's enabling conditions (trace validation: what made the real     *)
(* role fail locally is not always visible from outside)                                      *)
LocalAny(r, cls, x) ==
    /\ pc[r] = "run" /\ chan' = chan /\ ToClean(r, LocalErr(cls, x))
    /\ UNCHANGED <<stopf, wrote>> /\ UNCHANGED <<Fs, Term, Traffic, Envv>>

(* checkStop: errStopped / errStoppedAndDeleted *)
NoticeStop(r) ==
    /\ pc[r] = "run" /\ stopf[r] # "no"
    /\ ToClean(r, [cls |-> "stop", x |-> IF stopf[r] = "del" THEN STOPDEL ELSE STOPPED, tb |-> 0,
                   trace |-> FALSE, remote |-> "no", fl |-> {}, src |-> NoMsg])
    /\ UNCHANGED <<stopf, chan, wrote>> /\ UNCHANGED <<Fs, Term, Traffic, Envv>>

(* recvCheck: a line of another type than expected -> newTrzszError(buf, typ, true).  For     *)
(* fail / FAIL / EXIT the text is the decoded payload; only FAIL keeps the trace flag, so     *)
(* only FAIL gets this side's stack appended.                                                  *)
Remote(r, i) ==
    /\ pc[r] = "run" /\ "remote" \in Classes /\ i \in 1..Len(chan[r])
    /\ LET m == chan[r][i] IN
       /\ m.t \in {"fail", "FAIL", "EXIT"}
       /\ ToClean(r, [cls |-> "remote", x |-> m.x,
                      tb |-> m.tb + (IF m.t = "FAIL" \/ Mutant = "trace" THEN 1 ELSE 0),
                      trace |-> m.t = "FAIL", remote |-> m.t, fl |-> m.fl, src |-> m])
    /\ chan' = [chan EXCEPT ![r] = SubSeq(@, i + 1, Len(@))]
    /\ UNCHANGED <<stopf, wrote>> /\ UNCHANGED <<Fs, Term, Traffic, Envv>>

-----------------------------------------------------------------------------
(* cleanInput: stopped := true, drain, then sleep until nothing has arrived for the clean     *)
(* time-out; every arrival costs one more turn.                                               *)
Cleaning(r) == pc[r] \in {"clean", "xclean"}

CleanDrain(r) ==
    /\ Cleaning(r) /\ (chan[r] # <<>> \/ noise[r] > 0)
    /\ IF chan[r] # <<>> THEN chan' = [chan EXCEPT ![r] = Tail(@)] /\ noise' = noise
       ELSE chan' = chan /\ noise' = [noise EXCEPT ![r] = @ - 1]
    /\ turns' = [turns EXCEPT ![r] = @ + 1]
    /\ UNCHANGED <<pc, err, stopf, wrote>> /\ UNCHANGED <<Fs, Term, Envv>>

CleanDone(r) ==
    /\ Cleaning(r) /\ chan[r] = <<>> /\ noise[r] = 0
    /\ pc' = [pc EXCEPT ![r] = IF pc[r] = "clean" THEN "tell" ELSE "reset"] /\ turns' = [turns EXCEPT ![r] = 0]
    /\ UNCHANGED <<err, stopf, chan, wrote>> /\ UNCHANGED <<Fs, Term, Traffic, Envv>>

-----------------------------------------------------------------------------
(* clientError after cleanInput *)
Finish(r) == pc' = [pc EXCEPT ![r] = "done"]
ErrTxt(e) == Txt(e.x, e.tb, e.fl)

TellC ==
    /\ pc["C"] = "tell"
    /\ LET e == err["C"] IN
       /\ shown' = [shown EXCEPT !["C"] = <<ErrTxt(e)>>]       \* the error value the caller of the client gets
       /\ IF e.remote # "no" /\ Mutant # "answer"
          THEN NoWrite /\ UNCHANGED Fs                          \* isRemoteExit || isRemoteFail: return
          ELSE IF stopf["C"] = "del" /\ Removed("C") # {}
          THEN /\ deleted' = [deleted EXCEPT !["C"] = Removed("C")]
               /\ made' = [made EXCEPT !["C"] = @ \ Removed("C")]
               /\ Write("C", Msg("fail", e.x, e.tb, Listed("C")))
               /\ UNCHANGED <<tracked, preex>>
          ELSE Write("C", Msg(Kind(e), e.x, e.tb, {})) /\ UNCHANGED Fs
    /\ Finish("C")
    /\ UNCHANGED <<err, stopf, turns, final, resets, bgs>> /\ UNCHANGED <<Traffic, Envv>>

(* serverError after cleanInput, up to the call of serverExit *)
IsStopAndDelete(e) == e.remote = "fail" /\ e.x = STOPDEL /\ e.tb = 0 /\ e.fl = {}

TellV ==
    /\ pc["V"] = "tell"
    /\ LET e == err["V"] IN
       IF IsStopAndDelete(e) /\ Removed("V") # {}
       THEN /\ deleted' = [deleted EXCEPT !["V"] = Removed("V")]
            /\ made' = [made EXCEPT !["V"] = @ \ Removed("V")]
            /\ final' = Txt(e.x, e.tb, Listed("V"))
            /\ NoWrite /\ UNCHANGED <<tracked, preex>>
       ELSE IF e.remote # "no" /\ Mutant # "answer"
       THEN final' = ErrTxt(e) /\ NoWrite /\ UNCHANGED Fs
       ELSE /\ final' = ErrTxt(e) /\ UNCHANGED Fs
            /\ IF Mutant = "notell" THEN NoWrite ELSE Write("V", Msg(Kind(e), e.x, e.tb, {}))
    /\ pc' = [pc EXCEPT !["V"] = "xclean"] /\ turns' = [turns EXCEPT !["V"] = 0]
    /\ UNCHANGED <<err, stopf, shown, resets, bgs>> /\ UNCHANGED <<Traffic, Envv>>

(* the normal end: the server reads the EXIT line; tsz hands its text to serverExit, trz its   *)
(* own list of what it saved (x)                                                              *)
VExitOk(i, x) ==
    /\ pc["V"] = "run" /\ i \in 1..Len(chan["V"]) /\ chan["V"][i].t = "EXIT"
    /\ final' = IF upload THEN Txt(x, 0, {}) ELSE Txt(chan["V"][i].x, chan["V"][i].tb, chan["V"][i].fl)
    /\ chan' = [chan EXCEPT !["V"] = SubSeq(@, i + 1, Len(@))]
    /\ pc' = [pc EXCEPT !["V"] = "xclean"] /\ turns' = [turns EXCEPT !["V"] = 0]
    /\ UNCHANGED <<err, stopf, wrote, shown, resets, bgs>> /\ UNCHANGED <<Fs, Traffic, Envv>>

(* clientExit *)
CExit(x) ==
    /\ pc["C"] = "run" /\ x \in Texts
    /\ Write("C", Msg("EXIT", x, 0, {}))
    /\ Finish("C")
    /\ UNCHANGED <<err, stopf, turns>> /\ UNCHANGED <<Fs, Term, Traffic, Envv>>

(* resetTerm(msg, false) at the end of serverExit: the CAS decides between "restore the      *)
(* terminal and print" and "print only"                                                       *)
ResetTerm ==
    /\ pc["V"] = "reset"
    /\ resets' = IF resets = 0 \/ Mutant = "nocas" THEN resets + 1 ELSE resets
    /\ shown' = [shown EXCEPT !["V"] = Append(@, final)]
    /\ Finish("V")
    /\ UNCHANGED <<err, stopf, chan, wrote, turns, final, bgs>> /\ UNCHANGED <<Fs, Traffic, Envv>>

(* resetTerm("Switch to transfer in background.", true) from switchToBackground's goroutine *)
BgReset ==
    /\ WithBg /\ bgs = "no" /\ bgs' = "fired"
    /\ resets' = IF resets = 0 \/ Mutant = "nocas" THEN resets + 1 ELSE resets
    /\ UNCHANGED <<pc, err, stopf, chan, wrote, turns, final, shown>> /\ UNCHANGED <<Fs, Traffic, Envv>>

(* a finished role's input goes nowhere *)
DropDone(r) ==
    /\ pc[r] = "done" /\ chan[r] # <<>>
    /\ chan' = [chan EXCEPT ![r] = Tail(@)]
    /\ UNCHANGED <<pc, err, stopf, wrote, turns>> /\ UNCHANGED <<Fs, Term, Traffic, Envv>>

-----------------------------------------------------------------------------
(* Environment *)
(* stopTransferringFiles: the CAS on `stopped` succeeds only before cleanInput has stored it *)
UserStop(r, k) ==
    /\ "stop" \in Classes /\ k \in {"keep", "del"} /\ (k = "del" => r = "C")
    /\ stopf[r] = "no" /\ (pc[r] = "run" \/ (pc[r] = "clean" /\ turns[r] = 0))
    /\ stopf' = [stopf EXCEPT ![r] = k]
    /\ UNCHANGED <<pc, err, chan, wrote, turns>> /\ UNCHANGED <<Fs, Term, Traffic, Envv>>

(* the peer of r keeps sending ordinary messages until it hears from r or runs out of window *)
PeerNoise(r) ==
    /\ Cleaning(r) /\ pc[Peer(r)] = "run" /\ noise[r] = 0
    /\ (turns[r] < MaxNoise \/ (Mutant = "flood" /\ turns[r] <= DrainBound))
    /\ noise' = [noise EXCEPT ![r] = 1]
    /\ UNCHANGED <<pc, err, stopf, chan, wrote, turns>> /\ UNCHANGED <<Fs, Term, Envv>>

InjMsgs == {Msg("fail", x, 0, {}) : x \in {STOPDEL} \cup Texts} \cup {Msg("FAIL", x, 1, {}) : x \in Texts}
               \cup {Msg("EXIT", x, 0, {}) : x \in Texts} \cup {Msg("junk", 0, 0, {})}
Inject(to, m) ==
    /\ ninj < MaxInject /\ m \in InjMsgs /\ ninj' = ninj + 1 /\ pc[to] # "done"
    /\ chan' = [chan EXCEPT ![to] = Append(@, m)]
    /\ UNCHANGED <<pc, err, stopf, wrote, turns, dead, mute, upload>> /\ UNCHANGED <<Fs, Term, Traffic>>

Break(r, how) ==
    /\ how \in WithDead /\ ~dead[r] /\ ~mute[r] /\ pc[r] \in {"run", "clean"}
    /\ IF how = "dead" THEN dead' = [dead EXCEPT ![r] = TRUE] /\ mute' = mute
       ELSE mute' = [mute EXCEPT ![r] = TRUE] /\ dead' = dead
    /\ UNCHANGED <<pc, err, stopf, chan, wrote, turns, ninj, upload>> /\ UNCHANGED <<Fs, Term, Traffic>>

RoleStep ==
    \/ \E r \in Roles : \/ \E c \in Classes, x \in Texts : Local(r, c, x)
                        \/ NoticeStop(r) \/ (\E i \in 1..Len(chan[r]) : Remote(r, i))
                        \/ CleanDrain(r) \/ CleanDone(r) \/ DropDone(r)
    \/ TellC \/ TellV \/ (\E i \in 1..Len(chan["V"]), x \in Texts : VExitOk(i, x)) \/ (\E x \in Texts : CExit(x)) \/ ResetTerm \/ BgReset
Env ==
    \/ \E f \in Files : Create(f)
    \/ \E r \in Roles : \/ \E k \in {"keep", "del"} : UserStop(r, k)
                        \/ PeerNoise(r)
                        \/ \E m \in InjMsgs : Inject(r, m)
                        \/ \E how \in {"dead", "mute"} : Break(r, how)
Next == RoleStep \/ Env
Spec == Init /\ [][Next]_vars /\ WF_vars(RoleStep)

-----------------------------------------------------------------------------
(* Properties *)
FailLines(r) == SelectSeq(wrote[r], LAMBDA m : m.t \in {"fail", "FAIL"})
PastTell(r) == IF r = "C" THEN pc[r] = "done" ELSE pc[r] \in {"xclean", "reset", "done"}
Failed(r) == err[r].cls # "none"
(* what r shows: the server's final message, the client's returned error *)
Disp(r) == IF r = "V" THEN final ELSE shown["C"][1]
HasDisp(r) == PastTell(r) /\ (r = "C" => shown["C"] # <<>>)

(* each side writes at most one fail / FAIL line, never after an EXIT, and never in answer   *)
(* to a received fail / FAIL / EXIT                                                           *)
ToldAtMostOnce ==
    \A r \in Roles : /\ Len(wrote[r]) <= 1
                     /\ (err[r].remote # "no" => FailLines(r) = <<>>)

(* a side that ended with an error of its own told the peer -- exactly one line -- unless its *)
(* connection is dead                                                                          *)
ToldUnlessPeerKnows ==
    \A r \in Roles : (PastTell(r) /\ Failed(r) /\ err[r].remote = "no" /\ ~dead[r]) => Len(FailLines(r)) = 1

(* FAIL iff the error carries the trace flag (the stop-and-delete report, which carries the   *)
(* list, is always `fail`); a received `fail` / EXIT is shown as sent, a received FAIL with    *)
(* exactly one more stack trace                                                                *)
KindMatchesTraceback ==
    /\ \A r \in Roles : \A i \in 1..Len(FailLines(r)) :
          LET m == FailLines(r)[i] IN
          IF m.fl # {} THEN m.t = "fail" ELSE (m.t = "FAIL") <=> err[r].trace
    /\ \A r \in Roles : (HasDisp(r) /\ err[r].remote # "no") =>
          LET m == err[r].src IN /\ m.t = err[r].remote /\ m.x = Disp(r).x
                                 /\ Disp(r).tb = m.tb + (IF m.t = "FAIL" THEN 1 ELSE 0)

(* what the receiving side shows is the text that was sent to it; a deleted-files list names  *)
(* exactly what deleteCreatedFiles removed on the side that removed it                        *)
ShownIsSent ==
    /\ \A r \in Roles : (HasDisp(r) /\ err[r].remote # "no") =>
          LET m == err[r].src IN /\ m.t = err[r].remote /\ m.x = Disp(r).x
                                 /\ Disp(r).fl = (IF r = "V" /\ IsStopAndDelete(err[r]) /\ deleted["V"] # {} THEN deleted["V"] ELSE m.fl)
    /\ \A i \in 1..Len(FailLines("C")) : FailLines("C")[i].fl = deleted["C"]
    /\ (PastTell("V") /\ IsStopAndDelete(err["V"])) => final.fl = deleted["V"]
    /\ \A r \in Roles : Failed(r) /\ HasDisp(r) /\ err[r].remote = "no" /\ r = "V" => Disp(r) = Txt(err[r].x, err[r].tb, {})

(* only entries this transfer created are removed, and only by the receiving role *)
OnlyCreated ==
    \A r \in Roles : /\ deleted[r] \cap preex = {}
                     /\ (r # Rcv => deleted[r] = {})

(* the terminal is restored exactly once and the final message is printed exactly once *)
TermResetOnce ==
    /\ resets <= 1 /\ Len(shown["V"]) <= 1
    /\ (pc["V"] = "done" => resets = 1 /\ Len(shown["V"]) = 1)

(* cleanInput costs one turn per arrival, and arrivals are bounded by what the peer sends     *)
(* without hearing from us (its window), the lines it writes and the forged lines             *)
DrainBounded == \A r \in Roles : turns[r] <= DrainBound
(* ... so every error path ends (with an endlessly sending peer it does not: Mutant "flood")  *)
Termination == <>[](\A r \in Roles : pc[r] = "done")

TypeOK ==
    /\ \A r \in Roles : pc[r] \in {"run", "clean", "tell", "xclean", "reset", "done"}
    /\ \A r \in Roles : noise[r] \in 0..1 /\ stopf[r] \in {"no", "keep", "del"}
    /\ resets \in 0..3 /\ ninj \in 0..MaxInject
    /\ \A r \in Roles : made[r] \subseteq Files /\ tracked[r] \subseteq Files /\ deleted[r] \subseteq Files
=============================================================================
