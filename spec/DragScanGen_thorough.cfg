SPECIFICATION GSpec
CONSTANTS
  OSes = {"linux", "macos", "win"}
  AlphaLinux = {"RA", "R", "SL", "a", "SP", "SQ"}
  AlphaMac = {"RA", "R", "SL", "a", "SP", "BS"}
  AlphaWin = {"WC", "MC", "YC", "a", "SP", "DQ", "SQ"}
  MaxSyms = 5
  RootLen = 12
  FSNames = {"L1", "W1"}
  Quirks = {}
INVARIANTS Export
CHECK_DEADLOCK FALSE
