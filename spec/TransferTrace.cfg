SPECIFICATION TSpec
CONSTANTS
  Configs = {}
  Window = 7
  MaxFaults = 0
  FaultKinds = {}
  StopRoles = {}
INVARIANTS PredictedDst TFidelity TNoFalseSuccess
CONSTRAINT HW
POSTCONDITION Accepted
CHECK_DEADLOCK FALSE
