SPECIFICATION GSpec
CONSTANTS
  CliChunks <- GCliS
  SrvChunks <- GSrvS
  Confirm = TRUE
  Recheck = TRUE
  FlushFirst = TRUE
  HoldCfg = 0
INVARIANTS Export Order NothingLost ParkOnlyWhileHandshaking JunkIsBeforeLine
CHECK_DEADLOCK FALSE
