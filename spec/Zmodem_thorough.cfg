\* Current code variant (session published before it is initialised; handleZmodemError does
\* not arm the cleanup timer).  checks/c19.py rewrites the two variant lines in its scratch
\* copy according to what the real code is observed to do.
SPECIFICATION LiveSpecEcho
CONSTANTS
  Ups = {TRUE, FALSE}
  Starts = {"ok", "nopath", "nochoice"}
  Vetoes = {"none", "can", "cno"}
  MaxHdr = 1
  MaxSrv = 2
  MaxHout = 1
  MaxCtrlC = 1
  MaxText = 1
  InitBeforePublish = FALSE
  ErrArms = {FALSE}
INVARIANTS TypeOK VetoedHeaderStartsNothing CancelSentToWaiter NotStuckButNoCmd ActiveHasHelper LongQuietEndsAll CursorBack QuiescentDef
PROPERTIES HandBack ReturnedIsStable SwallowOnlyWhileActive InputFlowsAfter
CHECK_DEADLOCK FALSE
