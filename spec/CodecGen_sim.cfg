SPECIFICATION GSpec
CONSTANTS
  TableUniverse = {238, 126, 49, 13, 66, 120}
  WithBuiltin = TRUE
  Bytes = {238, 126, 49, 13, 66, 141, 120}
  MaxLen = 10
  MaxSeg = 5
  Caps = {1, 2, 3, 4, 5}
  MaxRaw = 8
  Sim = TRUE
INVARIANTS Export RoundTrip UnknownCodeRejected
CHECK_DEADLOCK FALSE
