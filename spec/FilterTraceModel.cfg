SPECIFICATION TSpec
CONSTANTS
  MaxOut = 0
  MaxIn = 0
  MaxXfer = 0
  MaxZ = 0
  MaxDrag = 0
  FeedOut = {}
  FeedIn = {}
  OptSets <- AllOpts
  ExitCodes = {}
  EchoAssumed = FALSE
  Judge = FALSE
INVARIANTS TypeOK
CONSTRAINT HW
POSTCONDITION Accepted
CHECK_DEADLOCK FALSE
