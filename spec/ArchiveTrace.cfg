SPECIFICATION TSpec
CONSTANTS
  MaxEntries = 0
  HdrLens = {}
  Sizes = {}
  ReadSizes = {}
  MaxWrite = 0
  MaxResize = 0
  WithGrow = TRUE
  Pipelined = TRUE
INVARIANTS TypeOK AnnouncedIsProduced ProducedIsCanonical HeaderNeverInPayload OneOpenFile
           ShrinkIsError WrittenIsPrefix Reconstructed
CONSTRAINT HW
POSTCONDITION Accepted
CHECK_DEADLOCK FALSE
