SPECIFICATION Spec
CONSTANTS
  ProtoSet = {0, 1, 2, 3, 4, 5, 9}
  MaxProto = 4
INVARIANTS NoBinaryWithoutTunnel ProtocolClamped OnlyAdds NewlineAsDirect ActOnlyNarrows
CHECK_DEADLOCK FALSE
