\* the strict reading of -B (observation: violated by the initial 10240)
SPECIFICATION Spec
CONSTANTS
  Floor = 1024
  P1Start = 1024
  InitSize = 10240
  HardCap = 1073741824
  BoundFloor = 1048576
  SendCap = 1
  AckCap = 1
  MaxBufs = {4096}
  Modes = {"bin"}
  Protos = {4}
  Secs = {2}
  MaxChunks = 1
  P1MaxChunks = 1
  MaxFiles = 1
  MaxPauses = 0
  StartSizes = {}
  Variant = "coded"
INVARIANTS SizeWithinNegotiated
CHECK_DEADLOCK TRUE
