---------------------------- MODULE TransferTrace ----------------------------
(* Message-level trace validation for Transfer: every protocol line a real role wrote       *)
(* (tapped by the harness wire in write order) must be the send of the Transfer action that *)
(* role is allowed to take in its current state, with the logged value; pure receives,      *)
(* decode/save steps and local loop exits are silent steps.  Used on fault-free runs (C01)  *)
(* and, as far as the run stays inside the model, on stopped runs (C10).                    *)
(* Events per run: reset{upload,proto,files[{dir,size,comp}],...} line{dir,t,v{k,a,b,s}}*   *)
(*                 ret{role,res,...} x2  fs{allsame,...}                                     *)
EXTENDS Transfer, Json, IOUtils, TLCExt

TraceLog == ndJsonDeserialize(IOEnv.VERIF_TRACE)

VARIABLES l, phase, md5hex, allsame
tvars == <<vars, l, phase, md5hex, allsame>>

Ev == TraceLog[l]
More == l <= Len(TraceLog)
IsEvent(e) == More /\ Ev.e = e /\ l' = l + 1
From == IF Ev.dir = "c2s" THEN "C" ELSE "V"
IsLine(r, t) == IsEvent("line") /\ phase = "running" /\ From = r /\ Ev.t = t /\ Ev.v.k # "keep"
KeepT == UNCHANGED <<phase, md5hex, allsame>>

F0 == <<[dir |-> FALSE, size |-> 1, comp |-> FALSE]>>

TInit ==
    /\ cf = [files |-> F0, proto |-> 4, upload |-> TRUE, confirm |-> TRUE]
    /\ chan = [r \in Roles |-> <<>>] /\ dead = [r \in Roles |-> FALSE]
    /\ pc = [r \in Roles |-> "done"] /\ fi = [r \in Roles |-> 0]
    /\ rem = 0 /\ outst = <<>> /\ sdig = Empty /\ got = Empty /\ ackq = <<>> /\ fin = FALSE /\ rsize = 0 /\ nann = 0
    /\ rdig = Empty /\ fileOK = [r \in Roles |-> {}] /\ stopped = [r \in Roles |-> "no"]
    /\ dst = [f \in 1..1 |-> Empty] /\ made = {} /\ result = [r \in Roles |-> "run"]
    /\ faults = 0 /\ told = [r \in Roles |-> FALSE]
    /\ paused = FALSE /\ npause = 0 /\ quiet = 0 /\ maxquiet = 0
    /\ l = 1 /\ phase = "idle" /\ md5hex = "" /\ allsame = TRUE

TReset ==
    /\ IsEvent("reset")
    /\ cf' = [files |-> Ev.files, proto |-> Ev.proto, upload |-> Ev.upload, confirm |-> TRUE]
    /\ chan' = [r \in Roles |-> <<>>] /\ dead' = [r \in Roles |-> FALSE]
    /\ pc' = [r \in Roles |-> IF r = "C" THEN "c_act" ELSE "v_act"] /\ fi' = [r \in Roles |-> 0]
    /\ rem' = 0 /\ outst' = <<>> /\ sdig' = Empty /\ got' = Empty /\ ackq' = <<>> /\ fin' = FALSE /\ rsize' = 0 /\ nann' = 0
    /\ rdig' = Empty /\ fileOK' = [r \in Roles |-> {}] /\ stopped' = [r \in Roles |-> "no"]
    /\ dst' = [f \in 1..Len(Ev.files) |-> Empty] /\ made' = {} /\ result' = [r \in Roles |-> "run"]
    /\ faults' = 0 /\ told' = [r \in Roles |-> FALSE]
    /\ phase' = "running" /\ md5hex' = "" /\ allsame' = TRUE

(* keep-alive lines and harness steering events carry no protocol step *)
TSkip ==
    /\ More /\ l' = l + 1
    /\ \/ Ev.e \in {"stop", "pause", "resume", "fault"}
       \/ (Ev.e = "line" /\ Ev.v.k = "keep")
    /\ UNCHANGED vars /\ KeepT

(* ---- silent steps: pure receives, decode/save, local loop exits ---- *)
NextIsLine == More /\ Ev.e = "line"
NextStep ==   \* saved-steps value announced by the next ack of the receiver, or -1
    IF NextIsLine /\ From = R /\ Ev.t = "SUCC" /\ pc[R] = "r_data"
    THEN (IF Ev.v.k = "pair" THEN Ev.v.b ELSE IF Ev.v.k = "int" THEN Ev.v.a ELSE -1)
    ELSE -1

TSilent ==
    /\ More /\ phase = "running" /\ UNCHANGED l /\ KeepT
    /\ \/ CRecvCfg \/ SRecvNumAck \/ SRecvNameAck \/ SRecvSizeAck \/ SRecvAck1 \/ SRecvAck2 \/ SRecvFinal
       \/ SRecvMD5Ack \/ RRecvComp \/ RRecvData2 \/ SDataDone1 \/ RDataDone1 \/ VExit
       \/ (pc[R] = "r_data" /\ NextStep > Saved /\ RSave(NextStep - Saved))
       \/ (\E r \in Roles : Drain(r))

(* ---- sends ---- *)
TAct == IsLine("C", "ACT") /\ CSendAct /\ KeepT
TCfg == IsLine("V", "CFG") /\ VRecvAct /\ KeepT
TNum == IsLine(S, "NUM") /\ Ev.v.k = "int" /\ Ev.v.a = NF /\ SSendNum /\ KeepT
TName == IsLine(S, "NAME") /\ SSendName /\ KeepT
TSize == IsLine(S, "SIZE") /\ Ev.v.k = "int" /\ Ev.v.a = Files[fi[S]].size /\ SSendSize /\ KeepT
TComp == IsLine(S, "COMP") /\ SSendComp /\ KeepT

NextAckVal == IF l + 1 <= Len(TraceLog) /\ TraceLog[l + 1].e = "line" /\ TraceLog[l + 1].v.k = "int"
              THEN TraceLog[l + 1].v.a ELSE -1
TData ==
    /\ IsLine(S, "DATA") /\ KeepT
    /\ IF Proto < 2 THEN SSendData1(NextAckVal)
       ELSE IF Ev.v.a = 0 THEN SSendFinish
       ELSE SSendData2(Ev.v.a, IF rem = Files[fi[S]].size THEN rem ELSE 0)

TMd5 == IsLine(S, "MD5") /\ Ev.v.k = "bin" /\ SSendMD5 /\ md5hex' = Ev.v.s /\ UNCHANGED <<phase, allsame>>

(* acknowledgements of the receiver: which action depends on where the receiver is *)
TSucc ==
    /\ IsLine(R, "SUCC")
    /\ \/ pc[R] = "r_num" /\ Ev.v.k = "int" /\ RRecvNum /\ Ev.v.a = HeadMsg(R).a /\ KeepT
       \/ pc[R] = "r_name" /\ Ev.v.k \in {"str", "jtarget"} /\ RRecvName /\ KeepT
       \/ pc[R] = "r_size" /\ Ev.v.k = "int" /\ RRecvSize /\ Ev.v.a = HeadMsg(R).a /\ KeepT
       \/ pc[R] = "r_data1" /\ Ev.v.k = "int" /\ RRecvData1 /\ Ev.v.a = HeadMsg(R).b /\ KeepT
       \/ pc[R] = "r_data" /\ Ev.v.k = "pair" /\ RSendAck /\ Ev.v.a = ackq[1] /\ Ev.v.b = Saved /\ KeepT
       \/ pc[R] = "r_data" /\ Ev.v.k = "int" /\ Ev.v.a = Saved /\ (RSendFinal \/ RSendFinalEarly) /\ KeepT
       \/ pc[R] = "r_md5" /\ Ev.v.k = "bin" /\ Ev.v.s = md5hex /\ RRecvMD5 /\ KeepT

TExit == IsLine("C", "EXIT") /\ CExit /\ KeepT

(* ---- outcome ---- *)
TRet ==
    /\ IsEvent("ret") /\ phase = "running"
    /\ ~Ev.hung /\ result[Ev.role] = Ev.res
    /\ UNCHANGED vars /\ KeepT

TFs ==
    /\ IsEvent("fs") /\ phase = "running"
    /\ phase' = "judged" /\ allsame' = Ev.allsame
    /\ UNCHANGED vars /\ UNCHANGED md5hex

TNext == TReset \/ TSkip \/ TSilent \/ TAct \/ TCfg \/ TNum \/ TName \/ TSize \/ TComp \/ TData \/ TMd5 \/ TSucc
         \/ TExit \/ TRet \/ TFs
TSpec == TInit /\ [][TNext /\ UNCHANGED PauseVars]_tvars

-----------------------------------------------------------------------------
(* the destination the model predicts from the messages is the destination observed *)
PredictedDst == phase = "judged" => (allsame <=> \A f \in 1..NF : DstSame(f))
TFidelity == phase = "judged" => Fidelity
TNoFalseSuccess == NoFalseSuccess
TAckWithinSaved == AckWithinSaved

HW == IF l > TLCGet(1) THEN TLCSet(1, l) ELSE TRUE
ASSUME TLCSet(1, 0)
Accepted == IF TLCGet(1) = Len(TraceLog) + 1 THEN TRUE
            ELSE PrintT("HW " \o ToString(TLCGet(1))) /\ FALSE
=============================================================================
