SPECIFICATION Spec
CONSTANTS
  Floor = 1024
  P1Start = 1024
  InitSize = 10240
  HardCap = 1073741824
  BoundFloor = 1048576
  SendCap = 1
  AckCap = 1
  MaxBufs = {1024, 1025, 2048, 3000, 4096, 10239, 10240, 10241, 16384, 65536, 1048575, 1048576, 1048577, 2097152, 10485760, 1073741823, 1073741824}
  Modes = {"bin"}
  Protos = {1, 4}
  Secs = {2, 3, 20}
  MaxChunks = 2
  P1MaxChunks = 21
  MaxFiles = 1
  MaxPauses = 0
  StartSizes = {}
  Variant = "coded"
INVARIANTS Export NeverRejectedByReceiver
CHECK_DEADLOCK FALSE
