SPECIFICATION FairSpec
CONSTANTS
  MaxOut = 2
  MaxIn = 2
  MaxXfer = 2
  MaxZ = 1
  MaxDrag = 1
  FeedOut = {"plain", "cmdlike", "zmhdr", "tlmark", "trig"}
  FeedIn = {"plain", "ctrlc", "pathex"}
  OptSets <- Osc52On
  ExitCodes = {0, 3}
  EchoAssumed = TRUE
INVARIANTS TypeOK PassThroughOut PassThroughIn PtrClearedOnEveryExit NoStuckFlags PromptOnlyInTransfer ExitPassed LastWordsDelivered
PROPERTY Live
CHECK_DEADLOCK FALSE
