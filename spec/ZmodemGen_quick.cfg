SPECIFICATION GSpec
CONSTANTS
  Ups = {TRUE, FALSE}
  Starts = {"ok", "nopath", "nochoice"}
  Vetoes = {"none", "can", "cno"}
  MaxHdr = 1
  MaxSrv = 2
  MaxHout = 2
  MaxCtrlC = 1
  MaxText = 0
  InitBeforePublish = TRUE
  ErrArms = {FALSE}
  MaxQuiet = 1
  MaxSteps = 4
INVARIANTS Export
CHECK_DEADLOCK FALSE
