SPECIFICATION Spec
CONSTANTS
  Configs <- CfgFault
  Window = 2
  MaxFaults = 2
  FaultKinds <- AllKinds
  StopRoles <- NoRoles
INVARIANTS TypeOK Fidelity NoSilentCorruption NoFalseSuccess CleanRunSucceeds
CHECK_DEADLOCK FALSE
