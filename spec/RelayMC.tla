------------------------------ MODULE RelayMC ------------------------------
EXTENDS Relay
\* client: plain before, plain racing the trigger, junk + ACT + rest in one chunk, plain after, the end marker
Cli1 == << <<1>>, <<2>>, <<3, ACT, 4>>, <<5>>, <<6, END>> >>
\* server: plain, trigger chunk with bytes around it, plain racing the handshake, CFG with rest, data
Srv1 == << <<11>>, <<12, TRIG, 13>>, <<14, CFG, 15>>, <<16>> >>
CliNoEnd == << <<1>>, <<2>>, <<3, ACT, 4>>, <<5>>, <<6>> >>
SrvNoCfg == << <<11>>, <<12, TRIG, 13>>, <<16>> >>
Cli2 == << <<1>>, <<ACT>>, <<4>>, <<5, END>> >>
Srv2 == << <<TRIG>>, <<13>>, <<CFG>>, <<15>>, <<16>> >>
\* a handshake whose ACT / CFG cannot be decoded: the relay tells both sides and flushes
CliBadAct == << <<1>>, <<2, BADACT, 3>>, <<4>> >>
SrvForBad == << <<11>>, <<12, TRIG, 13>>, <<16>> >>
CliOK == << <<1>>, <<3, ACT, 4>>, <<5>> >>
SrvBadCfg == << <<11>>, <<12, TRIG, 13>>, <<14, BADCFG, 15>>, <<16>> >>
\* two transfers through the same relay
Cli2R == << <<1>>, <<ACT, 2>>, <<3, END>>, <<4>>, <<5, -11>>, <<6, -14>> >>
Srv2R == << <<TRIG>>, <<CFG, 12>>, <<13>>, <<-13, 14>>, <<-12>>, <<15>> >>
=============================================================================
