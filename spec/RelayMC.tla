------------------------------ MODULE RelayMC ------------------------------
EXTENDS Relay
\* client: plain before, plain racing the trigger, junk + ACT + rest in one chunk, plain after, the end marker
Cli1 == << <<1>>, <<2>>, <<3, ACT, 4>>, <<5>>, <<6, END>> >>
\* server: plain, trigger chunk with bytes around it, plain racing the handshake, CFG with rest, data
Srv1 == << <<11>>, <<12, TRIG, 13>>, <<14, CFG, 15>>, <<16>> >>
SrvNoCfg == << <<11>>, <<12, TRIG, 13>>, <<16>> >>
Cli2 == << <<1>>, <<ACT>>, <<4>>, <<5, END>> >>
Srv2 == << <<TRIG>>, <<13>>, <<CFG>>, <<15>>, <<16>> >>
=============================================================================
