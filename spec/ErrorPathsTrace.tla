-------------------------- MODULE ErrorPathsTrace --------------------------
(* Trace validation for ErrorPaths: consumes the events recorded by harness/x05_errorpaths.go *)
(* from real executions (x05_paths: real client path against real server role bodies over the *)
(* tapped wire; x05_term: resetTerm / serverExit / serverError / background path on a real     *)
(* trzszTransfer) and replays them with ErrorPaths' own actions; every invariant of           *)
(* ErrorPaths is evaluated at every step, the Obs* invariants compare what was observed        *)
(* (stdout of the server, error handed to the client's caller, files left, time to return)    *)
(* with what the design says.                                                                  *)
(* Events per run:                                                                             *)
(*   reset{upload,mode,pre[]}  create{role,f}  stop{role,kind}  break{role,how}               *)
(*   inject{to,t,x,tb,fl[]}  bg                                                                *)
(*   err{role,cls,x,tb,trace,remote,fl[],src}   the error value that reached clientError /    *)
(*        serverError (src = "obj": the value itself -- return value of the role body, the      *)
(*        one-time-upload result; "line": implied by the line the client wrote; "none")         *)
(*   tell{role,t,x,tb,fl[],lost}   a fail / FAIL / EXIT line the role wrote (wire tap)          *)
(*   shown{role,known,ok,x,tb,fl[],resets,prints}   fs{left[]}   time{role,ms,bound}           *)
(* cleanInput turns, the branches of clientError / serverError that write nothing, reading    *)
(* the EXIT line and resetTerm are silent steps.                                               *)
EXTENDS ErrorPaths, Json, IOUtils, TLCExt

TraceLog == ndJsonDeserialize(IOEnv.VERIF_TRACE)
AnyText == Nat

VARIABLES l, obs
tvars == <<vars, l, obs>>

Ev == TraceLog[l]
More == l <= Len(TraceLog)
IsEvent(e) == More /\ Ev.e = e /\ l' = l + 1
SetOf(s) == {s[i] : i \in 1..Len(s)}

Obs0 == [phase |-> "idle", mode |-> "e2e"]

ResetVars(up, pre) ==
    /\ upload' = up
    /\ pc' = [r \in Roles |-> "run"] /\ err' = [r \in Roles |-> NoErr]
    /\ stopf' = [r \in Roles |-> "no"] /\ chan' = [r \in Roles |-> <<>>]
    /\ dead' = [r \in Roles |-> FALSE] /\ mute' = [r \in Roles |-> FALSE]
    /\ made' = [r \in Roles |-> {}] /\ tracked' = [r \in Roles |-> {}] /\ preex' = pre
    /\ deleted' = [r \in Roles |-> {}]
    /\ wrote' = [r \in Roles |-> <<>>]
    /\ final' = NoTxt /\ shown' = [r \in Roles |-> <<>>]
    /\ resets' = 0 /\ bgs' = "no"
    /\ noise' = [r \in Roles |-> 0] /\ turns' = [r \in Roles |-> 0]
    /\ ninj' = 0

TInit ==
    /\ upload = TRUE
    /\ pc = [r \in Roles |-> "run"] /\ err = [r \in Roles |-> NoErr]
    /\ stopf = [r \in Roles |-> "no"] /\ chan = [r \in Roles |-> <<>>]
    /\ dead = [r \in Roles |-> FALSE] /\ mute = [r \in Roles |-> FALSE]
    /\ made = [r \in Roles |-> {}] /\ tracked = [r \in Roles |-> {}] /\ preex = {}
    /\ deleted = [r \in Roles |-> {}]
    /\ wrote = [r \in Roles |-> <<>>]
    /\ final = NoTxt /\ shown = [r \in Roles |-> <<>>]
    /\ resets = 0 /\ bgs = "no"
    /\ noise = [r \in Roles |-> 0] /\ turns = [r \in Roles |-> 0]
    /\ ninj = 0
    /\ l = 1 /\ obs = Obs0

TReset == /\ IsEvent("reset") /\ ResetVars(Ev.upload, SetOf(Ev.pre))
          /\ obs' = [Obs0 EXCEPT !.phase = "running", !.mode = Ev.mode]

Running == obs.phase = "running"
KeepObs == UNCHANGED obs

TCreate == IsEvent("create") /\ Running /\ KeepObs
           /\ \/ Create(Ev.f)
              \/ (Ev.f \in made[Rcv] /\ UNCHANGED vars)          \* the same entry named again

(* the harness calls StopTransferringFiles / stopTransferringFiles: effective only while the  *)
(* CAS on `stopped` can still succeed                                                          *)
TStop == IsEvent("stop") /\ Running /\ KeepObs
         /\ \/ UserStop(Ev.role, Ev.kind)
            \/ UNCHANGED vars

TBreak == /\ IsEvent("break") /\ Running /\ KeepObs
          /\ IF Ev.how = "dead" THEN dead' = [dead EXCEPT ![Ev.role] = TRUE] /\ mute' = mute
             ELSE mute' = [mute EXCEPT ![Ev.role] = TRUE] /\ dead' = dead
          /\ UNCHANGED <<pc, err, stopf, chan, wrote, turns, ninj, upload>> /\ UNCHANGED <<Fs, Term, Traffic>>

TInject == /\ IsEvent("inject") /\ Running /\ KeepObs
           /\ chan' = [chan EXCEPT ![Ev.to] = Append(@, Msg(Ev.t, Ev.x, Ev.tb, SetOf(Ev.fl)))]
           /\ ninj' = ninj
           /\ UNCHANGED <<pc, err, stopf, wrote, turns, dead, mute, upload>> /\ UNCHANGED <<Fs, Term, Traffic>>

TBg == IsEvent("bg") /\ Running /\ KeepObs /\ BgReset

(* the error value: its attributes must be those the design derives for its class *)
ErrIs(r) == /\ err'[r].x = Ev.x /\ err'[r].tb = Ev.tb /\ err'[r].trace = Ev.trace
            /\ err'[r].remote = Ev.remote /\ err'[r].fl = SetOf(Ev.fl)
TErr ==
    /\ IsEvent("err") /\ Running /\ KeepObs
    /\ LET r == Ev.role IN
       \/ /\ Ev.cls \in {"io", "simple", "proto", "panic", "timeout"}
          /\ LocalAny(r, Ev.cls, Ev.x) /\ ErrIs(r)
       \/ /\ Ev.cls = "stop" /\ NoticeStop(r) /\ ErrIs(r)
       \/ /\ Ev.cls = "remote" /\ \E i \in 1..Len(chan[r]) : Remote(r, i) /\ ErrIs(r)
       \/ /\ Ev.cls = "quiet"       \* no value, no line: the peer's own message, or a dead connection
          /\ \/ \E i \in 1..Len(chan[r]) : Remote(r, i)
             \/ (dead[r] /\ (NoticeStop(r) \/ \E c \in {"io", "simple", "proto", "panic", "timeout"} : LocalAny(r, c, 0)))

MsgOfEv == Msg(Ev.t, Ev.x, Ev.tb, SetOf(Ev.fl))
TLine ==
    /\ IsEvent("tell") /\ Running /\ KeepObs
    /\ LET r == Ev.role IN
       /\ mute[r] = Ev.lost
       /\ IF Ev.t = "EXIT" THEN r = "C" /\ CExit(Ev.x) /\ wrote'["C"] = Append(wrote["C"], MsgOfEv)
          ELSE /\ (IF r = "C" THEN TellC ELSE TellV)
               /\ wrote'[r] = Append(wrote[r], MsgOfEv)

(* silent steps *)
(* the text of the server's next final message (trz prints its own list after a good EXIT) *)
NextShownV ==
    LET hi == IF l + 40 < Len(TraceLog) THEN l + 40 ELSE Len(TraceLog)
        ks == {k \in l..hi : TraceLog[k].e = "shown" /\ TraceLog[k].role = "V"}
    IN IF ks = {} THEN 0 ELSE TraceLog[CHOOSE k \in ks : \A j \in ks : k <= j].x
TSilent ==
    /\ More /\ Running /\ UNCHANGED l /\ KeepObs
    /\ \/ \E r \in Roles : CleanDrain(r) \/ CleanDone(r) \/ DropDone(r)
       \/ (TellC /\ wrote' = wrote)
       \/ (TellV /\ wrote' = wrote)
       \/ (\E i \in 1..Len(chan["V"]) : VExitOk(i, NextShownV))
       \/ ResetTerm

(* What was observed against what the design says.  The recorded steps leave choices open    *)
(* (was a stop still effective? what failed behind a dead connection?), so the comparisons     *)
(* are enabling conditions: a run is rejected at the observation no choice can explain.        *)
(*   shown V: TermResetOnce on the server's real stdout (one reset sequence, the final message  *)
(*            once); ShownIsSent / KindMatchesTraceback: the message printed is the design's     *)
(*            final message (text, number of stack traces, files listed)                         *)
(*   shown C: the error the client's caller gets is the design's                                 *)
(*   fs:      the entries this transfer wrote that are still there are the design's `made`       *)
(*   time:    DrainBounded -- from the later of (first provocation, last input delivered to the *)
(*            role) to its return                                                                *)
EvTxt == Txt(Ev.x, Ev.tb, SetOf(Ev.fl))
TShown ==
    /\ IsEvent("shown") /\ Running /\ UNCHANGED vars /\ KeepObs
    /\ IF Ev.role = "V"
       THEN /\ pc["V"] = "done"
            /\ (Ev.ok <=> err["V"].cls = "none")
            /\ Ev.resets = resets /\ Ev.prints = Len(shown["V"]) /\ EvTxt = final
       ELSE /\ (obs.mode = "e2e" => pc["C"] = "done")
            /\ (Ev.known => (Ev.ok <=> err["C"].cls = "none"))
            /\ ((Ev.known /\ ~Ev.ok) => (shown["C"] # <<>> /\ EvTxt = shown["C"][1]))

TFs == IsEvent("fs") /\ Running /\ UNCHANGED vars /\ KeepObs /\ SetOf(Ev.left) = made[Rcv]

TTime == IsEvent("time") /\ Running /\ UNCHANGED vars /\ KeepObs /\ Ev.ms <= Ev.bound

TNext == TReset \/ TCreate \/ TStop \/ TBreak \/ TInject \/ TBg \/ TErr \/ TLine \/ TSilent \/ TShown \/ TFs \/ TTime
TSpec == TInit /\ [][TNext]_tvars

HW == IF l > TLCGet(1) THEN TLCSet(1, l) ELSE TRUE
ASSUME TLCSet(1, 0)
Accepted == IF TLCGet(1) = Len(TraceLog) + 1 THEN TRUE
            ELSE PrintT("HW " \o ToString(TLCGet(1))) /\ FALSE
=============================================================================
