--------------------------- MODULE DetectorTrace ---------------------------
(* Trace validation for Detector (impl -> spec): consumes the ndjson events recorded by       *)
(* harness/c06_detector.go (c06_tv) from real trzszDetector / TrzszFilter executions.         *)
(*   reset {role, win}                              a new detector / filter (new session)     *)
(*   chunk {level, ctl, tun, toks,                  one read fed to the real code ...         *)
(*          fired, mode, ver, ts, sfx, port,        ... what it started (fields of the trigger*)
(*                                                  returned / of the transfer begun)         *)
(*          shown,                                  class of the bytes passed on: "same" |    *)
(*                                                  "retag" (only 00->20 re-tags) | "changed" *)
(*          refire, rmode, rver, rts, rsfx, rport,  a fresh client-mode detector fed with the *)
(*                                                  bytes passed on: fires? with what fields  *)
(*          rmark,                                  passed-on bytes carry one more #R mark    *)
(*          acts, omode, proto2, tport, hello}      filter level: number of #ACT:/#fail: lines*)
(*                                                  on the server writer for this read, mode  *)
(*                                                  class seen, ACT says protocol 2, port the *)
(*                                                  tunnel connector was asked for (-2: not   *)
(*                                                  asked), id in the tunnel greeting         *)
(* Tokens carry the concrete values the harness rendered (ver "1.2.3", ts "17000000000"),     *)
(* plus vclass ("p2" iff 1.1.0 <= ver <= 1.1.3).  The outcome is a function of the history,   *)
(* so the search is linear; a mismatch prints what the specification expects and disables     *)
(* the step (the trace is rejected at that line).  Must is an IF, not a disjunction: TLC      *)
(* would enumerate both disjuncts of an action-level \/ and print for satisfied conditions.   *)
EXTENDS Detector, Json, IOUtils, TLCExt

TraceLog == ndJsonDeserialize(IOEnv.VERIF_TRACE)

VARIABLE l
tvars == <<vars, l>>

Ev == TraceLog[l]
More == l <= Len(TraceLog)
IsEvent(e) == More /\ Ev.e = e /\ l' = l + 1

TInit == /\ role = "client" /\ win = FALSE /\ mem = <<>> /\ seen = <<>> /\ n = 0 /\ l = 1

TReset == IsEvent("reset") /\ Reset(Ev.role, Ev.win)

Must(cond, what, o) ==
    IF cond THEN TRUE ELSE (PrintT("MISMATCH " \o ToJson([line |-> l, what |-> what, role |-> role, win |-> win, level |-> Ev.level,
                                            why |-> o.why, want_fired |-> o.fired, want_mode |-> o.mode, want_ver |-> o.ver,
                                            want_ts |-> o.ts, want_sfx |-> o.sfx, want_port |-> o.port,
                                            memlen |-> Len(mem)])) /\ FALSE)

ModeSeen(om, m) == om = m \/ (om = "RD" /\ m \in {"R", "D"})

TChunk ==
    /\ IsEvent("chunk")
    /\ LET c == [ctl |-> Ev.ctl, toks |-> Ev.toks]
           o == Detect(role, win, Ev.tun, mem, c)
           k == c.toks[LastOcc(c.toks)] IN
       /\ Must(Ev.fired = o.fired, "fired", o)
       /\ o.fired =>
            /\ Must(Ev.mode = o.mode /\ Ev.ver = o.ver /\ Ev.port = o.port, "fields", o)
            /\ Must(Ev.ts = o.ts /\ Ev.sfx = o.sfx, "id", o)
       (* the form passed on *)
       /\ (role = "client" /\ o.fired) => Must(~Ev.refire, "shown-form-not-inert", o)
       /\ (role = "client" /\ ~o.fired) => Must(Ev.shown = "same", "not-transparent", o)
       /\ (role # "client" /\ o.fired) =>
            /\ Must(Ev.rmark, "relay-mark-missing", o)
            /\ Must(Ev.refire, "relay-form-not-recognised", o)
            /\ Must(Ev.rmode = o.mode /\ Ev.rver = o.ver /\ Ev.rport = o.port, "relay-form-fields", o)
            /\ Must(Ev.rts = o.ts /\ Ev.rsfx = o.sfx, "relay-form-id", o)
       /\ (role = "relay" /\ ~o.fired) => Must(Ev.shown = "same", "not-transparent", o)
       /\ (role = "relaytmux" /\ ~o.fired) => Must(Ev.shown \in {"same", "retag"}, "not-transparent", o)
       (* transfers actually started by the wrapper *)
       /\ Ev.level = "filter" =>
            /\ Must(Ev.acts = (IF o.fired THEN 1 ELSE 0), "transfers-started", o)
            /\ o.fired =>
                 /\ Must(ModeSeen(Ev.omode, o.mode), "transfer-mode", o)
                 /\ Must(Ev.omode = "R" \/ (Ev.proto2 <=> (k.vclass = "p2")), "transfer-version", o)
                 /\ Must(Ev.tun => (Ev.tport = o.port), "tunnel-port", o)
                 /\ Must(~Ev.tun => (Ev.tport = -2), "tunnel-port", o)
                 /\ Must((Ev.tun /\ Ev.hello # "") => Ev.hello = o.ts, "tunnel-greeting-id", o)
       /\ Step(c, Ev.tun)

TNext == TReset \/ TChunk

TSpec == TInit /\ [][TNext]_tvars

(* high-water mark of consumed lines; TLCSet/TLCGet register 1, -workers 1 *)
HW == IF l > TLCGet(1) THEN TLCSet(1, l) ELSE TRUE
ASSUME TLCSet(1, 0)
Accepted == IF TLCGet(1) = Len(TraceLog) + 1 THEN TRUE
            ELSE PrintT("HW " \o ToString(TLCGet(1))) /\ FALSE
=============================================================================
