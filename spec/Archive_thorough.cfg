SPECIFICATION Spec
CONSTANTS
  MaxEntries = 4
  HdrLens = {1, 3}
  Sizes = {0, 1, 3}
  ReadSizes = {1, 2, 3, 4}
  MaxWrite = 28
  MaxResize = 1
  WithGrow = FALSE
  Pipelined = FALSE
INVARIANTS TypeOK AnnouncedIsProduced ProducedIsCanonical HeaderNeverInPayload OneOpenFile
           ShrinkIsError WrittenIsPrefix Reconstructed
CHECK_DEADLOCK FALSE
