SPECIFICATION RSpec
CONSTANTS
  MaxMem = 100
  PruneN = 50
  MaxChunks = 300
  MaxToks = 1
  Roles = {"client", "relay", "relaytmux"}
  WinVals = {TRUE, FALSE}
  Modes = {"R"}
  Vers = {"new"}
  Ports <- PortsNone
  Shapes = {"s10", "s20"}
  TsSet <- Ts200
  PartKinds = {}
  Markers = {}
  Places = {}
  CtlKinds = {"none"}
  WithJunk = FALSE
INVARIANTS Export
CHECK_DEADLOCK FALSE
