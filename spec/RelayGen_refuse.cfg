SPECIFICATION GSpec
CONSTANTS
  CliChunks <- GCliR
  SrvChunks <- GSrvR
  Confirm = FALSE
  Recheck = TRUE
  FlushFirst = TRUE
  HoldCfg = 0
INVARIANTS Export Order NothingLost ParkOnlyWhileHandshaking JunkIsBeforeLine
CHECK_DEADLOCK FALSE
