SPECIFICATION TSpec
CONSTANTS
  TableUniverse = {}
  WithBuiltin = FALSE
  Bytes = {}
  MaxLen = 0
  MaxSeg = 0
  Caps = {}
  MaxRaw = 0
INVARIANTS TypeOK ObsTypeOK
CONSTRAINT HW
POSTCONDITION Accepted
CHECK_DEADLOCK FALSE
