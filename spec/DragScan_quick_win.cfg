SPECIFICATION Spec
CONSTANTS
  OSes = {"win"}
  AlphaLinux = {}
  AlphaMac = {}
  AlphaWin = {"WC", "MC", "YC", "a", "SP", "DQ", "SQ", "BS", "SL"}
  MaxSyms = 4
  RootLen = 3
  FSNames = {"W1"}
  Quirks = {"MinLen", "MacRel", "MacTail"}
INVARIANTS TypeOK AllOrNothing NoDragLeavesInputUntouched CursorMonotone HasDirIff DragHasFiles NoDragNoFiles
           IgnoreMeansMarksOnly IsWinMeansWinHead AbsoluteOnly RefUnique DeadBranches
PROPERTIES CursorStep
CHECK_DEADLOCK TRUE
