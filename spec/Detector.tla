------------------------------ MODULE Detector ------------------------------
(* C06 - "a trigger starts exactly one transfer; look-alikes and replays start none".        *)
(* Mirrors trzsz/comm.go: trzszDetector (uniqueIDMap), detectTrzsz, isRepeatedID,            *)
(* rewriteTrzszTrigger, addRelaySuffix; the trigger format is the one trz.go/tsz.go print.   *)
(*                                                                                            *)
(* One read of server output (a "chunk") is a list of tokens, optionally under tmux           *)
(* control-mode framing (ctl):                                                                *)
(*   [t |-> "junk"]                               bytes that contain no token                 *)
(*   [t |-> "trig", mode, ver, shape, ts, sfx, port]                                          *)
(*        a complete trigger line  ESC7 BEL ::TRZSZ:TRANSFER:<mode>:<ver>[:<id>][:<port>] CRLF *)
(*        id = ts \o sfx;  shape: "none" (absent) | "short" (<= 6 digits) | "s00" "s10" "s20" *)
(*        (13 digits, role suffix: plain / Windows server / tmux normal mode) | "d15"         *)
(*        (15 digits, suffix 10 or 20);  port = -1 when absent                                *)
(*   [t |-> "part", k]                            a trigger cut or corrupted (kind k)         *)
(*   [t |-> "fin", marker, place]                 tail of a finished transfer's transcript    *)
(*        (Saved / Cancelled / Stopped / Interrupted / #CFG:), place "near" = immediately     *)
(*        after the preceding line, "far" = after >= 40 other bytes                           *)
(*   ctl: "none" | "out" (%output %N ) | "ext" (%extended-output %N A : ) | "fake" (a         *)
(*        look-alike of the framing) - the framing precedes every trigger occurrence of the   *)
(*        chunk (the trace/gen modules spell it out as CtlPrefix tokens for the harness).     *)
(*                                                                                            *)
(* Detect is written from the property, not from the code: what starts a transfer is decided  *)
(* by the LAST trigger occurrence of the chunk.  Actions (one per outcome branch of           *)
(* detectTrzsz / isRepeatedID):                                                               *)
(*   Ignore(c,tun)        return output, nil            (no start, memory unchanged)          *)
(*   Fire(c,tun)          trigger returned, id not of a remembered kind                       *)
(*   FireRemember(c,tun)  trigger returned, id appended to the memory                         *)
(*   FirePrune(c,tun)     as before, after the memory was pruned (past MaxMem entries the     *)
(*                        oldest PruneN are forgotten; 100 / 50 in the code)                  *)
EXTENDS Integers, Sequences, FiniteSets, TLC

CONSTANTS MaxMem, PruneN,      \* pruning thresholds (code: 100, 50)
          MaxChunks,           \* bound on chunks per behaviour
          MaxToks,             \* bound on tokens per chunk
          Roles,               \* subset of {"client", "relay", "relaytmux"}
          WinVals,             \* subset of BOOLEAN: isWindowsEnvironment()
          Modes, Vers, Ports,  \* trigger fields (Ports contains -1 for "absent")
          Shapes, TsSet,       \* id shapes and abstract timestamps
          PartKinds, Markers, Places, CtlKinds,
          WithJunk             \* BOOLEAN: junk tokens in the alphabet

(* a .cfg cannot spell negative numbers: Ports <- PortsSmall / PortsAll                       *)
PortsSmall == {-1, 7}
PortsAll   == {-1, 0, 65535}
PortsNone  == {-1}

VARIABLES role, win, mem, seen, n
vars == <<role, win, mem, seen, n>>

-----------------------------------------------------------------------------
(* Alphabet                                                                                   *)

SfxOf(shape) == CASE shape = "s00" -> "00" [] shape = "s10" -> "10" [] shape = "s20" -> "20"
                  [] shape = "d15" -> "20" [] OTHER -> ""
TsOf(shape) == IF shape \in {"none", "short"} THEN {0} ELSE TsSet

TrigToks == { [t |-> "trig", mode |-> m, ver |-> v, shape |-> s, ts |-> x, sfx |-> SfxOf(s), port |-> p] :
                 m \in Modes, v \in Vers, s \in Shapes, x \in TsSet \cup {0}, p \in Ports }
TrigOK(k) == k.ts \in TsOf(k.shape) /\ (k.shape = "none" => k.port = -1)
PartToks == { [t |-> "part", k |-> k] : k \in PartKinds }
FinToks  == { [t |-> "fin", marker |-> m, place |-> p] : m \in Markers, p \in Places }
JunkTok  == [t |-> "junk"]
Tokens   == {k \in TrigToks : TrigOK(k)} \cup PartToks \cup FinToks \cup (IF WithJunk THEN {JunkTok} ELSE {})

TokSeqs == UNION { [1..k -> Tokens] : k \in 1..MaxToks }
Chunks  == { [ctl |-> f, toks |-> s] : f \in CtlKinds, s \in TokSeqs }

(* a "part" token whose text still contains the whole marker ::TRZSZ:TRANSFER:              *)
OccurringKinds == {"marker", "mode", "ver2", "badmode"}
IsOcc(tok) == tok.t = "trig" \/ (tok.t = "part" /\ tok.k \in OccurringKinds)

LastOcc(toks) == IF \E i \in 1..Len(toks) : IsOcc(toks[i])
                 THEN CHOOSE i \in 1..Len(toks) : IsOcc(toks[i]) /\ \A j \in (i + 1)..Len(toks) : ~IsOcc(toks[j])
                 ELSE 0

FinAfter(toks, i) == \E j \in (i + 1)..Len(toks) : toks[j].t = "fin"

Framed(c) == c.ctl \in {"out", "ext"}

-----------------------------------------------------------------------------
(* Ids.  A relay inside tmux re-tags a plain 13-digit id (suffix 00 -> 20) before anything    *)
(* else, so that the redraws tmux produces are recognised as repeats.                         *)

EffShape(r, tok) == IF r = "relaytmux" /\ tok.shape = "s00" THEN "s20" ELSE tok.shape
EffSfx(r, tok)   == IF r = "relaytmux" /\ tok.shape = "s00" THEN "20" ELSE tok.sfx
IdKey(r, tok)    == [ts |-> tok.ts, sfx |-> EffSfx(r, tok), d15 |-> tok.shape = "d15"]

(* "tmux or Windows unique id": role suffix 10 / 20 on a 13+ digit id, or any 13+ digit id    *)
(* when the wrapper itself runs in a Windows environment (the console redraws).               *)
(* "p11": the 10-12 digit ids other trz / tsz implementations print inside tmux and on Windows *)
(* (milliseconds modulo 10^11, no role suffix): longer than six digits, so a redraw repeating  *)
(* one is a repeat like the others.                                                           *)
Dedupable(r, w, tok) == LET sh == EffShape(r, tok) IN sh \in {"s10", "s20", "d15", "p11"} \/ (sh = "s00" /\ w)

InMem(m, key) == \E i \in 1..Len(m) : m[i] = key

Remember(m, key) == LET m2 == IF Len(m) > MaxMem THEN SubSeq(m, PruneN + 1, Len(m)) ELSE m
                    IN Append(m2, key)

-----------------------------------------------------------------------------
(* Detect: what one read starts.                                                              *)

PortNum(tok) == IF tok.port = -1 THEN 0 ELSE tok.port

(* the control-mode rule: inside real framing a transfer is only possible through a tunnel,   *)
(* i.e. when the wrapper has a tunnel connector and the trigger advertises a port             *)
CtlOK(c, tok, tun) == ~Framed(c) \/ (tun /\ tok.port # -1)

NoStart(m) == [fired |-> FALSE, mode |-> "", ver |-> "", ts |-> 0, sfx |-> "", port |-> 0,
               why |-> "", mem |-> m, pruned |-> FALSE, remembered |-> FALSE]

Detect(r, w, tun, m, c) ==
    LET i == LastOcc(c.toks) IN
    IF i = 0 THEN [NoStart(m) EXCEPT !.why = "no-trigger"]
    ELSE LET tok == c.toks[i] IN
         IF tok.t # "trig" THEN [NoStart(m) EXCEPT !.why = "incomplete"]
         ELSE IF ~CtlOK(c, tok, tun) THEN [NoStart(m) EXCEPT !.why = "control-mode"]
         ELSE IF FinAfter(c.toks, i) THEN [NoStart(m) EXCEPT !.why = "scrollback"]
         ELSE IF Dedupable(r, w, tok) /\ InMem(m, IdKey(r, tok)) THEN [NoStart(m) EXCEPT !.why = "replay"]
         ELSE [fired |-> TRUE, mode |-> tok.mode, ver |-> tok.ver, ts |-> tok.ts, sfx |-> EffSfx(r, tok),
               port |-> PortNum(tok), why |-> "fresh",
               mem |-> IF Dedupable(r, w, tok) THEN Remember(m, IdKey(r, tok)) ELSE m,
               pruned |-> Dedupable(r, w, tok) /\ Len(m) > MaxMem,
               remembered |-> Dedupable(r, w, tok)]

(* The forms a fired chunk is passed on in.                                                   *)
(*  client (RewriteClient): every TRZSZ becomes TRZSZGO - no token is a trigger occurrence    *)
(*  any more ("go" kind), whatever the tokens were.                                           *)
(*  relay (RewriteRelay): the starting trigger keeps its grammar and gets the mark #R behind  *)
(*  its last field; inside tmux plain 13-digit ids are shown re-tagged.                        *)
GoTok(tok) == IF tok.t \in {"trig", "part"} THEN [t |-> "part", k |-> "gover"] ELSE tok
ShownClient(c) == [ctl |-> c.ctl, toks |-> [j \in 1..Len(c.toks) |-> GoTok(c.toks[j])]]

Retag(r, tok) == IF tok.t = "trig" /\ r = "relaytmux" /\ tok.shape = "s00"
                 THEN [tok EXCEPT !.shape = "s20", !.sfx = "20"] ELSE tok
ShownRelay(r, c) == [ctl |-> c.ctl, toks |-> [j \in 1..Len(c.toks) |-> Retag(r, c.toks[j])]]

-----------------------------------------------------------------------------
Init ==
    /\ role \in Roles /\ win \in WinVals
    /\ mem = <<>> /\ seen = <<>> /\ n = 0

Reset(r, w) ==
    /\ role' = r /\ win' = w /\ mem' = <<>> /\ seen' = <<>> /\ n' = 0

Out(c, tun) == Detect(role, win, tun, mem, c)

Step(c, tun) ==
    LET o == Out(c, tun) IN
    /\ n < MaxChunks
    /\ mem' = o.mem
    /\ seen' = IF o.fired /\ o.remembered THEN Append(seen, IdKey(role, c.toks[LastOcc(c.toks)])) ELSE seen
    /\ n' = n + 1
    /\ UNCHANGED <<role, win>>

Ignore(c, tun)       == ~Out(c, tun).fired /\ Step(c, tun)
Fire(c, tun)         == Out(c, tun).fired /\ ~Out(c, tun).remembered /\ Step(c, tun)
FireRemember(c, tun) == Out(c, tun).fired /\ Out(c, tun).remembered /\ ~Out(c, tun).pruned /\ Step(c, tun)
FirePrune(c, tun)    == Out(c, tun).fired /\ Out(c, tun).pruned /\ Step(c, tun)

Next ==
    \/ \E c \in Chunks, tun \in BOOLEAN : Ignore(c, tun)
    \/ \E c \in Chunks, tun \in BOOLEAN : Fire(c, tun)
    \/ \E c \in Chunks, tun \in BOOLEAN : FireRemember(c, tun)
    \/ \E c \in Chunks, tun \in BOOLEAN : FirePrune(c, tun)

Spec == Init /\ [][Next]_vars

-----------------------------------------------------------------------------
(* Properties (C06), stated over every chunk that may come next in every reachable history.   *)
(* They are phrased from the property text, independently of the branches of Detect.          *)

Last(c) == c.toks[LastOcc(c.toks)]
EndsWithTrigger(c) == LastOcc(c.toks) > 0 /\ Last(c).t = "trig"
IsReplay(c) == EndsWithTrigger(c) /\ Dedupable(role, win, Last(c)) /\ InMem(mem, IdKey(role, Last(c)))

TypeOK ==
    /\ Len(mem) <= MaxMem + 1
    /\ \A i, j \in 1..Len(mem) : i # j => mem[i] # mem[j]

(* a read starts at most one transfer, and none without a complete trigger in it *)
AtMostOnePerChunk ==
    \A c \in Chunks, tun \in BOOLEAN :
        LET o == Out(c, tun) IN
        /\ o.fired \in BOOLEAN
        /\ (~EndsWithTrigger(c)) => ~o.fired

(* the transfer started is the one advertised by the (last) trigger line *)
FieldsAsAdvertised ==
    \A c \in Chunks, tun \in BOOLEAN :
        LET o == Out(c, tun) IN
        o.fired => /\ o.mode = Last(c).mode /\ o.ver = Last(c).ver
                   /\ o.ts = Last(c).ts /\ o.port = PortNum(Last(c))
                   /\ (o.sfx = Last(c).sfx \/ (role = "relaytmux" /\ Last(c).sfx = "00" /\ o.sfx = "20"))

(* what the client shows locally is inert for any wrapper further along, whatever it remembers *)
ShownFormInert ==
    \A c \in Chunks, tun \in BOOLEAN :
        (role = "client" /\ Out(c, tun).fired) =>
            \A t2 \in BOOLEAN, w2 \in BOOLEAN :
                /\ ~Detect("client", w2, t2, <<>>, ShownClient(c)).fired
                /\ ~Detect("client", w2, t2, mem, ShownClient(c)).fired

(* what a relay forwards is still a trigger for the real client: same fields, id up to re-tag *)
RelayFormStillRecognised ==
    \A c \in Chunks, tun \in BOOLEAN :
        LET o == Out(c, tun) IN
        (role # "client" /\ o.fired) =>
            LET o2 == Detect("client", win, tun, <<>>, ShownRelay(role, c)) IN
            /\ o2.fired /\ o2.mode = o.mode /\ o2.ver = o.ver /\ o2.port = o.port
            /\ o2.ts = o.ts /\ o2.sfx = o.sfx

(* a redraw repeating a remembered tmux / Windows id starts nothing *)
ReplaySuppressed ==
    \A c \in Chunks, tun \in BOOLEAN : IsReplay(c) => ~Out(c, tun).fired

(* ... and the most recent ids are always remembered, whatever was pruned *)
RecentRemembered ==
    LET keep == MaxMem + 2 - PruneN
        from == IF Len(seen) > keep THEN Len(seen) - keep + 1 ELSE 1 IN
    \A i \in from..Len(seen) : InMem(mem, seen[i])

(* scroll-back of a finished transfer starts nothing *)
ScrollbackSuppressed ==
    \A c \in Chunks, tun \in BOOLEAN :
        (LastOcc(c.toks) > 0 /\ FinAfter(c.toks, LastOcc(c.toks))) => ~Out(c, tun).fired

(* a genuine trigger with an id not seen (or of a kind that is never remembered) does start   *)
FreshIdFires ==
    \A c \in Chunks, tun \in BOOLEAN :
        ( /\ EndsWithTrigger(c) /\ ~FinAfter(c.toks, LastOcc(c.toks))
          /\ (~Framed(c) \/ (tun /\ Last(c).port # -1))
          /\ ~IsReplay(c) ) => Out(c, tun).fired

=============================================================================
