SPECIFICATION Spec
CONSTANTS
  Files = {}
  Texts = {3}
  Classes = {"stop", "remote"}
  MaxInject = 1
  MaxNoise = 0
  WithBg = FALSE
  WithDead = {}
  AsCoded = FALSE
  Mutant = "none"
INVARIANTS TypeOK ToldAtMostOnce ToldUnlessPeerKnows KindMatchesTraceback ShownIsSent OnlyCreated TermResetOnce DrainBounded

CHECK_DEADLOCK FALSE
