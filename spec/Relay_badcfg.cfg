SPECIFICATION Spec
CONSTANTS
  CliChunks <- CliOK
  SrvChunks <- SrvBadCfg
  Confirm = TRUE
  Recheck = TRUE
  FlushFirst = TRUE
INVARIANTS Order NothingLost ParkOnlyWhileHandshaking JunkIsBeforeLine
PROPERTIES Progress
CHECK_DEADLOCK FALSE
