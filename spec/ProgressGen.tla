---------------------------- MODULE ProgressGen ----------------------------
(* Test-case generator for Progress (model-based testing, spec -> implementation).          *)
(* A case is one drawn update: a bar of a given width / tmux pane, a file count, a name,     *)
(* and a witness of the catalogue recorded from the real formatters (size, step, elapsed    *)
(* time and the lengths of the total / speed / ETA texts they produce; the percentage is    *)
(* the model's own).  The model's OnStep predicts what is written.  One case is printed per *)
(* signature = (rung, fields kept, how the name is shown, bar or not, empty/partial/full    *)
(* bar, class of step/size, redraw prefix, whether the width is the narrowest / the widest  *)
(* one of its rung), i.e. per (rung, deciding guard, clamp) transition with both of its     *)
(* edges; harness/c20_progress.go (c20_mbt) makes the real calls and the observed line must *)
(* be the predicted one.                                                                    *)
EXTENDS Progress, Json, IOUtils, TLCExt

Witnesses == ndJsonDeserialize(IOEnv.VERIF_CATALOGUE)
Seed == IF "VERIF_SEED" \in DOMAIN IOEnv THEN atoi(IOEnv.VERIF_SEED) ELSE 1

VARIABLES gw,      \* index of the witness
          gp0,     \* an earlier update (step 0 at time 0) was drawn: redraw prefix cr / csi
          garg     \* the columns argument of newTextProgressBar
gvars == <<vars, gw, gp0, garg>>

Wit == Witnesses[gw]

GInit ==
    /\ gw \in 1..Len(Witnesses) /\ gp0 \in BOOLEAN /\ garg \in ColsSet
    /\ pane \in PaneSet
    /\ cols = (IF pane > 1 THEN pane - 1 ELSE garg)
    /\ (gp0 => Wit.el >= 200 /\ Wit.size.s >= 0 /\ Wit.step.s > 0)
    /\ count \in CountSet /\ idx = 1 /\ name \in Names
    \* the redraw prefix (tmux pane / earlier update) does not interact with the ladder: it is
    \* combined with a few widths, names and witnesses only
    /\ ((pane # 0 \/ gp0) => /\ garg \in {5, 30, 80}
                              /\ count = (CHOOSE n \in CountSet : TRUE)
                              /\ name \in {NameOf("ascii", 10), NameOf("cjk", 44)}
                              /\ gw % 4 = 1)
    /\ pre = Zero /\ size = Wit.size
    /\ step = (IF gp0 THEN Zero ELSE FromInt(-1))
    /\ first = ~gp0 /\ hasLast = gp0 /\ pausing = FALSE
    /\ lastPct = (IF gp0 THEN PctOf(Zero, Wit.size) ELSE -1)
    /\ outp = NoOut("name") /\ fin = FALSE
    /\ calls = 0

GNext ==
    /\ calls = 0 /\ calls' = 1
    /\ OnStep(Wit.step, Wit.el, Wit.lens)
    /\ UNCHANGED <<gw, gp0, garg>>

GSpec == GInit /\ [][GNext]_gvars

RungAt(c) == Ladder(c, FullLeft(count, idx, name), outp.pl, Wit.lens).rung

Sig ==
    <<outp.rung, outp.nf, outp.match, outp.bar, outp.cls, outp.pfx,
      IF ~outp.bar THEN "none" ELSE IF outp.full = 0 THEN "empty" ELSE IF outp.full = outp.total THEN "full" ELSE "part",
      RungAt(cols - 1) # outp.rung, RungAt(cols + 1) # outp.rung,
      (cols + Seed) % 2>>

Case == [w |-> Wit.id, cols |-> garg, pane |-> pane, count |-> count, name |-> name, pre0 |-> gp0,
         sig |-> Sig,
         exp |-> [res |-> outp.res, cols |-> outp.cols, rung |-> outp.rung, nf |-> outp.nf, k |-> outp.k,
                  match |-> outp.match, bar |-> outp.bar, total |-> outp.total, full |-> outp.full,
                  w |-> outp.w, pct |-> outp.pct, pl |-> outp.pl, pfx |-> outp.pfx, pn |-> outp.pn,
                  cls |-> outp.cls]]

(* registers are per worker: every worker prints the first case it sees of a signature *)
ASSUME TLCSet(3, {})
Export ==
    (calls = 1 /\ outp.res = "rendered") =>
        IF Sig \in TLCGet(3) THEN TRUE
        ELSE TLCSet(3, TLCGet(3) \cup {Sig}) /\ PrintT("MBT " \o ToJson(Case))
=============================================================================
