SPECIFICATION Spec
CONSTANTS
  N = 3
  StrayScripts = {"wrong", "wrongid", "long", "right", "split", "silent", "flood"}
  Outcomes = {"refuse", "dead", "good", "badreply", "noreply"}
  Rendezvous = TRUE
  MaxData = 0
  Pumps = FALSE
INVARIANTS TypeOK AtMostOneAdopted AdoptedAuthenticated NoAnswerToStrangers OnlyAdoptedFeeds FallbackWorks AgreeConsistent NoLateAdoption
PROPERTIES InbandIgnoredAfterAgree
CHECK_DEADLOCK FALSE
