SPECIFICATION GSpec
CONSTANTS
  CliChunks <- GCliD
  SrvChunks <- GSrvD
  Confirm = TRUE
  Recheck = TRUE
  FlushFirst = TRUE
  HoldCfg = 13
INVARIANTS Export Order NothingLost ParkOnlyWhileHandshaking JunkIsBeforeLine
CHECK_DEADLOCK FALSE
