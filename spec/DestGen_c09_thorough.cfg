SPECIFICATION Spec
CONSTANTS
  MaxSuffix = 1
  Validate = "ascoded"
  Chain <- ChainDef
  Pres <- C09Pres
  Sources <- C09Sources
  HostileNames <- C09NamesThorough
  HostileVar <- C09Var
  Cfgs <- C09GenCfgs
  Rounds = 1
INVARIANTS Export09
CHECK_DEADLOCK FALSE
