SPECIFICATION Spec
CONSTANTS
  B = 3
  MaxBlocks = 2
  Protocols = {2, 3, 4}
  AllPatterns = FALSE
  StepCheck = TRUE
  AsCoded = FALSE
INVARIANTS TypeOK FinalEqualsSrc MatchIsProven SkippedNeverExceedsProven TailCut KeptOnlyProven OthersUntouched NoFailure NoStuck
CHECK_DEADLOCK FALSE
