------------------------------ MODULE RelayCfg ------------------------------
(* Data part of a relay's handshake (relay.go handshake(): the action forwarded to the server  *)
(* and the configuration forwarded to the client), composed with the servers' own rule          *)
(* (trz.go / tsz.go: binary only if the client supports it; transfer.go sendConfig: binary and  *)
(* no escape table over a tunnel) -- C14: a relay only narrows what the two ends negotiate.     *)
EXTENDS Integers, Sequences, FiniteSets, TLC, Json

CONSTANTS ProtoSet,        \* protocol versions a client may announce (0 = field absent)
          MaxProto         \* kProtocolVersion of the relay and of the server

(* what a client may announce *)
(* (a client that is connected through the tunnel always announces the plain newline:          *)
(*  transfer.go sendAction sets "!\n" only when the tunnel is not connected)                     *)
Actions == {a \in [binary : BOOLEAN, dir : BOOLEAN, fork : BOOLEAN, proto : ProtoSet, winnl : BOOLEAN,
                   tunnel : BOOLEAN, confirm : BOOLEAN] : ~(a.tunnel /\ a.winnl)}
(* the server's options (baseArgs) and its tmux situation *)
Args == [quiet : BOOLEAN, overwrite : BOOLEAN, binary : BOOLEAN, directory : BOOLEAN, bufk : {1, 10240},
         timeout : {0, 20}, compress : {0, 1}, stmux : BOOLEAN,
         winsrv : BOOLEAN,      \* the trigger says the server runs on Windows ("!\n" line framing)
         swidth : {0, 50, 200}] \* the server's own tmux pane width (0: none reported)
(* the relay's own situation *)
Relays == [tmux : BOOLEAN, width : {0, 80}]

Min(a, b) == IF a < b THEN a ELSE b

(* relay.go handshake(): what is sent on to the server *)
RewriteAct(a) == [a EXCEPT !.binary = IF a.tunnel THEN @ ELSE FALSE,
                           !.proto = IF @ > MaxProto THEN MaxProto ELSE @]

(* trz.go recvFiles / tsz.go sendFiles + transfer.go sendConfig *)
ServerCfg(act, g) ==
    [quiet |-> g.quiet, overwrite |-> g.overwrite, directory |-> g.directory, bufk |-> g.bufk, timeout |-> g.timeout,
     compress |-> g.compress,
     binary |-> (act.tunnel \/ (g.binary /\ act.binary)),
     proto |-> IF act.proto > 0 THEN Min(act.proto, MaxProto) ELSE 0,
     junk |-> g.stmux, width |-> g.swidth,
     newline |-> "absent"]          \* a server never sends the newline field

(* relay.go handshake(): what is sent on to the client *)
(* recvConfig's default for the newline the client is told to use: Windows framing only for a  *)
(* Windows server without a tunnel -- exactly what a directly connected client would use        *)
RewriteCfg(c, r, a, g) == [c EXCEPT !.junk = (@ \/ r.tmux), !.width = IF @ <= 0 /\ r.width > 0 THEN r.width ELSE @,
                                    !.newline = IF g.winsrv /\ ~a.tunnel THEN "win" ELSE "plain"]

VARIABLES act, args, relay, actOut, cfgIn, cfgOut, done
vars == <<act, args, relay, actOut, cfgIn, cfgOut, done>>

(* a server asked for directory mode refuses a client that does not support it (trz.go/tsz.go): *)
(* no configuration is exchanged then, so these combinations are outside this module           *)
Init == /\ act \in Actions /\ args \in Args /\ relay \in Relays
        /\ (args.directory => act.dir)
        \* a client facing a Windows server announces the Windows newline (sendAction: remoteIsWindows);
        \* Windows servers behind a tunnel are outside this module
        /\ (args.winsrv => act.winnl /\ ~act.tunnel)
        /\ (args.swidth > 0 => args.stmux)          \* only a server inside tmux reports a pane width
        /\ actOut = RewriteAct(act) /\ cfgIn = ServerCfg(RewriteAct(act), args)
        /\ cfgOut = RewriteCfg(ServerCfg(RewriteAct(act), args), relay, act, args) /\ done = FALSE
Next == ~done /\ done' = TRUE /\ UNCHANGED <<act, args, relay, actOut, cfgIn, cfgOut>>
Spec == Init /\ [][Next]_vars

(* C14 *)
NoBinaryWithoutTunnel == cfgOut.binary => act.tunnel
ProtocolClamped == /\ actOut.proto <= Min(act.proto, MaxProto) \/ (act.proto <= MaxProto /\ actOut.proto = act.proto)
                   /\ actOut.proto <= MaxProto /\ cfgOut.proto <= MaxProto
                   /\ (act.proto > 0 => cfgOut.proto <= act.proto)
OnlyAdds == /\ \A f \in {"quiet", "overwrite", "directory", "bufk", "timeout", "compress", "binary", "proto"} : cfgOut[f] = cfgIn[f]
            /\ (cfgIn.junk => cfgOut.junk) /\ (cfgIn.width > 0 => cfgOut.width = cfgIn.width)
(* the line framing the client is told to use is the one it would use when connected directly *)
NewlineAsDirect == cfgOut.newline = (IF args.winsrv /\ ~act.tunnel THEN "win" ELSE "plain")
ActOnlyNarrows == /\ (actOut.binary => act.binary) /\ actOut.dir = act.dir /\ actOut.fork = act.fork
                  /\ actOut.winnl = act.winnl /\ actOut.tunnel = act.tunnel /\ actOut.confirm = act.confirm

Export == done => PrintT("MBT " \o ToJson([act |-> act, args |-> args, relay |-> relay, actOut |-> actOut,
                                            cfgIn |-> cfgIn, cfgOut |-> cfgOut]))
=============================================================================
