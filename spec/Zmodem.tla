------------------------------- MODULE Zmodem -------------------------------
(* trzsz/zmodem.go (zmodemTransfer) and the zmodem branches of trzsz/filter.go               *)
(* (wrapOutput, sendInput).  One action per critical section of the Go code, named after it: *)
(*                                                                                            *)
(*   output pump (wrapOutput)       Detect(u,st,v)   header chunk while no session exists    *)
(*                                  Out(k), Rearm    any other chunk: handleServerOutput's   *)
(*                                                   four branches / plain pass-through,     *)
(*                                                   filter drops the session on "declined"  *)
(*   input pump (sendInput)         InBegin(k), InCheck    (Ctrl-C -> stopTransferringFiles)  *)
(*   handleZmodemEvent goroutine E  EInit, Sleep100, Launch, LaunchStore, LaunchFail,          *)
(*     = handleZmodemStream reader  ReadFwd, FwdWrite, ReadIgnore, ReadEOF, ReadErr, Break    *)
(*   checkClientExited goroutine W  WaitReturns, WStore, WMsg, WArm, WCancel                  *)
(*   handleZmodemError              HzeStart (CAS won, inside the caller's step), HzeSrv      *)
(*                                  (cancel to the server), HzeCmd (cancel to the helper +    *)
(*                                  ensureClientExit), HzeMsg (writeMessage)                  *)
(*   timers                         CleanupFires, CleanupWrite, ClientTimerFires,             *)
(*                                  ServerTimerFires, Kill                                    *)
(*   environment                    HelperOut(k), HelperExit(c)  (the local rz/sz process)    *)
(*                                                                                            *)
(* Time is abstract: a timer is a boolean "armed"; the short delays of the code (100 ms      *)
(* sleep, 500 ms kill, 500 ms cleanup) are internal actions that are *due* -- Quiescent says *)
(* that none of them is pending, i.e. the line has been quiet for longer than all of them.   *)
(*                                                                                            *)
(* Two code variants are parameters (they name the two places where the current code departs *)
(* from the property; see checks/c19.py):                                                     *)
(*   InitBeforePublish  FALSE: wrapOutput publishes the session (filter.zmodem) before       *)
(*                      handleZmodemEvent has assigned serverIn/clientOut (action EInit)      *)
(*   ErrArms            does handleZmodemError arm the cleanup timer when no helper exists    *)
EXTENDS Integers, Sequences, FiniteSets, TLC

CONSTANTS Ups,                \* subset of BOOLEAN, TRUE = upload (remote rz, local sz)
          Starts,             \* subset of {"ok", "nopath", "nochoice"}: can the helper be launched
          Vetoes,             \* subset of {"none", "can", "cno"}: what accompanies a header chunk
          MaxHdr, MaxSrv, MaxHout, MaxCtrlC, MaxText,
          InitBeforePublish,  \* BOOLEAN
          ErrArms             \* subset of BOOLEAN

SrvKinds == {"data", "fin", "can", "cno"}   \* chunk kinds after a header ("cno" = 'cannot open' text)
HoutKinds == {"data", "fin"}
Codes == {"zero", "nonzero"}

VARIABLES up, start, sess, cursor, errArms, crashed, pcS,      \* session parameters / filter, output pump
          stopped, cleaned, cliFin, srvFin, errOcc,            \* the five flags
          hlp, code, hlpQ, cmd,                                \* helper process, exit status, its unread output, z.cmd set
          pcE, pcW, hze, inp,                                  \* goroutines
          cuT, clT, svT, kill, crW,                            \* timers (armed), pending kill, pending "\r" write
          srvCan, hlpCan, hlpWaiting, errNoCmd, cleanHdr,          \* history
          nHdr, nSrv, nHout, nCtrlC, nText                     \* budgets used

sessv  == <<up, start, sess, cursor, errArms, crashed, pcS>>
flags  == <<stopped, cleaned, cliFin, srvFin, errOcc>>
helper == <<hlp, code, hlpQ, cmd>>
pcs    == <<pcE, pcW, hze, inp>>
timers == <<cuT, clT, svT, kill, crW>>
hist   == <<srvCan, hlpCan, hlpWaiting, errNoCmd, cleanHdr>>
budget == <<nHdr, nSrv, nHout, nCtrlC, nText>>
vars   == <<sessv, flags, helper, pcs, timers, hist, budget>>

HzeIdle == [pc |-> "idle", who |-> "none", cause |-> "none"]
NoInp == [k |-> "none", pc |-> "none"]

Returned     == stopped /\ cleaned          \* ~isTransferringFiles()
Transferring == ~stopped \/ ~cleaned        \* isTransferringFiles()

InitVals ==
    /\ up = FALSE /\ start = "ok" /\ sess = "none" /\ cursor = "shown" /\ crashed = FALSE /\ pcS = "idle"
    /\ stopped = FALSE /\ cleaned = FALSE /\ cliFin = FALSE /\ srvFin = FALSE /\ errOcc = FALSE
    /\ hlp = "none" /\ code = "zero" /\ hlpQ = <<>> /\ cmd = FALSE
    /\ pcE = "idle" /\ pcW = "off" /\ hze = HzeIdle /\ inp = NoInp
    /\ cuT = FALSE /\ clT = FALSE /\ svT = FALSE /\ kill = FALSE /\ crW = FALSE
    /\ srvCan = FALSE /\ hlpCan = FALSE /\ hlpWaiting = FALSE /\ errNoCmd = FALSE /\ cleanHdr = FALSE
    /\ nHdr = 0 /\ nSrv = 0 /\ nHout = 0 /\ nCtrlC = 0 /\ nText = 0

Init == InitVals /\ errArms \in ErrArms

(* used by the trace spec to start the next recorded run *)
Reset ==
    /\ up' = FALSE /\ start' = "ok" /\ sess' = "none" /\ cursor' = "shown" /\ crashed' = FALSE /\ pcS' = "idle"
    /\ stopped' = FALSE /\ cleaned' = FALSE /\ cliFin' = FALSE /\ srvFin' = FALSE /\ errOcc' = FALSE
    /\ hlp' = "none" /\ code' = "zero" /\ hlpQ' = <<>> /\ cmd' = FALSE
    /\ pcE' = "idle" /\ pcW' = "off" /\ hze' = HzeIdle /\ inp' = NoInp
    /\ cuT' = FALSE /\ clT' = FALSE /\ svT' = FALSE /\ kill' = FALSE /\ crW' = FALSE
    /\ srvCan' = FALSE /\ hlpCan' = FALSE /\ hlpWaiting' = FALSE /\ errNoCmd' = FALSE /\ cleanHdr' = FALSE
    /\ nHdr' = 0 /\ nSrv' = 0 /\ nHout' = 0 /\ nCtrlC' = 0 /\ nText' = 0
    /\ errArms' \in ErrArms

-----------------------------------------------------------------------------
(* handleZmodemError.  Only one caller ever wins the CAS on `stopped`, so one record `hze`   *)
(* holds the progress of that call; a caller that loses the CAS returns at once.             *)

(* CAS(false,true) won; errorOccurred.Store(true)                                            *)
HzeStart(who, cause) ==
    /\ stopped' = TRUE /\ errOcc' = TRUE
    /\ hlpWaiting' = (cmd /\ hlp = "run")
    /\ hze' = [pc |-> "srv", who |-> who, cause |-> cause]
    /\ UNCHANGED srvCan

(* writeAll(z.serverIn, zmodemCancelFullSequence)                                            *)
HzeSrv ==
    /\ ~crashed
    /\ hze.pc = "srv"
    /\ hze' = [hze EXCEPT !.pc = "cmd"]
    /\ srvCan' = TRUE
    /\ UNCHANGED <<sessv, flags, helper, pcE, pcW, inp, timers, hlpCan, hlpWaiting, errNoCmd, cleanHdr, budget>>

(* if cmd := z.cmd.Load(); cmd != nil { writeAll(z.stdin, cancel); ensureClientExit(cmd) }   *)
HzeCmd ==
    /\ ~crashed
    /\ hze.pc = "cmd"
    /\ hze' = [hze EXCEPT !.pc = "msg"]
    /\ IF cmd
       THEN /\ hlpCan' = TRUE /\ kill' = TRUE
            /\ UNCHANGED errNoCmd
       ELSE /\ errNoCmd' = TRUE /\ UNCHANGED <<hlpCan, kill>>
    /\ UNCHANGED <<crW, sessv, flags, helper, pcE, pcW, inp, cuT, clT, svT, srvCan, hlpWaiting, cleanHdr, budget>>

(* z.writeMessage(msg); return to the caller.  Variant ErrArms: the cleanup timer is armed   *)
(* when there is no helper whose exit would arm it.                                           *)
HzeMsg ==
    /\ ~crashed
    /\ hze.pc = "msg"
    /\ hze' = HzeIdle
    /\ cuT' = (cuT \/ (errArms /\ errNoCmd))
    /\ inp' = IF hze.who = "in" THEN [inp EXCEPT !.pc = "check"] ELSE inp
    /\ pcE' = CASE hze.who = "E" -> "done"
                [] hze.who = "R" -> "brk"
                [] OTHER -> pcE
    /\ UNCHANGED <<crW, sessv, flags, helper, pcW, clT, svT, kill, hist, budget>>

-----------------------------------------------------------------------------
(* Output pump: one turn of wrapOutput's loop.                                                *)

(* detectZmodem on a chunk that carries a start header, no session yet.  The chunk itself     *)
(* always reaches the terminal.                                                               *)
Detect(u, st, v) ==
    /\ ~crashed
    /\ sess = "none" /\ nHdr < MaxHdr /\ pcS = "idle"
    /\ nHdr' = nHdr + 1
    /\ IF v = "none"
       THEN /\ sess' = "held" /\ up' = u /\ start' = st /\ cursor' = "hidden"
            /\ pcE' = IF InitBeforePublish THEN "sleep" ELSE "init"
            /\ cleanHdr' = TRUE
            /\ UNCHANGED <<errArms, crashed, pcS>>
       ELSE UNCHANGED <<sessv, pcE, cleanHdr>>
    /\ UNCHANGED <<flags, helper, pcW, hze, inp, timers, srvCan, hlpCan, hlpWaiting,
                   errNoCmd, nSrv, nHout, nCtrlC, nText>>

(* What the pump does with a non-header chunk of kind k in the current state (observable):   *)
(* "pass" = it reaches the terminal, "held" = it does not (swallowed or given to the helper). *)
OutDisp(k) ==
    IF sess # "held" THEN "pass"
    ELSE IF stopped THEN (IF cleaned THEN "pass" ELSE "held")
    ELSE IF cmd THEN "held"
    ELSE IF k \in {"can", "cno"} THEN "pass" ELSE "held"
OutFwd(k) == sess = "held" /\ ~stopped /\ cmd /\ hlp = "run"      \* ... and it is written to a live helper

(* handleServerOutput returned false: showCursor, filter.zmodem.CompareAndSwap(zmodem, nil), *)
(* the chunk goes on to the terminal.                                                         *)
Declined == sess' = "dropped" /\ cursor' = "shown"

Out(k) ==
    /\ ~crashed
    /\ nSrv < MaxSrv /\ pcS = "idle"
    /\ nSrv' = nSrv + 1
    /\ UNCHANGED <<crW, up, start, errArms, crashed, cliFin, errOcc, helper, pcs, clT, kill,
                   srvCan, hlpCan, hlpWaiting, errNoCmd, cleanHdr,
                   nHdr, nHout, nCtrlC, nText>>
    /\ IF sess # "held"
       THEN \* no session: plain pass-through
            /\ OutDisp(k) = "pass"
            /\ UNCHANGED <<sess, cursor, stopped, cleaned, srvFin, cuT, svT, pcS>>
       ELSE IF stopped
       THEN IF cleaned
            THEN /\ Declined /\ OutDisp(k) = "pass"
                 /\ UNCHANGED <<stopped, cleaned, srvFin, cuT, svT, pcS>>
            ELSE \* (cleaned was loaded as false) ... z.resetCleanupTimer(); return true
                 \* the re-arming is a step of its own (Rearm): the old timer may fire in between
                 /\ pcS' = "rearm" /\ OutDisp(k) = "held"
                 /\ UNCHANGED <<sess, cursor, stopped, cleaned, srvFin, cuT, svT>>
       ELSE IF cmd
       THEN \* forward server output to the client (z.cmd is set)
            /\ OutDisp(k) = "held"
            /\ svT' = (svT \/ ~up)
            /\ srvFin' = (srvFin \/ k = "fin")
            /\ UNCHANGED <<sess, cursor, stopped, cleaned, cuT, pcS>>
       ELSE IF k \in {"can", "cno"}
       THEN \* server canceled before the client startup
            /\ OutDisp(k) = "pass"
            /\ cleaned' = TRUE /\ stopped' = TRUE
            /\ Declined
            /\ UNCHANGED <<srvFin, cuT, svT, pcS>>
       ELSE \* skip it and wait for the client to start
            /\ OutDisp(k) = "held"
            /\ UNCHANGED <<sess, cursor, stopped, cleaned, srvFin, cuT, svT, pcS>>

(* the tail of handleServerOutput's "stopped, not cleaned" branch: resetCleanupTimer()        *)
Rearm ==
    /\ ~crashed
    /\ pcS = "rearm" /\ pcS' = "idle"
    /\ cuT' = TRUE
    /\ UNCHANGED <<up, start, sess, cursor, errArms, crashed, flags, helper, pcs, clT, svT, kill, crW, hist, budget>>

-----------------------------------------------------------------------------
(* Input pump: one turn of wrapInput's loop = sendInput(buf).                                 *)

InBegin(k) ==
    /\ ~crashed
    /\ inp.pc = "none"
    /\ IF k = "ctrlc" THEN nCtrlC < MaxCtrlC /\ nCtrlC' = nCtrlC + 1 /\ UNCHANGED nText
                      ELSE nText < MaxText /\ nText' = nText + 1 /\ UNCHANGED nCtrlC
    /\ UNCHANGED <<up, start, sess, cursor, errArms, pcS, cleaned, cliFin, srvFin, helper, pcE, pcW, timers,
                   hlpCan, errNoCmd, cleanHdr, nHdr, nSrv, nHout>>
    /\ IF sess # "held"
       THEN \* filter.zmodem is nil: straight to the server (inp.pc "pass": observable result)
            /\ inp' = [k |-> k, pc |-> "pass"]
            /\ UNCHANGED <<crashed, stopped, errOcc, hze, srvCan, hlpWaiting>>
       ELSE IF k = "ctrlc" /\ ~stopped
       THEN \* zmodem.stopTransferringFiles() wins the CAS
            IF pcE = "init"
            THEN \* z.serverIn is still nil: writeAll panics, the process dies
                 /\ crashed' = TRUE
                 /\ UNCHANGED <<stopped, errOcc, hze, inp, srvCan, hlpWaiting>>
            ELSE /\ HzeStart("in", "stopped")
                 /\ inp' = [k |-> k, pc |-> "hze"]
                 /\ UNCHANGED crashed
       ELSE /\ inp' = [k |-> k, pc |-> "check"]
            /\ UNCHANGED <<crashed, stopped, errOcc, hze, srvCan, hlpWaiting>>

(* if zmodem.isTransferringFiles() { return } ... writeAll(filter.serverIn, buf)              *)
InDisp == IF inp.pc = "pass" THEN "pass" ELSE IF Transferring THEN "drop" ELSE "pass"
InCheck ==
    /\ ~crashed
    /\ inp.pc \in {"check", "pass"}
    /\ inp' = NoInp
    /\ UNCHANGED <<sessv, flags, helper, pcE, pcW, hze, timers, hist, budget>>

-----------------------------------------------------------------------------
(* Goroutine E: handleZmodemEvent, then handleZmodemStream's read loop.                       *)

(* z.logger = logger; z.serverIn = serverIn; z.clientOut = clientOut                          *)
EInit ==
    /\ ~crashed
    /\ pcE = "init" /\ pcE' = "sleep"
    /\ UNCHANGED <<sessv, flags, helper, pcW, hze, inp, timers, hist, budget>>

(* time.Sleep(100ms); if z.stopped.Load() { return }                                          *)
Sleep100 ==
    /\ ~crashed
    /\ pcE = "sleep"
    /\ pcE' = IF stopped THEN "done" ELSE "launch"
    /\ UNCHANGED <<sessv, flags, helper, pcW, hze, inp, timers, hist, budget>>

(* choose files/path, launchZmodemCmd: the helper process exists from here on ...            *)
Launch ==
    /\ ~crashed
    /\ pcE = "launch" /\ start = "ok"
    /\ pcE' = "store"
    /\ hlp' = "run"
    /\ UNCHANGED <<sessv, flags, code, hlpQ, cmd, pcW, hze, inp, timers, hist, budget>>

(* ... but only handleZmodemStream's z.cmd.Store(cmd) makes it known to the other goroutines; *)
(* resetClientTimer, resetServerTimer, go checkClientExited                                   *)
LaunchStore ==
    /\ ~crashed
    /\ pcE = "store"
    /\ pcE' = "read" /\ pcW' = "wait"
    /\ cmd' = TRUE
    /\ clT' = up /\ svT' = ~up
    /\ UNCHANGED <<crW, sessv, flags, hlp, code, hlpQ, hze, inp, cuT, kill, hist, budget>>

(* chooseUploadFiles/chooseDownloadPath or launchZmodemCmd failed: handleZmodemError(err)     *)
LaunchFail ==
    /\ ~crashed
    /\ pcE = "launch" /\ start # "ok"
    /\ IF stopped
       THEN pcE' = "done" /\ UNCHANGED <<stopped, errOcc, srvCan, hlpWaiting, hze>>
       ELSE pcE' = "hze" /\ HzeStart("E", IF start = "nopath" THEN "runfail" ELSE "choosefail")
    /\ UNCHANGED <<sessv, cleaned, cliFin, srvFin, helper, pcW, inp, timers, hlpCan,
                   errNoCmd, cleanHdr, budget>>

(* one turn of the read loop with n > 0 that is going to be forwarded: resetClientTimer, the  *)
(* errorOccurred / finished test, clientFinished ...                                          *)
ReadFwd ==
    /\ ~crashed
    /\ pcE = "read" /\ hlpQ # <<>>
    /\ ~(errOcc \/ (srvFin /\ cliFin))
    /\ hlpQ' = Tail(hlpQ)
    /\ clT' = up
    /\ cliFin' = (cliFin \/ Head(hlpQ) = "fin")
    /\ pcE' = "fwd"
    /\ UNCHANGED <<crW, sessv, stopped, cleaned, srvFin, errOcc, hlp, code, cmd, pcW, hze, inp, cuT, svT, kill, hist, budget>>

(* ... writeAll(z.serverIn, buf)                                                              *)
FwdWrite ==
    /\ ~crashed
    /\ pcE = "fwd" /\ pcE' = "read"
    /\ UNCHANGED <<sessv, flags, helper, pcW, hze, inp, timers, hist, budget>>

(* ... "ignore zmodem output": break                                                          *)
ReadIgnore ==
    /\ ~crashed
    /\ pcE = "read" /\ hlpQ # <<>>
    /\ errOcc \/ (srvFin /\ cliFin)
    /\ hlpQ' = Tail(hlpQ)
    /\ clT' = up
    /\ pcE' = "brk"
    /\ UNCHANGED <<crW, sessv, flags, hlp, code, cmd, pcW, hze, inp, cuT, svT, kill, hist, budget>>

(* err == io.EOF: break                                                                       *)
ReadEOF ==
    /\ ~crashed
    /\ pcE = "read" /\ hlpQ = <<>> /\ hlp = "dead"
    /\ pcE' = "brk"
    /\ UNCHANGED <<sessv, flags, helper, pcW, hze, inp, timers, hist, budget>>

(* cmd.Wait() in W has closed the pipe under the reader: "read from client failed"            *)
ReadErr ==
    /\ ~crashed
    /\ pcE = "read" /\ pcW \notin {"off", "wait"}
    /\ hlpQ' = <<>>
    /\ IF stopped
       THEN pcE' = "brk" /\ UNCHANGED <<stopped, errOcc, srvCan, hlpWaiting, hze>>
       ELSE pcE' = "hze" /\ HzeStart("R", "readerr")
    /\ UNCHANGED <<sessv, cleaned, cliFin, srvFin, hlp, code, cmd, pcW, inp, timers, hlpCan,
                   errNoCmd, cleanHdr, budget>>

(* after the loop: clientTimer.Stop(); ensureClientExit(cmd)                                  *)
Break ==
    /\ ~crashed
    /\ pcE = "brk"
    /\ pcE' = "done"
    /\ clT' = FALSE /\ kill' = TRUE
    /\ UNCHANGED <<crW, sessv, flags, helper, pcW, hze, inp, cuT, svT, hist, budget>>

-----------------------------------------------------------------------------
(* Goroutine W: checkClientExited.                                                            *)

WaitReturns ==
    /\ ~crashed
    /\ pcW = "wait" /\ hlp = "dead"
    /\ pcW' = "store"
    /\ UNCHANGED <<sessv, flags, helper, pcE, hze, inp, timers, hist, budget>>

WStore ==
    /\ ~crashed
    /\ pcW = "store" /\ pcW' = "msg"
    /\ stopped' = TRUE
    /\ svT' = FALSE
    /\ UNCHANGED <<crW, sessv, cleaned, cliFin, srvFin, errOcc, helper, pcE, hze, inp, cuT, clT, kill, hist, budget>>

WMsg ==
    /\ ~crashed
    /\ pcW = "msg" /\ pcW' = "arm"
    /\ UNCHANGED <<sessv, flags, helper, pcE, hze, inp, timers, hist, budget>>

WArm ==
    /\ ~crashed
    /\ pcW = "arm" /\ pcW' = "cancel"
    /\ cuT' = TRUE
    /\ UNCHANGED <<crW, sessv, flags, helper, pcE, hze, inp, clT, svT, kill, hist, budget>>

WCancel ==
    /\ ~crashed
    /\ pcW = "cancel" /\ pcW' = "done"
    /\ srvCan' = TRUE
    /\ UNCHANGED <<sessv, flags, helper, pcE, hze, inp, timers, hlpCan, hlpWaiting, errNoCmd, cleanHdr, budget>>

-----------------------------------------------------------------------------
(* Timers.                                                                                    *)

(* resetCleanupTimer's AfterFunc: cleaned.Store(true) ...                                     *)
CleanupFires ==
    /\ ~crashed
    /\ cuT /\ cuT' = FALSE
    /\ cleaned' = TRUE
    /\ crW' = TRUE
    /\ UNCHANGED <<sessv, stopped, cliFin, srvFin, errOcc, helper, pcs, clT, svT, kill, hist, budget>>

(* ... serverIn.Write("\r")  (enter for shell prompt)                                         *)
CleanupWrite ==
    /\ ~crashed
    /\ crW /\ crW' = FALSE
    /\ UNCHANGED <<sessv, flags, helper, pcs, cuT, clT, svT, kill, hist, budget>>

TimerFires(who, cause) ==
    /\ IF stopped
       THEN UNCHANGED <<stopped, errOcc, srvCan, hlpWaiting, hze>>
       ELSE hze.pc = "idle" /\ HzeStart(who, cause)
    /\ UNCHANGED <<crW, sessv, cleaned, cliFin, srvFin, helper, pcE, pcW, inp, cuT, kill, hlpCan,
                   errNoCmd, cleanHdr, budget>>

ClientTimerFires == ~crashed /\ clT /\ clT' = FALSE /\ UNCHANGED svT /\ TimerFires("T", "ctimeout")
ServerTimerFires == ~crashed /\ svT /\ svT' = FALSE /\ UNCHANGED clT /\ TimerFires("T", "stimeout")

(* ensureClientExit's goroutine: time.Sleep(500ms); cmd.Process.Kill()                        *)
Kill ==
    /\ ~crashed
    /\ kill /\ kill' = FALSE
    /\ IF hlp = "run" THEN hlp' = "dead" /\ code' = "nonzero" ELSE UNCHANGED <<hlp, code>>
    /\ UNCHANGED <<crW, sessv, flags, hlpQ, cmd, pcs, cuT, clT, svT, hist, budget>>

-----------------------------------------------------------------------------
(* The local helper process (environment).                                                    *)

HelperOut(k) ==
    /\ ~crashed
    /\ hlp = "run" /\ nHout < MaxHout
    /\ nHout' = nHout + 1
    /\ hlpQ' = Append(hlpQ, k)
    /\ UNCHANGED <<sessv, flags, hlp, code, cmd, pcs, timers, hist, nHdr, nSrv, nCtrlC, nText>>

HelperExit(c) ==
    /\ ~crashed
    /\ hlp = "run"
    /\ hlp' = "dead" /\ code' = c
    /\ UNCHANGED <<sessv, flags, hlpQ, cmd, pcs, timers, hist, budget>>

-----------------------------------------------------------------------------
Short ==    \* internal steps that are due within the code's short delays (<= 500 ms)
    \/ EInit \/ Sleep100 \/ Launch \/ LaunchStore \/ LaunchFail \/ ReadFwd \/ FwdWrite \/ ReadIgnore \/ ReadEOF \/ ReadErr \/ Break
    \/ WaitReturns \/ WStore \/ WMsg \/ WArm \/ WCancel
    \/ HzeSrv \/ HzeCmd \/ HzeMsg \/ InCheck \/ Kill \/ CleanupFires \/ CleanupWrite \/ Rearm

Long == ClientTimerFires \/ ServerTimerFires     \* the 20 s timers

Env ==
    \/ \E u \in Ups, st \in Starts, v \in Vetoes : Detect(u, st, v)
    \/ \E k \in SrvKinds : Out(k)
    \/ \E k \in {"ctrlc", "text"} : InBegin(k)
    \/ \E k \in HoutKinds : HelperOut(k)
    \/ \E c \in Codes : HelperExit(c)

Next == Short \/ Long \/ Env

Spec == Init /\ [][Next]_vars

(* Nothing short is pending: the line has been quiet for longer than every short delay.      *)
Quiescent ==
    /\ ~crashed
    /\ pcE \in {"idle", "read", "done"}
    /\ (pcE = "read" => hlpQ = <<>> /\ hlp = "run")
    /\ pcW \in {"off", "wait", "done"}
    /\ (pcW = "wait" => hlp = "run")
    /\ hze.pc = "idle" /\ inp.pc = "none"
    /\ ~kill /\ ~cuT /\ ~crW /\ pcS = "idle"

(* ... and the 20 s timers have expired as well                                               *)
LongQuiescent == Quiescent /\ ~clT /\ ~svT

-----------------------------------------------------------------------------
(* Fairness: every internal step that is due eventually happens; the environment (server,   *)
(* user, helper) is free -- in particular the helper may never exit and never output.        *)
Fairness ==
    /\ WF_vars(EInit) /\ WF_vars(Sleep100) /\ WF_vars(Launch) /\ WF_vars(LaunchStore) /\ WF_vars(LaunchFail)
    /\ WF_vars(ReadFwd) /\ WF_vars(FwdWrite) /\ WF_vars(ReadIgnore) /\ WF_vars(ReadEOF \/ ReadErr) /\ WF_vars(Break)
    /\ WF_vars(WaitReturns) /\ WF_vars(WStore) /\ WF_vars(WMsg) /\ WF_vars(WArm) /\ WF_vars(WCancel)
    /\ WF_vars(HzeSrv) /\ WF_vars(HzeCmd) /\ WF_vars(HzeMsg) /\ WF_vars(InCheck) /\ WF_vars(Kill) /\ WF_vars(CleanupFires) /\ WF_vars(CleanupWrite) /\ WF_vars(Rearm)
    /\ WF_vars(ClientTimerFires) /\ WF_vars(ServerTimerFires)

(* Environment assumption used only while ErrArms = {FALSE} (finding F1): after an error     *)
(* with no helper, the remote side reacts to the cancel sequence with some output.           *)
StuckNoCmd == Quiescent /\ sess = "held" /\ stopped /\ ~cleaned /\ errNoCmd
EchoStep == ~crashed /\ StuckNoCmd /\ nSrv' = nSrv /\ cuT' = TRUE
            /\ UNCHANGED <<crW, sessv, flags, helper, pcs, clT, svT, kill, hist, nHdr, nHout, nCtrlC, nText>>

LiveSpec     == Init /\ [][Next]_vars /\ Fairness                          \* strict
NextEcho == Next \/ EchoStep
LiveSpecEcho == Init /\ [][NextEcho]_vars /\ Fairness /\ WF_vars(EchoStep) \* under the echo assumption

-----------------------------------------------------------------------------
(* Properties (C19).                                                                          *)

TypeOK ==
    /\ sess \in {"none", "held", "dropped"} /\ cursor \in {"shown", "hidden"}
    /\ hlp \in {"none", "run", "dead"} /\ code \in Codes
    /\ pcE \in {"idle", "init", "sleep", "launch", "store", "read", "fwd", "brk", "hze", "done"}
    /\ pcW \in {"off", "wait", "store", "msg", "arm", "cancel", "done"}
    /\ hze.pc \in {"idle", "srv", "cmd", "msg"} /\ pcS \in {"idle", "rearm"}
    /\ cmd = (pcW # "off") /\ (cmd => hlp # "none")

(* Output that carries a cancel sequence or a 'cannot open' message alongside a header does  *)
(* not start a session.                                                                       *)
VetoedHeaderStartsNothing ==
    ~cleanHdr => sess = "none" /\ hlp = "none" /\ pcE = "idle" /\ cursor = "shown" /\ ~stopped

(* When the helper exits, cannot be started or the user presses Ctrl-C (or a timer stops the *)
(* session), the cancel sequence has been written to the side still waiting; a remote cancel *)
(* after the helper started is handed to the helper.                                          *)
CancelSentToWaiter ==
    /\ pcW = "done" => srvCan                                      \* helper exited -> server told
    /\ (errOcc /\ hze.pc # "srv") => srvCan                        \* any handleZmodemError -> server told
    /\ (errOcc /\ hze.pc = "idle" /\ hlpWaiting) => hlpCan         \* ... and the helper, if it was running

(* A server chunk is withheld from the terminal only while the session is not (stopped and   *)
(* cleaned); typed input is dropped only then.                                                *)
SwallowOnlyWhileActive == [][\A k \in SrvKinds : (Out(k) /\ OutDisp(k) = "held") => ~Returned]_vars
InputFlowsAfter        == [][(InCheck /\ InDisp = "drop") => ~Returned]_vars

(* Once handed back, always handed back (the flags are never reset).                          *)
ReturnedIsStable == [][Returned => Returned']_vars

(* The process survives (variant InitBeforePublish = FALSE: it does not, finding F0).         *)
NoCrash == ~crashed

(* Strict hand-back at quiescence: when nothing short is pending -- the remote side has been *)
(* quiet for more than the cleanup period and every kill/cleanup delay has elapsed -- an     *)
(* ended session has been cleaned (so output passes and input flows).                         *)
Stuck == Quiescent /\ sess = "held" /\ stopped /\ ~cleaned
NotStuck == ~Stuck
NotStuckButNoCmd == Stuck => errNoCmd                \* what the current code achieves (finding F1)
(* A session that is not stopped at quiescence has a live helper (it is really active).      *)
ActiveHasHelper == (Quiescent /\ sess = "held" /\ ~stopped) => (cmd /\ hlp = "run")
(* After the 20 s timers nothing is left active.                                              *)
LongQuietEndsAll == (LongQuiescent /\ sess = "held") => stopped
(* The cursor hidden at the start is shown again when the filter lets go of the session.     *)
CursorBack == sess # "held" => cursor = "shown"

(* The explicit definition of Quiescent agrees with "no short step enabled".                  *)
QuiescentDef == (~crashed) => (Quiescent <=> ~ENABLED Short)

(* Liveness: the terminal always comes back.                                                  *)
HandBack == [](sess = "held" => <>(Returned \/ crashed))
=============================================================================
