SPECIFICATION Spec
CONSTANTS
  MaxMem = 2
  PruneN = 1
  MaxChunks = 5
  MaxToks = 1
  Roles = {"client", "relaytmux"}
  WinVals = {TRUE, FALSE}
  Modes = {"R"}
  Vers = {"new"}
  Ports <- PortsNone
  Shapes = {"s00", "s10", "s20", "p11"}
  TsSet = {1, 2}
  PartKinds = {}
  Markers = {}
  Places = {}
  CtlKinds = {"none"}
  WithJunk = FALSE
INVARIANTS TypeOK AtMostOnePerChunk FieldsAsAdvertised ShownFormInert RelayFormStillRecognised ReplaySuppressed RecentRemembered ScrollbackSuppressed FreshIdFires
CHECK_DEADLOCK FALSE
