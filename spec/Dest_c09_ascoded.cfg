SPECIFICATION Spec
CONSTANTS
  MaxSuffix = 1
  Validate = "ascoded"
  Chain <- ChainDef
  Pres <- C09Pres
  Sources <- C09Sources
  HostileNames <- C09NamesQuick
  HostileVar <- C09Var
  Cfgs <- C09Cfgs
  Rounds = 1
INVARIANTS TypeOK Confined
CHECK_DEADLOCK FALSE
