SPECIFICATION GSpec
CONSTANTS
  ColsSet = {1,2,3,4,5,6,7,8,9,10,11,12,13,14,15,16,17,18,19,20,21,22,23,24,25,26,27,28,29,30,31,32,33,34,35,36,37,38,39,40,41,42,43,44,45,46,47,48,49,50,51,52,53,54,55,56,57,58,59,60,61,62,63,64,65,66,67,68,69,70,71,72,73,74,75,76,77,78,79,80,81,82,83,84,85,86,87,88,89,90,91,92,93,94,95,96,97,98,99,100,101,102,103,104,105,106,107,108,109,110,111,112,113,114,115,116,117,118,119,120,121,122,123,124,125,126,127,128,129,130,131,132,133,134,135,136,137,138,139,140,141,142,143,144,145,146,147,148,149,150,151,152,153,154,155,156,157,158,159,160}
  PaneSet = {0, 1, 30, 61}
  CountSet = {1, 12}
  NameKinds = {"ascii"}
  NameWidths = {0, 1, 5, 17, 18, 20, 22, 28, 33, 38, 43, 48, 55, 80}
  HeavyKinds = {"cjk", "jkc", "zwj", "sp", "comb", "ctl", "mix"}
  HeavyWidths = {21, 31, 41, 51, 52}
  TSet = {}
  SSet = {}
  ESet = {}
  SizeKinds = {}
  StepKinds = {}
  PreKinds = {}
  DtSet = {}
  Acts = {}
  MaxCalls = 1
INVARIANTS Export Fits PctRange PctMonotone BarCellsInRange NameOnlyShortened
CHECK_DEADLOCK FALSE
