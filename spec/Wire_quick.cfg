SPECIFICATION Spec
CONSTANTS
  Alphabet = {97, 10, 13, 3}
  MaxLen = 4
  MaxChunk = 4
  MaxOps = 3
  BinSizes = {0, 1, 2}
  WithStop = FALSE
  WithTimer = FALSE
INVARIANTS TypeOK CursorOK SegIndep NoWait PartialOK
CHECK_DEADLOCK FALSE
