SPECIFICATION Spec
CONSTANTS
  Configs <- CfgFault
  Window = 2
  MaxFaults = 1
  FaultKinds <- AllKinds
  MaxPauses = 0
  TimeoutTicks = 2
  MaxTicks = 3
  Weaken = "none"
  StopRoles <- NoRoles
INVARIANTS TypeOK ClaimsAll Fidelity NoSilentCorruption NoFalseSuccess CleanRunSucceeds
PROPERTIES Termination
CHECK_DEADLOCK FALSE
