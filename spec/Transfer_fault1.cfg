SPECIFICATION Spec
CONSTANTS
  Configs <- CfgFault
  Window = 2
  MaxFaults = 1
  FaultKinds <- AllKinds
  StopRoles <- NoRoles
INVARIANTS TypeOK Fidelity NoSilentCorruption NoFalseSuccess CleanRunSucceeds
PROPERTIES Termination
CHECK_DEADLOCK FALSE
