SPECIFICATION FSpec
CONSTANTS
  AckFaults = 1
  B = 3
  MaxBlocks = 2
  Protocols = {2, 3, 4}
  AllPatterns = FALSE
  StepCheck = TRUE
  AsCoded = FALSE
INVARIANTS TypeOK FinalEqualsSrc MatchIsProven OthersUntouched
CHECK_DEADLOCK FALSE
