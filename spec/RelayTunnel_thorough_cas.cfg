SPECIFICATION Spec
CONSTANTS
  CliChunks <- CliT1
  SrvChunks <- SrvT1
  Pairs <- P2
  PairRound <- R1
  CliTun <- CTcas
  SrvTun <- STcas
  Confirm <- Yes1
  ParkRule = "real"
  FlushRoute = "real"
  UseCAS = TRUE
  ClearTC = TRUE
  SpinOnError = TRUE
  SrvErrEOF = FALSE
  Window = FALSE
  LateOK = FALSE
  Closing = FALSE
INVARIANTS TunnelOrder TunnelNotInband InbandIgnoredWhileTunnel InbandOrder AtMostOneTunnelRelay BoundIsCurrent
  TunnelNothingLost InbandNothingLost TunnelNoJunk LoserClosed ResetClean ParkOnlyWhileHandshaking
PROPERTIES Progress
CHECK_DEADLOCK FALSE
