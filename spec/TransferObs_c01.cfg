SPECIFICATION TSpec
CONSTANTS
  Configs = {}
  Window = 2
  MaxFaults = 0
  FaultKinds = {}
  StopRoles = {}
INVARIANTS ObsFidelity ObsNoSilentCorruption ObsCleanRunSucceeds ObsShown ObsNoHang
CONSTRAINT HW
POSTCONDITION Accepted
CHECK_DEADLOCK FALSE
