SPECIFICATION Spec
CONSTANTS
  CliChunks <- Cli1
  SrvChunks <- SrvNoCfg
  Confirm = FALSE
  Recheck = TRUE
  FlushFirst = TRUE
INVARIANTS Order NothingLost ParkOnlyWhileHandshaking JunkIsBeforeLine
PROPERTIES Progress
CHECK_DEADLOCK FALSE
