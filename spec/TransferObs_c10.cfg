SPECIFICATION TSpec
CONSTANTS
  Configs = {}
  Window = 2
  MaxFaults = 0
  FaultKinds = {}
  StopRoles = {}
INVARIANTS ObsFidelity ObsNoSilentCorruption ObsStopPrompt ObsDeleteExact ObsKeepIntact
CONSTRAINT HW
POSTCONDITION Accepted
CHECK_DEADLOCK FALSE
