SPECIFICATION TSpec
CONSTANTS
  Configs = {}
  Window = 2
  MaxFaults = 0
  FaultKinds = {}
  StopRoles = {}
  MaxPauses = 0
  TimeoutTicks = 2
  MaxTicks = 3
  Weaken = "none"
INVARIANTS ObsFidelity ObsNoSilentCorruption ObsStopPrompt ObsDeleteExact ObsStopDelAgreed ObsKeepIntact
CONSTRAINT HW
POSTCONDITION Accepted
CHECK_DEADLOCK FALSE
