----------------------------- MODULE ResumeGen -----------------------------
(* Test-case generator for Resume (spec -> implementation): every relation between a source   *)
(* and what is at the destination, per protocol, with what the design demands at the end of    *)
(* the behaviour: the offset both ends agree on, the number of units sent again, the final     *)
(* content.  harness/c08_resume.go materialises each case with the real 10 MiB block size and  *)
(* runs it through the real code.  With AsCoded = TRUE the export also tells which cases the   *)
(* code before the empty-source fix could not finish (stuck = TRUE): a real run that times out *)
(* in exactly that state is a regression, any other time-out is load.                          *)
EXTENDS Resume, Json, TLCExt

Export ==
    (Done \/ Stuck) =>
        PrintT("MBT " \o ToJson([proto |-> proto, src |-> src, old |-> old, ex |-> oldEx, kind |-> kind,
                                 stuck |-> Stuck,
                                 match |-> Expected, rest |-> Len(src) - Expected,
                                 final |-> IF Stuck THEN src ELSE Final,
                                 cpl |-> Truth, nhash |-> nhash,
                                 hashsteps |-> Cardinality(HashSteps(Min(Len(src), Len(old))))]))
=============================================================================
