SPECIFICATION TSpec
CONSTANTS
  Floor = 1024
  P1Start = 1024
  InitSize = 10240
  HardCap = 1073741824
  BoundFloor = 1048576
  SendCap = 5
  AckCap = 5
  MaxBufs = {}
  Modes = {}
  Protos = {}
  Secs = {}
  MaxChunks = 0
  P1MaxChunks = 0
  MaxFiles = 0
  MaxPauses = 0
  StartSizes = {}
  Variant = "coded"
INVARIANTS TypeOK SizeInRange ChunksInRange NeverRejectedByReceiver NothingQueuedIsRejected ProbeEndsOnce
  TokenPaired EncoderNotStuck OneChunkWhileProbing DoubleOnlyWhenAllowed ShrinkOnlyWhenSlow
  SuspendedAfterPause ProbeEndedBy AtEnd ObservedWithinNegotiated
CONSTRAINT HW
POSTCONDITION Accepted
CHECK_DEADLOCK FALSE
