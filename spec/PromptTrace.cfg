SPECIFICATION TSpec
CONSTANTS
  Symbols = {}
  MaxSyms = 0
  MaxCuts = 0
  Quirks = {"WholeChunk"}
INVARIANTS TypeOK OnlyPromptKeysReachPrompt PromptClosedWithoutTransfer PausedOnlyWhilePrompt
PROPERTIES NothingTypedReachesServerWhilePromptOpen EveryChoiceHasItsEffect
CONSTRAINT HW
POSTCONDITION Accepted
CHECK_DEADLOCK FALSE
