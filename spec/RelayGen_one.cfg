SPECIFICATION GSpec
CONSTANTS
  CliChunks <- GCliA
  SrvChunks <- GSrvA
  Confirm = TRUE
  Recheck = TRUE
  FlushFirst = TRUE
  HoldCfg = 0
INVARIANTS Export Order NothingLost ParkOnlyWhileHandshaking JunkIsBeforeLine
CHECK_DEADLOCK FALSE
