---------------------------- MODULE DragScanGen ----------------------------
(* Test-case generator for DragScan (spec -> implementation).  The input is built symbol by  *)
(* symbol (so that -simulate reaches long inputs), then the scanner machine runs on it; when *)
(* it has returned the case is printed as one JSON line for harness/x02_dragprompt.go        *)
(* (x02_scan): platform, file system, input bytes, the machine's verdict and list, and the   *)
(* verdict of the reference under this configuration's Quirks (run with Quirks = {}: the     *)
(* intended reading; cases where the two differ are the named deviations).                   *)
EXTENDS DragScan, Json, TLCExt

VARIABLES syms, phase
gvars == <<vars, syms, phase>>

GInit == /\ \E o \in OSes : \E f \in FSOf(o) : Start(o, f, <<>>)
         /\ syms = <<>> /\ phase = "build"

GAppend(s) == /\ phase = "build" /\ Len(syms) < MaxSyms
              /\ syms' = Append(syms, s) /\ UNCHANGED <<vars, phase>>
GGo   == /\ phase = "build" /\ phase' = "run" /\ Load(os, fsn, ExpandSeq(syms)) /\ UNCHANGED syms
GStep == /\ phase = "run" /\ Step /\ UNCHANGED <<syms, phase>>
GNext == (\E s \in AlphaOf(os) : GAppend(s)) \/ GGo \/ GStep
GSpec == GInit /\ [][GNext]_gvars

Export == phase = "run" /\ pc = "done" =>
    PrintT("MBT " \o ToJson([os |-> os, fs |-> fsn, input |-> chunk, drag |-> res.drag, files |-> res.files,
                              hasDir |-> res.hasDir, ignore |-> res.ignore, isWin |-> res.isWin,
                              refDrag |-> Ref.drag, refFiles |-> Ref.files]))
=============================================================================
