----------------------------- MODULE ZmodemGen -----------------------------
(* Scenario generator for Zmodem (spec -> implementation).  A history variable records the    *)
(* environment's steps of a behaviour -- header chunk (direction, veto, can the helper start), *)
(* server chunks, helper output / exit, Ctrl-C, typed text -- and the points where the         *)
(* environment waits until nothing short is pending (`quiet`).  Each finished behaviour is     *)
(* printed as one JSON line; harness/c19_zmodem.go (c19_run) realises it against the real      *)
(* filter: the order of {helper exit, server finish, cancel, Ctrl-C} comes from here, the      *)
(* sub-quiescent timing between two steps (0 .. 700 ms) is varied by the driver.               *)
(* The internal steps are scheduled in one fixed priority order (their mutual interleaving    *)
(* does not change the environment's history); the environment may step in anywhere.          *)
EXTENDS Zmodem, Json, TLCExt

CONSTANTS MaxQuiet,     \* quiet points per scenario
          MaxSteps      \* environment steps per scenario (without quiet points)

VARIABLES plan, done, nQ
gvars == <<vars, plan, done, nQ>>

GInit == Init /\ plan = <<>> /\ done = FALSE /\ nQ = 0

Rec(a) == plan' = Append(plan, a) /\ UNCHANGED <<done, nQ>>
NEnv == Len(SelectSeq(plan, LAMBDA h : h.a # "quiet"))

(* one fixed schedule of the internal steps *)
Int1 == HzeSrv \/ HzeCmd \/ HzeMsg \/ InCheck \/ Rearm
Int2 == EInit \/ Sleep100 \/ Launch \/ LaunchStore \/ LaunchFail
Int3 == ReadFwd \/ FwdWrite \/ ReadIgnore \/ ReadEOF \/ Break
Int4 == WaitReturns \/ WStore \/ WMsg \/ WArm \/ WCancel
Int5 == Kill
Int6 == CleanupFires \/ CleanupWrite
IntStep ==
    \/ Int1
    \/ ~ENABLED Int1 /\ Int2
    \/ ~ENABLED Int1 /\ ~ENABLED Int2 /\ Int3
    \/ ~ENABLED Int1 /\ ~ENABLED Int2 /\ ~ENABLED Int3 /\ Int4
    \/ ~ENABLED Int1 /\ ~ENABLED Int2 /\ ~ENABLED Int3 /\ ~ENABLED Int4 /\ Int5
    \/ ~ENABLED Int1 /\ ~ENABLED Int2 /\ ~ENABLED Int3 /\ ~ENABLED Int4 /\ ~ENABLED Int5 /\ Int6

GNext ==
    /\ ~done
    /\ \/ /\ NEnv < MaxSteps
          /\ \/ \E u \in Ups, st \in Starts, v \in Vetoes :
                   Detect(u, st, v) /\ Rec([a |-> "hdr", up |-> u, start |-> st, veto |-> v, k |-> "-", code |-> 0])
             \/ \E k \in SrvKinds : nHdr > 0 /\ Out(k)
                   /\ Rec([a |-> "srv", up |-> FALSE, start |-> "-", veto |-> "-", k |-> k, code |-> 0])
             \/ \E k \in {"ctrlc", "text"} : nHdr > 0 /\ InBegin(k)
                   /\ Rec([a |-> k, up |-> FALSE, start |-> "-", veto |-> "-", k |-> "-", code |-> 0])
             \/ \E k \in HoutKinds : HelperOut(k)
                   /\ Rec([a |-> "hout", up |-> FALSE, start |-> "-", veto |-> "-", k |-> k, code |-> 0])
             \/ \E c \in Codes : HelperExit(c)
                   /\ Rec([a |-> "hexit", up |-> FALSE, start |-> "-", veto |-> "-", k |-> "-", code |-> IF c = "zero" THEN 0 ELSE 3])
       \/ IntStep /\ UNCHANGED <<plan, done, nQ>>
       \/ /\ Quiescent /\ nHdr > 0 /\ nQ < MaxQuiet /\ plan[Len(plan)].a # "quiet"
          /\ plan' = Append(plan, [a |-> "quiet", up |-> FALSE, start |-> "-", veto |-> "-", k |-> "-", code |-> 0])
          /\ nQ' = nQ + 1 /\ UNCHANGED <<vars, done>>
       \/ /\ nHdr > 0 /\ ~crashed /\ done' = TRUE /\ UNCHANGED <<vars, plan, nQ>>

GSpec == GInit /\ [][GNext]_gvars

Export == done => PrintT("MBT " \o ToJson([steps |-> plan]))
=============================================================================
