SPECIFICATION GSpec
CONSTANTS
  MaxMem = 2
  PruneN = 1
  MaxChunks = 3
  MaxToks = 1
  Roles = {"client", "relaytmux"}
  WinVals = {TRUE, FALSE}
  Modes = {"S"}
  Vers = {"p2"}
  Ports <- PortsNone
  Shapes = {"s00", "s10", "s20", "p11"}
  TsSet = {1, 2}
  PartKinds = {}
  Markers = {}
  Places = {}
  CtlKinds = {"none"}
  WithJunk = FALSE
INVARIANTS Export
CHECK_DEADLOCK FALSE
