---------------------------- MODULE ZmodemTrace ----------------------------
(* Trace validation for Zmodem: consumes the ndjson events recorded by harness/c19_zmodem.go  *)
(* from real NewTrzszFilter{EnableZmodem} runs with remote-controlled fake rz/sz helpers.     *)
(*                                                                                            *)
(*   reset{id}                       next run                                                 *)
(*   srv{k,v,st,id} srvdone{id,disp} a server chunk is handed to the output pump / the pump   *)
(*                                   is back in Read; the pump's turn (Detect / Out) is a     *)
(*                                   step somewhere in between; disp must be what the spec    *)
(*                                   says in that state                                       *)
(*   inp{k,id} inpdone{id,disp}      the same for the input pump (InBegin .. InCheck)         *)
(*   tsrv{c,id}                      a write to the server: can -> HzeSrv or WCancel;          *)
(*                                   cr -> CleanupWrite; hout -> ReadFwd                      *)
(*   msg{m}                          HzeMsg with that cause / WMsg with that exit status      *)
(*   cur{v}                          cursor escape: exactly the one the pump's turn writes    *)
(*                                   (hide at Detect, show when the filter lets go)           *)
(*   hout{k,id} hexit{code}          HelperOut / HelperExit (the driver commands the puppet)  *)
(*   hstart{name} hgone hin{c,id}    late echoes from the puppet: they must be consistent     *)
(*                                   with what the spec did earlier                           *)
(*   quiet{long}                     nothing fed, nothing recorded for 0.5 s + slack (long:   *)
(*                                   20.5 s + slack): every short (long) internal step that   *)
(*                                   the spec has pending must have happened -- Quiescent     *)
(* All other steps of the spec are silent.  A run whose quiet point is Stuck (ended session,  *)
(* not cleaned, nothing pending) is reported with a STUCK line when the run is complete.      *)
EXTENDS Zmodem, Json, IOUtils, TLCExt

TraceLog == ndJsonDeserialize(IOEnv.VERIF_TRACE)

VARIABLES l,          \* next line
          run,        \* id of the current run
          pend,       \* server chunk in the pump's hands
          ipend,      \* input in the input pump's hands
          hq,         \* ids of the helper outputs not yet read (parallel to hlpQ)
          fwdIds,     \* chunks written to a live helper
          got,        \* chunk ids the puppet reported
          echo,       \* [start, gone, hexit, expectCan, gotCan, late, hcur]
          stuck       \* [line, nocmd] of the first Stuck quiet point of this run (line 0: none)

tv == <<l, run, pend, ipend, hq, fwdIds, got, echo, stuck>>
tvars == <<vars, tv>>

NoPend == [st |-> "none", k |-> "none", v |-> "none", start |-> "ok", id |-> 0, disp |-> "none", fwd |-> FALSE,
           cur |-> "same", seen |-> <<>>]
NoIPend == [st |-> "none", k |-> "none", id |-> 0, disp |-> "none"]
Echo0 == [start |-> FALSE, gone |-> FALSE, hexit |-> FALSE, expectCan |-> FALSE, gotCan |-> FALSE,
          late |-> FALSE, hcur |-> 0]
NoStuck == [line |-> 0, nocmd |-> FALSE]

Ev == TraceLog[l]
More == l <= Len(TraceLog)
IsEvent(e) == More /\ Ev.e = e /\ l' = l + 1
Silent == UNCHANGED l

TInit == Init /\ l = 1 /\ run = -1 /\ pend = NoPend /\ ipend = NoIPend /\ hq = <<>> /\ fwdIds = {} /\ got = {}
         /\ echo = Echo0 /\ stuck = NoStuck

Report == (stuck.line # 0 \/ echo.late) =>
             PrintT("STUCK " \o ToJson([run |-> run, line |-> stuck.line, nocmd |-> stuck.nocmd, late |-> echo.late]))

TReset == /\ IsEvent("reset") /\ Report /\ Reset
          /\ run' = Ev.id /\ pend' = NoPend /\ ipend' = NoIPend /\ hq' = <<>> /\ fwdIds' = {} /\ got' = {}
          /\ echo' = Echo0 /\ stuck' = NoStuck

Keep(vs) == UNCHANGED vs

(* ---- output pump ---- *)
IsHdr(k) == k \in {"hdr0", "hdr1"}
KindOf(k) == IF k = "probe" THEN "data" ELSE k

TSrv == /\ IsEvent("srv") /\ pend.st = "none"
        /\ pend' = [NoPend EXCEPT !.st = "fed", !.k = Ev.k, !.v = Ev.v, !.start = Ev.st, !.id = Ev.id]
        /\ UNCHANGED vars /\ Keep(<<run, ipend, hq, fwdIds, got, echo, stuck>>)

(* the cursor escape the pump's turn writes: hideCursor at Detect, showCursor when it lets go *)
CurChange == IF cursor' = cursor THEN "same" ELSE IF cursor' = "hidden" THEN "hide" ELSE "show"

TSrvDo ==
    /\ pend.st = "fed" /\ Silent
    /\ IF IsHdr(pend.k) /\ sess = "none"
       THEN /\ Detect(pend.k = "hdr1", pend.start, pend.v)
            /\ pend' = [pend EXCEPT !.st = "done", !.disp = "pass", !.cur = CurChange]
       ELSE LET k == IF IsHdr(pend.k) THEN "data" ELSE KindOf(pend.k) IN
            /\ Out(k)
            /\ pend' = [pend EXCEPT !.st = "done", !.disp = OutDisp(k), !.fwd = OutFwd(k), !.cur = CurChange]
    /\ Keep(<<run, ipend, hq, fwdIds, got, echo, stuck>>)

TSrvDone ==
    /\ IsEvent("srvdone") /\ pend.st = "done" /\ Ev.id = pend.id /\ pcS = "idle"
    /\ Ev.disp = pend.disp
    /\ pend.seen = (IF pend.cur = "same" THEN <<>> ELSE <<pend.cur>>)
    /\ fwdIds' = IF pend.fwd THEN fwdIds \cup {pend.id} ELSE fwdIds
    /\ pend' = NoPend
    /\ UNCHANGED vars /\ Keep(<<run, ipend, hq, got, echo, stuck>>)

TCur == /\ IsEvent("cur") /\ pend.st # "none"
        /\ pend' = [pend EXCEPT !.seen = Append(pend.seen, Ev.v)]
        /\ UNCHANGED vars /\ Keep(<<run, ipend, hq, fwdIds, got, echo, stuck>>)

(* ---- input pump ---- *)
TInp == /\ IsEvent("inp") /\ ipend.st = "none"
        /\ ipend' = [NoIPend EXCEPT !.st = "fed", !.k = Ev.k, !.id = Ev.id]
        /\ UNCHANGED vars /\ Keep(<<run, pend, hq, fwdIds, got, echo, stuck>>)

(* sendInput up to the point where it checks isTransferringFiles (a Ctrl-C may have won the CAS *)
(* of handleZmodemError: its writes follow as HzeSrv / HzeMsg events)                           *)
TInBeginSilent ==
    /\ ipend.st = "fed" /\ Silent
    /\ InBegin(ipend.k) /\ ~crashed'
    /\ ipend' = [ipend EXCEPT !.st = "in"]
    /\ Keep(<<run, pend, hq, fwdIds, got, echo, stuck>>)

TInCheck ==
    /\ ipend.st = "in" /\ Silent
    /\ ipend' = [ipend EXCEPT !.st = "done", !.disp = InDisp]
    /\ InCheck
    /\ Keep(<<run, pend, hq, fwdIds, got, echo, stuck>>)

TInpDone ==
    /\ IsEvent("inpdone") /\ ipend.st = "done" /\ Ev.id = ipend.id
    /\ Ev.disp = ipend.disp
    /\ ipend' = NoIPend
    /\ UNCHANGED vars /\ Keep(<<run, pend, hq, fwdIds, got, echo, stuck>>)

(* ---- writes to the server ---- *)
TCan ==
    /\ IsEvent("tsrv") /\ Ev.c = "can"
    /\ HzeSrv \/ WCancel
    /\ Keep(<<run, pend, ipend, hq, fwdIds, got, echo, stuck>>)

TCr == /\ IsEvent("tsrv") /\ Ev.c = "cr" /\ CleanupWrite
       /\ Keep(<<run, pend, ipend, hq, fwdIds, got, echo, stuck>>)

(* ensureOverAndOut: both sides have sent their ZFIN *)
OOok == srvFin /\ cliFin
TOO == /\ IsEvent("tsrv") /\ Ev.c = "oo" /\ up /\ OOok
       /\ UNCHANGED vars /\ Keep(<<run, pend, ipend, hq, fwdIds, got, echo, stuck>>)

THoutFwd ==
    /\ IsEvent("tsrv") /\ Ev.c = "hout"
    /\ echo.hcur = Ev.id
    /\ FwdWrite
    /\ Keep(<<run, pend, ipend, hq, fwdIds, got, echo, stuck>>)

TReadFwd ==
    /\ Silent /\ More /\ ReadFwd
    /\ echo' = [echo EXCEPT !.hcur = Head(hq)] /\ hq' = Tail(hq)
    /\ Keep(<<run, pend, ipend, fwdIds, got, stuck>>)

(* ---- messages ---- *)
HzeCauses == {"stopped", "runfail", "choosefail", "readerr", "ctimeout", "stimeout"}
TMsg ==
    /\ IsEvent("msg")
    /\ \/ /\ Ev.m \in HzeCauses /\ hze.pc = "msg" /\ hze.cause = Ev.m /\ HzeMsg
       \/ /\ Ev.m \in {"exit0", "exitN"} /\ WMsg /\ (Ev.m = "exit0") = (code = "zero")
       \/ /\ Ev.m = "other" /\ UNCHANGED vars
    /\ Keep(<<run, pend, ipend, hq, fwdIds, got, echo, stuck>>)

(* ---- the helper ---- *)
THout ==
    /\ IsEvent("hout")
    /\ IF hlp = "run"
       THEN HelperOut(Ev.k) /\ hq' = Append(hq, Ev.id)
       ELSE hlp = "dead" /\ UNCHANGED vars /\ UNCHANGED hq
    /\ Keep(<<run, pend, ipend, fwdIds, got, echo, stuck>>)

THexit ==
    /\ IsEvent("hexit")
    /\ IF hlp = "run"
       THEN HelperExit(IF Ev.code = 0 THEN "zero" ELSE "nonzero")
       ELSE hlp = "dead" /\ UNCHANGED vars
    /\ echo' = [echo EXCEPT !.hexit = TRUE]
    /\ Keep(<<run, pend, ipend, hq, fwdIds, got, stuck>>)

THstart == /\ IsEvent("hstart") /\ hlp # "none" /\ ~echo.start
           /\ Ev.name = (IF up THEN "sz" ELSE "rz")
           /\ echo' = [echo EXCEPT !.start = TRUE]
           /\ UNCHANGED vars /\ Keep(<<run, pend, ipend, hq, fwdIds, got, stuck>>)

THgone == /\ IsEvent("hgone") /\ hlp = "dead" /\ echo.start /\ ~echo.gone
          /\ echo' = [echo EXCEPT !.gone = TRUE]
          /\ UNCHANGED vars /\ Keep(<<run, pend, ipend, hq, fwdIds, got, stuck>>)

THin ==
    /\ IsEvent("hin")
    /\ \/ /\ Ev.c = "can" /\ hlpCan /\ echo' = [echo EXCEPT !.gotCan = TRUE] /\ UNCHANGED got
       \/ /\ Ev.c = "oo" /\ ~up /\ OOok /\ UNCHANGED <<echo, got>>
       \/ /\ Ev.c = "chunk"
          /\ Ev.id \in fwdIds \/ (pend.st = "done" /\ pend.fwd /\ pend.id = Ev.id)
          /\ got' = got \cup {Ev.id} /\ UNCHANGED echo
    /\ UNCHANGED vars /\ Keep(<<run, pend, ipend, hq, fwdIds, stuck>>)

(* ---- silent internal steps ---- *)
TSilent ==
    /\ Silent /\ More
    /\ \/ EInit \/ Sleep100 \/ Launch \/ LaunchFail \/ ReadEOF \/ ReadErr \/ Break
       \/ WaitReturns \/ WStore \/ WArm \/ Kill \/ CleanupFires \/ Rearm
       \/ ClientTimerFires \/ ServerTimerFires
    /\ hq' = IF pcE = "read" /\ pcE' \in {"brk", "hze"} /\ hlpQ' = <<>> THEN <<>> ELSE hq
    /\ Keep(<<run, pend, ipend, fwdIds, got, echo, stuck>>)

TLaunch ==
    /\ Silent /\ More /\ LaunchStore
    /\ echo' = [echo EXCEPT !.late = (echo.late \/ stopped)]
    /\ Keep(<<run, pend, ipend, hq, fwdIds, got, stuck>>)

THzeCmd ==
    /\ Silent /\ More /\ HzeCmd
    /\ echo' = [echo EXCEPT !.expectCan = (echo.expectCan \/ (cmd /\ hlp = "run"))]
    /\ Keep(<<run, pend, ipend, hq, fwdIds, got, stuck>>)

TReadIgnore ==
    /\ Silent /\ More /\ ReadIgnore /\ hq' = Tail(hq)
    /\ Keep(<<run, pend, ipend, fwdIds, got, echo, stuck>>)

(* ---- quiet points ---- *)
TQuiet ==
    /\ IsEvent("quiet")
    /\ IF Ev.long THEN LongQuiescent ELSE Quiescent
    /\ pend.st = "none" /\ ipend.st = "none"
    /\ hlp # "none" => echo.start
    /\ hlp = "dead" => echo.gone
    /\ hlp = "run" => fwdIds \subseteq got
    /\ (echo.expectCan /\ ~echo.hexit) => echo.gotCan
    /\ stuck' = IF stuck.line = 0 /\ Stuck THEN [line |-> l, nocmd |-> errNoCmd] ELSE stuck
    /\ UNCHANGED vars /\ Keep(<<run, pend, ipend, hq, fwdIds, got, echo>>)

TNext == TReset \/ TSrv \/ TSrvDo \/ TSrvDone \/ TCur \/ TInp \/ TInBeginSilent \/ TInCheck \/ TInpDone
         \/ TCan \/ TCr \/ TOO \/ THoutFwd \/ TMsg \/ THout \/ THexit \/ THstart \/ THgone \/ THin
         \/ TSilent \/ TLaunch \/ THzeCmd \/ TReadIgnore \/ TReadFwd \/ TQuiet

TSpec == TInit /\ [][TNext]_tvars

(* high-water mark of consumed lines; TLCSet/TLCGet register 1, -workers 1 *)
HW == IF l > TLCGet(1) THEN TLCSet(1, l) ELSE TRUE
ASSUME TLCSet(1, 0)
Accepted == IF TLCGet(1) = Len(TraceLog) + 1 THEN TRUE
            ELSE PrintT("HW " \o ToString(TLCGet(1))) /\ FALSE
=============================================================================
