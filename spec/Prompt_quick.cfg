SPECIFICATION Spec
CONSTANTS
  Symbols = {"j", "k", "CR", "ETX", "q", "DOWN", "UP", "x", "ESC", "TAB"}
  MaxSyms = 3
  MaxCuts = 2
  Quirks = {"WholeChunk"}
INVARIANTS TypeOK OnlyPromptKeysReachPrompt PromptClosedWithoutTransfer PausedOnlyWhilePrompt ChunkingIndependent
PROPERTIES NothingTypedReachesServerWhilePromptOpen EveryChoiceHasItsEffect PromptAlwaysClosed
CHECK_DEADLOCK FALSE
