SPECIFICATION Spec
CONSTANTS
  Configs <- CfgPause
  Window = 2
  MaxFaults = 0
  FaultKinds <- AllKinds
  MaxPauses = 2
  TimeoutTicks = 2
  MaxTicks = 3
  Weaken = "none"
  StopRoles <- NoRoles
INVARIANTS TypeOK ClaimsAll Fidelity NoSilentCorruption NoFalseSuccess ShortPauseCompletes
PROPERTIES Termination NoDataWhilePaused
CHECK_DEADLOCK FALSE
