SPECIFICATION GSpec
CONSTANTS
  Ups = {TRUE, FALSE}
  Starts = {"ok", "nopath", "nochoice"}
  Vetoes = {"none", "can", "cno"}
  MaxHdr = 1
  MaxSrv = 3
  MaxHout = 2
  MaxCtrlC = 1
  MaxText = 1
  InitBeforePublish = TRUE
  ErrArms = {FALSE}
  MaxQuiet = 2
  MaxSteps = 7
INVARIANTS Export
CHECK_DEADLOCK FALSE
