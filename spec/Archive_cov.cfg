SPECIFICATION Spec
CONSTANTS
  MaxEntries = 2
  HdrLens = {1, 2}
  Sizes = {0, 1, 2, 3}
  ReadSizes = {1, 2, 3, 4}
  MaxWrite = 12
  MaxResize = 1
  WithGrow = FALSE
  Pipelined = FALSE
INVARIANTS TypeOK AnnouncedIsProduced ProducedIsCanonical HeaderNeverInPayload OneOpenFile
           ShrinkIsError WrittenIsPrefix Reconstructed
CHECK_DEADLOCK FALSE
