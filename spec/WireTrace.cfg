SPECIFICATION TSpec
CONSTANTS
  Alphabet = {0}
  MaxLen = 0
  MaxChunk = 0
  MaxOps = 0
  BinSizes = {}
  WithStop = TRUE
  WithTimer = TRUE
INVARIANTS TypeOK CursorOK SegIndep NoWait PartialOK
CONSTRAINT HW
POSTCONDITION Accepted
CHECK_DEADLOCK FALSE
