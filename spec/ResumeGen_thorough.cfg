SPECIFICATION Spec
CONSTANTS
  B = 3
  MaxBlocks = 3
  Protocols = {2, 3, 4}
  AllPatterns = FALSE
  StepCheck = TRUE
  AsCoded = TRUE
INVARIANTS Export FinalEqualsSrc SkippedNeverExceedsProven
CHECK_DEADLOCK FALSE
