------------------------- MODULE RelayTunnelTrace -------------------------
(* Trace validation for RelayTunnel: recorded sessions of a real TrzszRelay whose tunnel listener   *)
(* was reached over loopback TCP (harness/x03_relaytunnel.go).  Events:                              *)
(*   reset{confirm}  feed{side,u}  deliver{to,u}  hook{p,a}   -- as in RelayTrace                     *)
(*   dial{pr} dialfail{pr}  the client's TCP connect to the relay's port succeeded / was refused      *)
(*   connect{pr}            the relay's handler called the connector (greeting of pair pr)            *)
(*   hello4{pr}             the client received the relay's answer                                    *)
(*   twrite{pr,u}           the client wrote a chunk into its TCP connection (TCP may coalesce)       *)
(*   tfeed{pr,u}            the relay's Read on the server-side connection took this chunk (exact)    *)
(*   tdeliver{pr,to,u}      bytes arrived at the server's / client's tunnel connection                *)
(*   tclose{pr,who}         an end closed its connection    rclosed{pr,side}  the relay closed one    *)
(*   quiet / final          the driver saw the relay at rest                                          *)
(*   pumps{pr,ti,to,wrs,wrc} classification of the pair's four goroutines after the closes            *)
(* Lock-free loads / stores / CAS, the accept loop, the handlers' CAS and the tunnel pumps (which     *)
(* have no hook of their own) are silent steps; hooks and observations confirm them.                 *)
(* Verdicts are taken on accepted sessions only: the history flags `bad` and the stream properties   *)
(* are judged in the state after the session's `final` event was consumed (an explored branch that   *)
(* cannot consume the rest of the session is not a behaviour of the real run).                        *)
EXTENDS RelayTunnel, Json, IOUtils, TLCExt

TraceLog == ndJsonDeserialize(IOEnv.VERIF_TRACE)
NoChunks == <<>>
TPairs == 1..6
NoTun == [p \in TPairs |-> <<>>]
NoRound == [p \in TPairs |-> 1]
NoConfirm == <<TRUE, TRUE, TRUE>>

VARIABLES l, dS, dC, dTS, dTC,   \* how much of sin / cout / tsrv[p] / tcli[p] has been observed at the ends
          ldI, ldO,              \* the load hook of the in-band chunk in hand has been seen
          hk, rk,                \* worker hooks seen in this handshake (0..2); the relay.reset hook of the running reset was seen
          pend,                  \* [pair -> chunks the client wrote that the relay has not read yet]
          obsC, obsS,            \* [pair -> the end observed the relay's close]
          bad                    \* names of state properties that were false somewhere on this path
tv0 == <<dS, dC, dTS, dTC, ldI, ldO, hk, rk, pend, obsC, obsS>>
tv == <<l, tv0>>
tvars == <<vars, tv, bad>>

Ev == TraceLog[l]
More == l <= Len(TraceLog)
IsEvent(e) == More /\ Ev.e = e /\ l' = l + 1
IsHook(p) == IsEvent("hook") /\ Ev.p = p
NextIsHook(ps) == More /\ Ev.e = "hook" /\ Ev.p \in ps
StatusOf(a) == CASE a = 0 -> "S" [] a = 1 -> "H" [] a = 2 -> "T"
Keep(vs) == UNCHANGED vs

TInit == /\ Init /\ l = 1 /\ dS = 0 /\ dC = 0 /\ dTS = [p \in Pairs |-> 0] /\ dTC = [p \in Pairs |-> 0]
         /\ ldI = TRUE /\ ldO = TRUE /\ hk = 0 /\ rk = FALSE /\ pend = [p \in Pairs |-> <<>>]
         /\ obsC = [p \in Pairs |-> FALSE] /\ obsS = [p \in Pairs |-> FALSE] /\ bad = {}

TReset ==
    /\ IsEvent("reset")
    /\ status' = "S" /\ lock' = <<"free", 0>> /\ tr' = 0 /\ tconn' = FALSE /\ lst' = "none" /\ trigT' = FALSE
    /\ inQ' = <<>> /\ outQ' = <<>> /\ inRest' = <<>> /\ outRest' = <<>> /\ junk' = {}
    /\ sin' = <<>> /\ cout' = <<>> /\ tsrv' = [p \in Pairs |-> <<>>] /\ tcli' = [p \in Pairs |-> <<>>]
    /\ fedC' = <<>> /\ fedS' = <<>> /\ fedTC' = [p \in Pairs |-> <<>>] /\ fedTS' = [p \in Pairs |-> <<>>]
    /\ nIn' = 0 /\ nOut' = 0 /\ nTI' = [p \in Pairs |-> 0] /\ nTO' = [p \in Pairs |-> 0]
    /\ pcI' = "read" /\ bufI' = <<>> /\ stI' = "S" /\ pcO' = "read" /\ bufO' = <<>> /\ stO' = "S"
    /\ pcTI' = [p \in Pairs |-> "off"] /\ bufTI' = [p \in Pairs |-> <<>>] /\ stTI' = [p \in Pairs |-> "S"]
    /\ pcTO' = [p \in Pairs |-> "off"] /\ bufTO' = [p \in Pairs |-> <<>>] /\ stTO' = [p \in Pairs |-> "S"]
    /\ pcW' = "off" /\ wtok' = 0 /\ werr' = FALSE /\ confirm' = Ev.confirm
    /\ acc' = "off" /\ hp' = [p \in Pairs |-> "idle"] /\ trRelay' = [p \in Pairs |-> FALSE]
    /\ chC' = [p \in Pairs |-> "open"] /\ chS' = [p \in Pairs |-> "open"]
    /\ pcl' = [p \in Pairs |-> "idle"] /\ psv' = [p \in Pairs |-> "idle"]
    /\ rcC' = [p \in Pairs |-> FALSE] /\ rcS' = [p \in Pairs |-> FALSE]
    /\ dS' = 0 /\ dC' = 0 /\ dTS' = [p \in Pairs |-> 0] /\ dTC' = [p \in Pairs |-> 0]
    /\ ldI' = TRUE /\ ldO' = TRUE /\ hk' = 0 /\ rk' = FALSE /\ pend' = [p \in Pairs |-> <<>>]
    /\ obsC' = [p \in Pairs |-> FALSE] /\ obsS' = [p \in Pairs |-> FALSE]

(* ---- in-band, as in RelayTrace ---- *)
TFeed == /\ IsEvent("feed") /\ Keep(<<dS, dC, dTS, dTC, hk, rk, pend, obsC, obsS>>)
         /\ IF Ev.side = "c" THEN InRead(Ev.u) /\ ldI' = FALSE /\ ldO' = ldO
                           ELSE OutRead(Ev.u) /\ ldO' = FALSE /\ ldI' = ldI
TInLoad == /\ IsHook("relay.in.load") /\ ~ldI /\ pcI \in {"lock", "fwd"} /\ stI = StatusOf(Ev.a[1])
           /\ ldI' = TRUE /\ Keep(<<vars, dS, dC, dTS, dTC, ldO, hk, rk, pend, obsC, obsS>>)
TOutLoad == /\ IsHook("relay.out.load") /\ ~ldO /\ pcO \in {"lock", "fwd"} /\ stO = StatusOf(Ev.a[1])
            /\ ldO' = TRUE /\ Keep(<<vars, dS, dC, dTS, dTC, ldI, hk, rk, pend, obsC, obsS>>)
(* addHandshakeBuffer's hooks do not say who called: whoever holds the lock *)
TParkDone == /\ IsHook("relay.park.done") /\ Keep(tv0)
             /\ \/ (ldI /\ InPark) \/ (ldO /\ OutPark) \/ \E p \in Pairs : TIPark(p) \/ TOPark(p)
TParkSkip == /\ IsHook("relay.park.skip") /\ Keep(tv0)
             /\ \/ (ldI /\ InSkip /\ stI = StatusOf(Ev.a[1])) \/ (ldO /\ OutSkip /\ stO = StatusOf(Ev.a[1]))
                \/ \E p \in Pairs : (TISkip(p) /\ stTI[p] = StatusOf(Ev.a[1])) \/ (TOSkip(p) /\ stTO[p] = StatusOf(Ev.a[1]))
TInFwd == IsHook("relay.in.fwd") /\ ldI /\ InFwd /\ stI = StatusOf(Ev.a[1]) /\ Keep(tv0)
TOutFwd == IsHook("relay.out.fwd") /\ ldO /\ OutFwd /\ stO = StatusOf(Ev.a[1]) /\ Keep(tv0)
TOutTrigger == /\ IsHook("relay.out.trigger") /\ OutTrigger /\ hk' = 0
               /\ Keep(<<dS, dC, dTS, dTC, ldI, ldO, rk, pend, obsC, obsS>>)

THsAct == /\ IsHook("relay.hs.act") /\ hk = 0 /\ pcW \in {"storeTC", "errC"} /\ K(wtok) \in {ACT, ACTT, BADACT}
          /\ hk' = 1 /\ Keep(<<vars, dS, dC, dTS, dTC, ldI, ldO, rk, pend, obsC, obsS>>)
THsCfg == /\ IsHook("relay.hs.cfg") /\ hk = 1 /\ pcW \in {"sendCfg", "errC"} /\ K(wtok) \in {CFG, BADCFG}
          /\ hk' = 2 /\ Keep(<<vars, dS, dC, dTS, dTC, ldI, ldO, rk, pend, obsC, obsS>>)
TFlushLock == IsHook("relay.flush.lock") /\ Keep(tv0) /\ WkFlushLock
TFlushStore == IsHook("relay.flush.store") /\ Keep(tv0) /\ pcW = "store" /\ UNCHANGED vars
TFlushDone == IsHook("relay.flush.done") /\ Keep(tv0) /\ WkUnlock
(* resetToStandby: the hook follows the successful CAS in the same goroutine, the clears follow the hook *)
Clearing == pcI = "clear" \/ pcO = "clear" \/ pcW = "clear" \/ \E p \in Pairs : pcTI[p] = "clear" \/ pcTO[p] = "clear"
TResetHook == /\ IsHook("relay.reset") /\ ~rk /\ Clearing /\ rk' = TRUE
              /\ (Ev.a[1] = 1 <=> pcW = "clear")
              /\ Keep(<<vars, dS, dC, dTS, dTC, ldI, ldO, hk, pend, obsC, obsS>>)

(* ---- silent steps ---- *)
TSilent ==
    /\ More /\ UNCHANGED l /\ Keep(<<dS, dC, dTS, dTC, ldI, ldO, hk, pend, obsC, obsS>>)
    /\ \/ /\ UNCHANGED rk
          /\ \/ InLoad \/ OutLoad \/ (ldI /\ InLock) \/ (ldO /\ OutLock)
             \/ OutStoreH \/ OutListen \/ InMark \/ OutMark
             \/ (WkStore /\ ~NextIsHook({"relay.flush.store"}))
             \/ WkRecvAct \/ WkRecvCfg
             \/ (hk = 1 /\ (WkStoreTC \/ WkSendAct))
             \/ (hk = 2 /\ WkSendCfg)
             \/ (hk >= 1 /\ (WkErrC \/ WkErrS))
             \/ AccExit \/ AccErr
             \/ \E p \in Pairs :
                   \/ AccAccept(p) \/ HCas(p) \/ HBind(p) \/ HCloseL(p) \/ HLose(p) \/ WrSEnd(p) \/ WrCEnd(p) \/ DialDropped(p)
                   \/ TILoad(p) \/ TILock(p) \/ TIMark(p) \/ TIFwd(p) \/ (pend[p] = <<>> /\ TIEof(p)) \/ TIErr(p) \/ TIBreak(p)
                   \/ TOLoad(p) \/ TOLock(p) \/ TOMark(p) \/ TOFwd(p) \/ TOEof(p) \/ TOErr(p) \/ TOBreak(p)
       \/ /\ rk /\ rk' = FALSE
          /\ \/ InClear \/ OutClear \/ WkClear \/ \E p \in Pairs : TIClear(p) \/ TOClear(p)

(* the relay's Read on the client's TCP connection returns one or more whole writes *)
TTIRead ==
    /\ More /\ UNCHANGED l /\ Keep(<<dS, dC, dTS, dTC, ldI, ldO, hk, rk, obsC, obsS>>)
    /\ \E p \in Pairs : \E k \in 1..Len(pend[p]) :
          /\ TIRead(p, Flat(SubSeq(pend[p], 1, k)))
          /\ pend' = [pend EXCEPT ![p] = SubSeq(@, k + 1, Len(@))]

(* ---- the tunnel connections ---- *)
TDial == /\ IsEvent("dial") /\ Dial(Ev.pr) /\ Keep(tv0)
TDialFail == /\ IsEvent("dialfail") /\ lst = "none" /\ pcl[Ev.pr] = "idle"
             /\ pcl' = [pcl EXCEPT ![Ev.pr] = "closed"] /\ Keep(tv0)
             /\ UNCHANGED <<shared, bufs, outs, hist, pI, pO, pTI, pTO, pW, acc, hp, trRelay, chC, chS, psv, rcC, rcS>>
TConnect == /\ IsEvent("connect") /\ HGreet(Ev.pr) /\ Keep(tv0)
THello4 == /\ IsEvent("hello4") /\ hp[Ev.pr] \in {"cas", "bind", "closeL", "lose", "done", "lost"}
           /\ UNCHANGED vars /\ Keep(tv0)
TTWrite == /\ IsEvent("twrite") /\ pcl[Ev.pr] = "open"
           /\ pend' = [pend EXCEPT ![Ev.pr] = Append(@, Ev.u)]
           /\ UNCHANGED vars /\ Keep(<<dS, dC, dTS, dTC, ldI, ldO, hk, rk, obsC, obsS>>)
TTFeed == /\ IsEvent("tfeed") /\ psv[Ev.pr] = "open" /\ TORead(Ev.pr, Ev.u) /\ Keep(tv0)
TDeliver ==
    /\ IsEvent("deliver") /\ UNCHANGED vars /\ Keep(<<dTS, dTC, ldI, ldO, hk, rk, pend, obsC, obsS>>)
    /\ IF Ev.to = "s"
       THEN /\ dS + Len(Ev.u) <= Len(sin) /\ SubSeq(sin, dS + 1, dS + Len(Ev.u)) = Ev.u
            /\ dS' = dS + Len(Ev.u) /\ dC' = dC
       ELSE /\ dC + Len(Ev.u) <= Len(cout) /\ SubSeq(cout, dC + 1, dC + Len(Ev.u)) = Ev.u
            /\ dC' = dC + Len(Ev.u) /\ dS' = dS
TTDeliver ==
    /\ IsEvent("tdeliver") /\ UNCHANGED vars /\ Keep(<<dS, dC, ldI, ldO, hk, rk, pend, obsC, obsS>>)
    /\ LET p == Ev.pr IN
       IF Ev.to = "s"
       THEN /\ dTS[p] + Len(Ev.u) <= Len(tsrv[p]) /\ SubSeq(tsrv[p], dTS[p] + 1, dTS[p] + Len(Ev.u)) = Ev.u
            /\ dTS' = [dTS EXCEPT ![p] = @ + Len(Ev.u)] /\ dTC' = dTC
       ELSE /\ dTC[p] + Len(Ev.u) <= Len(tcli[p]) /\ SubSeq(tcli[p], dTC[p] + 1, dTC[p] + Len(Ev.u)) = Ev.u
            /\ dTC' = [dTC EXCEPT ![p] = @ + Len(Ev.u)] /\ dTS' = dTS
TTClose == /\ IsEvent("tclose") /\ Keep(tv0)
           /\ IF Ev.who = "c" THEN CliClose(Ev.pr) ELSE SrvClose(Ev.pr)
(* an end saw the relay close its connection (a connection dropped from the backlog looks the same to the client) *)
TRClosed == /\ IsEvent("rclosed") /\ UNCHANGED vars /\ Keep(<<dS, dC, dTS, dTC, ldI, ldO, hk, rk, pend>>)
            /\ IF Ev.side = "s" THEN /\ rcS[Ev.pr] /\ obsS' = [obsS EXCEPT ![Ev.pr] = TRUE] /\ obsC' = obsC
                                ELSE /\ (rcC[Ev.pr] \/ (pcl[Ev.pr] = "closed" /\ hp[Ev.pr] = "idle"))
                                     /\ obsC' = [obsC EXCEPT ![Ev.pr] = TRUE] /\ obsS' = obsS

AllOut == /\ dS = Len(sin) /\ dC = Len(cout) /\ \A p \in Pairs : dTS[p] = Len(tsrv[p]) /\ dTC[p] = Len(tcli[p])
          /\ \A p \in Pairs : pend[p] = <<>>
TQuiet == /\ IsEvent("quiet") /\ UNCHANGED vars /\ Keep(tv0) /\ Idle
(* what the census saw of the pair's goroutines must be where the model has them *)
(* an end-of-stream step of the pair is still possible: after the driver's generous wait (strict) that is a pump or a *)
(* writer that did not end although it saw io.EOF / its channel closed                                              *)
CanEnd(p) == \/ (pcTI[p] = "read" /\ ((pcl[p] = "closed" /\ ~rcC[p] /\ pend[p] = <<>>) \/ rcC[p]))
             \/ (pcTO[p] = "read" /\ ((psv[p] = "closed" /\ ~rcS[p]) \/ rcS[p]))
             \/ (pcTI[p] = "eofwait" /\ ~trRelay[p]) \/ (pcTO[p] = "eofwait" /\ ~trRelay[p])
             \/ (chC[p] = "closed" /\ ~rcS[p]) \/ (chS[p] = "closed" /\ ~rcC[p])
PumpIs(pc, s) == CASE s = "ended" -> pc = "ended" [] s = "spin" -> pc = "spin" [] s = "eofwait" -> pc = "eofwait"
                   [] s = "read" -> pc = "read" [] OTHER -> FALSE
TPumps == /\ IsEvent("pumps") /\ UNCHANGED vars /\ Keep(tv0)
          /\ LET p == Ev.pr IN
             /\ PumpIs(pcTI[p], Ev.ti) /\ PumpIs(pcTO[p], Ev.to)
             /\ (Ev.wrs = "ended" => rcS[p]) /\ (Ev.wrc = "ended" => rcC[p])     \* (a writer seen alive may be about to exit)
             /\ (rcS[p] => obsS[p]) /\ (rcC[p] => obsC[p])
             /\ (Ev.strict => ~CanEnd(p))
(* end of an accepted session: everything is out, every close the model performed was observed *)
TFinal == /\ IsEvent("final") /\ UNCHANGED vars /\ Keep(tv0) /\ Idle /\ AllOut
          /\ \A p \in Pairs : (rcS[p] => obsS[p]) /\ ((rcC[p] /\ pcl[p] # "idle") => obsC[p])
          /\ \A p \in Pairs : Resolved(p) /\ pcl[p] # "dialed"
TStuck == IsEvent("stuck") /\ UNCHANGED vars /\ Keep(tv0)

Step == TReset \/ TFeed \/ TInLoad \/ TOutLoad \/ TParkDone \/ TParkSkip \/ TInFwd \/ TOutFwd \/ TOutTrigger
        \/ THsAct \/ THsCfg \/ TFlushLock \/ TFlushStore \/ TFlushDone \/ TResetHook \/ TSilent \/ TTIRead
        \/ TDial \/ TDialFail \/ TConnect \/ THello4 \/ TTWrite \/ TTFeed \/ TDeliver \/ TTDeliver \/ TTClose \/ TRClosed
        \/ TQuiet \/ TPumps \/ TFinal \/ TStuck

(* state properties are remembered along the path and judged only once the session was accepted *)
Flags == (IF ResetClean THEN {} ELSE {"ResetClean"}) \cup (IF AtMostOneTunnelRelay THEN {} ELSE {"AtMostOneTunnelRelay"})
         \cup (IF BoundIsCurrent THEN {} ELSE {"BoundIsCurrent"}) \cup (IF ParkOnlyWhileHandshaking THEN {} ELSE {"ParkOnlyWhileHandshaking"})
TNext == Step /\ bad' = (IF More /\ Ev.e = "reset" /\ l' = l + 1 THEN {} ELSE bad \cup Flags')
TSpec == TInit /\ [][TNext]_tvars

-----------------------------------------------------------------------------
Accepted1 == l > 1 /\ TraceLog[l - 1].e = "final"       \* the session that just ended was accepted on this path
TTunnelOrder == Accepted1 => TunnelOrder
TTunnelNotInband == Accepted1 => TunnelNotInband
TInbandIgnoredWhileTunnel == Accepted1 => InbandIgnoredWhileTunnel
TInbandOrder == Accepted1 => InbandOrder
TTunnelNothingLost ==
    Accepted1 => /\ \A p \in Pairs : /\ \A x \in Set(fedTC[p]) : x \in junk \/ Has(tsrv[p], x)
                                     /\ \A x \in Set(fedTS[p]) : x \in junk \/ Has(tcli[p], x)
                 /\ inQ = <<>> /\ outQ = <<>> /\ inRest = <<>> /\ outRest = <<>>
TInbandNothingLost ==
    Accepted1 => /\ \A x \in Set(fedC) : x \in junk \/ Has(sin, x)
                 /\ \A x \in Set(fedS) : x \in junk \/ Has(cout, x)
TTunnelNoJunk == Accepted1 => TunnelNoJunk
TLoserClosed == Accepted1 => \A p \in Pairs : (hp[p] = "lost" => rcC[p] /\ rcS[p] /\ obsC[p] /\ obsS[p]) /\ (hp[p] = "refused" => rcC[p] /\ obsC[p])
TResetClean == Accepted1 => "ResetClean" \notin bad
TAtMostOne == Accepted1 => "AtMostOneTunnelRelay" \notin bad
TBoundIsCurrent == Accepted1 => "BoundIsCurrent" \notin bad
TParkOnly == Accepted1 => "ParkOnlyWhileHandshaking" \notin bad

HW == IF l > TLCGet(1) THEN TLCSet(1, l) ELSE TRUE
ASSUME TLCSet(1, 0)
Accepted == IF TLCGet(1) = Len(TraceLog) + 1 THEN TRUE
            ELSE PrintT("HW " \o ToString(TLCGet(1))) /\ FALSE
=============================================================================
