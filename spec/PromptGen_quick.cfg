SPECIFICATION GSpec
CONSTANTS
  Symbols = {"j", "k", "CR", "ETX", "q", "DOWN", "UP", "x", "TH", "TL", "Hj", "H3", "LF"}
  MaxSyms = 3
  MaxCuts = 1
  Quirks = {}
INVARIANTS Export
CHECK_DEADLOCK FALSE
