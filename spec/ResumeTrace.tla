---------------------------- MODULE ResumeTrace ----------------------------
(* Trace validation for Resume: one recorded run = the transfer of one file by the real code   *)
(* (both ends real, harness/c08_resume.go), projected from the wire tap in tap order:           *)
(*   reset{proto, src, old, ex, kind, cpl}   the case; cpl = common prefix measured on the     *)
(*                                           real files (cross-checks the materialisation)     *)
(*   name | target{a} | presize{a} | hash{a} | ack{a, b} | over | size{skip} |                 *)
(*   payload{skip} | done{cres, sres, same, dstlen, touched, extra, srcsame}                   *)
(* Offsets are in units (-2 when a byte offset is not on a unit boundary: never accepted).     *)
(* Steps of the code that write no line are silent.  The final state of the destination is     *)
(* the OBSERVED one (done event), and Resume's own invariants are evaluated on it.             *)
EXTENDS Resume, Json, IOUtils, TLCExt

TraceLog == ndJsonDeserialize(IOEnv.VERIF_TRACE)

VARIABLES l, judged
tvars == <<vars, l, judged>>

Ev == TraceLog[l]
More == l <= Len(TraceLog)
IsEvent(e) == More /\ Ev.e = e /\ l' = l + 1 /\ UNCHANGED judged

TInit == Init /\ proto = 4 /\ src = <<>> /\ ~oldEx /\ l = 1 /\ judged = FALSE

TReset ==
    /\ More /\ Ev.e = "reset" /\ l' = l + 1 /\ judged' = FALSE
    /\ Load(Ev.proto, Ev.src, Ev.old, Ev.ex, Ev.kind)
    /\ Ev.src = Ident(Len(Ev.src))
    /\ Ev.ex => Ev.cpl = CPL(Ev.src, Ev.old)

LastOf(ch) == ch[Len(ch)]

TName == IsEvent("name") /\ SendName
TTarget == IsEvent("target") /\ RecvName /\ LastOf(r2s').a = Ev.a
TPreSize == IsEvent("presize") /\ SendPreSize /\ LastOf(s2r').a = Ev.a
THash == IsEvent("hash") /\ HashSend /\ LastOf(s2r').a = Ev.a
TAck == IsEvent("ack") /\ RecvHashCompare /\ rpc' = "hash" /\ LastOf(r2s').a = Ev.a /\ LastOf(r2s').b = Ev.b
TOver == IsEvent("over") /\ HashOver
TSize == IsEvent("size") /\ SendSize /\ Len(src) - LastOf(s2r').a = Ev.skip
(* the receiver's last acknowledgement: everything it was sent is on disk *)
TPayload == IsEvent("payload") /\ RecvData /\ Len(src) - LastOf(r2s').a = Ev.skip

Silent ==
    /\ More /\ Ev.e # "reset" /\ UNCHANGED <<l, judged>>
    /\ \/ RecvTarget \/ SenderStop \/ SenderSeek \/ RecvSizeAck \/ SendData \/ RecvDataAck
       \/ HashTest \/ AckRecv
       \/ RecvPreSize \/ RecvHashIgnore \/ RecvOver \/ RecvSize

Observed(same, n) == IF same THEN src ELSE [i \in 1..(IF n >= 0 THEN n ELSE 0) |-> -999]

(* both roles returned success; from here on the destination directory is what was observed    *)
TDone ==
    /\ More /\ Ev.e = "done" /\ l' = l + 1 /\ ~judged /\ judged' = TRUE
    /\ Done /\ Ev.cres = "ok" /\ Ev.sres = "ok"
    /\ dir' = [nm \in Names |->
                 IF nm = "f" THEN File(Observed(Ev.same /\ Ev.srcsame, Ev.dstlen))
                 ELSE IF nm = "g" THEN (IF Ev.touched = 0 THEN Other ELSE File(<<-999>>))
                 ELSE (IF Ev.extra = 0 THEN Absent ELSE File(<<-999>>))]
    /\ UNCHANGED <<case, svars, rvars, s2r, r2s, payload, nhash>>

(* as-coded model only: the run that cannot finish ends with both roles timing out *)
TStuckDone ==
    /\ AsCoded /\ More /\ Ev.e = "done" /\ l' = l + 1 /\ ~judged /\ judged' = TRUE
    /\ Stuck /\ Ev.cres = "fail" /\ Ev.sres = "fail" /\ Ev.timeout
    /\ UNCHANGED vars

TNext == TStuckDone \/ TReset \/ TName \/ TTarget \/ TPreSize \/ THash \/ TAck \/ TOver \/ TSize \/ TPayload \/ Silent \/ TDone
TSpec == TInit /\ [][TNext]_tvars

(* invariants that make sense on the observed final state (the others are Resume's own) *)
ObsFinalEqualsSrc == judged => FinalEqualsSrc
ObsTailCut == judged => TailCut
ObsOthersUntouched == judged => OthersUntouched

HW == IF l > TLCGet(1) THEN TLCSet(1, l) ELSE TRUE
ASSUME TLCSet(1, 0)
Accepted == IF TLCGet(1) = Len(TraceLog) + 1 THEN TRUE
            ELSE PrintT("HW " \o ToString(TLCGet(1))) /\ FALSE
=============================================================================
