---------------------------- MODULE TransferObs ----------------------------
(* Observable-level trace validation for Transfer: the recorded real executions of the       *)
(* end-to-end harness (harness/e2e_*.go) are projected onto Transfer's observable variables  *)
(* (cf, result, made, dst, told, faults) and Transfer's own property operators -- the very   *)
(* formulas TLC checks on every reachable state of the design -- are evaluated on them.      *)
(* Events per run:  reset{cfg} [stop|pause|resume|line ...] ret{C} ret{V} fs{...} [left{n}]  *)
EXTENDS Transfer, Json, IOUtils, TLCExt

TraceLog == ndJsonDeserialize(IOEnv.VERIF_TRACE)

VARIABLES l, obs      \* obs: what only the harness sees (hang flags, extra paths, shown names, time)
tvars == <<vars, l, obs>>

Ev == TraceLog[l]
More == l <= Len(TraceLog)
IsEvent(e) == More /\ Ev.e = e /\ l' = l + 1

Obs0 == [phase |-> "idle", hung |-> {}, extra |-> 0, touched |-> 0, shown |-> TRUE, n |-> 0, nsame |-> 0,
         stop |-> "none", stopdel |-> FALSE, pause |-> FALSE, silence |-> FALSE, left |-> 0,
         ms |-> [r \in Roles |-> 0], since |-> [r \in Roles |-> -1], npresent |-> 0, keptok |-> TRUE,
         timeout |-> 0, run |-> -1, fkind |-> "none", prehs |-> FALSE,
         pdata |-> 0, pkeep |-> 0, dataafter |-> 0, pausems |-> 0, npauses |-> 0, crashed |-> FALSE, vmgrow |-> 0]

(* one abstract one-block file stands for the whole named tree: DstSame(1) <=> every entry same *)
OneFile == <<[dir |-> FALSE, size |-> 1, comp |-> FALSE]>>

ResetInternals ==
    /\ chan' = [r \in Roles |-> <<>>] /\ dead' = [r \in Roles |-> FALSE]
    /\ pc' = [r \in Roles |-> "run"] /\ fi' = [r \in Roles |-> 0]
    /\ rem' = 0 /\ outst' = <<>> /\ sdig' = Empty /\ got' = Empty /\ ackq' = <<>> /\ fin' = FALSE /\ rsize' = 0 /\ nann' = 0
    /\ rdig' = Empty /\ fileOK' = [r \in Roles |-> {}] /\ stopped' = [r \in Roles |-> "no"]

TInit ==
    /\ cf = [files |-> OneFile, proto |-> 4, upload |-> TRUE, confirm |-> TRUE]
    /\ chan = [r \in Roles |-> <<>>] /\ dead = [r \in Roles |-> FALSE]
    /\ pc = [r \in Roles |-> "run"] /\ fi = [r \in Roles |-> 0]
    /\ rem = 0 /\ outst = <<>> /\ sdig = Empty /\ got = Empty /\ ackq = <<>> /\ fin = FALSE /\ rsize = 0 /\ nann = 0
    /\ rdig = Empty /\ fileOK = [r \in Roles |-> {}] /\ stopped = [r \in Roles |-> "no"]
    /\ dst = [f \in 1..1 |-> Empty] /\ made = {} /\ result = [r \in Roles |-> "run"]
    /\ faults = 0 /\ told = [r \in Roles |-> FALSE]
    /\ paused = FALSE /\ npause = 0 /\ quiet = 0 /\ maxquiet = 0
    /\ l = 1 /\ obs = Obs0

TReset ==
    /\ IsEvent("reset")
    /\ cf' = [files |-> OneFile, proto |-> Ev.proto, upload |-> Ev.upload, confirm |-> TRUE]
    /\ ResetInternals
    /\ dst' = [f \in 1..1 |-> Empty] /\ made' = {} /\ result' = [r \in Roles |-> "run"]
    /\ faults' = Ev.nfaults /\ told' = [r \in Roles |-> FALSE]
    /\ obs' = [Obs0 EXCEPT !.phase = "running", !.stop = Ev.stop, !.stopdel = Ev.stopdel, !.pause = Ev.pause,
                           !.silence = Ev.silence, !.timeout = Ev.timeout, !.run = Ev.run,
                           !.fkind = Ev.fkind, !.prehs = Ev.prehs]

(* internal / steering events are consumed without effect at this level *)
TSkip ==
    /\ More /\ Ev.e \in {"line", "stop", "pause", "resume", "fault"} /\ l' = l + 1
    /\ obs.phase = "running"
    /\ UNCHANGED <<vars, obs>>

ObsRcv == IF cf.upload THEN "V" ELSE "C"
ObsSnd == IF cf.upload THEN "C" ELSE "V"

TRet ==
    /\ IsEvent("ret") /\ obs.phase = "running" /\ result[Ev.role] = "run"
    /\ result' = [result EXCEPT ![Ev.role] = IF Ev.hung THEN "run" ELSE Ev.res]
    /\ told' = [told EXCEPT ![Ev.role] = Ev.told]
    /\ pc' = [pc EXCEPT ![Ev.role] = IF Ev.hung THEN "run" ELSE "done"]
    /\ fileOK' = [fileOK EXCEPT ![Ev.role] = IF Ev.res = "ok" /\ ~Ev.hung /\ (Ev.role = ObsRcv => Ev.claims > 0) THEN {1} ELSE {}]
    /\ obs' = [obs EXCEPT !.hung = IF Ev.hung THEN @ \cup {Ev.role} ELSE @, !.ms[Ev.role] = Ev.ms,
                          !.since[Ev.role] = Ev.since]
    \* the receiver's claim: the entries it lists as saved / received (the one abstract file stands for them)
    /\ nann' = IF Ev.role = ObsRcv THEN (IF Ev.claims > 0 THEN 1 ELSE 0) ELSE nann
    /\ UNCHANGED <<cf, chan, dead, fi, rem, outst, sdig, got, ackq, fin, rsize, dst, made, rdig, stopped, faults>>

TFs ==
    /\ IsEvent("fs") /\ obs.phase = "running"
    /\ made' = IF Ev.n > 0 /\ Ev.nsame > 0 THEN {1} ELSE {}
    \* the sender's success is about every entry it was given, the receiver's about the entries it lists
    /\ dst' = [f \in 1..1 |-> IF /\ (result[ObsSnd] = "ok" => Ev.allsame)
                                 /\ (result[ObsRcv] = "ok" /\ nann > 0 => Ev.claimsame)
                                 /\ (~AnyOK => Ev.allsame)
                              THEN Src(1) ELSE Cont(0, 1)]
    /\ obs' = [obs EXCEPT !.phase = "judged", !.extra = Ev.extra, !.touched = Ev.touched, !.shown = Ev.shown,
                          !.n = Ev.n, !.nsame = Ev.nsame, !.npresent = Ev.npresent, !.keptok = Ev.keptok,
                          !.vmgrow = Ev.vmgrow, !.pdata = Ev.pdata, !.pkeep = Ev.pkeep, !.dataafter = Ev.dataafter, !.pausems = Ev.pausems, !.npauses = Ev.npauses]
    /\ UNCHANGED <<cf, chan, dead, pc, fi, rem, outst, sdig, got, ackq, fin, rsize, nann, rdig, result, fileOK, stopped,
                   faults, told>>

TLeft ==
    /\ IsEvent("left") /\ obs.phase = "judged"
    /\ obs' = [obs EXCEPT !.left = Ev.n]
    /\ UNCHANGED vars

(* the process running the roles died (panic, fatal error, signal) during this run *)
TCrash ==
    /\ IsEvent("crash") /\ obs.phase = "running"
    /\ obs' = [obs EXCEPT !.phase = "judged", !.crashed = TRUE]
    /\ UNCHANGED vars

(* a planned stop / pause / fault that never happened (the transfer was over before the planned moment came): *)
(* the run is an undisturbed one                                                                            *)
TUnfired ==
    /\ IsEvent("unfired") /\ obs.phase = "running"
    /\ obs' = [obs EXCEPT !.stop = "none", !.stopdel = FALSE, !.pause = FALSE, !.silence = FALSE]
    /\ UNCHANGED vars

TNext == TReset \/ TSkip \/ TRet \/ TFs \/ TLeft \/ TCrash \/ TUnfired
TSpec == TInit /\ [][TNext /\ UNCHANGED PauseVars]_tvars

-----------------------------------------------------------------------------
Judged == obs.phase = "judged"
Plain == obs.stop = "none" /\ ~obs.pause /\ ~obs.silence /\ faults = 0

(* Transfer's own invariants on the observed final state *)
ObsFidelity == Judged => Fidelity
ObsNoSilentCorruption == Judged => NoSilentCorruption
(* without faults a receiver that succeeds lists something (and ObsShown: what it lists is what is there) *)
ObsClaimsAll == (Judged /\ Plain) => ClaimsAll
(* C01 second half: a fault-free run with a cooperative peer completes on both sides, in time *)
ObsCleanRunSucceeds == (Judged /\ Plain) => (obs.hung = {} /\ \A r \in Roles : result[r] = "ok")
(* the names shown are the names written, nothing else appears, nothing pre-existing changes *)
ObsShown == (Judged /\ AnyOK) => (obs.shown /\ obs.extra = 0)
ObsNoHang == Judged => obs.hung = {}

(* C10.  Bound: the stopping side drains for max(2 x chunk time, 500 ms), a server adds its 500 ms *)
(* exit drain, the peer learns from the fail line or at the latest after one read time-out.         *)
StopBoundMs == obs.timeout * 1000 + 1500 + 8000
Stopped == obs.stop # "none"
ObsStopPrompt == (Judged /\ Stopped) => (obs.hung = {} /\ \A r \in Roles : obs.since[r] <= StopBoundMs)
ObsDeleteExact == (Judged /\ Stopped /\ obs.stopdel /\ result[ObsRcv] # "ok" /\ result["C"] # "ok")
                      => (obs.npresent = 0 /\ obs.touched = 0)
(* Transfer!StopDelAgreed on the observed outcome: an uploading client that ends with its stop-and-delete (it has *)
(* not sent the exit message) never faces a server that reports the files as saved, and nothing is left.     *)
ObsStopDelAgreed == (Judged /\ obs.stop = "C" /\ obs.stopdel /\ cf.upload /\ result["C"] # "ok")
                      => (result["V"] # "ok" /\ obs.npresent = 0 /\ obs.touched = 0)
ObsKeepIntact == (Judged /\ Stopped /\ ~obs.stopdel) => (obs.keptok /\ obs.touched = 0)

(* C11.  A role notices silence after one read time-out (the client's default 20 s while it has *)
(* not yet received the configuration), drains (<= 500 ms, the server another 500 ms) and      *)
(* returns; its fail line ends the peer.                                                       *)
FaultBoundMs == (IF obs.prehs THEN 20000 ELSE obs.timeout * 1000) + 1500 + 8000
Faulted == obs.silence
ObsReturnInTime == (Judged /\ Faulted) => (obs.hung = {} /\ \A r \in Roles : obs.since[r] <= FaultBoundMs)
ObsPeerTold == (Judged /\ Faulted /\ \E r \in Roles : result[r] = "fail") => \E r \in Roles : told[r]
ObsNoWorkerLeft == Judged => obs.left = 0

(* C18.  A pause clearly shorter than the time-out (<= half of it) must not break the transfer;   *)
(* any pause: no hang, no false success; while paused at most the one chunk that had already     *)
(* passed its pause check is written, and keep-alive lines flow when data remains to be sent.    *)
Paused == obs.pause
ShortPause == obs.pausems * 2 <= obs.timeout * 1000
ObsShortPauseCompletes == (Judged /\ Paused /\ ShortPause /\ ~obs.silence) => (obs.hung = {} /\ \A r \in Roles : result[r] = "ok")
PauseBoundMs == obs.pausems * 3 + 2 * obs.timeout * 1000 + 1500 + 8000
ObsPauseNoHang == (Judged /\ Paused) => (obs.hung = {} /\ \A r \in Roles : obs.since[r] <= PauseBoundMs)
(* per pause at most the one chunk that had already passed its pause check *)
ObsNoDataWhilePaused == (Judged /\ Paused) => obs.pdata <= obs.npauses
ObsKeepAlive == (Judged /\ Paused /\ cf.upload /\ obs.dataafter > 0 /\ obs.pausems >= 500) => obs.pkeep >= 1

(* C12.  Whatever one field of the peer's messages is replaced by: the process survives, its      *)
(* address space does not grow by more than 1 GiB during a transfer of a few KiB, both roles     *)
(* return in time.                                                                               *)
ObsNoCrash == ~obs.crashed
ObsBoundedMemory == Judged => obs.vmgrow <= 1024

HW == IF l > TLCGet(1) THEN TLCSet(1, l) ELSE TRUE
ASSUME TLCSet(1, 0)
Accepted == IF TLCGet(1) = Len(TraceLog) + 1 THEN TRUE
            ELSE PrintT("HW " \o ToString(TLCGet(1))) /\ FALSE
=============================================================================
