----------------------------- MODULE CodecTrace -----------------------------
(* Trace validation for Codec (implementation -> spec): consumes the ndjson events recorded  *)
(* by harness/c04_codec.go (driver c04_tv) from real calls of getEscapeChars / MarshalJSON / *)
(* escapeTable.UnmarshalJSON, escapeData, escapeWriter.Write, escapeReader.Read and          *)
(* unescapeData.  Every call is one step of Codec with its inputs and outputs bound:         *)
(*   reset                                                                                   *)
(*   table{tmode, ann, parsed, inv}   ann = pairs the server put into the CFG JSON,          *)
(*                                    parsed/inv = escapeCodes / unescapeCodes of the table  *)
(*                                    the client built from that JSON                        *)
(*   write{p, out}                    escapeWriter.Write(p) (or escapeData(p)) emitted out   *)
(*   close | inject{w}                                                                       *)
(*   read{cap} fill{c} ret{res, buf}  escapeReader.Read: entry, source reads, return         *)
(*   feed{c} call{in, cap, buf, rem, err}   direct unescapeData loop of the driver           *)
(*   whole{res, buf}                  unescapeData(wire, table, nil) + "remaining" rule      *)
(* Loop turns of Read that neither read the source nor return are silent steps.              *)
EXTENDS Codec, Json, IOUtils, TLCExt

TraceLog == ndJsonDeserialize(IOEnv.VERIF_TRACE)

VARIABLE l
tvars == <<vars, l>>

Ev == TraceLog[l]
More == l <= Len(TraceLog)
IsEvent(e) == More /\ Ev.e = e /\ l' = l + 1

PairsOf(s) == {<<s[i][1], s[i][2]>> : i \in 1..Len(s)}

TInit == Init /\ l = 1

TReset == IsEvent("reset") /\ Reset

(* the JSON round trip is faithful, both lookup arrays agree, no duplicate entries, and the  *)
(* announcement protects what the server mode promises                                       *)
TTable == /\ IsEvent("table")
          /\ TableFromJSON(PairsOf(Ev.ann), PairsOf(Ev.parsed))
          /\ Cardinality(PairsOf(Ev.ann)) = Len(Ev.ann)
          /\ PairsOf(Ev.inv) = {<<p[2], p[1]>> : p \in PairsOf(Ev.parsed)}
          /\ MustProtect(Ev.tmode) \subseteq Protected(PairsOf(Ev.ann))

TWrite == IsEvent("write") /\ WriterWrite(Ev.p, Ev.out)

TClose == IsEvent("close") /\ WriterClose

TInject == IsEvent("inject") /\ Inject(Ev.w)

TRead == IsEvent("read") /\ Ev.cap > 0 /\ ReadStart(Ev.cap)

TFill == IsEvent("fill") /\ ReadFill(Ev.c)

(* a loop turn that finds nothing decodable and goes on to read the source *)
TSilent == /\ More /\ Ev.e \in {"fill", "ret"}
           /\ ReadDecode /\ pc' = "fill"
           /\ UNCHANGED l

TRet == /\ IsEvent("ret")
        /\ \/ /\ Ev.res = "ok" /\ ReadDecode /\ pc' = "idle"
              /\ decoded' = decoded \o Ev.buf
           \/ /\ Ev.res = "err" /\ ReadDecode /\ pc' = "err"
           \/ /\ Ev.res = "eof" /\ ReadEOF

(* direct use of unescapeData: the driver appends input only when nothing is decodable *)
TFeed == /\ IsEvent("feed")
         /\ phase = "read" /\ (pc = "fill" \/ (pc = "idle" /\ carry = <<>>))
         /\ Fill(Ev.c)

TCall == /\ IsEvent("call")
         /\ phase = "read" /\ pc \in {"idle", "decode"} /\ carry # <<>>
         /\ Ev.in = carry
         /\ cap' = Ev.cap
         /\ DecodeWith(Ev.cap)
         /\ UNCHANGED <<table, phase, mode, data, wire, fed>>
         /\ LET r == UnescapeCall(table, carry, Ev.cap) IN
            /\ r.err = Ev.err
            /\ ~r.err => (r.buf = Ev.buf /\ r.rem = Ev.rem)

TWhole == /\ IsEvent("whole")
          /\ UnescapeWhole
          /\ Ev.res = (IF pc' = "eof" THEN "ok" ELSE errKind')
          /\ pc' = "eof" => decoded' = Ev.buf

TNext == TReset \/ TTable \/ TWrite \/ TClose \/ TInject \/ TRead \/ TFill \/ TSilent \/ TRet
         \/ TFeed \/ TCall \/ TWhole

TSpec == TInit /\ [][TNext]_tvars

(* high-water mark of consumed lines; TLCSet/TLCGet register 1, -workers 1 *)
HW == IF l > TLCGet(1) THEN TLCSet(1, l) ELSE TRUE
ASSUME TLCSet(1, 0)
Accepted == IF TLCGet(1) = Len(TraceLog) + 1 THEN TRUE
            ELSE PrintT("HW " \o ToString(TLCGet(1))) /\ FALSE
=============================================================================
