SPECIFICATION Spec
CONSTANTS
  Files = {1, 2}
  Texts = {3}
  Classes = {"io", "simple", "proto", "panic", "timeout", "stop", "remote"}
  MaxInject = 1
  MaxNoise = 0
  WithBg = FALSE
  WithDead = {}
  AsCoded = FALSE
  Mutant = "none"
INVARIANTS TypeOK ToldAtMostOnce ToldUnlessPeerKnows KindMatchesTraceback ShownIsSent OnlyCreated TermResetOnce DrainBounded
CHECK_DEADLOCK FALSE
