SPECIFICATION Spec
CONSTANTS
  CliChunks <- NoCli
  SrvChunks <- SrvTonly
  Pairs <- P1
  PairRound <- R1
  CliTun <- CTmin
  SrvTun <- STmin
  Confirm <- Yes1
  ParkRule = "real"
  FlushRoute = "real"
  UseCAS = TRUE
  ClearTC = TRUE
  SpinOnError = TRUE
  SrvErrEOF = FALSE
  Window = FALSE
  LateOK = FALSE
  Closing = TRUE
INVARIANTS TunnelOrder TunnelNotInband InbandIgnoredWhileTunnel InbandOrder AtMostOneTunnelRelay BoundIsCurrent
  TunnelNothingLost InbandNothingLost TunnelNoJunk LoserClosed ResetClean ParkOnlyWhileHandshaking
PROPERTIES Progress PumpsEndOrSpin
CHECK_DEADLOCK FALSE
