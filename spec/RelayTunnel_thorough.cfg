SPECIFICATION Spec
CONSTANTS
  CliChunks <- CliT2
  SrvChunks <- SrvT2
  Pairs <- P1
  PairRound <- R1
  CliTun <- CT2
  SrvTun <- ST2
  Confirm <- Yes1
  ParkRule = "real"
  FlushRoute = "real"
  UseCAS = TRUE
  ClearTC = TRUE
  SpinOnError = TRUE
  SrvErrEOF = FALSE
  Window = FALSE
  LateOK = FALSE
  Closing = FALSE
INVARIANTS TunnelOrder TunnelNotInband InbandIgnoredWhileTunnel InbandOrder AtMostOneTunnelRelay BoundIsCurrent
  TunnelNothingLost InbandNothingLost TunnelNoJunk LoserClosed ResetClean ParkOnlyWhileHandshaking
PROPERTIES Progress
CHECK_DEADLOCK FALSE
