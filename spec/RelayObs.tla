------------------------------ MODULE RelayObs ------------------------------
(* Observable-level trace validation of real transfers through a chain of 1 or 2 real relays   *)
(* (harness/c14_relay.go, c14_recover): the events of TransferObs for each transfer, then one   *)
(* `xfer` event with the action / configuration as sent and as received at the far end, the    *)
(* relays' status afterwards and the result of pass-through probes in both directions.         *)
EXTENDS TransferObs

VARIABLE rx
rvars == <<tvars, rx>>

Rx0 == [seen |-> FALSE, how |-> "none", hops |-> 0, trigger |-> TRUE, marked |-> TRUE,
        actIn |-> [present |-> FALSE], actOut |-> [present |-> FALSE], cfgIn |-> [present |-> FALSE],
        cfgOut |-> [present |-> FALSE], statuses |-> <<>>, probeUp |-> TRUE, probeDown |-> TRUE, consUp |-> TRUE, consDown |-> TRUE, ctimeout |-> FALSE, cms |-> 0]

RInit == TInit /\ rx = Rx0

TChain == /\ IsEvent("chain") /\ rx' = Rx0 /\ UNCHANGED <<vars, obs>>
TXfer == /\ IsEvent("xfer") /\ UNCHANGED <<vars, obs>>
         /\ rx' = [seen |-> TRUE, how |-> Ev.how, hops |-> Ev.hops, trigger |-> Ev.trigger, marked |-> Ev.marked,
                   actIn |-> Ev.actIn, actOut |-> Ev.actOut, cfgIn |-> Ev.cfgIn, cfgOut |-> Ev.cfgOut,
                   statuses |-> Ev.statuses, probeUp |-> Ev.probeUp, probeDown |-> Ev.probeDown,
                   consUp |-> Ev.consUp, consDown |-> Ev.consDown, ctimeout |-> Ev.ctimeout, cms |-> Ev.cms]

RNext == (TNext /\ rx' = IF Ev.e = "reset" THEN Rx0 ELSE rx) \/ TChain \/ TXfer
RSpec == RInit /\ [][RNext /\ UNCHANGED PauseVars]_rvars

(* C14 *)
Both == rx.seen /\ rx.actIn.present /\ rx.actOut.present
BothCfg == rx.seen /\ rx.cfgIn.present /\ rx.cfgOut.present
RTriggerForwarded == rx.seen => (rx.trigger /\ rx.marked)
RNoBinaryWithoutTunnel == (rx.seen /\ rx.cfgOut.present) => (rx.cfgOut.binary => rx.actIn.tunnel)
RProtocolClamped == /\ Both => (rx.actOut.proto <= rx.actIn.proto /\ rx.actOut.proto <= 4 /\ (rx.actOut.binary => rx.actIn.binary))
                    /\ BothCfg => rx.cfgOut.proto <= 4
ROnlyAdds == BothCfg =>
    /\ \A f \in {"quiet", "overwrite", "directory", "bufsize", "timeout", "binary", "proto"} : rx.cfgOut[f] = rx.cfgIn[f]
    /\ (rx.cfgIn.junk => rx.cfgOut.junk) /\ (rx.cfgIn.width > 0 => rx.cfgOut.width = rx.cfgIn.width)
(* every relay is back in standby after the transfer ended and is transparent again *)
RRecovers == rx.seen => (/\ \A i \in 1..Len(rx.statuses) : rx.statuses[i] = 0
                         /\ rx.probeUp /\ rx.probeDown)
(* whatever way a transfer ends: every line either end wrote left the chain once, in order *)
(* (in a handshake that fails the relay consumes the server's fail line and writes its own to both sides) *)
RConserved == (rx.seen /\ rx.how # "refuse") => (rx.consUp /\ rx.consDown)
(* a server that refuses after the action: the client learns the reason (the server's fail line), as it  *)
(* does when connected directly -- it does not sit out its own time-out                                   *)
RRefusalReaches == (rx.seen /\ rx.how = "refuse") => ~rx.ctimeout
(* a transfer through relays gives the same result as a direct one *)
RSameResult == (rx.seen /\ rx.how = "success") => (\A r \in Roles : result[r] = "ok") /\ Fidelity
=============================================================================
