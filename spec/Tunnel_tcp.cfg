SPECIFICATION Spec
CONSTANTS
  N = 2
  StrayScripts = {"wrong", "wrongid", "long", "right", "split", "silent", "flood"}
  Outcomes = {"refuse", "good"}
  Rendezvous = FALSE
  MaxData = 1
  Pumps = FALSE
INVARIANTS TypeOK AtMostOneAdopted AdoptedAuthenticated NoAnswerToStrangers OnlyAdoptedFeeds FallbackWorks AgreeConsistent NoLateAdoption
PROPERTIES InbandIgnoredAfterAgree
CHECK_DEADLOCK FALSE
