SPECIFICATION Spec
CONSTANTS
  OSes = {"linux", "macos", "win", "other"}
  AlphaLinux = {"R", "SL", "a", "SP", "SQ", "PS"}
  AlphaMac = {"R", "SL", "a", "SP", "BS"}
  AlphaWin = {"C", "CO", "BS", "a", "SP", "DQ"}
  MaxSyms = 5
  RootLen = 3
  FSNames = {"L1", "W1"}
  Quirks = {}
INVARIANTS TypeOK AllOrNothing NoDragLeavesInputUntouched CursorMonotone HasDirIff DragHasFiles NoDragNoFiles
           IgnoreMeansMarksOnly IsWinMeansWinHead AbsoluteOnly RefUnique DeadBranches
PROPERTIES CursorStep
CHECK_DEADLOCK TRUE
