SPECIFICATION FSpec
CONSTANTS
  AckFaults = 1
  B = 3
  MaxBlocks = 2
  Protocols = {2, 3, 4}
  AllPatterns = FALSE
  StepCheck = FALSE
  AsCoded = FALSE
INVARIANTS FinalEqualsSrc
CHECK_DEADLOCK FALSE
