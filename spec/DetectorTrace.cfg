SPECIFICATION TSpec
CONSTANTS
  MaxMem = 100
  PruneN = 50
  MaxChunks = 1000000
  MaxToks = 0
  Roles = {}
  WinVals = {}
  Modes = {}
  Vers = {}
  Ports <- PortsNone
  Shapes = {}
  TsSet = {}
  PartKinds = {}
  Markers = {}
  Places = {}
  CtlKinds = {}
  WithJunk = FALSE
INVARIANTS TypeOK RecentRemembered
CONSTRAINT HW
POSTCONDITION Accepted
CHECK_DEADLOCK FALSE
