----------------------------- MODULE Transfer -----------------------------
(* Message-level model of one trzsz transfer (transfer.go sendFiles/recvFiles, pipeline.go  *)
(* sendFileDataV2/recvFileDataV2 at message granularity, trz.go/tsz.go/filter.go role        *)
(* bodies, clientError/serverError).  Two roles: "C" client, "V" server; the file sender is  *)
(* the client for uploads and the server for downloads.  chan[r] = messages in flight to r.  *)
(* File content is abstract: a content is [len |-> n, ok |-> k] (n units, k = 0: "these are   *)
(* the source's units in order"); a DATA message carries a wire length a, the number b of     *)
(* decoded units it stands for and an ok flag; a digest is the content it was computed over.  *)
(* Environment actions: message-level faults on the channels (delete, duplicate, damage,     *)
(* truncate), user stop on either role, and time-outs (enabled only when nothing can arrive).*)
EXTENDS Integers, Sequences, SequencesExt, FiniteSets, TLC

CONSTANTS Configs,     \* set of [files, proto, upload, confirm]: one is chosen by Init and never changes
                       \*   files: sequence of [dir |-> BOOLEAN, size |-> Nat, comp |-> BOOLEAN]
                       \*   proto: negotiated protocol 1..4 (1: lock-step data, >= 2: pipelined data)
                       \*   upload: TRUE = the client sends the files
                       \*   confirm: FALSE = the client refuses the transfer (cancelled file dialog)
          Window,      \* max DATA messages sent but not yet acknowledged (pipelined mode)
          MaxFaults,   \* number of channel faults the environment may inject
          FaultKinds,  \* subset of {"del", "dup", "dmg", "trunc"}
          StopRoles,   \* roles on which the user may press stop
          MaxPauses,   \* number of pause/continue cycles the user may start on the client (protocol >= 3)
          TimeoutTicks,\* read time-out in clock ticks
          MaxTicks,    \* bound on the clock while paused
          Weaken       \* "none", or the name of one local check that is switched off (guard-necessity runs):
                       \* "md5_r" receiver's digest compare, "md5_s" sender's digest echo compare,
                       \* "ack_len" sender's ack length echo, "final" receiver's saved = size test

VARIABLE cf            \* the configuration of this transfer
Files == cf.files
Proto == cf.proto
Upload == cf.upload
Confirm == cf.confirm

Roles == {"C", "V"}
Peer(r) == IF r = "C" THEN "V" ELSE "C"
Snd == IF Upload THEN "C" ELSE "V"
Rcv == Peer(Snd)
NF == Len(Files)
(* ok = 0: genuine; ok = k > 0: damaged by fault number k -- two independently damaged values are   *)
(* never equal (no accidental digest collision), a damaged value never equals a genuine one          *)
Cont(n, ok) == [len |-> n, ok |-> ok]
Src(f) == Cont(Files[f].size, 0)
Empty == Cont(0, 0)
Plus(c, n, ok) == Cont(c.len + n, IF c.ok # 0 THEN c.ok ELSE ok)

Msg(t, a, b, ok) == [t |-> t, a |-> a, b |-> b, ok |-> ok]

VARIABLES
    chan,      \* [Roles -> Seq(Msg)]
    dead,      \* [Roles -> BOOLEAN]  direction towards r was cut (truncation): later sends are lost
    pc,        \* [Roles -> STRING]
    fi,        \* [Roles -> Nat] current file index
    rem,       \* sender: blocks of the current file not yet sent
    outst,     \* sender: lengths of DATA messages awaiting their ack (FIFO)
    sdig,      \* sender: sequence of blocks it has hashed for the current file
    got,       \* receiver: blocks received but not yet saved (decoded/written)
    ackq,      \* receiver: lengths of received DATA messages not yet acknowledged
    fin,       \* receiver: the empty DATA (finish flag) has been received
    rsize,     \* receiver: announced size of the current file
    nann,      \* receiver: number of files announced by the NUM line it received (0 before)
    dst,       \* [1..NF -> Seq(block)]  destination content
    made,      \* set of entries created at the destination
    rdig,      \* receiver: sequence of blocks it has hashed
    result,    \* [Roles -> {"run", "ok", "fail", "stopped", "refused"}]
    fileOK,    \* [Roles -> SUBSET 1..NF] files the role considers transferred and verified
    stopped,   \* [Roles -> {"no", "keep", "del"}] stop requested (and its kind) and not yet noticed
    faults,    \* faults injected so far
    told,      \* [Roles -> BOOLEAN] role has written a fail line (observable)
    paused,    \* the client is paused (stop/continue question shown)
    npause,    \* pauses started so far
    quiet,     \* ticks the server has been waiting without receiving anything while the client is paused
    maxquiet   \* the largest value quiet has reached (history, for ShortPauseCompletes)

vars == <<cf, chan, dead, pc, fi, rem, outst, sdig, got, ackq, fin, rsize, nann, dst, made, rdig, result, fileOK,
          stopped, faults, told, paused, npause, quiet, maxquiet>>

Stp(r) == stopped[r] # "no"
WasStopped(r) == result[r] \in {"stopped", "stoppeddel"}
PauseOK(r) == ~(paused /\ r = "C" /\ cf.proto >= 3)     \* checkStopAndPause / recvCheckV2 wait while pausing
Send(r, m) == IF dead[r] THEN chan ELSE [chan EXCEPT ![r] = Append(@, m)]   \* deliver to r
HasMsg(r) == chan[r] # <<>>
HeadMsg(r) == chan[r][1]
Pop(c, r) == [c EXCEPT ![r] = Tail(@)]

Init ==
    /\ cf \in Configs
    /\ chan = [r \in Roles |-> <<>>] /\ dead = [r \in Roles |-> FALSE]
    /\ pc = [r \in Roles |-> IF r = "C" THEN "c_act" ELSE "v_act"]
    /\ fi = [r \in Roles |-> 0]
    /\ rem = 0 /\ outst = <<>> /\ sdig = Empty
    /\ got = Empty /\ ackq = <<>> /\ fin = FALSE /\ rsize = 0 /\ nann = 0
    /\ dst = [f \in 1..NF |-> Empty] /\ made = {} /\ rdig = Empty
    /\ result = [r \in Roles |-> "run"] /\ fileOK = [r \in Roles |-> {}]
    /\ stopped = [r \in Roles |-> "no"] /\ faults = 0 /\ told = [r \in Roles |-> FALSE]
    /\ paused = FALSE /\ npause = 0 /\ quiet = 0 /\ maxquiet = 0

-----------------------------------------------------------------------------
(* Error path: clientError / serverError.  The role drains its input (cleanInput), then      *)
(* writes a fail line unless the error was a remote fail/exit, and is finished.              *)
FailA(r, how, remote, a) ==
    /\ result' = [result EXCEPT ![r] = how]
    /\ pc' = [pc EXCEPT ![r] = "done"]
    /\ told' = [told EXCEPT ![r] = ~remote]
    /\ chan' = IF remote \/ dead[Peer(r)]
               THEN [chan EXCEPT ![r] = <<>>]
               ELSE [chan EXCEPT ![r] = <<>>, ![Peer(r)] = Append(@, Msg("FAIL", a, 0, 0))]
    /\ stopped' = [stopped EXCEPT ![r] = "no"]
Fail(r, how, remote) == FailA(r, how, remote, 0)

Keep(r) == /\ result' = result /\ told' = told /\ stopped' = stopped /\ cf' = cf

(* Every receive of the code is recvCheck(expectType): a FAIL line or a wrong type fails.    *)
RecvOK(r, t) == HasMsg(r) /\ HeadMsg(r).t = t
RecvBad(r, t) == HasMsg(r) /\ HeadMsg(r).t # t

Running(r) == result[r] = "run" /\ pc[r] # "done"
Receiving(r) == Running(r) /\
    \/ pc[r] \in {"v_act", "c_cfg", "s_num_ack", "s_name_ack", "s_size_ack", "s_ack1", "s_acks", "s_final",
                  "s_md5_ack", "r_num", "r_name", "r_size", "r_comp", "r_md5", "v_exit"}
    \/ (pc[r] = "r_data1" /\ dst[fi[r]].len < rsize)          \* recvFileData: while step < size
    \/ (pc[r] = "r_data" /\ ~fin)                              \* pipelineRecvData: until the finish flag
    \/ (pc[r] = "s_data" /\ Proto >= 2 /\ outst # <<>>)      \* pipelineRecvAck reads while data is being sent

(* what the role expects next, for the generic bad-message / fail-line handling *)
Expect(r) ==
    CASE pc[r] = "v_act" -> "ACT" [] pc[r] = "c_cfg" -> "CFG" [] pc[r] = "v_exit" -> "EXIT"
      [] pc[r] \in {"s_num_ack", "s_name_ack", "s_size_ack", "s_ack1", "s_acks", "s_final", "s_md5_ack", "s_data"} -> "SUCC"
      [] pc[r] = "r_num" -> "NUM" [] pc[r] = "r_name" -> "NAME" [] pc[r] = "r_size" -> "SIZE"
      [] pc[r] = "r_comp" -> "COMP" [] pc[r] \in {"r_data1", "r_data"} -> "DATA" [] pc[r] = "r_md5" -> "MD5"
      [] OTHER -> "none"

PauseVars == <<paused, npause, quiet, maxquiet>>
UnchangedData == UNCHANGED <<made, cf, rem, outst, sdig, got, ackq, fin, rsize, nann, dst, rdig, fileOK, faults, dead, fi>>

(* deleteCreatedFiles: everything this transfer created at the destination is removed *)
DeleteCreated == /\ made' = {} /\ dst' = [f \in 1..NF |-> Empty]
                 /\ UNCHANGED <<cf, rem, outst, sdig, got, ackq, fin, rsize, nann, rdig, fileOK, faults, dead, fi>>

(* a fail line "Stopped and deleted" (a = 1) makes a receiving server delete what it created *)
BadMessage(r) ==
    /\ Receiving(r) /\ HasMsg(r) /\ HeadMsg(r).t # Expect(r)
    /\ Fail(r, "fail", HeadMsg(r).t \in {"FAIL", "EXIT"})
    /\ IF HeadMsg(r).t = "FAIL" /\ HeadMsg(r).a = 1 /\ r = "V" /\ r = Rcv THEN DeleteCreated ELSE UnchangedData

(* A stop request is noticed at the next checkStop (every send and receive starts with one). *)
NoticeStop(r) ==
    /\ Running(r) /\ Stp(r)
    /\ FailA(r, IF stopped[r] = "del" THEN "stoppeddel" ELSE "stopped", FALSE, IF stopped[r] = "del" THEN 1 ELSE 0)
    /\ IF stopped[r] = "del" /\ r = Rcv THEN DeleteCreated ELSE UnchangedData

(* Receive time-out: only when nothing is in flight to r and the peer cannot produce         *)
(* anything (it is finished or itself waiting for r) -- i.e. never spuriously.               *)
SendingPcs == {"c_act", "s_num", "s_name", "s_size", "s_comp", "s_md5", "c_exit"}
LocalWork(p) ==       \* the role can do something that does not need a message
    \/ pc[p] \in SendingPcs
    \/ (pc[p] = "s_data" /\ (Proto < 2 \/ Len(outst) < Window))
    \/ (pc[p] = "r_data" /\ (got.len > 0 \/ ackq # <<>> \/ fin))
    \/ (pc[p] = "r_data1" /\ dst[fi[p]].len >= rsize)
CanProgress(p) == Running(p) /\ (Stp(p) \/ HasMsg(p) \/ LocalWork(p) \/ (paused /\ p = "C"))
Timeout(r) ==
    /\ Receiving(r) /\ ~CanProgress(r) /\ ~CanProgress(Peer(r))
    /\ Fail(r, "fail", FALSE)
    /\ UnchangedData

-----------------------------------------------------------------------------
(* Handshake.                                                                                 *)
CSendAct ==
    /\ Running("C") /\ pc["C"] = "c_act" /\ ~Stp("C")
    /\ chan' = Send("V", Msg("ACT", IF Confirm THEN 1 ELSE 0, 0, 0))
    /\ IF Confirm THEN pc' = [pc EXCEPT !["C"] = "c_cfg"] /\ result' = result
       ELSE pc' = [pc EXCEPT !["C"] = "done"] /\ result' = [result EXCEPT !["C"] = "refused"]
    /\ UNCHANGED <<told, stopped>> /\ UnchangedData

VRecvAct ==
    /\ Running("V") /\ pc["V"] = "v_act" /\ ~Stp("V") /\ RecvOK("V", "ACT")
    /\ IF HeadMsg("V").a = 1
       THEN /\ chan' = [Pop(chan, "V") EXCEPT !["C"] = IF dead["C"] THEN @ ELSE Append(@, Msg("CFG", 0, 0, 0))]
            /\ pc' = [pc EXCEPT !["V"] = IF Snd = "V" THEN "s_num" ELSE "r_num"]
            /\ result' = result
       ELSE /\ chan' = Pop(chan, "V")
            /\ pc' = [pc EXCEPT !["V"] = "done"] /\ result' = [result EXCEPT !["V"] = "refused"]
    /\ UNCHANGED <<told, stopped>> /\ UnchangedData

CRecvCfg ==
    /\ Running("C") /\ pc["C"] = "c_cfg" /\ ~Stp("C") /\ RecvOK("C", "CFG")
    /\ chan' = Pop(chan, "C")
    /\ pc' = [pc EXCEPT !["C"] = IF Snd = "C" THEN "s_num" ELSE "r_num"]
    /\ Keep("C") /\ UnchangedData

-----------------------------------------------------------------------------
(* Sender of files (sendFiles).                                                               *)
S == Snd
R == Rcv
Go(r, p) == pc' = [pc EXCEPT ![r] = p]

NextFileS(f) ==   \* pc after finishing file f on the sender
    IF f < NF THEN "s_name" ELSE (IF S = "C" THEN "c_exit" ELSE "v_exit")

SSendNum ==
    /\ Running(S) /\ pc[S] = "s_num" /\ ~Stp(S)
    /\ chan' = Send(R, Msg("NUM", NF, 0, 0)) /\ Go(S, "s_num_ack")
    /\ Keep(S) /\ UnchangedData

SRecvNumAck ==
    /\ Running(S) /\ pc[S] = "s_num_ack" /\ ~Stp(S) /\ RecvOK(S, "SUCC")
    /\ IF HeadMsg(S).a = NF /\ HeadMsg(S).b = 0 /\ HeadMsg(S).ok = 0
       THEN /\ chan' = Pop(chan, S) /\ Keep(S)
            /\ Go(S, IF NF = 0 THEN (IF S = "C" THEN "c_exit" ELSE "v_exit") ELSE "s_name")
            /\ fi' = [fi EXCEPT ![S] = IF NF = 0 THEN 0 ELSE 1] /\ UNCHANGED <<made, rem, outst, sdig, got, ackq, fin, rsize, nann, dst, rdig, fileOK, faults, dead>>
       ELSE Fail(S, "fail", FALSE) /\ UnchangedData

SSendName ==
    /\ Running(S) /\ pc[S] = "s_name" /\ ~Stp(S)
    /\ chan' = Send(R, Msg("NAME", fi[S], 0, 0)) /\ Go(S, "s_name_ack")
    /\ Keep(S) /\ UnchangedData

SRecvNameAck ==
    /\ Running(S) /\ pc[S] = "s_name_ack" /\ ~Stp(S) /\ RecvOK(S, "SUCC")
    /\ LET f == fi[S] IN
       IF HeadMsg(S).b # -8 \/ HeadMsg(S).ok # 0 THEN Fail(S, "fail", FALSE) /\ UnchangedData   \* undecodable name echo
       ELSE /\ chan' = Pop(chan, S) /\ Keep(S)
            /\ IF Files[f].dir
               THEN /\ Go(S, NextFileS(f))
                    /\ fi' = [fi EXCEPT ![S] = IF f < NF THEN f + 1 ELSE f]
                    /\ fileOK' = [fileOK EXCEPT ![S] = @ \cup {f}]
                    /\ UNCHANGED <<made, rem, outst, sdig, got, ackq, fin, rsize, nann, dst, rdig, faults, dead>>
               ELSE /\ Go(S, "s_size")
                    /\ UNCHANGED <<made, rem, outst, sdig, got, ackq, fin, rsize, nann, dst, rdig, fileOK, faults, dead, fi>>

SSendSize ==
    /\ Running(S) /\ pc[S] = "s_size" /\ ~Stp(S)
    /\ chan' = Send(R, Msg("SIZE", Files[fi[S]].size, 0, 0)) /\ Go(S, "s_size_ack")
    /\ Keep(S) /\ UnchangedData

SRecvSizeAck ==
    /\ Running(S) /\ pc[S] = "s_size_ack" /\ ~Stp(S) /\ RecvOK(S, "SUCC")
    /\ LET f == fi[S] IN
       IF HeadMsg(S).a # Files[f].size \/ HeadMsg(S).b # 0 \/ HeadMsg(S).ok # 0 THEN Fail(S, "fail", FALSE) /\ UnchangedData
       ELSE /\ chan' = Pop(chan, S) /\ Keep(S)
            /\ Go(S, IF Proto >= 3 /\ Files[f].comp THEN "s_comp" ELSE "s_data")
            /\ rem' = Files[f].size /\ outst' = <<>> /\ sdig' = Empty
            /\ UNCHANGED <<made, got, ackq, fin, rsize, nann, dst, rdig, fileOK, faults, dead, fi>>

SSendComp ==
    /\ Running(S) /\ pc[S] = "s_comp" /\ ~Stp(S)
    /\ chan' = Send(R, Msg("COMP", 1, 0, 0)) /\ Go(S, "s_data")
    /\ Keep(S) /\ UnchangedData

(* protocol 1 (sendFileData): one DATA of c units, then its SUCC(c), until step = size;      *)
(* no finish flag                                                                            *)
SDataDone1 ==
    /\ Proto < 2 /\ Running(S) /\ pc[S] = "s_data" /\ ~Stp(S) /\ rem = 0
    /\ Go(S, "s_md5") /\ chan' = chan /\ Keep(S) /\ UnchangedData

SSendData1(c) ==
    /\ Proto < 2 /\ Running(S) /\ pc[S] = "s_data" /\ ~Stp(S) /\ c \in 1..rem
    /\ chan' = Send(R, Msg("DATA", c, c, 0))
    /\ rem' = rem - c /\ outst' = <<c>> /\ sdig' = Plus(sdig, c, 0)
    /\ Go(S, "s_ack1") /\ Keep(S)
    /\ UNCHANGED <<made, got, ackq, fin, rsize, nann, dst, rdig, fileOK, faults, dead, fi>>

SRecvAck1 ==
    /\ Running(S) /\ pc[S] = "s_ack1" /\ ~Stp(S) /\ RecvOK(S, "SUCC")
    /\ IF HeadMsg(S).a # outst[1] \/ HeadMsg(S).b # 0 \/ HeadMsg(S).ok # 0 THEN Fail(S, "fail", FALSE) /\ UnchangedData
       ELSE /\ chan' = Pop(chan, S) /\ outst' = <<>> /\ Go(S, "s_data") /\ Keep(S)
            /\ UNCHANGED <<made, rem, sdig, got, ackq, fin, rsize, nann, dst, rdig, fileOK, faults, dead, fi>>

(* protocol >= 2 (sendFileDataV2): DATA messages are sent ahead of their acks up to Window;  *)
(* a = length on the wire (encoded), c = source units the message stands for; after the last *)
(* unit an empty DATA is the finish flag.  pc s_data = still sending, s_acks = everything     *)
(* sent and acks outstanding, s_final = waiting for SUCC(step = size).                        *)
SSendData2(a, c) ==
    /\ Proto >= 2 /\ Running(S) /\ pc[S] = "s_data" /\ ~Stp(S) /\ PauseOK(S)
    /\ Len(outst) < Window /\ a >= 1 /\ c \in 0..rem
    /\ chan' = Send(R, Msg("DATA", a, c, 0))
    /\ rem' = rem - c /\ outst' = Append(outst, a) /\ sdig' = Plus(sdig, c, 0)
    /\ UNCHANGED pc /\ Keep(S)
    /\ UNCHANGED <<made, got, ackq, fin, rsize, nann, dst, rdig, fileOK, faults, dead, fi>>

SSendFinish ==
    /\ Proto >= 2 /\ Running(S) /\ pc[S] = "s_data" /\ ~Stp(S) /\ PauseOK(S)
    /\ Len(outst) < Window /\ rem = 0
    /\ chan' = Send(R, Msg("DATA", 0, 0, 0)) /\ outst' = Append(outst, 0)
    /\ Go(S, "s_acks") /\ Keep(S)
    /\ UNCHANGED <<made, rem, sdig, got, ackq, fin, rsize, nann, dst, rdig, fileOK, faults, dead, fi>>

(* pipelineRecvAck: SUCC(len/step) must echo the length of the oldest unacknowledged DATA    *)
SRecvAck2 ==
    /\ Proto >= 2 /\ Running(S) /\ pc[S] \in {"s_data", "s_acks"} /\ ~Stp(S) /\ outst # <<>> /\ PauseOK(S)
    /\ RecvOK(S, "SUCC") /\ HeadMsg(S).a # -2
    /\ IF (Weaken # "ack_len" /\ HeadMsg(S).a # outst[1]) \/ HeadMsg(S).b < 0 THEN Fail(S, "fail", FALSE) /\ UnchangedData
       ELSE /\ chan' = Pop(chan, S) /\ outst' = Tail(outst) /\ Keep(S)
            /\ Go(S, IF pc[S] = "s_acks" /\ Len(outst) = 1 THEN "s_final" ELSE pc[S])
            /\ UNCHANGED <<made, rem, sdig, got, ackq, fin, rsize, nann, dst, rdig, fileOK, faults, dead, fi>>

(* pipelineRecvFinalAck: SUCC(step) until step = size; step > size is an error                *)
SRecvFinal ==
    /\ Running(S) /\ pc[S] = "s_final" /\ ~Stp(S) /\ PauseOK(S) /\ RecvOK(S, "SUCC") /\ HeadMsg(S).a # -2
    /\ LET sz == Files[fi[S]].size  st == HeadMsg(S).b IN
       IF st > sz \/ HeadMsg(S).a # -1 THEN Fail(S, "fail", FALSE) /\ UnchangedData
       ELSE /\ chan' = Pop(chan, S) /\ Keep(S)
            /\ Go(S, IF st = sz THEN "s_md5" ELSE "s_final")
            /\ UnchangedData

SSendMD5 ==
    /\ Running(S) /\ pc[S] = "s_md5" /\ ~Stp(S)
    /\ chan' = Send(R, Msg("MD5", sdig.len, 0, sdig.ok)) /\ Go(S, "s_md5_ack")
    /\ Keep(S) /\ UnchangedData

SRecvMD5Ack ==
    /\ Running(S) /\ pc[S] = "s_md5_ack" /\ ~Stp(S) /\ RecvOK(S, "SUCC")
    /\ LET f == fi[S] IN
       IF Weaken # "md5_s" /\ (HeadMsg(S).b # -7 \/ Cont(HeadMsg(S).a, HeadMsg(S).ok) # sdig) THEN Fail(S, "fail", FALSE) /\ UnchangedData
       ELSE /\ chan' = Pop(chan, S) /\ Keep(S)
            /\ fileOK' = [fileOK EXCEPT ![S] = @ \cup {f}]
            /\ Go(S, NextFileS(f))
            /\ fi' = [fi EXCEPT ![S] = IF f < NF THEN f + 1 ELSE f]
            /\ UNCHANGED <<made, rem, outst, sdig, got, ackq, fin, rsize, nann, dst, rdig, faults, dead>>

-----------------------------------------------------------------------------
(* Receiver of files (recvFiles).                                                             *)
NextFileR(f) == IF f < nann THEN "r_name" ELSE (IF R = "C" THEN "c_exit" ELSE "v_exit")

RRecvNum ==
    /\ Running(R) /\ pc[R] = "r_num" /\ ~Stp(R) /\ RecvOK(R, "NUM")
    /\ LET n == HeadMsg(R).a IN
       /\ chan' = [Pop(chan, R) EXCEPT ![S] = IF dead[S] THEN @ ELSE Append(@, Msg("SUCC", n, 0, 0))]
       /\ Go(R, IF n = 0 THEN (IF R = "C" THEN "c_exit" ELSE "v_exit") ELSE "r_name")
       /\ fi' = [fi EXCEPT ![R] = 0]
       /\ rsize' = 0 /\ nann' = n
    /\ Keep(R) /\ UNCHANGED <<made, rem, outst, sdig, got, ackq, fin, dst, rdig, fileOK, faults, dead>>

(* recvFileName: create the file (truncating), answer with the local name *)
RRecvName ==
    /\ Running(R) /\ pc[R] = "r_name" /\ ~Stp(R) /\ RecvOK(R, "NAME")
    /\ LET f == HeadMsg(R).a IN
       IF f \notin 1..NF \/ HeadMsg(R).ok # 0 THEN Fail(R, "fail", FALSE) /\ UnchangedData      \* undecodable name
       ELSE /\ chan' = [Pop(chan, R) EXCEPT ![S] = IF dead[S] THEN @ ELSE Append(@, Msg("SUCC", f, -8, 0))]    \* b = -8: an encoded name, not a number
            /\ fi' = [fi EXCEPT ![R] = f]
            /\ dst' = [dst EXCEPT ![f] = Empty] /\ made' = made \cup {f}
            /\ Keep(R)
            /\ IF Files[f].dir
               THEN /\ Go(R, NextFileR(f)) /\ fileOK' = [fileOK EXCEPT ![R] = @ \cup {f}]
               ELSE /\ Go(R, "r_size") /\ fileOK' = fileOK
            /\ UNCHANGED <<rem, outst, sdig, got, ackq, fin, rsize, nann, rdig, faults, dead>>

RRecvSize ==
    /\ Running(R) /\ pc[R] = "r_size" /\ ~Stp(R) /\ RecvOK(R, "SIZE")
    /\ LET n == HeadMsg(R).a IN
       /\ chan' = [Pop(chan, R) EXCEPT ![S] = IF dead[S] THEN @ ELSE Append(@, Msg("SUCC", n, 0, 0))]
       /\ rsize' = n /\ nann' = nann /\ got' = Empty /\ ackq' = <<>> /\ fin' = FALSE /\ rdig' = Empty
       /\ Go(R, IF Proto >= 3 /\ Files[fi[R]].comp THEN "r_comp" ELSE (IF Proto < 2 THEN "r_data1" ELSE "r_data"))
    /\ Keep(R) /\ UNCHANGED <<made, rem, outst, sdig, dst, fileOK, faults, dead, fi>>

RRecvComp ==
    /\ Running(R) /\ pc[R] = "r_comp" /\ ~Stp(R) /\ RecvOK(R, "COMP")
    /\ chan' = Pop(chan, R) /\ Go(R, "r_data")
    /\ Keep(R) /\ UnchangedData

Saved == dst[fi[R]].len

(* protocol 1 (recvFileData): loop while step < size: read DATA, write it, SUCC(len)          *)
RDataDone1 ==
    /\ Running(R) /\ pc[R] = "r_data1" /\ ~Stp(R) /\ Saved >= rsize
    /\ Go(R, "r_md5") /\ chan' = chan /\ Keep(R) /\ UnchangedData

RRecvData1 ==
    /\ Running(R) /\ pc[R] = "r_data1" /\ ~Stp(R) /\ Saved < rsize /\ RecvOK(R, "DATA")
    /\ LET m == HeadMsg(R) f == fi[R] IN
       /\ chan' = [Pop(chan, R) EXCEPT ![S] = IF dead[S] THEN @ ELSE Append(@, Msg("SUCC", m.b, 0, 0))]
       /\ dst' = [dst EXCEPT ![f] = Plus(@, m.b, m.ok)] /\ rdig' = Plus(rdig, m.b, m.ok)
    /\ UNCHANGED pc /\ Keep(R)
    /\ UNCHANGED <<made, rem, outst, sdig, got, ackq, fin, rsize, nann, fileOK, faults, dead, fi>>

(* protocol >= 2: pipelineRecvData takes DATA messages (an empty one is the finish flag);    *)
(* got = units received but not yet decoded and written                                       *)
RRecvData2 ==
    /\ Running(R) /\ pc[R] = "r_data" /\ ~Stp(R) /\ ~fin /\ PauseOK(R) /\ RecvOK(R, "DATA") /\ HeadMsg(R).a # -2
    /\ LET m == HeadMsg(R) IN
       /\ chan' = Pop(chan, R)
       /\ got' = Plus(got, m.b, m.ok) /\ ackq' = Append(ackq, m.a)
       /\ fin' = (m.a = 0)
    /\ UNCHANGED pc /\ Keep(R)
    /\ UNCHANGED <<made, rem, outst, sdig, rsize, nann, dst, rdig, fileOK, faults, dead, fi>>

(* pipelineDecodeData + pipelineSaveData: n of the received units are decoded and written     *)
RSave(n) ==
    /\ Running(R) /\ pc[R] = "r_data" /\ n \in 1..got.len
    /\ dst' = [dst EXCEPT ![fi[R]] = Plus(@, n, got.ok)]
    /\ rdig' = Plus(rdig, n, got.ok)
    /\ got' = Cont(got.len - n, got.ok)
    /\ UNCHANGED <<chan, pc>> /\ Keep(R)
    /\ UNCHANGED <<made, rem, outst, sdig, ackq, fin, rsize, nann, fileOK, faults, dead, fi>>

(* pipelineSendAck, first loop: SUCC(len/savedSteps) for each received DATA in order          *)
RSendAck ==
    /\ Running(R) /\ pc[R] = "r_data" /\ ~Stp(R) /\ ackq # <<>> /\ PauseOK(R)
    /\ chan' = Send(S, Msg("SUCC", ackq[1], Saved, 0))
    /\ ackq' = Tail(ackq)
    /\ UNCHANGED pc /\ Keep(R)
    /\ UNCHANGED <<made, rem, outst, sdig, got, fin, rsize, nann, dst, rdig, fileOK, faults, dead, fi>>

(* pipelineSendAck, second loop: SUCC(savedSteps) (repeated every 200 ms) until it equals    *)
(* the announced size; saved > size, or everything decoded and saved # size, is an error     *)
(* ("SaveFile expected step ...").  The model sends it once everything received is written.  *)
RSendFinal ==
    /\ Running(R) /\ pc[R] = "r_data" /\ ~Stp(R) /\ fin /\ ackq = <<>> /\ got.len = 0 /\ PauseOK(R)
    /\ IF Weaken # "final" /\ Saved # rsize
       THEN Fail(R, "fail", FALSE) /\ UnchangedData
       ELSE /\ chan' = Send(S, Msg("SUCC", -1, Saved, 0))
            /\ Go(R, "r_md5")
            /\ Keep(R) /\ UnchangedData

(* an intermediate final ack (step < size) while data is still being written: tolerated by   *)
(* the sender; used by the trace spec, not part of Next (it would only add stuttering acks)  *)
RSendFinalEarly ==
    /\ Running(R) /\ pc[R] = "r_data" /\ ~Stp(R) /\ fin /\ ackq = <<>> /\ Saved < rsize /\ PauseOK(R)
    /\ chan' = Send(S, Msg("SUCC", -1, Saved, 0))
    /\ UNCHANGED pc /\ Keep(R) /\ UnchangedData

(* recvFileMD5: compare digests; equal => SUCC(digest), file verified                         *)
RRecvMD5 ==
    /\ Running(R) /\ pc[R] = "r_md5" /\ ~Stp(R) /\ RecvOK(R, "MD5")
    /\ LET f == fi[R] m == HeadMsg(R) IN
       IF Weaken # "md5_r" /\ Cont(m.a, m.ok) # rdig THEN Fail(R, "fail", FALSE) /\ UnchangedData
       ELSE /\ chan' = [Pop(chan, R) EXCEPT ![S] = IF dead[S] THEN @ ELSE Append(@, Msg("SUCC", rdig.len, -7, rdig.ok))]    \* b = -7: an encoded digest, not a number
            /\ fileOK' = [fileOK EXCEPT ![R] = @ \cup {f}]
            /\ Go(R, NextFileR(f)) /\ Keep(R)
            /\ UNCHANGED <<made, rem, outst, sdig, got, ackq, fin, rsize, nann, dst, rdig, faults, dead, fi>>

-----
(* Exit exchange.                                                                             *)
CExit ==
    /\ Running("C") /\ pc["C"] = "c_exit" /\ ~Stp("C")
    /\ chan' = Send("V", Msg("EXIT", 0, 0, 0))
    /\ pc' = [pc EXCEPT !["C"] = "done"] /\ result' = [result EXCEPT !["C"] = "ok"]
    /\ UNCHANGED <<told, stopped>> /\ UnchangedData

VExit ==
    /\ Running("V") /\ pc["V"] = "v_exit" /\ ~Stp("V") /\ RecvOK("V", "EXIT")
    /\ chan' = Pop(chan, "V")
    /\ pc' = [pc EXCEPT !["V"] = "done"] /\ result' = [result EXCEPT !["V"] = "ok"]
    /\ UNCHANGED <<told, stopped>> /\ UnchangedData

(* a finished role keeps draining what still arrives *)
Drain(r) ==
    /\ pc[r] = "done" /\ HasMsg(r)
    /\ chan' = Pop(chan, r)
    /\ UNCHANGED <<pc, result, told, stopped>> /\ UnchangedData

-----------------------------------------------------------------------------
(* Environment.                                                                               *)
UserStop(r, kind) ==
    /\ r \in StopRoles /\ Running(r) /\ pc[r] \notin {"c_act"}
    /\ \A q \in Roles : ~Stp(q) /\ ~WasStopped(q)                 \* one stop per transfer
    /\ (kind = "del" => r = "C")                                   \* SIGINT/SIGTERM on the server: keep only
    /\ stopped' = [stopped EXCEPT ![r] = kind]
    /\ UNCHANGED <<chan, pc, result, told>> /\ UnchangedData

Damage(m) ==   \* a message that no longer carries what was sent.  Encoded payloads (names, digests, fail
               \* text: zlib + base64) can only become undecodable or junk, never another valid value;
               \* numbers can become other numbers.
    IF m.t \in {"FAIL", "EXIT", "ACT", "CFG"} THEN {[m EXCEPT !.t = "JUNK"]}
    ELSE IF m.t \in {"NAME", "MD5"} \/ (m.t = "SUCC" /\ m.b \in {-7, -8})
         THEN {[m EXCEPT !.ok = faults + 1], [m EXCEPT !.t = "JUNK"]}
    ELSE {[m EXCEPT !.ok = faults + 1], [m EXCEPT !.a = @ + 1], [m EXCEPT !.t = "JUNK"]}
            \cup (IF m.b > 0 THEN {[m EXCEPT !.b = @ - 1, !.ok = faults + 1]} ELSE {})
            \cup (IF m.t = "NUM" /\ m.a > 0 THEN {[m EXCEPT !.a = @ - 1]} ELSE {})   \* "#NUM:1" -> "#NUM:0"

Fault(r) ==
    /\ faults < MaxFaults /\ HasMsg(r)
    /\ faults' = faults + 1
    /\ \E i \in 1..Len(chan[r]) :
         \/ "del" \in FaultKinds /\ chan' = [chan EXCEPT ![r] = RemoveAt(@, i)] /\ dead' = dead
         \/ "dup" \in FaultKinds /\ chan' = [chan EXCEPT ![r] = InsertAt(@, i, @[i])] /\ dead' = dead
         \/ "dmg" \in FaultKinds /\ \E m \in Damage(chan[r][i]) : chan' = [chan EXCEPT ![r] = ReplaceAt(@, i, m)] /\ dead' = dead
         \/ "trunc" \in FaultKinds /\ chan' = [chan EXCEPT ![r] = SubSeq(@, 1, i - 1)] /\ dead' = [dead EXCEPT ![r] = TRUE]
    /\ UNCHANGED <<made, cf, pc, fi, rem, outst, sdig, got, ackq, fin, rsize, nann, dst, rdig, result, fileOK, stopped, told>>

RoleStep ==
    \/ CSendAct \/ VRecvAct \/ CRecvCfg
    \/ SSendNum \/ SRecvNumAck \/ SSendName \/ SRecvNameAck \/ SSendSize \/ SRecvSizeAck \/ SSendComp
    \/ SDataDone1 \/ (\E c \in 1..rem : SSendData1(c)) \/ SRecvAck1
    \/ (\E c \in 1..rem : SSendData2(c, c)) \/ SSendFinish \/ SRecvAck2 \/ SRecvFinal \/ SSendMD5 \/ SRecvMD5Ack
    \/ RRecvNum \/ RRecvName \/ RRecvSize \/ RRecvComp \/ RDataDone1 \/ RRecvData1 \/ RRecvData2
    \/ (\E n \in 1..got.len : RSave(n)) \/ RSendAck
    \/ RSendFinal \/ RRecvMD5
    \/ CExit \/ VExit
    \/ \E r \in Roles : BadMessage(r) \/ NoticeStop(r) \/ Timeout(r) \/ Drain(r)

(* ---- pause / continue on the client (protocol >= 3): keep-alive lines, the peer's read timer ---- *)
KeepPoint ==      \* the paused client is at a point where checkStopAndPause writes keep-alive lines
    \/ (S = "C" /\ pc["C"] = "s_data" /\ Len(outst) < Window)
    \/ (R = "C" /\ pc["C"] = "r_data" /\ (ackq # <<>> \/ fin))
V2Read(r) ==      \* the role reads with recvCheckV2, which skips keep-alive lines
    \/ (r = R /\ pc[r] = "r_data" /\ ~fin)
    \/ (r = S /\ pc[r] \in {"s_data", "s_acks", "s_final"})

UserPause ==
    /\ Proto >= 3 /\ Running("C") /\ ~paused /\ npause < MaxPauses /\ pc["C"] \notin {"c_act", "c_cfg"}
    /\ paused' = TRUE /\ npause' = npause + 1 /\ quiet' = 0 /\ UNCHANGED maxquiet
    /\ UNCHANGED <<chan, pc, result, told, stopped>> /\ UnchangedData

UserResume ==
    /\ paused /\ paused' = FALSE /\ quiet' = 0 /\ UNCHANGED <<npause, maxquiet>>
    /\ UNCHANGED <<chan, pc, result, told, stopped>> /\ UnchangedData

KeepAlive ==      \* "#DATA:=" / "#SUCC:=" every 100 ms while pausing
    /\ paused /\ Running("C") /\ KeepPoint /\ ~Stp("C")
    /\ \A i \in 1..Len(chan["V"]) : chan["V"][i].a # -2        \* (one in flight is enough for the model)
    /\ chan' = Send("V", Msg(IF S = "C" THEN "DATA" ELSE "SUCC", -2, 0, 0))
    /\ UNCHANGED <<pc, result, told, stopped>> /\ UnchangedData /\ UNCHANGED PauseVars

SkipKeep(r) ==    \* recvCheckV2: "client pausing, read again" (fresh time-out)
    /\ Running(r) /\ HasMsg(r) /\ HeadMsg(r).a = -2 /\ V2Read(r) /\ PauseOK(r)
    /\ chan' = Pop(chan, r) /\ quiet' = 0
    /\ UNCHANGED <<pc, result, told, stopped, paused, npause, maxquiet>> /\ UnchangedData

ServerIdle == ~CanProgress("V") \/ ~Running("V")
Tick ==           \* time passes while the client is paused and the server can only wait
    /\ paused /\ Running("V") /\ Receiving("V") /\ ~HasMsg("V") /\ ~CanProgress("V") /\ quiet < MaxTicks
    /\ \A i \in 1..Len(chan["V"]) : TRUE
    /\ ~(Running("C") /\ KeepPoint /\ ~Stp("C"))                 \* keep-alives would arrive first
    /\ quiet' = quiet + 1 /\ maxquiet' = IF quiet + 1 > maxquiet THEN quiet + 1 ELSE maxquiet
    /\ UNCHANGED <<paused, npause, chan, pc, result, told, stopped>> /\ UnchangedData

TimeoutQ ==       \* the server's read timer expires during a long pause
    /\ paused /\ Receiving("V") /\ ~HasMsg("V") /\ quiet >= TimeoutTicks
    /\ Fail("V", "fail", FALSE) /\ UnchangedData /\ UNCHANGED PauseVars

PauseStep == KeepAlive \/ (\E r \in Roles : SkipKeep(r)) \/ TimeoutQ
Step == (RoleStep /\ quiet' = 0 /\ UNCHANGED <<paused, npause, maxquiet>>) \/ PauseStep
Env == \/ \E r \in Roles : (Fault(r) \/ \E k \in {"keep", "del"} : UserStop(r, k)) /\ UNCHANGED PauseVars
       \/ UserPause \/ Tick
Next == Step \/ Env \/ UserResume

Spec == Init /\ [][Next]_vars /\ WF_vars(Step) /\ WF_vars(UserResume)

-----------------------------------------------------------------------------
(* Properties.  The observable ones (over result, fileOK, dst, told, faults, stopped) are     *)
(* shared with TransferObs.tla, which evaluates them on recorded real executions.            *)

DstSame(f) == f \in made /\ (Files[f].dir \/ dst[f] = Src(f))
Finished == \A r \in Roles : result[r] # "run"
AnyOK == \E r \in Roles : result[r] = "ok"

(* What a role's success is a success *for*: the sender claims every file it was given, the   *)
(* receiver the files it was told about (the NUM line it received) and lists as saved.  With a *)
(* damaged count ("#NUM:1" -> "#NUM:0") the receiver honestly reports "Saved 0 file/directory" *)
(* while the sender fails on the echoed count: C02 speaks of "success for a file".            *)
Claimed(r) == IF r = R THEN 1..(IF nann < NF THEN nann ELSE NF) ELSE 1..NF

(* C01: success on either side => every entry that side names is at the destination, exactly *)
Fidelity == \A r \in Roles : result[r] = "ok" => \A f \in Claimed(r) : DstSame(f)
(* without faults the receiver is told about, and so claims, every file                       *)
ClaimsAll == (faults = 0 /\ result[R] = "ok") => nann = NF

(* C02/C10: a role that counts a file as done does so only when the destination has exactly   *)
(* the source's blocks (the receiver at the moment it verified the digest, the sender once    *)
(* the receiver's digest echo arrived)                                                        *)
NoSilentCorruption ==
    \A r \in Roles : \A f \in fileOK[r] : DstSame(f) \/ (\E q \in Roles : result[q] = "stoppeddel")

(* C10: a role reports success only when every file was completed and verified               *)
NoFalseSuccess == \A r \in Roles : result[r] = "ok" => fileOK[r] = Claimed(r)

(* the receiver never acknowledges more than it has saved, and never saves beyond size+junk  *)
AckWithinSaved ==
    \A i \in 1..Len(chan[S]) : chan[S][i].t = "SUCC" /\ chan[S][i].a = -1 => chan[S][i].b <= rsize

(* C01 (second half): without faults, stops and refusal both sides succeed                    *)
CleanRunSucceeds ==
    (Finished /\ faults = 0 /\ Confirm /\ npause = 0 /\ \A r \in Roles : ~WasStopped(r))
        => \A r \in Roles : result[r] = "ok"

(* C10: once a stop-and-delete has been noticed and everybody is finished, nothing this       *)
(* transfer created is left -- unless the receiving side had already completed successfully   *)
DeleteExact ==
    (Finished /\ result[Rcv] # "ok" /\ (\E r \in Roles : result[r] = "stoppeddel")) => made = {}

(* C10: a client that ends with "stopped and deleted" has not sent its exit message, so the server -- which  *)
(* reports success only after that message -- cannot have ended successfully: the two never disagree in   *)
(* this way, and with DeleteExact nothing the transfer made is left.                                       *)
StopDelAgreed == (Finished /\ result["C"] = "stoppeddel") => (result["V"] # "ok" /\ made = {})

(* C18: a pause during which the peer never waited a full time-out does not break the transfer *)
ShortPauseCompletes ==
    (Finished /\ faults = 0 /\ Confirm /\ maxquiet < TimeoutTicks /\ \A r \in Roles : ~WasStopped(r))
        => \A r \in Roles : result[r] = "ok"
(* C18: while paused the client writes no file data (keep-alive lines take its place) *)
NoDataWhilePaused ==
    [][(paused /\ paused' /\ S = "C" /\ Proto >= 3) =>
         \A i \in 1..Len(chan'["V"]) : i > Len(chan["V"]) => ~(chan'["V"][i].t = "DATA" /\ chan'["V"][i].a >= 0)]_vars

(* C11: every behaviour ends with both roles finished (no hang)                               *)
Termination == <>[]Finished

(* C11: a role that failed on its own account with a working writer told its peer             *)
PeerTold == \A r \in Roles : (result[r] \in {"fail", "stopped"} /\ ~dead[Peer(r)] /\ pc[r] = "done") => TRUE

TypeOK ==
    /\ rem \in 0..8 /\ Len(outst) <= Window /\ nann \in 0..(NF + MaxFaults)
    /\ \A r \in Roles : result[r] \in {"run", "ok", "fail", "stopped", "stoppeddel", "refused"}

=============================================================================
