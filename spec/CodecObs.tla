------------------------------ MODULE CodecObs ------------------------------
(* Wire-level trace validation for C04: a real binary-mode upload (client trzszTransfer      *)
(* against server trzszTransfer, harness/c04_codec.go driver c04_wire).  Only observables:   *)
(*   reset                                                                                   *)
(*   table{tmode, ann, parsed, inv}  ann = escape_chars of the CFG line the server wrote,    *)
(*                                   parsed/inv = the client's table after recvConfig        *)
(*   src{bytes, comp}                a source file, in transfer order; comp "no"|"yes"|"auto"*)
(*   cw{b}                           one Write of the uploading client to the connection,    *)
(*                                   every one from the ACT line to the EXIT line            *)
(*   dst{bytes}                      the file the receiver saved, in transfer order          *)
(*   done{cerr, serr}                both sides returned                                     *)
(* The client's stream is parsed into lines and #DATA:<n> frames; the frame payloads of one  *)
(* file are the escaped stream that Codec's reference decoder (RefDecode) must turn back     *)
(* into the source (into *some* stream when a compressor sits in front of the escaper).      *)
(* Codec's own variables only carry the table here.                                          *)
EXTENDS Codec, Json, IOUtils, TLCExt

TraceLog == ndJsonDeserialize(IOEnv.VERIF_TRACE)

VARIABLES l,
          files,    \* announced source files: <<[bytes, comp]>>
          fidx,     \* number of files whose #MD5 line has been written
          line,     \* bytes of the current, incomplete line
          need,     \* payload bytes of the current #DATA frame still to come
          acc,      \* reference decoder state over the current file's payload ([out, pend, bad])
          nframes,  \* DATA frames seen for the current file
          ndst      \* dst events seen
ovars == <<files, fidx, line, need, acc, nframes, ndst>>
tvars == <<vars, l, ovars>>

Ev == TraceLog[l]
More == l <= Len(TraceLog)
IsEvent(e) == More /\ Ev.e = e /\ l' = l + 1
PairsOf(s) == {<<s[i][1], s[i][2]>> : i \in 1..Len(s)}

cvars == <<phase, mode, data, wire, fed, carry, pc, cap, decoded, lastN, errKind>>

OInit0 == files = <<>> /\ fidx = 0 /\ line = <<>> /\ need = 0 /\ acc = Acc0 /\ nframes = 0 /\ ndst = 0
TInit == Init /\ l = 1 /\ OInit0

TReset == /\ IsEvent("reset") /\ Reset
          /\ files' = <<>> /\ fidx' = 0 /\ line' = <<>> /\ need' = 0 /\ acc' = Acc0 /\ nframes' = 0 /\ ndst' = 0

TTable == /\ IsEvent("table")
          /\ TableFromJSON(PairsOf(Ev.ann), PairsOf(Ev.parsed))
          /\ Cardinality(PairsOf(Ev.ann)) = Len(Ev.ann)
          /\ PairsOf(Ev.inv) = {<<p[2], p[1]>> : p \in PairsOf(Ev.parsed)}
          /\ MustProtect(Ev.tmode) \subseteq Protected(PairsOf(Ev.ann))
          /\ UNCHANGED ovars

TSrc == /\ IsEvent("src") /\ phase = "write"
        /\ files' = Append(files, [bytes |-> Ev.bytes, comp |-> Ev.comp])
        /\ UNCHANGED <<vars, fidx, line, need, acc, nframes, ndst>>

LF == 10
PfxDATA == <<35, 68, 65, 84, 65, 58>>      \* "#DATA:"
PfxMD5  == <<35, 77, 68, 53, 58>>          \* "#MD5:"
HasPrefix(s, p) == Len(s) >= Len(p) /\ SubSeq(s, 1, Len(p)) = p
IsDigits(s) == s # <<>> /\ \A i \in 1..Len(s) : s[i] \in 48..57
NumOf(s) == FoldLeft(LAMBDA a, d : a * 10 + (d - 48), 0, s)
FirstLF(s) == IF \E i \in 1..Len(s) : s[i] = LF
              THEN CHOOSE i \in 1..Len(s) : s[i] = LF /\ \A j \in 1..(i - 1) : s[j] # LF
              ELSE 0

(* a complete file's payload must decode without a dangling leader or an undefined pair,     *)
(* and to the source itself when no compressor sits in front of the escaper                  *)
FileOK(a, k) ==
    /\ k <= Len(files)
    /\ ~a.bad /\ ~a.pend
    /\ files[k].comp = "no" => a.out = files[k].bytes

(* st = [line, need, acc, fidx, nframes, ok]; consumes the bytes of one client Write         *)
RECURSIVE Eat(_, _)
Eat(st, b) ==
    IF b = <<>> \/ ~st.ok THEN st
    ELSE IF st.need > 0
    THEN LET k == IF st.need < Len(b) THEN st.need ELSE Len(b)
             a0 == [out |-> <<>>, pend |-> st.acc.pend, bad |-> st.acc.bad]
             a1 == DecodeFrom(table, a0, SubSeq(b, 1, k)) IN
         Eat([st EXCEPT !.need = @ - k, !.ok = ~a1.bad,      \* an undefined pair in the client's stream
                        !.acc = [out |-> st.acc.out \o a1.out, pend |-> a1.pend, bad |-> a1.bad]],
             RestOf(b, k))
    ELSE LET i == FirstLF(b) IN
         IF i = 0 THEN [st EXCEPT !.line = @ \o b]
         ELSE LET ln == st.line \o SubSeq(b, 1, i - 1)
                  rest == RestOf(b, i) IN
              IF HasPrefix(ln, PfxDATA) /\ IsDigits(RestOf(ln, Len(PfxDATA)))
              THEN Eat([st EXCEPT !.line = <<>>, !.need = NumOf(RestOf(ln, Len(PfxDATA))), !.nframes = @ + 1], rest)
              ELSE IF HasPrefix(ln, PfxMD5)
              THEN Eat([st EXCEPT !.line = <<>>, !.ok = FileOK(st.acc, st.fidx + 1),
                                  !.fidx = @ + 1, !.acc = Acc0, !.nframes = 0], rest)
              ELSE Eat([st EXCEPT !.line = <<>>], rest)

(* The uploading client writes b: no byte of it is protected by the announced table.          *)
ClientWrite(b) ==
    /\ phase = "write"
    /\ LET P == Protected(table) IN \A i \in 1..Len(b) : b[i] \notin P
    /\ LET st == Eat([line |-> line, need |-> need, acc |-> acc, fidx |-> fidx, nframes |-> nframes, ok |-> TRUE], b) IN
       /\ st.ok
       /\ line' = st.line /\ need' = st.need /\ acc' = st.acc /\ fidx' = st.fidx /\ nframes' = st.nframes
    /\ UNCHANGED <<vars, files, ndst>>

TCw == IsEvent("cw") /\ ClientWrite(Ev.b)

(* the receiver saved exactly the source *)
TDst == /\ IsEvent("dst") /\ phase = "write"
        /\ ndst < Len(files) /\ Ev.bytes = files[ndst + 1].bytes
        /\ ndst' = ndst + 1
        /\ UNCHANGED <<vars, files, fidx, line, need, acc, nframes>>

TDone == /\ IsEvent("done") /\ phase = "write"
         /\ Ev.cerr = "" /\ Ev.serr = ""
         /\ fidx = Len(files) /\ ndst = Len(files) /\ need = 0 /\ line = <<>>
         /\ UNCHANGED <<vars, ovars>>

TNext == TReset \/ TTable \/ TSrc \/ TCw \/ TDst \/ TDone

TSpec == TInit /\ [][TNext]_tvars

ObsTypeOK == need >= 0 /\ fidx <= Len(files) /\ ndst <= Len(files) /\ ~acc.bad

HW == IF l > TLCGet(1) THEN TLCSet(1, l) ELSE TRUE
ASSUME TLCSet(1, 0)
Accepted == IF TLCGet(1) = Len(TraceLog) + 1 THEN TRUE
            ELSE PrintT("HW " \o ToString(TLCGet(1))) /\ FALSE
=============================================================================
