SPECIFICATION Spec
CONSTANTS
  Blocks = 4
  Cap = 2
  InitChunks = 3
  OldWaitGroup = FALSE
  Faults = {"silent", "writeerr", "readerr"}
INVARIANTS TypeOK OkMeansComplete CleanOk
PROPERTIES Termination
CHECK_DEADLOCK FALSE
