SPECIFICATION Spec
CONSTANTS
  CliChunks <- Cli2R
  SrvChunks <- Srv2R
  Confirm = TRUE
  Recheck = TRUE
  FlushFirst = TRUE
INVARIANTS Order NothingLost ParkOnlyWhileHandshaking JunkIsBeforeLine
PROPERTIES Progress
CHECK_DEADLOCK FALSE
