SPECIFICATION Spec
CONSTANTS
  Configs <- CfgFault
  Window = 2
  MaxFaults = 0
  FaultKinds <- AllKinds
  StopRoles <- BothRoles
INVARIANTS TypeOK Fidelity NoSilentCorruption NoFalseSuccess CleanRunSucceeds
PROPERTIES Termination
CHECK_DEADLOCK FALSE
