SPECIFICATION Spec
CONSTANTS
  Configs <- CfgFault
  Window = 2
  MaxFaults = 0
  FaultKinds <- AllKinds
  MaxPauses = 0
  TimeoutTicks = 2
  MaxTicks = 3
  Weaken = "none"
  StopRoles <- BothRoles
INVARIANTS TypeOK ClaimsAll Fidelity NoSilentCorruption NoFalseSuccess CleanRunSucceeds DeleteExact StopDelAgreed
PROPERTIES Termination
CHECK_DEADLOCK FALSE
