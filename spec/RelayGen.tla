----------------------------- MODULE RelayGen -----------------------------
(* Schedule generator for Relay (model-based testing, spec -> implementation; extension X04).   *)
(* Relay's own actions (through RelayMC) are reused unchanged; a history variable records, in  *)
(* the order of the behaviour, the steps the replayer (harness/x04_relaysched.go) can force:    *)
(*   feed   the next chunk of one side is handed to the relay's Read                            *)
(*   hook   a goroutine that waits at a vhook point of relay.go is released from it             *)
(* A goroutine blocked at a hook point has done everything up to that point; releasing it makes *)
(* it run up to its next hook point (or into its next Read).  Hence the mapping                  *)
(*   InLock       <- release of In from relay.in.load (it loaded `handshaking`: Lock + re-load)  *)
(*   InPark       <- release from relay.park.done / relay.park.skip (inside the critical section)*)
(*   InFwd+InMark <- release from relay.in.fwd   (a successful CAS stops at relay.reset)        *)
(*   OutFwd+OutStoreH <- release from relay.out.fwd,  OutTrigger <- release from relay.out.trigger *)
(*   WkSendAct / WkSendCfg / WkErrC <- release from relay.hs.act / relay.hs.cfg                  *)
(*   WkFlushLock (the drain) <- release from relay.flush.lock,  WkStore <- relay.flush.store,    *)
(*   WkUnlock <- relay.flush.done                                                               *)
(* Steps the code takes by itself between two hook points cannot be delayed by the replayer;    *)
(* they are "eager" here (they run before anything else): the status load right after a Read,   *)
(* the CAS right after a forward, the Store(handshaking) right after the detector, the worker's *)
(* line reads, the worker's Lock as soon as the lock is free.  Every behaviour of RelayGen is a *)
(* behaviour of Relay (the eager rule and HoldCfg only remove interleavings).                   *)
EXTENDS RelayMC, Json, TLCExt

CONSTANT HoldCfg      \* generator-only environment: a CFG chunk arrives after this many client chunks were read

VARIABLES hist, done
gvars == <<vars, hist, done>>

St(s) == CASE s = "S" -> 0 [] s = "H" -> 1 [] s = "T" -> 2
Hk(p, pt, a) == [k |-> "hook", p |-> p, pt |-> pt, a |-> a, u |-> <<>>]
Fd(side, c) == [k |-> "feed", p |-> side, pt |-> "feed", a |-> -1, u |-> c]
Log(es) == hist' = hist \o es
Keep == UNCHANGED hist

GInit == Init /\ hist = <<>> /\ done = FALSE

HoldOK == /\ HasK(SrvChunks[nOut + 1], {CFG, BADCFG}) => nIn >= HoldCfg
          \* a second trigger arrives after the client has written its end marker for the first transfer (the relay may
          \* still hold that chunk in its hands: the stale reset)
          /\ Has(SrvChunks[nOut + 1], TRIG - 10) => Has(fedC, END)

GInRead == CliReady /\ InRead(CliChunks[nIn + 1]) /\ Log(<<Fd("c", CliChunks[nIn + 1])>>)
GInLoad == InLoad /\ (IF status = "H" THEN Keep ELSE Log(<<Hk("In", "relay.in.load", St(status))>>))
GInLock == InLock /\ Log(<<Hk("In", "relay.in.load", 1)>>)
GInPark == InPark /\ Log(<<Hk("In", IF stI = "H" THEN "relay.park.done" ELSE "relay.park.skip", St(stI))>>)
GInFwd == InFwd /\ Log(<<Hk("In", "relay.in.fwd", St(stI))>>)
GInMark == InMark /\ (IF status = "T" THEN Log(<<Hk("In", "relay.reset", 2)>>) ELSE Keep)

GOutRead == SrvReady /\ HoldOK /\ OutRead(SrvChunks[nOut + 1]) /\ Log(<<Fd("s", SrvChunks[nOut + 1])>>)
GOutLoad == OutLoad /\ (IF status = "H" THEN Keep ELSE Log(<<Hk("Out", "relay.out.load", St(status))>>))
GOutLock == OutLock /\ Log(<<Hk("Out", "relay.out.load", 1)>>)
GOutPark == OutPark /\ Log(<<Hk("Out", IF stO = "H" THEN "relay.park.done" ELSE "relay.park.skip", St(stO))>>)
GOutFwd == OutFwd /\ Log(<<Hk("Out", "relay.out.fwd", St(stO))>>)
GOutStoreH == OutStoreH /\ Keep
GOutTrigger == OutTrigger /\ Log(<<Hk("Out", "relay.out.trigger", -1)>>)
GOutMark == OutMark /\ (IF status = "T" THEN Log(<<Hk("Out", "relay.reset", 2)>>) ELSE Keep)

GWkRecvAct == WkRecvAct /\ Keep
GWkRecvCfg == WkRecvCfg /\ Keep
GWkSendAct == WkSendAct /\ Log(<<Hk("Wk", "relay.hs.act", -1)>>)
GWkSendCfg == WkSendCfg /\ Log(<<Hk("Wk", "relay.hs.cfg", -1)>>)
GWkErrC == WkErrC /\ Log(<<Hk("Wk", IF K(wtok) = BADACT THEN "relay.hs.act" ELSE "relay.hs.cfg", -1)>>)
GWkErrS == WkErrS /\ Keep
GWkFlushLock == WkFlushLock /\ Log(<<Hk("Wk", "relay.flush.lock", -1)>>)
GWkStore == WkStore /\ Log(IF confirm /\ ~werr THEN <<Hk("Wk", "relay.flush.store", -1)>>
                                               ELSE <<Hk("Wk", "relay.flush.store", -1), Hk("Wk", "relay.reset", 1)>>)
GWkUnlock == WkUnlock /\ Log(<<Hk("Wk", "relay.flush.done", -1)>>)

(* what the code does by itself once the previous release (or Read) has happened *)
Eager ==
    \/ pcI \in {"load", "mark"} \/ pcO \in {"load", "trig", "mark"}
    \/ (pcW = "recvAct" /\ inQ # <<>>) \/ (pcW = "recvCfg" /\ outQ # <<>>)
    \/ (pcW = "flush" /\ lock = "free") \/ pcW = "errS"
EagerNext == GInLoad \/ GInMark \/ GOutLoad \/ GOutStoreH \/ GOutMark \/ GWkRecvAct \/ GWkRecvCfg \/ GWkFlushLock \/ GWkErrS
Controlled == GInRead \/ GInLock \/ GInPark \/ GInFwd \/ GOutRead \/ GOutLock \/ GOutPark \/ GOutFwd \/ GOutTrigger
              \/ GWkSendAct \/ GWkSendCfg \/ GWkErrC \/ GWkStore \/ GWkUnlock

GNext ==
    /\ ~done
    /\ IF Quiet THEN done' = TRUE /\ UNCHANGED <<vars, hist>>
       ELSE /\ UNCHANGED done
            /\ IF Eager THEN EagerNext ELSE Controlled

GSpec == GInit /\ [][GNext]_gvars

Behaviour == [cli |-> CliChunks, srv |-> SrvChunks, confirm |-> Confirm, steps |-> hist, sin |-> sin, cout |-> cout]
Export == done => PrintT("MBT " \o ToJson(Behaviour))

-----------------------------------------------------------------------------
(* chunk patterns of the generator (small: every maximal behaviour is exported) *)
\* one transfer: junk + ACT + rest, a chunk racing the handshake on either side, the end marker
GCliA == << <<1, ACT, 2>>, <<3>>, <<4, END>> >>
GSrvA == << <<TRIG>>, <<11, CFG, 12>>, <<13>> >>
\* the smallest confirmed transfer with one racing chunk on either side (exhaustive export)
GCliS == << <<ACT>>, <<1>> >>
GSrvS == << <<TRIG>>, <<CFG>>, <<11>> >>
\* refused transfer
GCliR == << <<ACT, 1>>, <<2>> >>
GSrvR == << <<11, TRIG>>, <<12>> >>
\* two transfers; both ends write an end marker for the first one (the reset CAS of one direction can be stale)
GCli2 == << <<ACT>>, <<1, END>>, <<-11, 2>>, <<3>> >>
GSrv2 == << <<TRIG>>, <<CFG>>, <<END, 11>>, <<-13>>, <<12>>, <<-12, 13>> >>
\* undecodable CFG
GCliB == << <<ACT>>, <<1>> >>
GSrvB == << <<TRIG>>, <<11, BADCFG, 12>>, <<13>> >>
\* many parked client chunks (the flush has more to push than the channel towards the writer holds), one late chunk
GCliD == << <<ACT>>, <<1>>, <<2>>, <<3>>, <<4>>, <<5>>, <<6>>, <<7>>, <<8>>, <<9>>, <<10>>, <<11>>, <<12>>, <<13>>, <<14>> >>
GSrvD == << <<TRIG>>, <<CFG>>, <<21>> >>
=============================================================================
