\* ladder configuration: one drawn update for every width x name x count x field lengths
SPECIFICATION Spec
CONSTANTS
  ColsSet = {1,2,3,4,5,6,7,8,9,10,11,12,13,14,15,16,17,18,19,20,21,22,23,24,25,26,27,28,29,30,31,32,33,34,35,36,37,38,39,40,41,42,43,44,45,46,47,48,49,50,51,52,53,54,55,56,57,58,59,60,61,62,63,64,65,66,67,68,69,70,71,72,73,74,75,76,77,78,79,80,81,82,83,84,85,86,87,88,89,90,91,92,93,94,95,96,97,98,99,100,101,102,103,104,105,106,107,108,109,110,111,112,113,114,115,116,117,118,119,120}
  PaneSet = {0}
  CountSet = {1, 12}
  NameKinds = {"ascii", "cjk", "sp"}
  NameWidths = {0,1,2,3,4,5,6,7,8,9,10,11,12,13,14,15,16,17,18,19,20,21,22,23,24,25,26,27,28,29,30,31,32,33,34,35,36,37,38,39,40,41,42,43,44,45,46,47,48,49,50,51,52,53,54,55,56,60,80}
  HeavyKinds = {"zwj", "comb", "mix"}
  HeavyWidths = {20, 21, 30, 31, 40, 41, 50, 51}
  TSet = {6}
  SSet = {7, 10}
  ESet = {9}
  SizeKinds = {"200"}
  StepKinds = {"3", "100", "200"}
  PreKinds = {"0"}
  DtSet = {200}
  Acts = {"step"}
  MaxCalls = 1
INVARIANTS TypeOK Fits PctRange PctMonotone BarCellsInRange NameOnlyShortened NameImpliesBar
CHECK_DEADLOCK FALSE
