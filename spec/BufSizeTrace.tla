---------------------------- MODULE BufSizeTrace ----------------------------
(* Trace validation for BufSize: consumes the events recorded by harness/x01_bufsize.go from  *)
(* real transfers (real client <-> wire <-> real server role bodies).  Recorded events:        *)
(*   reset {max, rmax, mode, proto, init, phase0}   negotiated configuration as both roles     *)
(*                                      hold it, bufferSize / bufInitPhase of the new transfer *)
(*   file  {raw, total}                 the sender wrote #SIZE; raw = file size, total = sum   *)
(*                                      of the DATA sizes of this file (filled in afterwards)  *)
(*   data  {n, whole}                   the sender wrote a DATA message of announced size n    *)
(*                                      in one Write (whole chunk) or as header + piece        *)
(*   ack   {len, ad, ms, size, phase}   recorded when the ack goroutine starts its next turn:  *)
(*                                      the acknowledgement before it carried len, was adapted *)
(*                                      on (ad) with chunk time ms, and bufferSize /           *)
(*                                      bufInitPhase are now size / phase                      *)
(*   p1data {n} / p1ack {len, ms}       protocol 1 (one goroutine)                             *)
(*   pause / resume                     the harness paused / continued the sending client      *)
(*   eof                                the sender wrote #MD5                                  *)
(*   end {cok, sok, same}               both roles returned; destination equals source         *)
(* Every event carries na: the distance to the next `ack` event of the same file (-1: none).   *)
(* The encoder and the channel operations are not observable: they are silent steps.  The      *)
(* adaptation of an acknowledgement happens some time before its `ack` event is recorded, so   *)
(* it is a silent step too, taken with the values of the next `ack` event and confirmed by it. *)
EXTENDS BufSize, Json, IOUtils, TLCExt

TraceLog == ndJsonDeserialize(IOEnv.VERIF_TRACE)

VARIABLES l,      \* next line of the log
          pend,   \* an acknowledgement was handled and its `ack` event is still to come
          rem,    \* bytes of the current file the encoder / the protocol-1 loop has not yet cut into chunks
          fl      \* line of the current file's `file` event
tvars == <<vars, l, pend, rem, fl>>

Ev == TraceLog[l]
More == l <= Len(TraceLog)
IsEvent(e) == More /\ Ev.e = e /\ l' = l + 1
Silent == More /\ Ev.e # "reset" /\ UNCHANGED l

FastMs == 500
SlowMs == 2000
ClassOf(ms) == IF ms < FastMs THEN "fast" ELSE IF ms >= SlowMs THEN "slow" ELSE "mid"
SecsOf(ms) == IF ms >= SlowMs THEN ms \div 1000 ELSE 0

TInit == /\ InitWith([max |-> 0, rmax |-> 0, mode |-> "bin", proto |-> 4], InitSize, TRUE)
         /\ l = 1 /\ pend = FALSE /\ rem = 0 /\ fl = 1

TReset ==
    /\ IsEvent("reset")
    /\ Ev.init = InitSize /\ Ev.phase0 = TRUE
    /\ ResetWith([max |-> Ev.max, rmax |-> Ev.rmax, mode |-> Ev.mode, proto |-> Ev.proto], Ev.init, Ev.phase0)
    /\ pend' = FALSE /\ rem' = 0 /\ fl' = l

TFile ==
    /\ IsEvent("file") /\ ~pend
    /\ BeginFile
    /\ rem' = IF cfg.proto >= 2 THEN Ev.total ELSE Ev.raw
    /\ fl' = l
    /\ UNCHANGED pend

(* ---- encoder (silent) ---- *)
(* A chunk can only end where a DATA message ends (the sender writes whole chunks or all the    *)
(* pieces of one): a capacity that does not lead to such an offset was not the one loaded.     *)
File == TraceLog[fl]      \* (fl always points at a `file` event once a file has begun)
EndsAtBoundary(c) == LET b == File.bounds
                         x == File.total - rem + c IN \E i \in 1..Len(b) : b[i] = x
CapPossible(c) == c > 0 /\ (rem >= c => EndsAtBoundary(c))

TEncFull    == Silent /\ rem >= enc.cap /\ EncFull /\ rem' = rem - enc.cap /\ UNCHANGED <<pend, fl>>
TEndOfData  == Silent /\ enc.pc = "fill" /\ rem < enc.cap /\ EndOfData(rem) /\ rem' = 0 /\ UNCHANGED <<pend, fl>>
TEncDeliver == Silent /\ EncDeliver /\ UNCHANGED <<pend, rem, fl>>
TEncWait    == Silent /\ EncWait /\ UNCHANGED <<pend, rem, fl>>
TEncRenew   == Silent /\ st = "file" /\ enc.pc = "renew" /\ CapPossible(size) /\ EncRenew /\ UNCHANGED <<pend, rem, fl>>
TEncTail    == Silent /\ EncTail /\ UNCHANGED <<pend, rem, fl>>
TEncFlag    == Silent /\ EncFlag /\ UNCHANGED <<pend, rem, fl>>

(* ---- sender ---- *)
(* the decision taken with the loaded size shows in the next DATA message *)
NextData == TraceLog[l + Ev.nd]
HasNextData == Ev.nd >= 0 /\ l + Ev.nd <= Len(TraceLog) /\ TraceLog[l + Ev.nd].e = "data"
TSndRecv == Silent /\ SndRecv /\ UNCHANGED <<pend, rem, fl>>
TSndTake ==
    /\ Silent /\ HasNextData /\ st = "file" /\ snd.pc = "taken"
    /\ LET c == snd.left IN
         IF c <= size THEN NextData.whole /\ NextData.n = c
                      ELSE ~NextData.whole /\ NextData.n = Min2(size, c)
    /\ SndTake /\ UNCHANGED <<pend, rem, fl>>
TSndLoadPiece ==
    /\ Silent /\ HasNextData /\ st = "file" /\ snd.pc = "split" /\ ~NextData.whole /\ NextData.n = Min2(size, snd.left)
    /\ SndLoadPiece /\ UNCHANGED <<pend, rem, fl>>
TSndAckPush   == Silent /\ SndAckPush /\ UNCHANGED <<pend, rem, fl>>

TData ==
    /\ IsEvent("data")
    /\ IF Ev.whole THEN SendChunk ELSE SendPiece
    /\ snd.n = Ev.n
    /\ UNCHANGED <<pend, rem, fl>>

(* ---- ack goroutine ---- *)
TAckTake == Silent /\ AckTake /\ UNCHANGED <<pend, rem, fl>>

TAckDo ==
    /\ Silent /\ ~pend /\ Ev.na >= 0 /\ acur.pc = "got"
    /\ l + Ev.na <= Len(TraceLog) /\ TraceLog[l + Ev.na].e = "ack"
    /\ LET A == TraceLog[l + Ev.na]
           t == ClassOf(A.ms)
           k == SecsOf(A.ms) IN
         /\ A.len = acur.len
         /\ IF A.ad THEN AckFast(t, k) \/ AckSlow(t, k) \/ AckMiddle(t, k)
                    ELSE AckIgnored
         /\ size' = A.size          \* nothing else stores the size before the `ack` event is recorded
    /\ pend' = TRUE /\ UNCHANGED <<rem, fl>>

TAck ==
    /\ IsEvent("ack") /\ pend
    /\ Ev.size = size /\ Ev.phase = phase
    /\ pend' = FALSE
    /\ UNCHANGED <<vars, rem, fl>>

TPauseSeen == Silent /\ ~pend /\ PauseSeen /\ UNCHANGED <<pend, rem, fl>>
TPause  == IsEvent("pause") /\ Pause /\ UNCHANGED <<pend, rem, fl>>
TResume == IsEvent("resume") /\ UNCHANGED <<vars, pend, rem, fl>>

(* ---- protocol 1 ---- *)
TP1Data ==
    /\ IsEvent("p1data")
    /\ LET len == Min2(p1.bs, rem) IN
         /\ len >= 1
         /\ IF cfg.mode = "bin"
            THEN Ev.n >= len /\ Ev.n - len <= len /\ P1Send(len, Ev.n - len, rem = len)
            ELSE P1Send(len, 0, rem = len)
         /\ rem' = rem - len
    /\ UNCHANGED <<pend, fl>>

TP1Ack ==
    /\ IsEvent("p1ack")
    /\ Ev.len = p1.len
    /\ LET t == ClassOf(Ev.ms)
           k == SecsOf(Ev.ms) IN
         P1AckFast(t, k) \/ P1AckReset(t, k) \/ P1AckKeep(t, k)
    /\ UNCHANGED <<pend, rem, fl>>

TP1Empty == Silent /\ Ev.e = "eof" /\ rem = 0 /\ P1Empty /\ UNCHANGED <<pend, rem, fl>>

(* ---- end of file / transfer ---- *)
TEof == IsEvent("eof") /\ ~pend /\ rem = 0 /\ FileDone /\ UNCHANGED <<pend, rem, fl>>

TEnd == /\ IsEvent("end")
        /\ Ev.cok /\ Ev.sok /\ Ev.same      \* a clean transfer succeeds on both sides
        /\ Finish /\ UNCHANGED <<pend, rem, fl>>

(* The order of the disjuncts is the order in which TLC (depth-first queue) tries them: consume  *)
(* a recorded event when one fits, otherwise let the ack goroutine, the sender, the encoder act. *)
(* (Measured: 16 states per recorded event; with the silent steps first it was 140.)            *)
TNext ==
    \/ TReset \/ TFile \/ TData \/ TAck \/ TPause \/ TResume \/ TP1Data \/ TP1Ack \/ TEof \/ TEnd
    \/ TAckTake \/ TPauseSeen \/ TAckDo
    \/ TSndRecv \/ TSndTake \/ TSndLoadPiece \/ TSndAckPush
    \/ TEncFull \/ TEndOfData \/ TEncDeliver \/ TEncWait \/ TEncRenew \/ TEncTail \/ TEncFlag \/ TP1Empty

TSpec == TInit /\ [][TNext]_tvars

(* the strict reading of -B, judged on real runs (reported as an observation) *)
ObservedWithinNegotiated == (st # "gap" \/ cnt.file > 0) => SizeWithinNegotiated

(* the first path that reaches the end of the log is enough: stop TLC there *)
AtEnd == (l > Len(TraceLog)) => (PrintT("ACCEPTED") /\ TLCSet("exit", TRUE))

(* high-water mark of consumed lines; TLCSet/TLCGet register 1, -workers 1 *)
HW == IF l > TLCGet(1) THEN TLCSet(1, l) ELSE TRUE
ASSUME TLCSet(1, 0)
Accepted == IF TLCGet(1) = Len(TraceLog) + 1 THEN TRUE
            ELSE PrintT("HW " \o ToString(TLCGet(1))) /\ FALSE
=============================================================================
