\* Expected to be violated while handleZmodemError does not arm the cleanup timer (F1).
SPECIFICATION Spec
CONSTANTS
  Ups = {TRUE, FALSE}
  Starts = {"ok", "nopath"}
  Vetoes = {"none", "can", "cno"}
  MaxHdr = 1
  MaxSrv = 1
  MaxHout = 1
  MaxCtrlC = 1
  MaxText = 0
  InitBeforePublish = TRUE
  ErrArms = {FALSE}
INVARIANTS NotStuck

CHECK_DEADLOCK FALSE
