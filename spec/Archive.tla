------------------------------ MODULE Archive ------------------------------
(* trzsz/archive.go: a directory sent as ONE stream (protocol 4, no overwrite).              *)
(*   scan      comm.go checkPathReadable: pre-order list of entries (sourceFile)             *)
(*   producer  archiveFileReader.Read   (fields files/src/idx/buf/file/left, size)            *)
(*   consumer  archiveFileWriter.Write  (fields buf/file/left) driven by comm.go writeAll     *)
(* Stream = for every entry: header bytes (opaque, LF-free: base64) + LF + payload (files).  *)
(* Bytes are identified by their position in the stream; a header of entry e is the only     *)
(* thing that decodes to e (it carries the path), payload bytes may have any value incl. LF. *)
(* One action per loop turn / branch of the Go code:                                         *)
(*   ScanEntry        checkPathReadable appends one sourceFile (it holds no directory open   *)
(*                    once it has returned: observed by ArchiveTrace!TScan)                  *)
(*   NewReader        newArchiveReader: announced size                                       *)
(*   RdBegin(n)       Read(p), len(p) = n, entered                                           *)
(*   RdAdvance        src == nil, idx < len(files): next entry, close previous file, open    *)
(*   RdEOF            src == nil, idx >= len(files): return 0, io.EOF                        *)
(*   RdHeader         len(buf) > 0: copy, return n                                           *)
(*   RdFile           file != nil: file.Read(p[:min(len(p),left)]); EOF with left # 0 = error *)
(*   RdDirSkip        directory: src = nil                                                   *)
(*   RdClose          Close()                                                                *)
(*   SourceResize     the environment truncates (or extends) a source file                   *)
(*   WaBegin(len)     writeAll(dst, data) entered, len(data) = len                           *)
(*   WrPayload        Write: left > 0 && file != nil   -> short count min(left, len(p))      *)
(*   WrHeaderPart     Write: no LF in p                -> buffered, returns len(p)           *)
(*   WrHeaderEnd      Write: LF at idx                 -> decode, create, returns idx+1      *)
(*   WrClose          Close()                                                                *)
(* writeAll's loop re-presents data[m:] until everything is consumed: wPend is that rest.    *)
EXTENDS Integers, Sequences, FiniteSets, TLC

CONSTANTS MaxEntries,  \* bound on the number of entries of the tree
          HdrLens,     \* header lengths (opaque bytes before the LF)
          Sizes,       \* file sizes
          ReadSizes,   \* len(p) of the producer's Read calls
          MaxWrite,    \* longest segment handed to writeAll
          MaxResize,   \* how often a source file may change length
          WithGrow,    \* BOOLEAN: SourceResize may also extend a file
          Pipelined    \* BOOLEAN: consumer runs concurrently with the producer (else after it)

VARIABLES entries,     \* Seq of [dir, hdr, size, parent, start]   (files of the reader)
          srcLen,      \* srcLen[e]: length of source file e on disk right now
          resized,     \* number of SourceResize steps
          announced,   \* getSize(); -1 before newArchiveReader
          rIdx, rSrc, rBuf, rFile, rLeft, rOpen, rCall, rpos, rState, rClosed,
          wPend, wpos, wBuf, wFile, wLeft, wOpen, wState, wClosed,
          fsOut        \* fsOut[e]: what the consumer made of entry e: [kind, len, exact]

rvars == <<rIdx, rSrc, rBuf, rFile, rLeft, rOpen, rCall, rpos, rState, rClosed>>
wvars == <<wPend, wpos, wBuf, wFile, wLeft, wOpen, wState, wClosed, fsOut>>
evars == <<entries, srcLen, resized, announced>>
vars  == <<evars, rvars, wvars>>

Min(a, b) == IF a < b THEN a ELSE b
Max(a, b) == IF a > b THEN a ELSE b

N           == Len(entries)
IsFile(e)   == ~entries[e].dir
Start(e)    == entries[e].start                 \* stream position of the first header byte
HdrEnd(e)   == Start(e) + entries[e].hdr        \* position of the header's LF
PayStart(e) == HdrEnd(e) + 1
PaySize(e)  == IF entries[e].dir THEN 0 ELSE entries[e].size
End(e)      == PayStart(e) + PaySize(e)         \* = Start(e+1)
Total       == IF N = 0 THEN 0 ELSE End(N)

(* ancestors-or-self of entry j (0 = the archive root itself) *)
RECURSIVE Chain(_)
Chain(j) == IF j = 0 THEN {} ELSE {j} \cup Chain(entries[j].parent)

(* newArchiveReader: size += len(Header) + 1; if !IsDir { size += Size } *)
RECURSIVE SumSizes(_)
SumSizes(k) == IF k = 0 THEN 0
               ELSE SumSizes(k - 1) + entries[k].hdr + 1 + (IF entries[k].dir THEN 0 ELSE entries[k].size)

(* the entry whose bytes include stream position pos (0 = none: pos >= Total) *)
EntryAt(pos) == IF pos >= Total THEN 0
                ELSE CHOOSE e \in 1..N : Start(e) <= pos /\ pos < End(e)

(* Abstract payload content: byte k of file e is an LF iff (e + k) is even, so that files     *)
(* begin, end and are filled with LFs.  Only consulted where a consumer scans payload for LF. *)
PayLF(e, k) == (e + k) % 2 = 0

(* bytes.IndexByte(p, LF) for p = stream[pos .. lim-1]: position of the first LF, or lim.     *)
NextLF(pos, lim) ==
    LET e == EntryAt(pos) IN
    IF e = 0 THEN lim
    ELSE IF pos <= HdrEnd(e) THEN Min(HdrEnd(e), lim)
    ELSE LET ks == {k \in (pos - PayStart(e))..(PaySize(e) - 1) : PayLF(e, k)} IN
         IF ks # {} THEN Min(PayStart(e) + (CHOOSE k \in ks : \A k2 \in ks : k <= k2), lim)
         ELSE IF e < N THEN Min(HdrEnd(e + 1), lim) ELSE lim

-----------------------------------------------------------------------------
Init ==
    /\ entries = <<>> /\ srcLen = <<>> /\ resized = 0 /\ announced = -1
    /\ rIdx = 0 /\ rSrc = 0 /\ rBuf = 0 /\ rFile = 0 /\ rLeft = 0 /\ rOpen = {} /\ rCall = 0
    /\ rpos = 0 /\ rState = "run" /\ rClosed = FALSE
    /\ wPend = 0 /\ wpos = 0 /\ wBuf = 0 /\ wFile = 0 /\ wLeft = 0 /\ wOpen = {}
    /\ wState = "run" /\ wClosed = FALSE /\ fsOut = <<>>

(* used by the trace spec to start the next recorded run *)
Reset ==
    /\ entries' = <<>> /\ srcLen' = <<>> /\ resized' = 0 /\ announced' = -1
    /\ rIdx' = 0 /\ rSrc' = 0 /\ rBuf' = 0 /\ rFile' = 0 /\ rLeft' = 0 /\ rOpen' = {} /\ rCall' = 0
    /\ rpos' = 0 /\ rState' = "run" /\ rClosed' = FALSE
    /\ wPend' = 0 /\ wpos' = 0 /\ wBuf' = 0 /\ wFile' = 0 /\ wLeft' = 0 /\ wOpen' = {}
    /\ wState' = "run" /\ wClosed' = FALSE /\ fsOut' = <<>>

(* checkPathReadable appends one sourceFile; the walk is pre-order: the parent is the        *)
(* previous entry (if a directory) or one of its ancestors, or the root.                     *)
ScanEntry(dir, hdr, size, parent) ==
    /\ announced = -1
    /\ parent = 0 \/ (parent \in Chain(N) /\ entries[parent].dir)
    /\ dir => size = 0
    /\ entries' = Append(entries, [dir |-> dir, hdr |-> hdr, size |-> size, parent |-> parent,
                                   start |-> Total])
    /\ srcLen' = Append(srcLen, size)
    /\ fsOut' = Append(fsOut, [kind |-> "none", len |-> 0, exact |-> TRUE])
    /\ UNCHANGED <<resized, announced, rvars, wPend, wpos, wBuf, wFile, wLeft, wOpen, wState, wClosed>>

NewReader ==
    /\ announced = -1 /\ N >= 1
    /\ announced' = SumSizes(N)
    /\ UNCHANGED <<entries, srcLen, resized, rvars, wvars>>

(* The environment changes the length of a source file that the producer has not finished.   *)
SourceResize(e, n) ==
    /\ announced >= 0 /\ rState = "run" /\ rCall = 0
    /\ e \in 1..N /\ IsFile(e)
    /\ rIdx < e \/ (rSrc = e /\ rLeft > 0)
    /\ n # srcLen[e]
    /\ srcLen' = [srcLen EXCEPT ![e] = n]
    /\ resized' = resized + 1
    /\ UNCHANGED <<entries, announced, rvars, wvars>>

-----------------------------------------------------------------------------
(* producer *)

RdBegin(n) ==
    /\ announced >= 0 /\ rState = "run" /\ ~rClosed /\ rCall = 0 /\ n >= 1
    /\ rCall' = n
    /\ UNCHANGED <<evars, rIdx, rSrc, rBuf, rFile, rLeft, rOpen, rpos, rState, rClosed, wvars>>

RdAdvance ==
    /\ rCall > 0 /\ rSrc = 0 /\ rIdx < N
    /\ LET e == rIdx + 1 IN
       /\ rSrc' = e /\ rIdx' = e
       /\ rBuf' = entries[e].hdr + 1
       /\ rOpen' = (rOpen \ {rFile}) \cup (IF IsFile(e) THEN {e} ELSE {})   \* Close, then os.Open
       /\ rFile' = IF IsFile(e) THEN e ELSE 0
       /\ rLeft' = entries[e].size
    /\ UNCHANGED <<evars, rCall, rpos, rState, rClosed, wvars>>

RdEOF ==
    /\ rCall > 0 /\ rSrc = 0 /\ rIdx >= N
    /\ rState' = "eof" /\ rCall' = 0
    /\ UNCHANGED <<evars, rIdx, rSrc, rBuf, rFile, rLeft, rOpen, rpos, rClosed, wvars>>

RdHeader ==
    /\ rCall > 0 /\ rSrc # 0 /\ rBuf > 0
    /\ LET got == Min(rCall, rBuf) IN
       /\ rBuf' = rBuf - got /\ rpos' = rpos + got
    /\ rCall' = 0
    /\ UNCHANGED <<evars, rIdx, rSrc, rFile, rLeft, rOpen, rState, rClosed, wvars>>

RdFile ==
    /\ rCall > 0 /\ rSrc # 0 /\ rBuf = 0 /\ rFile # 0
    /\ LET m     == Min(rCall, rLeft)
           off   == entries[rFile].size - rLeft              \* read offset of the os.File
           avail == Max(0, srcLen[rFile] - off)
           got   == Min(m, avail)
           eof   == m > 0 /\ got = 0 IN                       \* os.File.Read: 0, io.EOF
       IF eof
       THEN /\ rState' = "err" /\ rCall' = 0                  \* "EOF but left <> 0"
            /\ UNCHANGED <<rSrc, rLeft, rpos>>
       ELSE /\ rLeft' = rLeft - got
            /\ rSrc' = IF rLeft - got = 0 THEN 0 ELSE rSrc
            /\ rpos' = rpos + got
            /\ rCall' = IF got > 0 THEN 0 ELSE rCall          \* n > 0: return n; else continue
            /\ UNCHANGED rState
    /\ UNCHANGED <<evars, rIdx, rBuf, rFile, rOpen, rClosed, wvars>>

RdDirSkip ==
    /\ rCall > 0 /\ rSrc # 0 /\ rBuf = 0 /\ rFile = 0
    /\ rSrc' = 0
    /\ UNCHANGED <<evars, rIdx, rBuf, rFile, rLeft, rOpen, rCall, rpos, rState, rClosed, wvars>>

RdClose ==
    /\ rCall = 0 /\ rState # "run" /\ ~rClosed
    /\ rOpen' = rOpen \ {rFile}
    /\ rClosed' = TRUE
    /\ UNCHANGED <<evars, rIdx, rSrc, rBuf, rFile, rLeft, rCall, rpos, rState, wvars>>

RdTurn == RdAdvance \/ RdEOF \/ RdHeader \/ RdFile \/ RdDirSkip

-----------------------------------------------------------------------------
(* consumer *)

WriterMayRun == Pipelined \/ (rState = "eof" /\ rClosed)

WaBegin(len) ==
    /\ WriterMayRun /\ wState = "run" /\ ~wClosed /\ wPend = 0
    /\ len >= 1 /\ wpos + len <= rpos
    /\ wPend' = len
    /\ UNCHANGED <<evars, rvars, wpos, wBuf, wFile, wLeft, wOpen, wState, wClosed, fsOut>>

InPayload == wLeft > 0 /\ wFile # 0

WrPayload ==
    /\ wPend > 0 /\ wState = "run" /\ InPayload
    /\ LET m == Min(wLeft, wPend) IN
       /\ fsOut' = [fsOut EXCEPT ![wFile] =
                       [kind  |-> @.kind, len |-> @.len + m,
                        exact |-> @.exact /\ wpos = PayStart(wFile) + @.len]]
       /\ wLeft' = wLeft - m /\ wpos' = wpos + m /\ wPend' = wPend - m
    /\ UNCHANGED <<evars, rvars, wBuf, wFile, wOpen, wState, wClosed>>

WrHeaderPart ==
    /\ wPend > 0 /\ wState = "run" /\ ~InPayload
    /\ NextLF(wpos, wpos + wPend) = wpos + wPend
    /\ wBuf' = wBuf + wPend /\ wpos' = wpos + wPend /\ wPend' = 0
    /\ UNCHANGED <<evars, rvars, wFile, wLeft, wOpen, wState, wClosed, fsOut>>

(* createDirOrFile: MkdirAll of the parents, then the directory / the file (O_TRUNC) *)
Created(e) ==
    [j \in 1..N |->
        IF j = e THEN [kind |-> IF IsFile(e) THEN "file" ELSE "dir", len |-> 0, exact |-> TRUE]
        ELSE IF j \in Chain(entries[e].parent) /\ fsOut[j].kind = "none"
             THEN [kind |-> "dir", len |-> 0, exact |-> TRUE]
             ELSE fsOut[j]]

WrHeaderEnd ==
    /\ wPend > 0 /\ wState = "run" /\ ~InPayload
    /\ LET t  == NextLF(wpos, wpos + wPend)
           hs == wpos - wBuf IN
       /\ t < wpos + wPend
       /\ IF \E e \in 1..N : Start(e) = hs /\ HdrEnd(e) = t
          THEN LET e == CHOOSE e \in 1..N : Start(e) = hs /\ HdrEnd(e) = t IN
               /\ fsOut' = Created(e)
               /\ wOpen' = (wOpen \ {wFile}) \cup (IF IsFile(e) THEN {e} ELSE {})   \* close the previous entry
               /\ wFile' = IF IsFile(e) THEN e ELSE 0
               /\ wLeft' = entries[e].size
               /\ wBuf' = 0 /\ wpos' = t + 1 /\ wPend' = wPend - (t + 1 - wpos)
               /\ UNCHANGED wState
          ELSE /\ wState' = "err" /\ wPend' = 0                \* the bytes do not decode to an entry
               /\ UNCHANGED <<fsOut, wOpen, wFile, wLeft, wBuf, wpos>>
    /\ UNCHANGED <<evars, rvars, wClosed>>

WrClose ==
    /\ wPend = 0 /\ ~wClosed
    /\ wState = "err" \/ (rState # "run" /\ wpos = rpos)
    /\ wOpen' = wOpen \ {wFile}
    /\ wClosed' = TRUE
    /\ UNCHANGED <<evars, rvars, wPend, wpos, wBuf, wFile, wLeft, wState, fsOut>>

WrTurn == WrPayload \/ WrHeaderPart \/ WrHeaderEnd

-----------------------------------------------------------------------------
ScanAny ==
    \E dir \in BOOLEAN, hdr \in HdrLens, size \in Sizes, parent \in 0..N :
        N < MaxEntries /\ ScanEntry(dir, hdr, size, parent)

ResizeAny ==
    \E e \in 1..N : \E n \in 0..(entries[e].size + (IF WithGrow THEN 1 ELSE 0)) :
        resized < MaxResize /\ (WithGrow \/ n < srcLen[e]) /\ SourceResize(e, n)

Next ==
    \/ ScanAny
    \/ NewReader
    \/ ResizeAny
    \/ \E n \in ReadSizes : RdBegin(n)
    \/ RdTurn
    \/ RdClose
    \/ \E len \in 1..MaxWrite : WaBegin(len)
    \/ WrTurn
    \/ WrClose

Spec == Init /\ [][Next]_vars

-----------------------------------------------------------------------------
(* Properties (C15).                                                                        *)

TypeOK ==
    /\ rIdx \in 0..N /\ rSrc \in 0..N /\ rFile \in 0..N /\ wFile \in 0..N
    /\ rBuf >= 0 /\ rLeft >= 0 /\ wLeft >= 0 /\ wBuf >= 0 /\ wPend >= 0
    /\ wpos \in 0..rpos
    /\ rState \in {"run", "eof", "err"} /\ wState \in {"run", "err"}

(* The size announced for the stream is never exceeded and is exactly reached at EOF.        *)
AnnouncedIsProduced ==
    /\ announced >= 0 => rpos <= announced
    /\ rState = "eof" => rpos = announced

(* What the producer emits is the canonical stream: it stands where its cursor says.         *)
ProducedIsCanonical ==
    /\ (rSrc # 0 /\ rBuf > 0) => rpos = PayStart(rSrc) - rBuf
    /\ (rSrc # 0 /\ rBuf = 0 /\ rFile # 0) => rFile = rSrc /\ rpos = End(rSrc) - rLeft
    /\ (rSrc = 0 /\ rState # "err") => rpos = (IF rIdx = 0 THEN 0 ELSE End(rIdx))

(* The consumer's `left` reaches 0 exactly at entry boundaries; it looks for a header only   *)
(* where a header is, and never fails to decode one.                                         *)
HeaderNeverInPayload ==
    /\ wState = "run"
    /\ IF InPayload
       THEN wBuf = 0 /\ wpos = End(wFile) - wLeft
       ELSE \/ wpos - wBuf = Total /\ wBuf = 0
            \/ \E e \in 1..N : Start(e) = wpos - wBuf /\ wpos <= HdrEnd(e)
    /\ (wFile # 0 /\ wLeft = 0) => wpos - wBuf = End(wFile)

(* Each side holds at most one entry file open, and none after Close.                         *)
OneOpenFile ==
    /\ Cardinality(rOpen) <= 1 /\ Cardinality(wOpen) <= 1
    /\ rClosed => rOpen = {}
    /\ wClosed => wOpen = {}

Shrunk(e) == IsFile(e) /\ srcLen[e] < entries[e].size

(* A source file that became shorter than announced is an error: the producer never gets     *)
(* past it -- no byte of a later entry is produced, EOF is never reported, and it can only    *)
(* stand before the file or inside it (where the error is raised).                           *)
ShrinkIsError ==
    \A e \in 1..N : Shrunk(e) =>
        /\ rIdx < e \/ (rIdx = e /\ rSrc = e)
        /\ rpos < End(e)
        /\ rState # "eof"

(* whatever has been written so far is a prefix of the right content in the right file *)
WrittenIsPrefix ==
    \A e \in 1..N : /\ fsOut[e].exact /\ fsOut[e].len <= PaySize(e)
                    /\ fsOut[e].kind = "file" => IsFile(e)
                    /\ fsOut[e].kind = "dir" => ~IsFile(e)

Done == rState = "eof" /\ wpos = rpos /\ wPend = 0

(* At the end the consumer's tree is the source tree. *)
Reconstructed ==
    Done => \A e \in 1..N :
               /\ fsOut[e].kind = (IF IsFile(e) THEN "file" ELSE "dir")
               /\ fsOut[e].len = PaySize(e)
               /\ fsOut[e].exact

=============================================================================
