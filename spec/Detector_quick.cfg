SPECIFICATION Spec
CONSTANTS
  MaxMem = 2
  PruneN = 1
  MaxChunks = 2
  MaxToks = 3
  Roles = {"client", "relay", "relaytmux"}
  WinVals = {TRUE, FALSE}
  Modes = {"R"}
  Vers = {"new"}
  Ports <- PortsSmall
  Shapes = {"none", "s00", "s20"}
  TsSet = {1}
  PartKinds = {"inmarker", "ver2"}
  Markers = {"Saved"}
  Places = {"near", "far"}
  CtlKinds = {"none", "out"}
  WithJunk = TRUE
INVARIANTS TypeOK AtMostOnePerChunk FieldsAsAdvertised ShownFormInert RelayFormStillRecognised ReplaySuppressed RecentRemembered ScrollbackSuppressed FreshIdFires
CHECK_DEADLOCK FALSE
