----------------------------- MODULE ArchiveGen -----------------------------
(* Test-case generator for Archive (model-based testing, spec -> implementation).  A history  *)
(* variable records the calls of a behaviour with the return values the model predicts; when *)
(* the behaviour is finished it is printed as one JSON line for harness/c15_archive.go        *)
(* (driver c15_mbt), which materialises the tree on disk and drives the real                  *)
(* newArchiveReader / archiveFileWriter.Write / writeAll through the same calls.              *)
(*   steps: {a:"rd", n, got, res, ro, wo} | {a:"resize", ent, len} | {a:"rclose", ro, wo}     *)
(*          {a:"wa", len} | {a:"wr", len, c, res, ro, wo} | {a:"wclose", ro, wo}              *)
(*   ro / wo = entry files the producer / the consumer holds open after the step             *)
EXTENDS Archive, Json, TLCExt

CONSTANT UniformReads   \* BOOLEAN: one read size per behaviour (as the repository's test does)

VARIABLES hist, rdN
gvars == <<vars, hist, rdN>>

GInit == Init /\ hist = <<>> /\ rdN = 0

Res(st) == IF st = "run" THEN "ok" ELSE st

Finished == rClosed /\ (wClosed \/ (~Pipelined /\ rState = "err"))

GNext ==
    /\ ~Finished
    /\ \/ ScanAny /\ UNCHANGED <<hist, rdN>>
       \/ NewReader /\ UNCHANGED <<hist, rdN>>
       \/ /\ \E e \in 1..N : \E n \in 0..(entries[e].size + (IF WithGrow THEN 1 ELSE 0)) :
                /\ resized < MaxResize /\ (WithGrow \/ n < srcLen[e]) /\ SourceResize(e, n)
                /\ hist' = Append(hist, [a |-> "resize", ent |-> e, len |-> n])
          /\ UNCHANGED rdN
       \/ \E n \in ReadSizes :
             /\ (UniformReads /\ rdN # 0) => n = rdN
             /\ RdBegin(n) /\ rdN' = n /\ UNCHANGED hist
       \/ /\ RdTurn /\ UNCHANGED rdN
          /\ hist' = IF rCall' = 0
                     THEN Append(hist, [a |-> "rd", n |-> rCall, got |-> rpos' - rpos, res |-> Res(rState'),
                                        ro |-> Cardinality(rOpen'), wo |-> Cardinality(wOpen')])
                     ELSE hist
       \/ RdClose /\ UNCHANGED rdN
          /\ hist' = Append(hist, [a |-> "rclose", ro |-> Cardinality(rOpen'), wo |-> Cardinality(wOpen')])
       \/ \E len \in 1..MaxWrite :
             WaBegin(len) /\ hist' = Append(hist, [a |-> "wa", len |-> len]) /\ UNCHANGED rdN
       \/ /\ WrTurn /\ UNCHANGED rdN
          /\ hist' = Append(hist, [a |-> "wr", len |-> wPend, c |-> wpos' - wpos, res |-> Res(wState'),
                                  ro |-> Cardinality(rOpen'), wo |-> Cardinality(wOpen')])
       \/ WrClose /\ UNCHANGED rdN
          /\ hist' = Append(hist, [a |-> "wclose", ro |-> Cardinality(rOpen'), wo |-> Cardinality(wOpen')])

GSpec == GInit /\ [][GNext]_gvars

Export == Finished =>
    PrintT("MBT " \o ToJson([entries |-> entries, announced |-> announced, total |-> rpos,
                             rstate |-> rState, steps |-> hist,
                             fs |-> [e \in 1..N |-> [kind |-> fsOut[e].kind, len |-> fsOut[e].len]]]))
=============================================================================
