SPECIFICATION Spec
CONSTANTS
  MaxSuffix = 1
  Validate = "required"
  Chain <- ChainDef
  Pres <- C07PresThorough
  Sources <- C07SourcesThorough
  HostileNames = {}
  HostileVar <- NoVar
  Cfgs <- C07Cfgs
  Rounds = 2
INVARIANTS Export07 TypeOK Untouched FreshTopLevel OneNamePerPath ReportedAreUsed WholeUnderOne NoFreshNameFails Confined
CHECK_DEADLOCK FALSE
