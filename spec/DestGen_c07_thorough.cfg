SPECIFICATION Spec
CONSTANTS
  MaxSuffix = 1
  Validate = "required"
  Chain <- ChainDef
  Pres <- C07PresThorough
  Sources <- C07SourcesThorough
  HostileNames = {}
  HostileVar <- NoVar
  Cfgs <- C07Cfgs
  Rounds = 1
INVARIANTS Export07
CHECK_DEADLOCK FALSE
