SPECIFICATION GSpec
CONSTANTS
  N = 3
  StrayScripts = {"wrong", "wrongid", "long", "right", "split", "silent", "flood"}
  Outcomes = {"refuse", "dead", "good", "badreply", "noreply"}
  Rendezvous = TRUE
  MaxData = 0
  Pumps = FALSE
INVARIANTS Export AtMostOneAdopted NoAnswerToStrangers
CHECK_DEADLOCK FALSE
