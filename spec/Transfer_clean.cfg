SPECIFICATION Spec
CONSTANTS
  Configs <- CfgClean
  Window = 2
  MaxFaults = 0
  FaultKinds <- AllKinds
  StopRoles <- NoRoles
INVARIANTS TypeOK Fidelity NoSilentCorruption NoFalseSuccess CleanRunSucceeds AckWithinSaved
PROPERTIES Termination
CHECK_DEADLOCK FALSE
