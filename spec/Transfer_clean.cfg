SPECIFICATION Spec
CONSTANTS
  Configs <- CfgClean
  Window = 2
  MaxFaults = 0
  FaultKinds <- AllKinds
  MaxPauses = 0
  TimeoutTicks = 2
  MaxTicks = 3
  Weaken = "none"
  StopRoles <- NoRoles
INVARIANTS TypeOK ClaimsAll Fidelity NoSilentCorruption NoFalseSuccess CleanRunSucceeds AckWithinSaved
PROPERTIES Termination
CHECK_DEADLOCK FALSE
