------------------------------- MODULE Progress -------------------------------
(* trzsz/progress.go: textProgressBar.  One action per exported call of the Go type:         *)
(*   NewBar(c, pn)          newTextProgressBar(writer, c, pn, "", colours)                   *)
(*   Resize(c)              setTerminalColumns(c)                                            *)
(*   OnNum(n)               onNum(n)                                                         *)
(*   OnName(nm)             onName(nm)                                                       *)
(*   OnSize(v)              onSize(v)            fileSize = preSize + v                      *)
(*   SetPreSize(v)          setPreSize(v)                                                    *)
(*   OnStep(v, dt, lens)    onStep(v): ignored | paused | -> Show                            *)
(*   OnDone(dt, lens)       onDone(): noop for fileSize = 0 | fileStep = fileSize -> Show    *)
(*   SetPause(b)            setPause(b)                                                      *)
(* Show is showProgress (throttle of 200 ms, redraw prefix) and Layout is getProgressText +  *)
(* getProgressBar: the nine-rung ladder transcribed guard by guard over abstract widths.     *)
(*                                                                                           *)
(* Abstractions.  A string is a sequence of rune codes  w + 4 j + 8 s + 16 d  with w the     *)
(* rune's width (go-runewidth RuneWidth, 0..2), j = 1 when the rune continues the grapheme   *)
(* cluster of the previous rune (uniseg), s = 1 for unicode.IsSpace runes (strings.TrimSpace)*)
(* and d = 1 for a '.' added by getEllipsisString.  The texts of the total / speed / ETA     *)
(* fields enter only by their lengths (lens.t, lens.s, lens.e: produced by the formatters    *)
(* convertSizeToString / convertTimeToString, not modelled); the percentage is modelled.     *)
(* dt is the time in ms since the last drawn update.  Numbers are ProgressNum records.       *)
(*                                                                                           *)
(* The model states what must hold: the ratio step/size is clamped to 0..1 (Share), so the   *)
(* percentage is within 0..100 and the bar has 0..total full cells for every step and size.  *)
(* Until commit 46f99a5 the Go code had no clamp (strings.Repeat panic / percentage > 100 /  *)
(* unbounded colour loop for fileStep > fileSize > 0 or fileSize < 0).  outp.cls names that  *)
(* range ("step>size" / "size<0" / "step<0"): there the binding judges the C20 conditions on *)
(* what the code wrote, not equality with the model's clamped line.                          *)
(* Strings are run-length encoded (<<code, repeat>>) so that the ladder costs O(runs).       *)
EXTENDS ProgressNum, FiniteSets, TLC

CONSTANTS ColsSet,      \* terminal widths                      (exhaustive configs only)
          PaneSet,      \* tmux pane widths, 0 = not in a pane
          CountSet,     \* file counts
          NameKinds,    \* families of names, see NameOf
          NameWidths,   \* display widths of the names
          HeavyKinds, HeavyWidths,   \* same for the families that do not run-length compress
          TSet, SSet, ESet,   \* lengths of the total / speed / ETA texts
          SizeKinds, StepKinds, PreKinds,   \* symbolic values, see ValOf
          DtSet,        \* ms since the last drawn update
          Acts,         \* enabled calls
          MaxCalls      \* bound on the number of calls

VARIABLES cols, pane, count, idx, name, pre, size, step, first, hasLast, pausing, lastPct, outp,
          fin,          \* onDone was called for the current file (environment bookkeeping only)
          calls

pvars == <<cols, pane, count, idx, name, pre, size, step, first, hasLast, pausing, lastPct, outp, fin>>
vars == <<pvars, calls>>

BarMin == 24          \* const barMinLength
BarShow == 12         \* getProgressBar: length < 12 => no bar

-----------------------------------------------------------------------------
(* strings: sequences of runs <<c, n>> = rune code c repeated n >= 1 times; adjacent runs    *)
(* carry different codes (canonical form, kept by Cat)                                       *)
W(c) == c % 4
J(c) == (c \div 4) % 2
S(c) == (c \div 8) % 2
DOT == 17
Dots == <<<<DOT, 3>>>>
R(c, n) == IF n > 0 THEN <<<<c, n>>>> ELSE <<>>

Cat(a, b) ==
    IF a = <<>> THEN b
    ELSE IF b = <<>> THEN a
    ELSE IF a[Len(a)][1] = b[1][1]
         THEN SubSeq(a, 1, Len(a) - 1) \o <<<<b[1][1], a[Len(a)][2] + b[1][2]>>>> \o Tail(b)
         ELSE a \o b

RECURSIVE RuneCountFrom(_, _)
RuneCountFrom(rs, i) == IF i > Len(rs) THEN 0 ELSE rs[i][2] + RuneCountFrom(rs, i + 1)
RuneCount(rs) == RuneCountFrom(rs, 1)

(* the first k runes *)
RECURSIVE Take(_, _)
Take(rs, k) ==
    IF k <= 0 \/ rs = <<>> THEN <<>>
    ELSE IF rs[1][2] >= k THEN <<<<rs[1][1], k>>>>
    ELSE <<rs[1]>> \o Take(Tail(rs), k - rs[1][2])

(* runewidth.StringWidth: every grapheme cluster counts the width of its first rune that has *)
(* a non-zero width.  A run of j = 0 runes is n clusters; a run of j = 1 runes continues the  *)
(* cluster before it (the first rune of a string starts a cluster whatever its flag).        *)
RECURSIVE SWFrom(_, _, _, _)
SWFrom(rs, i, acc, has) ==
    IF i > Len(rs) THEN acc
    ELSE LET c == rs[i][1]
             n == rs[i][2] IN
         IF J(c) = 0 THEN SWFrom(rs, i + 1, acc + n * W(c), W(c) > 0)
         ELSE IF i = 1 THEN SWFrom(rs, i + 1, acc + W(c), W(c) > 0)
         ELSE IF ~has /\ W(c) > 0 THEN SWFrom(rs, i + 1, acc + W(c), TRUE)
         ELSE SWFrom(rs, i + 1, acc, has)
SW(rs) == SWFrom(rs, 1, 0, FALSE)

(* getEllipsisString(str, max): runes are taken while the sum of their RuneWidths stays      *)
(* within max-3, then "..." ; the returned length is that sum + 3                            *)
RECURSIVE EllScan(_, _, _, _)
EllScan(rs, i, acc, m) ==
    IF i > Len(rs) THEN [i |-> i, part |-> 0, len |-> acc]
    ELSE LET w == W(rs[i][1])
             n == rs[i][2] IN
         IF w = 0 \/ acc + n * w <= m THEN EllScan(rs, i + 1, acc + n * w, m)
         ELSE LET fit == (m - acc) \div w IN [i |-> i, part |-> fit, len |-> acc + fit * w]
Ellipsis(lf, max) ==
    LET r == EllScan(lf.runes, 1, 0, max - 3)
        kept == Cat(SubSeq(lf.runes, 1, r.i - 1),
                    IF r.i <= Len(lf.runes) THEN R(lf.runes[r.i][1], r.part) ELSE <<>>)
    IN  [runes |-> Cat(kept, Dots), len |-> r.len + 3]

(* number of leading runs of unicode.IsSpace runes (whole runs: a run is uniform) *)
RECURSIVE LeadSpaceRuns(_, _)
LeadSpaceRuns(rs, i) == IF i > Len(rs) \/ S(rs[i][1]) = 0 THEN i - 1 ELSE LeadSpaceRuns(rs, i + 1)

RECURSIVE Digits(_)
Digits(n) == IF n < 10 THEN 1 ELSE 1 + Digits(n \div 10)

(* left = fileName, or fmt.Sprintf("(%d/%d) %s", fileIdx, fileCount, fileName) *)
Prefix(i, n) == <<<<1, Digits(i) + Digits(n) + 3>>, <<9, 1>>>>
FullLeft(n, i, nm) == IF n > 1 THEN Cat(Prefix(i, n), nm) ELSE nm

-----------------------------------------------------------------------------
(* getProgressText: the ladder.  L = runes of left, p = len(percentage), lens = other lengths *)
RightLen(nf, p, lens) ==
    CASE nf = 4 -> 1 + p + 3 + lens.t + 3 + lens.s + 3 + lens.e     \* " %s | %s | %s | %s"
      [] nf = 3 -> 1 + p + 3 + lens.s + 3 + lens.e                  \* " %s | %s | %s" (no total)
      [] nf = 2 -> 1 + p + 3 + lens.e                               \* " %s | %s"      (no speed)
      [] nf = 1 -> 1 + p                                            \* " %s"           (no ETA)

Ladder(c, L, p, lens) ==
    LET Ok(lf, nf) == c - lf.len - RightLen(nf, p, lens) >= BarMin
        Cut(lf, max) == IF lf.len > max THEN Ellipsis(lf, max) ELSE lf
        l0 == [runes |-> L, len |-> SW(L)]
    IN  IF Ok(l0, 4) THEN [rung |-> 1, lf |-> l0, nf |-> 4] ELSE
        LET l50 == Cut(l0, 50) IN
        IF Ok(l50, 4) THEN [rung |-> 2, lf |-> l50, nf |-> 4] ELSE
        LET l40 == Cut(l50, 40) IN
        IF Ok(l40, 4) THEN [rung |-> 3, lf |-> l40, nf |-> 4] ELSE
        IF Ok(l40, 3) THEN [rung |-> 4, lf |-> l40, nf |-> 3] ELSE
        LET l30 == Cut(l40, 30) IN
        IF Ok(l30, 3) THEN [rung |-> 5, lf |-> l30, nf |-> 3] ELSE
        IF Ok(l30, 2) THEN [rung |-> 6, lf |-> l30, nf |-> 2] ELSE
        IF Ok(l30, 1) THEN [rung |-> 7, lf |-> l30, nf |-> 1] ELSE
        LET l20 == Cut(l30, 20) IN
        IF Ok(l20, 1) THEN [rung |-> 8, lf |-> l20, nf |-> 1] ELSE
        [rung |-> 9, lf |-> [runes |-> <<>>, len |-> 0], nf |-> 1]

(* percentage: "100%" for size 0, else round(step*100/size) with the ratio clamped *)
PctOf(st, sz) == Share(100, st, sz)

ClassOf(st, sz) ==
    IF sz.s < 0 THEN "size<0"
    ELSE IF sz.s > 0 /\ Cmp(st, sz) > 0 THEN "step>size"
    ELSE IF st.s < 0 THEN "step<0"
    ELSE "ok"

NoOut(res) == [res |-> res, cols |-> 0, rung |-> 0, nf |-> 0, k |-> 0, match |-> "", bar |-> FALSE,
               total |-> 0, full |-> 0, w |-> 0, pct |-> 0, pl |-> 0, pfx |-> "", pn |-> 0,
               prev |-> -1, cls |-> "", shown |-> <<>>, orig |-> <<>>]

(* getProgressText after the ladder + getProgressBar + strings.TrimSpace, and what           *)
(* showProgress puts in front (nothing on the first write, CSI <columns> D in a tmux pane,   *)
(* carriage return otherwise)                                                                *)
Layout(c, pn, isFirst, n, i, nm, st, sz, lens, prevPct) ==
    LET L     == FullLeft(n, i, nm)
        pct   == PctOf(st, sz)
        p     == Digits(pct) + 1
        lad   == Ladder(c, L, p, lens)
        rl    == RightLen(lad.nf, p, lens)
        sep   == lad.lf.len > 0                       \* if leftLength > 0 { barLength -= leftLength+1; left += " " }
        blen  == c - rl - (IF sep THEN lad.lf.len + 1 ELSE 0)
        bar   == blen >= BarShow
        total == IF bar THEN blen - 2 ELSE 0
        full  == IF bar THEN Share(total, st, sz) ELSE 0
        shown == lad.lf.runes
        t0    == LeadSpaceRuns(shown, 1)
        allsp == t0 = Len(shown)
        body  == SubSeq(shown, t0 + 1, Len(shown))
        lw    == IF allsp THEN 0 ELSE SW(body) + (IF sep THEN 1 ELSE 0)
        width == lw + (IF bar THEN blen ELSE 0) + rl - (IF allsp /\ ~bar THEN 1 ELSE 0)
    IN  [res |-> "rendered", cols |-> c, rung |-> lad.rung, nf |-> lad.nf,
         k |-> IF shown = L THEN RuneCount(L) ELSE IF shown = <<>> THEN 0 ELSE RuneCount(shown) - 3,
         match |-> IF body = <<>> THEN "drop" ELSE IF shown = L THEN "full" ELSE "ell",
         bar |-> bar, total |-> total, full |-> full, w |-> width, pct |-> pct, pl |-> p,
         pfx |-> IF isFirst THEN "none" ELSE IF pn > 0 THEN "csi" ELSE "cr",
         pn |-> IF ~isFirst /\ pn > 0 THEN c ELSE 0,
         prev |-> prevPct, cls |-> ClassOf(st, sz), shown |-> shown, orig |-> L]

-----------------------------------------------------------------------------
(* the calls.  Environment assumption of the exhaustive configurations and of the drivers:    *)
(* onDone is the last progress call for a file (transfer.go: send/recvFileMD5), no onStep    *)
(* follows it before the next onName.                                                        *)

NewBar(c, pn) ==
    /\ cols' = (IF pn > 1 THEN pn - 1 ELSE c)          \* -1 to avoid messing up the tmux pane
    /\ pane' = pn
    /\ count' = 0 /\ idx' = 0 /\ name' = <<>>
    /\ pre' = Zero /\ size' = Zero /\ step' = Zero
    /\ first' = TRUE /\ hasLast' = FALSE /\ pausing' = FALSE /\ lastPct' = -1
    /\ fin' = FALSE
    /\ outp' = NoOut("new")

Resize(c) ==
    /\ cols' = c
    /\ pane' = (IF pane > 0 THEN 0 ELSE pane)          \* resizing tmux panes is not supported
    /\ outp' = NoOut("resize")
    /\ UNCHANGED <<count, idx, name, pre, size, step, first, hasLast, pausing, lastPct, fin>>

OnNum(n) ==
    /\ count' = n
    /\ outp' = NoOut("num")
    /\ UNCHANGED <<cols, pane, idx, name, pre, size, step, first, hasLast, pausing, lastPct, fin>>

OnName(nm) ==
    /\ name' = nm /\ idx' = idx + 1
    /\ pre' = Zero /\ step' = FromInt(-1)
    /\ lastPct' = -1 /\ fin' = FALSE
    /\ outp' = NoOut("name")
    /\ UNCHANGED <<cols, pane, count, size, first, hasLast, pausing>>

OnSize(v) ==
    /\ size' = Add(pre, v)
    /\ lastPct' = (IF size' = size THEN lastPct ELSE -1)    \* monotonicity is per file *and* size
    /\ outp' = NoOut("size")
    /\ UNCHANGED <<cols, pane, count, idx, name, pre, step, first, hasLast, pausing, fin>>

SetPreSize(v) ==
    /\ pre' = v
    /\ outp' = NoOut("presize")
    /\ UNCHANGED <<cols, pane, count, idx, name, size, step, first, hasLast, pausing, lastPct, fin>>

SetPause(b) ==
    /\ pausing' = b
    /\ outp' = NoOut("pause")
    /\ UNCHANGED <<cols, pane, count, idx, name, pre, size, step, first, hasLast, lastPct, fin>>

(* showProgress with fileStep = st.  lastUpdateTime = nil is hasLast = FALSE. *)
Show(st, had, dt, lens) ==
    IF had /\ dt < 200
    THEN /\ outp' = NoOut("throttled")
         /\ hasLast' = had
         /\ UNCHANGED <<first, lastPct>>
    ELSE /\ outp' = Layout(cols, pane, first, count, idx, name, st, size, lens, lastPct)
         /\ hasLast' = TRUE
         /\ first' = FALSE
         /\ lastPct' = outp'.pct

OnStep(v, dt, lens) ==
    LET st == Add(v, pre) IN
    /\ UNCHANGED <<cols, pane, count, idx, name, pre, size, pausing, fin>>
    /\ IF Cmp(st, step) <= 0
       THEN /\ outp' = NoOut("ignored")                 \* steps that do not advance are ignored
            /\ UNCHANGED <<step, first, hasLast, lastPct>>
       ELSE /\ step' = st
            /\ IF pausing
               THEN /\ outp' = NoOut("paused")
                    /\ UNCHANGED <<first, hasLast, lastPct>>
               ELSE Show(st, hasLast, dt, lens)

OnDone(dt, lens) ==
    /\ UNCHANGED <<cols, pane, count, idx, name, pre, size, pausing>>
    /\ fin' = TRUE
    /\ IF size = Zero
       THEN /\ outp' = NoOut("noop")
            /\ UNCHANGED <<step, first, hasLast, lastPct>>
       ELSE /\ step' = size
            /\ Show(size, FALSE, dt, lens)            \* p.lastUpdateTime = nil

-----------------------------------------------------------------------------
(* exhaustive configurations: value sets built from the cfg's integer / string constants *)

RECURSIVE RepSeq(_, _)
RepSeq(xs, n) == IF n <= 0 THEN <<>> ELSE xs \o RepSeq(xs, n - 1)

(* a name of display width n (StringWidth) of each family *)
NameOf(kind, n) ==
    CASE kind = "ascii" -> R(1, n)
      [] kind = "cjk"   -> Cat(R(2, n \div 2), R(1, n % 2))                      \* double width
      [] kind = "jkc"   -> Cat(R(1, n % 2), R(2, n \div 2))
      [] kind = "mix"   -> Cat(RepSeq(<<<<1, 1>>, <<2, 1>>>>, n \div 3), R(1, n % 3))   \* a中a中..
      [] kind = "comb"  -> RepSeq(<<<<1, 1>>, <<4, 1>>>>, n)                      \* e + U+0301 ...
      [] kind = "zwj"   -> Cat(RepSeq(<<<<2, 1>>, <<4, 1>>, <<6, 1>>>>, n \div 2), R(1, n % 2))  \* emoji ZWJ emoji: one cluster of width 2, rune widths 4
      [] kind = "ctl"   -> Cat(Cat(<<<<8, 1>>>>, R(1, n \div 2)), Cat(<<<<0, 1>>>>, R(1, n - n \div 2)))   \* TAB .. ESC ..
      [] kind = "sp"    -> IF n = 0 THEN <<>> ELSE Cat(<<<<9, 1>>>>, R(1, n - 1))  \* leading blank

Names == {NameOf(k, n) : k \in NameKinds, n \in NameWidths} \cup {NameOf(k, n) : k \in HeavyKinds, n \in HeavyWidths}
LensSet == [t : TSet, s : SSet, e : ESet]

ValOf(kind, sz) ==
    CASE kind = "m1"   -> FromInt(-1)
      [] kind = "0"    -> Zero
      [] kind = "1"    -> FromInt(1)
      [] kind = "2"    -> FromInt(2)
      [] kind = "3"    -> FromInt(3)
      [] kind = "7"    -> FromInt(7)
      [] kind = "100"  -> FromInt(100)
      [] kind = "199"  -> FromInt(199)
      [] kind = "200"  -> FromInt(200)
      [] kind = "1000" -> FromInt(1000)
      [] kind = "n5"   -> FromInt(-5)
      [] kind = "p62"  -> Pow62
      [] kind = "sz-1" -> Add(sz, FromInt(-1))
      [] kind = "sz"   -> sz
      [] kind = "sz+1" -> Add(sz, FromInt(1))

Init ==
    /\ pane \in PaneSet
    /\ \E c \in ColsSet : cols = (IF pane > 1 THEN pane - 1 ELSE c)
    /\ count \in CountSet /\ idx = 1 /\ name \in Names
    /\ pre = Zero /\ size \in {ValOf(k, Zero) : k \in SizeKinds} /\ step = FromInt(-1)
    /\ first = TRUE /\ hasLast = FALSE /\ pausing = FALSE /\ lastPct = -1
    /\ outp = NoOut("name") /\ fin = FALSE
    /\ calls = 0

Bound == calls < MaxCalls /\ calls' = calls + 1

NStep   == Bound /\ "step" \in Acts /\ ~fin /\ \E k \in StepKinds, dt \in DtSet, lens \in LensSet : OnStep(ValOf(k, size), dt, lens)
NDone   == Bound /\ "done" \in Acts /\ \E dt \in DtSet, lens \in LensSet : OnDone(dt, lens)
NSize   == Bound /\ "size" \in Acts /\ \E k \in SizeKinds : OnSize(ValOf(k, Zero))
NPre    == Bound /\ "pre" \in Acts /\ \E k \in PreKinds : SetPreSize(ValOf(k, size))
NName   == Bound /\ "name" \in Acts /\ \E nm \in Names : OnName(nm)
NResize == Bound /\ "resize" \in Acts /\ \E c \in ColsSet : Resize(c)
NPause  == Bound /\ "pause" \in Acts /\ \E b \in BOOLEAN : SetPause(b)

Next == NStep \/ NDone \/ NSize \/ NPre \/ NName \/ NResize \/ NPause

Spec == Init /\ [][Next]_vars

-----------------------------------------------------------------------------
(* Properties (C20), on every line the model writes *)

Rendered == outp.res = "rendered"

(* the line never exceeds the width (terminal, or tmux pane - 1) once there are 5 columns *)
Fits == (Rendered /\ outp.cols >= 5) => outp.w <= outp.cols

PctRange == Rendered => (outp.pct >= 0 /\ outp.pct <= 100 /\ outp.pl = Digits(outp.pct) + 1)

(* within a file (and an unchanged size) the percentage never decreases *)
PctMonotone == Rendered => outp.prev <= outp.pct

(* the condition under which the renderer cannot fail *)
BarCellsInRange == (Rendered /\ outp.bar) => (outp.full >= 0 /\ outp.full <= outp.total /\ outp.total >= BarShow - 2)

(* fields are dropped and the name shortened: what is shown of left is left itself, or a     *)
(* prefix of it followed by "...", or nothing                                                *)
NameOnlyShortened ==
    Rendered => \/ outp.shown = outp.orig
                \/ outp.shown = <<>>
                \/ /\ outp.k >= 0 /\ outp.k < RuneCount(outp.orig)
                   /\ outp.shown = Cat(Take(outp.orig, outp.k), Dots)

(* a name is only shown together with a bar of at least BarMin-1 cells *)
NameImpliesBar == (Rendered /\ outp.shown # <<>> /\ SW(outp.shown) > 0) => outp.bar

TypeOK ==
    /\ cols \in Int /\ pane \in Int /\ idx \in Nat
    /\ first \in BOOLEAN /\ hasLast \in BOOLEAN /\ pausing \in BOOLEAN
    /\ lastPct \in -1..100

=============================================================================
