SPECIFICATION TSpec
CONSTANTS
  B = 3
  MaxBlocks = 4
  Protocols = {2, 3, 4}
  AllPatterns = FALSE
  StepCheck = TRUE
  AsCoded = FALSE
INVARIANTS ObsFinalEqualsSrc ObsTailCut ObsOthersUntouched MatchIsProven SkippedNeverExceedsProven KeptOnlyProven NoFailure
CONSTRAINT HW
POSTCONDITION Accepted
CHECK_DEADLOCK FALSE
