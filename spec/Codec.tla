------------------------------- MODULE Codec -------------------------------
(* trzsz/escape.go + the escapeReader / escapeWriter of trzsz/pipeline.go + the v1 recvData  *)
(* use of unescapeData (trzsz/transfer.go).  Binary-mode escape coding (C04).                *)
(*                                                                                           *)
(* A table is a set of pairs <<byte, code>>: `byte` travels as <<Leader, code>>.            *)
(* One action per call / loop turn of the Go code:                                           *)
(*   TableFromJSON(ann, parsed)  server: getEscapeChars -> unicode.MarshalJSON -> CFG line;  *)
(*                               client: escapeTable.UnmarshalJSON -> escapeCharsToTable     *)
(*   WriterWrite(p, out)         escapeWriter.Write(p) / escapeData(p): out goes downstream  *)
(*   WriterClose                 the escaped stream is complete                              *)
(*   Inject(w)                   (instead of the writer) an arbitrary byte stream arrives    *)
(*   ReadStart(c)                escapeReader.Read(p), len(p) = c                            *)
(*   ReadDecode                  loop turn with len(e.buffer) > 0: unescapeData(e.buffer,p)  *)
(*   ReadFill(c)                 loop turn's e.reader.Read(e.buffer[idx:]) returning c       *)
(*   ReadEOF                     ... returning io.EOF                                        *)
(*   UnescapeWhole               recvData (protocol 1): unescapeData(frame, table, nil) and  *)
(*                               the "has bytes remaining" rule                              *)
(* UnescapeCall mirrors unescapeData's for-loop (one recursion per loop turn); RefDecode is  *)
(* the reference decoder on a whole stream, independent of chunking and capacities.          *)
EXTENDS Integers, Sequences, SequencesExt, FiniteSets, TLC

CONSTANTS TableUniverse,  \* bytes from which the arbitrary well-formed tables are built
          WithBuiltin,    \* BOOLEAN: also the two tables of getEscapeChars
          Bytes,          \* payload alphabet
          MaxLen,         \* bound on Len(data)
          MaxSeg,         \* bound on the size of one escapeWriter.Write
          Caps,           \* destination sizes len(p) used by Read (0 = nil dst, direct calls only)
          MaxRaw          \* bound on the length of an injected raw stream (0 = no Inject)

Leader == 238           \* escapeLeaderByte 0xEE

-----------------------------------------------------------------------------
(* Tables                                                                                    *)
Keys(T)      == {p[1] : p \in T}
Codes(T)     == {p[2] : p \in T}
Protected(T) == Keys(T) \ {Leader}          \* bytes the table promises to keep off the wire
Code(T, b)   == (CHOOSE p \in T : p[1] = b)[2]
HasInv(T, c) == c \in Codes(T)
Inv(T, c)    == (CHOOSE p \in T : p[2] = c)[1]

(* well-formed = functional, codes pairwise distinct, the leader itself is escaped, no code  *)
(* is a protected byte                                                                       *)
WellFormed(T) ==
    /\ \A p \in T : p[1] \in 0..255 /\ p[2] \in 0..255
    /\ \A p, q \in T : (p[1] = q[1]) <=> (p[2] = q[2])
    /\ Leader \in Keys(T)
    /\ Codes(T) \cap Protected(T) = {}

BuiltinBase == {<<238, 238>>, <<126, 49>>}                                \* trz -b
BuiltinAll  == BuiltinBase \cup                                           \* trz -b -e
    {<<2, 65>>, <<13, 66>>, <<16, 67>>, <<17, 68>>, <<19, 69>>, <<24, 70>>, <<27, 71>>, <<29, 72>>,
     <<141, 73>>, <<144, 74>>, <<145, 75>>, <<147, 76>>, <<157, 77>>}

(* what an announced table has to protect, per server mode ('~'; with -e also STX CR DLE XON *)
(* XOFF CAN ESC GS and the 8-bit forms 8D 90 91 93 9D); "custom" = any well-formed table     *)
MustProtect(m) == CASE m = "base" -> Protected(BuiltinBase)
                    [] m = "all"  -> Protected(BuiltinAll)
                    [] OTHER      -> {}

Injective(f) == \A a, b \in DOMAIN f : a # b => f[a] # f[b]
GenTables ==
    UNION { { {<<k, f[k]>> : k \in K} : f \in {g \in [K -> TableUniverse \ (K \ {Leader})] : Injective(g)} }
            : K \in {K0 \cup {Leader} : K0 \in SUBSET (TableUniverse \ {Leader})} }
Tables == GenTables \cup (IF WithBuiltin THEN {BuiltinBase, BuiltinAll} ELSE {})

-----------------------------------------------------------------------------
(* escapeData.  EscFn / InvFn: the two lookup arrays of the Go table as functions.            *)
EscFn(T) == [b \in Keys(T) |-> Code(T, b)]
InvFn(T) == [c \in Codes(T) |-> Inv(T, c)]

EscapeF(f, s) == FoldLeft(LAMBDA acc, b : IF b \in DOMAIN f THEN acc \o <<Leader, f[b]>> ELSE Append(acc, b), <<>>, s)
Escape(T, s)  == LET f == EscFn(T) IN EscapeF(f, s)

RestOf(s, i) == SubSeq(s, i + 1, Len(s))

(* Reference decoder: one byte at a time, `pend` = a leader is waiting for its code.         *)
Acc0 == [out |-> <<>>, pend |-> FALSE, bad |-> FALSE]
DecStep(g, a, b) ==
    IF a.bad THEN a
    ELSE IF a.pend
         THEN IF b \in DOMAIN g THEN [out |-> Append(a.out, g[b]), pend |-> FALSE, bad |-> FALSE]
              ELSE [a EXCEPT !.bad = TRUE]
         ELSE IF b = Leader THEN [a EXCEPT !.pend = TRUE]
              ELSE [a EXCEPT !.out = Append(@, b)]
DecodeFrom(T, a, w) == LET g == InvFn(T) IN FoldLeft(LAMBDA x, b : DecStep(g, x, b), a, w)
RefDecode(T, w)     == DecodeFrom(T, Acc0, w)

(* unescapeData(d, table, dst): g = unescapeCodes, i = loop index (0-based as in Go),        *)
(* buf = dst[:idx], n = len(dst).                                                            *)
RECURSIVE UnescLoop(_, _, _, _, _)
UnescLoop(g, d, n, i, buf) ==
    IF i >= Len(d) THEN [buf |-> buf, rem |-> <<>>, err |-> FALSE]
    ELSE IF d[i + 1] = Leader
         THEN IF i = Len(d) - 1
              THEN [buf |-> buf, rem |-> <<Leader>>, err |-> FALSE]       \* lone trailing leader is handed back
              ELSE IF d[i + 2] \notin DOMAIN g
                   THEN [buf |-> <<>>, rem |-> <<>>, err |-> TRUE]         \* "Unknown escape code"
                   ELSE LET b2 == Append(buf, g[d[i + 2]]) IN
                        IF Len(b2) = n THEN [buf |-> b2, rem |-> RestOf(d, i + 2), err |-> FALSE]
                        ELSE UnescLoop(g, d, n, i + 2, b2)
         ELSE LET b2 == Append(buf, d[i + 1]) IN
              IF Len(b2) = n THEN [buf |-> b2, rem |-> RestOf(d, i + 1), err |-> FALSE]
              ELSE UnescLoop(g, d, n, i + 1, b2)
(* dstLen = 0: dst is nil/empty, the function allocates len(d) bytes                         *)
UnescapeCall(T, d, dstLen) == LET g == InvFn(T) IN UnescLoop(g, d, IF dstLen = 0 THEN Len(d) ELSE dstLen, 0, <<>>)

-----------------------------------------------------------------------------
VARIABLES table,    \* the announced table
          phase,    \* "table" | "write" | "read"
          mode,     \* "esc": wire was produced by the escaper from data; "raw": injected
          data,     \* payload written into the escaper so far
          wire,     \* escaped stream
          fed,      \* bytes of wire the reader's source has handed out
          carry,    \* escapeReader.buffer: undecoded tail
          pc,       \* "idle" | "decode" | "fill" | "eof" | "err"
          cap,      \* len(p) of the current Read / dst of the current call
          decoded,  \* concatenation of everything returned so far
          lastN,    \* size of the result of the current / last call (0 while it is running)
          errKind   \* "none" | "unknown" | "remaining"

vars == <<table, phase, mode, data, wire, fed, carry, pc, cap, decoded, lastN, errKind>>

Init ==
    /\ table = {} /\ phase = "table" /\ mode = "esc" /\ data = <<>> /\ wire = <<>>
    /\ fed = 0 /\ carry = <<>> /\ pc = "idle" /\ cap = 0 /\ decoded = <<>> /\ lastN = 0 /\ errKind = "none"

Reset ==
    /\ table' = {} /\ phase' = "table" /\ mode' = "esc" /\ data' = <<>> /\ wire' = <<>>
    /\ fed' = 0 /\ carry' = <<>> /\ pc' = "idle" /\ cap' = 0 /\ decoded' = <<>> /\ lastN' = 0 /\ errKind' = "none"

(* The announcement survives the JSON round trip unchanged and is well-formed.               *)
TableFromJSON(ann, parsed) ==
    /\ phase = "table"
    /\ WellFormed(ann)
    /\ parsed = ann
    /\ table' = parsed /\ phase' = "write"
    /\ UNCHANGED <<mode, data, wire, fed, carry, pc, cap, decoded, lastN, errKind>>

WriterWrite(p, out) ==
    /\ phase = "write" /\ mode = "esc"
    /\ out = Escape(table, p)
    /\ data' = data \o p /\ wire' = wire \o out
    /\ UNCHANGED <<table, phase, mode, fed, carry, pc, cap, decoded, lastN, errKind>>

WriterClose ==
    /\ phase = "write"
    /\ phase' = "read"
    /\ UNCHANGED <<table, mode, data, wire, fed, carry, pc, cap, decoded, lastN, errKind>>

Inject(w) ==
    /\ phase = "write" /\ wire = <<>> /\ data = <<>>
    /\ mode' = "raw" /\ wire' = w /\ phase' = "read"
    /\ UNCHANGED <<table, data, fed, carry, pc, cap, decoded, lastN, errKind>>

ReadStart(c) ==
    /\ phase = "read" /\ pc = "idle"
    /\ cap' = c /\ lastN' = 0
    /\ pc' = IF carry # <<>> THEN "decode" ELSE "fill"
    /\ UNCHANGED <<table, phase, mode, data, wire, fed, carry, decoded, errKind>>

(* unescapeData(e.buffer, table, p) and what Read does with its result                        *)
DecodeWith(c) ==
    LET r == UnescapeCall(table, carry, c) IN
    IF r.err
    THEN /\ pc' = "err" /\ errKind' = "unknown" /\ lastN' = 0
         /\ UNCHANGED <<carry, decoded>>
    ELSE IF r.buf # <<>>
         THEN /\ carry' = r.rem /\ decoded' = decoded \o r.buf /\ lastN' = Len(r.buf)
              /\ pc' = "idle" /\ UNCHANGED errKind
         ELSE /\ carry' = r.rem /\ pc' = "fill" /\ lastN' = 0     \* nothing decodable: read more
              /\ UNCHANGED <<decoded, errKind>>

ReadDecode ==
    /\ pc = "decode"
    /\ DecodeWith(cap)
    /\ UNCHANGED <<table, phase, mode, data, wire, fed, cap>>

Fill(c) ==
    /\ c # <<>>
    /\ fed + Len(c) <= Len(wire)
    /\ c = SubSeq(wire, fed + 1, fed + Len(c))
    /\ carry' = carry \o c /\ fed' = fed + Len(c)
    /\ pc' = "decode"
    /\ UNCHANGED <<table, phase, mode, data, wire, cap, decoded, lastN, errKind>>

ReadFill(c) == pc = "fill" /\ Fill(c)

ReadEOF ==
    /\ pc = "fill" /\ fed = Len(wire)
    /\ pc' = "eof"
    /\ UNCHANGED <<table, phase, mode, data, wire, fed, carry, cap, decoded, lastN, errKind>>

UnescapeWhole ==
    /\ phase = "read" /\ pc = "idle" /\ fed = 0 /\ carry = <<>> /\ decoded = <<>>
    /\ LET r == UnescapeCall(table, wire, 0) IN
       /\ fed' = Len(wire) /\ cap' = 0
       /\ IF r.err THEN pc' = "err" /\ errKind' = "unknown" /\ UNCHANGED <<decoded, lastN>>
          ELSE IF r.rem # <<>> THEN pc' = "err" /\ errKind' = "remaining" /\ UNCHANGED <<decoded, lastN>>
          ELSE pc' = "eof" /\ decoded' = r.buf /\ lastN' = Len(r.buf) /\ UNCHANGED errKind
    /\ UNCHANGED <<table, phase, mode, data, wire, carry>>

Strs(S, n) == UNION {[1..k -> S] : k \in 1..n}

(* the choices TLC enumerates (named so that -coverage reports each of them) *)
NTable  == \E T \in Tables : TableFromJSON(T, T)
NWrite  == \E p \in Strs(Bytes, MaxSeg) :
              /\ Len(data) + Len(p) <= MaxLen /\ (\A i \in 1..Len(data) : data[i] \in Bytes)
              /\ WriterWrite(p, Escape(table, p))
NWrite1 == \E b \in 0..255 : data = <<>> /\ WriterWrite(<<b>>, Escape(table, <<b>>))   \* each of the 256 values
NInject == \E w \in Strs(Bytes, MaxRaw) : Inject(w)
NRead   == \E c \in Caps \ {0} : ReadStart(c)
NFill   == \E n \in 1..(Len(wire) - fed) : ReadFill(SubSeq(wire, fed + 1, fed + n))  \* every split point

Next == NTable \/ NWrite \/ NWrite1 \/ WriterClose \/ NInject \/ NRead \/ ReadDecode \/ NFill \/ ReadEOF
        \/ UnescapeWhole

Spec == Init /\ [][Next]_vars

-----------------------------------------------------------------------------
(* Properties (C04)                                                                          *)

TypeOK ==
    /\ phase \in {"table", "write", "read"} /\ mode \in {"esc", "raw"}
    /\ pc \in {"idle", "decode", "fill", "eof", "err"}
    /\ errKind \in {"none", "unknown", "remaining"}
    /\ fed \in 0..Len(wire)
    /\ phase # "table" => WellFormed(table)

(* Nothing the escaper emits is a protected byte of the table, whatever the payload.         *)
NoProtectedByte ==
    mode = "esc" => LET P == Protected(table) IN \A i \in 1..Len(wire) : wire[i] \notin P

(* The escaper's output does not depend on how the payload was cut into Write calls.          *)
WireIsEscape ==
    mode = "esc" => wire = Escape(table, data) /\ Len(wire) <= 2 * Len(data)

(* Nothing lost, duplicated or reordered at any point of the decoding: what has been         *)
(* returned plus what the rest of the stream decodes to is the payload.                      *)
CursorOK ==
    (phase = "read" /\ mode = "esc" /\ pc # "err") =>
        LET rest == RefDecode(table, carry \o RestOf(wire, fed)) IN
        ~rest.bad /\ ~rest.pend /\ decoded \o rest.out = data

(* A valid stream is never rejected and, once exhausted, has delivered exactly the payload,  *)
(* for every split and every capacity.                                                       *)
RoundTrip ==
    mode = "esc" => /\ pc # "err"
                    /\ pc = "eof" => decoded = data /\ carry = <<>>

(* Never more than the destination holds; a returning call delivers at least one byte.       *)
CapRespected ==
    /\ cap > 0 => lastN <= cap
    /\ (pc = "idle" /\ decoded # <<>>) => lastN >= 1

(* A tail that cannot be decoded yet is exactly one leader byte (the last byte handed out).  *)
CarryIsLoneLeader ==
    pc \in {"fill", "eof"} =>
        \/ carry = <<>>
        \/ carry = <<Leader>> /\ fed > 0 /\ wire[fed] = Leader

(* An undefined pair is an error, never a guessed byte; what was returned is always a prefix *)
(* of what the reference decoder extracts from the bytes handed out so far.                  *)
UnknownCodeRejected ==
    phase = "read" =>
        LET ref == RefDecode(table, SubSeq(wire, 1, fed)) IN
        /\ IsPrefix(decoded, ref.out)
        /\ (pc = "err" /\ errKind = "unknown") => ref.bad
        /\ (pc = "err" /\ errKind = "remaining") => (ref.pend /\ ~ref.bad)
        /\ pc = "eof" => (~ref.bad /\ decoded = ref.out)
=============================================================================
