SPECIFICATION GSpec
CONSTANTS
  CliChunks <- GCli2
  SrvChunks <- GSrv2
  Confirm = TRUE
  Recheck = TRUE
  FlushFirst = TRUE
  HoldCfg = 0
INVARIANTS Export Order NothingLost ParkOnlyWhileHandshaking JunkIsBeforeLine
CHECK_DEADLOCK FALSE
