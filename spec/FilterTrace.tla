---------------------------- MODULE FilterTrace ----------------------------
(* Trace validation for Filter: consumes the ndjson events recorded by harness/c05_filter.go *)
(* from real TrzszFilter executions (and by checks/c05.py from runs of the trzsz binary).    *)
(* Events:                                                                                    *)
(*   reset{drag,zmodem,osc52,tlog}        a fresh filter                                      *)
(*   feedOut{id,k} / feedIn{id,k}         serverOut.Read / clientIn.Read returned chunk id    *)
(*   doneOut{id,pre,body,post} / doneIn   the pump called Read again; (pre,body,post) is the  *)
(*                                        relation between the chunk and what the pump wrote  *)
(*   other{side}                          bytes written by a goroutine that is not the pump   *)
(*   stop                                 filter.StopTransferringFiles called                 *)
(*   xfer{how,ok}                         a history ended; ok = files arrived intact          *)
(*   mode{idle}                           the driver saw IsTransferringFiles()==false, the    *)
(*                                        handler goroutine gone, the server side returned    *)
(*   exit{child,wrapper,sig,outok}        process level: status of the wrapped command, of    *)
(*                                        the wrapper, and whether stdout carried every byte  *)
(* Steps of the handler, the zmodem session and the drag goroutine are not logged: they are  *)
(* silent steps.  What the pump does with a chunk is bound by equality (OutImage / InImage); *)
(* whether that was what the property demands is judged by PassThroughOut / PassThroughIn.   *)
(* Acceptance is existential over the silent steps: a recorded run is accepted iff SOME     *)
(* behaviour of Filter produces exactly these events AND (Judge) every turn in it delivered   *)
(* what the property demands.  With Judge = FALSE (diagnosis only) the same run is checked    *)
(* against the model of the code alone ("is it at least a behaviour of the modelled design"). *)
EXTENDS Filter, Json, IOUtils, TLCExt

CONSTANT Judge

TraceLog == ndJsonDeserialize(IOEnv.VERIF_TRACE)

VARIABLE l
tvars == <<vars, l>>

Ev == TraceLog[l]
More == l <= Len(TraceLog)
IsEvent(e) == More /\ Ev.e = e /\ l' = l + 1

TInit == Init /\ l = 1

TReset == IsEvent("reset") /\ Reset([drag |-> Ev.drag, zmodem |-> Ev.zmodem, osc52 |-> Ev.osc52, tlog |-> Ev.tlog])

TFeedOut == IsEvent("feedOut") /\ Ev.k \in OutKinds /\ OutRead([k |-> Ev.k, id |-> Ev.id])

TDoneOut == /\ IsEvent("doneOut")
            /\ pcOut = "scan" /\ Ev.id = curOut.id
            /\ OutImage = Img(Ev.pre, Ev.body, Ev.post)
            /\ (OutToTransfer \/ OutForward)
            /\ Judge => outOK'

TFeedIn == IsEvent("feedIn") /\ Ev.k \in InKinds /\ InRead([k |-> Ev.k, id |-> Ev.id])

TDoneIn == /\ IsEvent("doneIn")
           /\ pcIn = "send" /\ Ev.id = curIn.id
           /\ InImage = Img(Ev.pre, Ev.body, Ev.post)
           /\ InSend
           /\ Judge => inOK'

(* somebody else than a pump writes to the terminal / to the server: only a session does that *)
(* (the goroutine a pump has just started may write before the pump is back in Read)         *)
SessionStarting == \/ pcOut = "scan" /\ curOut.k \in {"trig", "zmhdr"}
                   \/ pcIn = "send" /\ curIn.k = "pathex"
TOther == IsEvent("other") /\ (~FullyIdle \/ SessionStarting) /\ UNCHANGED vars

TStop == IsEvent("stop") /\ StopAPI

(* a transfer against a cooperative server with nothing injected (the driver's "success" plan) *)
(* delivered its files: the pumps handed every byte of the session to the transfer unharmed    *)
TXfer == IsEvent("xfer") /\ (Ev.how = "success" => Ev.ok) /\ UNCHANGED vars

TMode == IsEvent("mode") /\ Ev.idle /\ ModePass /\ pcOut = "read" /\ pcIn = "read" /\ UNCHANGED vars

(* process level: observed values are taken over, ExitPassed / LastWordsDelivered judge them. *)
(* A child killed by a signal has no exit status: any non-zero wrapper status passes it on.   *)
TExit == /\ IsEvent("exit")
         /\ childExit = NoExit /\ FullyIdle
         /\ childExit' = (IF Ev.sig THEN (IF Ev.wrapper # 0 THEN Ev.wrapper ELSE 1) ELSE Ev.child)
         /\ wrapExit' = Ev.wrapper
         /\ lastWords' = Ev.outok
         /\ UNCHANGED <<opts, hvars, zs, dvars, logging, ovars, ivars, cvars>>

TSilent == /\ More /\ Ev.e \in {"doneOut", "doneIn", "other", "stop", "xfer", "mode", "feedOut", "feedIn"}
           /\ \/ HRefuse \/ HChooseFail \/ HCAS \/ (\E how \in Hows : HEnd(how)) \/ HExit \/ PromptEnd
              \/ ZStop \/ ZCleanup
              \/ DragAbort \/ DragInterrupt \/ DragCommand \/ DragReset
           /\ UNCHANGED l

TNext == TReset \/ TFeedOut \/ TDoneOut \/ TFeedIn \/ TDoneIn \/ TOther \/ TStop \/ TXfer \/ TMode \/ TExit \/ TSilent

TSpec == TInit /\ [][TNext]_tvars

(* high-water mark of consumed lines; TLCSet/TLCGet register 1, -workers 1 *)
HW == IF l > TLCGet(1) THEN TLCSet(1, l) ELSE TRUE
ASSUME TLCSet(1, 0)
Accepted == IF TLCGet(1) = Len(TraceLog) + 1 THEN TRUE
            ELSE PrintT("HW " \o ToString(TLCGet(1))) /\ FALSE
=============================================================================
