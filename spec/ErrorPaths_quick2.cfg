SPECIFICATION Spec
CONSTANTS
  Files = {1}
  Texts = {3}
  Classes = {"timeout", "panic", "remote"}
  MaxInject = 0
  MaxNoise = 1
  WithBg = TRUE
  WithDead = {"dead", "mute"}
  AsCoded = FALSE
  Mutant = "none"
INVARIANTS TypeOK ToldAtMostOnce ToldUnlessPeerKnows KindMatchesTraceback ShownIsSent OnlyCreated TermResetOnce DrainBounded
PROPERTIES Termination
CHECK_DEADLOCK FALSE
