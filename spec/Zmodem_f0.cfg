\* Expected to be violated while the code publishes the session before initialising it (F0).
SPECIFICATION Spec
CONSTANTS
  Ups = {TRUE, FALSE}
  Starts = {"ok", "nopath"}
  Vetoes = {"none", "can", "cno"}
  MaxHdr = 1
  MaxSrv = 1
  MaxHout = 1
  MaxCtrlC = 1
  MaxText = 0
  InitBeforePublish = FALSE
  ErrArms = {FALSE}
INVARIANTS NoCrash

CHECK_DEADLOCK FALSE
