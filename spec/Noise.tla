------------------------------- MODULE Noise -------------------------------
(* C16: protocol lines survive the noise tmux and the Windows console add.                   *)
(*                                                                                           *)
(* Three parts, all in terms of bytes (Int):                                                 *)
(*  1. PRODUCER = the frozen, documented noise grammar.  A stream is a sequence of *items*   *)
(*     (records [k, b, a, m, c, w, n]); `Produce(it)` is enabled only when `it` is legal in   *)
(*     the current grammar state, appends the item's bytes to `pend` and extends the         *)
(*     expected result `want`.  What the grammar does not generate is out of grammar.        *)
(*       tmux reader (trzsz/buffer.go readLine(mayHasJunk) + transfer.go recvLine):          *)
(*         let   a byte of the line `#TYPE:payload`            term   the bare LF            *)
(*         wrap  CR LF, anywhere, any multiplicity             txt    text in front of the   *)
(*         st    a status-line pair  ESC P = a ESC \ m ESC P = c ESC \  after the marker      *)
(*               marker (may contain '#', a stale marker)      (w: CR LF wraps inside it,    *)
(*               n > 0: truncated to its first n >= 3 bytes, only directly before the LF)    *)
(*       Windows reader (readLineOnWindows + recvLine), terminator '!' [LF]:                  *)
(*         csi   ESC [ params final   (colour, erase, cursor forward/position/home, the      *)
(*               soft reset ESC [ ! p)                          pad    space, BS, TAB         *)
(*         nl    CR LF or a bare LF    dup   the re-printed last character                   *)
(*         stray the character printed at the home position     bang   a stale '!' before the *)
(*         txt   letters in front of the marker                        first letter          *)
(*       The gap between two letters of a line is one of the captured forms only:            *)
(*         free    (csi | pad)*  with cursor-position sequences but no newline               *)
(*         G1      nl  (csi|pad)* pos (csi|pad)* dup                      "8\r\n\x1b[25;119H8" *)
(*         G2      pos (csi|pad)* nl (csi|pad)* pos (csi|pad)* dup   "6\x1b[30;1H..\n\x1b[29;120H6" *)
(*         G3      home stray pos nl <next letter>        "o\x08..\x1b[Hp\x1b[60;238H..\r\np"  *)
(*         G0      nl (csi | pad)*  with no cursor-position sequence: a bare wrap, then the    *)
(*                 next letter (the statement's "wraps inserted at any position")             *)
(*       i.e. a re-printed character always follows a re-positioning after a newline, a      *)
(*       newline inside a line is always followed by one of these forms, and after the       *)
(*       re-print only colour/erase/padding may precede the next letter.                     *)
(*     etx  a Ctrl-C, anywhere in either framing -- also inside an unfinished escape sequence  *)
(*          of the Windows framing (item.b = ESC, ESC [, ESC [ params): the read must fail     *)
(*          with "Interrupted".                                                                *)
(*  2. TRANSPORT: Deliver(n) hands the first n pending bytes to the reader as one chunk      *)
(*     (every chunking, including cuts inside escape sequences and between '!' and LF).      *)
(*  3. READERS, transcribed from the Go code: TmuxTurn = one turn of readLine's loop,        *)
(*     WinTurnBegin / WinByte / WinTurnEnd = one turn of readLineOnWindows' loop with one    *)
(*     action per byte and the look-behind flags; Finish applies recvLine's marker cut       *)
(*     (LastIndex of "#TYPE:", else the last '#') and stripTmuxStatusLine.                   *)
(*     Two places where the Go code deviates from what must hold are switchable by the       *)
(*     constant Quirks (empty = what must hold; the exhaustive check uses the empty set):    *)
(*       "lfpeek"     the LF after '!' is looked up at buf[b.nextIdx] (index of nextBuf      *)
(*                    applied to the sub-slice) instead of nextBuf[b.nextIdx]                *)
(*       "dupnoreset" the `continue` of the duplicate rule skips the flag resets             *)
(* Properties: Recovered, CtrlCInterrupts, Returned, FlagsReset, TypeOK.                      *)
EXTENDS Integers, Sequences, FiniteSets, TLC

CONSTANTS Modes,        \* subset of {"tmux", "win"}
          ExpType,      \* the TYPE recvLine is asked for, a sequence of bytes, e.g. <<84>>
          LineTypes,    \* TYPEs a produced line may carry (ExpType and others)
          PayBytes,     \* payload alphabet
          MaxPay,       \* bound on the payload length
          MaxLines,     \* lines per stream
          MaxNoise,     \* bound on the number of noise insertions per stream
          MaxPend,      \* bound on produced-but-undelivered bytes (chunk size bound)
          TxtSet,       \* pieces of text in front of the marker (byte sequences)
          CsiSet,       \* set of <<params, final>> for csi items
          PadBytes, NlSet, StSet,   \* pads, newline renderings, status blocks <<a, m, c, w, n>>
          WithEtx,      \* BOOLEAN: produce Ctrl-C
          Quirks        \* subset of {"lfpeek", "dupnoreset"}

LF == 10  CR == 13  ETX == 3  ESC == 27  LB == 91  BANG == 33  HASH == 35  COLON == 58
CH == 72
DCS == <<27, 80, 61>>        \* ESC P =
ST  == <<27, 92>>            \* ESC \

IsAlpha(c) == (c >= 97 /\ c <= 122) \/ (c >= 65 /\ c <= 90)       \* isVT100End
IsDigit(c) == c >= 48 /\ c <= 57
IsLetter(c) == IsAlpha(c) \/ IsDigit(c) \/ c \in {35, 58, 43, 47, 61}    \* isTrzszLetter

RestOf(s, i) == SubSeq(s, i + 1, Len(s))
Last(s) == s[Len(s)]
Marker(t) == <<HASH>> \o t \o <<COLON>>

MatchAt(s, p, i) == i + Len(p) <= Len(s) /\ \A j \in 1..Len(p) : s[i + j] = p[j]   \* 0-based offset i
SetMin(S) == CHOOSE x \in S : \A y \in S : x <= y
SetMax(S) == CHOOSE x \in S : \A y \in S : x >= y
IdxOf(s, p, from) == LET S == {i \in from..(Len(s) - Len(p)) : MatchAt(s, p, i)} IN IF S = {} THEN -1 ELSE SetMin(S)
LastIdxOf(s, p) == LET S == {i \in 0..(Len(s) - Len(p)) : MatchAt(s, p, i)} IN IF S = {} THEN -1 ELSE SetMax(S)
Contains(s, p) == IdxOf(s, p, 0) >= 0
HasByte(s, c) == \E i \in 1..Len(s) : s[i] = c

-----------------------------------------------------------------------------
(* Items and their rendering.                                                                 *)

Item(k, b) == [k |-> k, b |-> b, a |-> <<>>, m |-> <<>>, c |-> <<>>, w |-> <<>>, n |-> 0]
CsiItem(p, f) == [Item("csi", p) EXCEPT !.c = <<f>>]
StItem(a, m, c, w, n) == [k |-> "st", b |-> <<>>, a |-> a, m |-> m, c |-> c, w |-> w, n |-> n]

StBytes(it) == DCS \o it.a \o ST \o it.m \o DCS \o it.c \o ST
RECURSIVE WithWraps(_, _)
WithWraps(s, w) ==      \* CR LF inserted after the first w[j] bytes of s, w ascending
    IF w = <<>> THEN s
    ELSE LET o == Last(w) IN WithWraps(SubSeq(s, 1, o), SubSeq(w, 1, Len(w) - 1)) \o <<CR, LF>> \o RestOf(s, o)

Render(it, md) ==
    CASE it.k = "term" -> (IF md = "tmux" THEN <<LF>> ELSE <<BANG>> \o it.b)
      [] it.k = "wrap" -> <<CR, LF>>
      [] it.k = "st"   -> LET full == StBytes(it) IN
                          WithWraps(IF it.n > 0 THEN SubSeq(full, 1, it.n) ELSE full, it.w)
      [] it.k = "csi"  -> <<ESC, LB>> \o it.b \o it.c
      [] it.k = "bang" -> <<BANG>>
      [] it.k = "etx"  -> it.b \o <<ETX>>     \* b: an unfinished escape sequence the Ctrl-C falls into (Windows framing)
      [] OTHER         -> it.b          \* let txt pad nl dup stray

CsiParamOK(p) == \A i \in 1..Len(p) : IsDigit(p[i]) \/ p[i] \in {59, 63}       \* digits ; ?
IsSoft(it) == it.k = "csi" /\ it.b = <<BANG>> /\ it.c = <<112>>                \* ESC [ ! p
IsPos(it)  == it.k = "csi" /\ it.c = <<CH>> /\ it.b # <<>> /\ IsDigit(Last(it.b))
IsHome(it) == it.k = "csi" /\ it.c = <<CH>> /\ it.b = <<>>
IsPlainCsi(it) == it.k = "csi" /\ it.c # <<CH>>                                 \* colour, erase, move, soft reset
StMidOK(c) == c \in {ESC, LB, 63, 59, 32} \/ IsDigit(c) \/ (c >= 97 /\ c <= 122)
AlnumSeq(s) == \A i \in 1..Len(s) : IsAlpha(s[i]) \/ IsDigit(s[i])
Ascending(w, hi) == /\ \A i \in 1..Len(w) : w[i] >= 1 /\ w[i] < hi
                    /\ \A i \in 1..(Len(w) - 1) : w[i] < w[i + 1]

(* well-formedness of one item, whatever the grammar state (used on recorded items)          *)
WellFormed(it, md) ==
    CASE it.k = "let"   -> Len(it.b) = 1
      [] it.k = "term"  -> IF md = "tmux" THEN it.b = <<>> ELSE it.b \in {<<>>, <<LF>>}
      [] it.k = "wrap"  -> md = "tmux"
      [] it.k = "txt"   -> /\ Len(it.b) >= 1
                           /\ \A i \in 1..Len(it.b) :
                                IF md = "tmux" THEN it.b[i] \notin {LF, CR, ETX, ESC} ELSE IsLetter(it.b[i])
      [] it.k = "st"    -> /\ md = "tmux" /\ AlnumSeq(it.a) /\ AlnumSeq(it.c)
                           /\ \A i \in 1..Len(it.m) : StMidOK(it.m[i])
                           /\ LET full == Len(StBytes(it)) IN
                                /\ it.n = 0 \/ (it.n >= 3 /\ it.n < full)
                                /\ Ascending(it.w, IF it.n > 0 THEN it.n ELSE full)
      [] it.k = "csi"   -> /\ md = "win" /\ Len(it.c) = 1 /\ IsAlpha(it.c[1])
                           /\ (CsiParamOK(it.b) \/ IsSoft(it))
      [] it.k = "pad"   -> md = "win" /\ it.b \in {<<32>>, <<8>>, <<9>>}
      [] it.k = "nl"    -> md = "win" /\ it.b \in {<<CR, LF>>, <<LF>>}
      [] it.k = "dup"   -> md = "win" /\ Len(it.b) = 1
      [] it.k = "stray" -> md = "win" /\ Len(it.b) = 1 /\ IsLetter(it.b[1])
      [] it.k = "bang"  -> md = "win"
      [] it.k = "etx"   -> \/ it.b = <<>>
                           \/ /\ md = "win" /\ Len(it.b) >= 1 /\ it.b[1] = ESC
                              /\ (Len(it.b) = 1 \/ (Len(it.b) >= 2 /\ it.b[2] = LB /\ CsiParamOK(RestOf(it.b, 2))))
      [] OTHER          -> FALSE

-----------------------------------------------------------------------------
VARIABLES mode, etyp,                             \* framing of this stream, the TYPE recvLine is asked for
          ln, ph, gs, pt, ptxt, cnt, ltyp, want,  \* producer: grammar state, expectations not yet returned
          pend, pe, owed,                         \* transport: pending bytes, offsets of line ends in
                                                  \* them, line ends delivered but not yet returned
          q, rest, nidx, readBuf, pc,             \* reader: trzszBuffer (rest = nextBuf[nextIdx:],
                                                  \* nidx = nextIdx, tracked only for the lfpeek quirk)
          tb, ti, hadNl,                          \* reader: the turn's buf (cut at '!'), byte cursor
          lastByte, skipVT100, hasNewline, mayDuplicate, hasCursorHome, preHasCursorHome,
          acc,                                    \* the byte just processed was an accepted letter
          nout, lastOut, ok, okc                  \* reads returned, the last result, verdict bits

gvars == <<ln, ph, gs, pt, ptxt, cnt, ltyp, want>>
tvars == <<pend, pe>>
bvars == <<q, rest, nidx, readBuf, pc>>
ovars == <<nout, lastOut, ok, okc, owed>>
wvars == <<tb, ti, hadNl, lastByte, skipVT100, hasNewline, mayDuplicate, hasCursorHome, preHasCursorHome, acc>>
vars  == <<mode, etyp, gvars, tvars, bvars, wvars, ovars>>

NoLine == [res |-> "ok", line |-> <<>>, typ |-> <<>>, fin |-> FALSE]

InitWith(md, et, lt) ==
    /\ mode = md /\ etyp = et
    /\ ln = 1 /\ ph = "pre" /\ gs = "free" /\ pt = FALSE /\ ptxt = <<>> /\ cnt = 0
    /\ ltyp = lt /\ want = <<[NoLine EXCEPT !.typ = lt]>>
    /\ pend = <<>> /\ pe = <<>> /\ owed = 0
    /\ q = <<>> /\ rest = <<>> /\ nidx = 0 /\ readBuf = <<>> /\ pc = "idle"
    /\ tb = <<>> /\ ti = 0 /\ hadNl = FALSE
    /\ lastByte = ESC /\ skipVT100 = FALSE /\ hasNewline = FALSE /\ mayDuplicate = FALSE
    /\ hasCursorHome = FALSE /\ preHasCursorHome = FALSE /\ acc = FALSE
    /\ nout = 0 /\ lastOut = [res |-> "none", line |-> <<>>] /\ ok = TRUE /\ okc = TRUE

Init == \E md \in Modes, lt \in LineTypes : InitWith(md, ExpType, lt)

(* the same as an action: used by the trace spec to start the next recorded case *)
ResetTo(md, et, lt) ==
    /\ mode' = md /\ etyp' = et
    /\ ln' = 1 /\ ph' = "pre" /\ gs' = "free" /\ pt' = FALSE /\ ptxt' = <<>> /\ cnt' = 0
    /\ ltyp' = lt /\ want' = <<[NoLine EXCEPT !.typ = lt]>>
    /\ pend' = <<>> /\ pe' = <<>> /\ owed' = 0
    /\ q' = <<>> /\ rest' = <<>> /\ nidx' = 0 /\ readBuf' = <<>> /\ pc' = "idle"
    /\ tb' = <<>> /\ ti' = 0 /\ hadNl' = FALSE
    /\ lastByte' = ESC /\ skipVT100' = FALSE /\ hasNewline' = FALSE /\ mayDuplicate' = FALSE
    /\ hasCursorHome' = FALSE /\ preHasCursorHome' = FALSE /\ acc' = FALSE
    /\ nout' = 0 /\ lastOut' = [res |-> "none", line |-> <<>>] /\ ok' = TRUE /\ okc' = TRUE

-----------------------------------------------------------------------------
(* PRODUCER.                                                                                  *)

CurLine == want[Len(want)].line
FullMarker == Marker(ltyp)
InMarker == Len(CurLine) < Len(FullMarker)
PayLen == Len(CurLine) - Len(FullMarker)

(* 1 when the item is an insertion of its own, 0 when it is the mandatory continuation of a  *)
(* gap form already counted                                                                  *)
Cost(it) ==
    IF \/ it.k \in {"let", "term", "dup", "stray", "etx"}
       \/ (IsPos(it) /\ gs \in {"nld", "posnl", "strayed"})
       \/ (it.k = "nl" /\ gs = "straypos")
    THEN 0 ELSE 1

(* next gap state of the Windows grammar for a noise item inside a line, "-" = not allowed    *)
WinGap(it) ==
    CASE it.k = "pad" \/ IsPlainCsi(it) -> gs
      [] IsPos(it)  -> (CASE gs \in {"free", "posd"} -> "posd"
                          [] gs \in {"nld", "posnl"} -> "due"
                          [] gs = "strayed" -> "straypos"
                          [] OTHER -> "-")
      [] IsHome(it) -> (IF gs = "free" THEN "homed" ELSE "-")
      [] it.k = "nl" -> (CASE gs = "free" -> "nld"
                           [] gs = "posd" -> "posnl"
                           [] gs = "straypos" -> "straynl"
                           [] OTHER -> "-")
      [] it.k = "dup" -> (IF gs = "due" /\ it.b = <<Last(CurLine)>> THEN "closed" ELSE "-")
      [] it.k = "stray" -> (IF gs = "homed" THEN "strayed" ELSE "-")
      [] OTHER -> "-"

Emit(it) ==
    /\ pend' = pend \o Render(it, mode)
    /\ cnt' = cnt + Cost(it)

(* a byte of the line itself: the next marker byte, then payload bytes                        *)
ProduceLet(it) ==
    /\ it.k = "let" /\ ph \in {"pre", "line"}
    /\ IF InMarker THEN it.b = <<FullMarker[Len(CurLine) + 1]>>
                   ELSE it.b[1] \in PayBytes /\ PayLen < MaxPay
    /\ (mode = "win" => gs \in {"free", "posd", "closed", "straynl", "nld"})   \* "nld": a bare wrap (CR LF / LF with no re-positioning in this gap)
    /\ Emit(it)
    /\ want' = [want EXCEPT ![Len(want)].line = @ \o it.b]
    /\ ph' = "line" /\ gs' = "free"
    /\ UNCHANGED <<ln, pt, ptxt, ltyp, pe>>

ProduceTerm(it, nt) ==       \* nt: TYPE of the next line
    /\ it.k = "term" /\ ph \in {"line", "tail"} /\ ~InMarker
    /\ (mode = "win" => gs \in {"free", "posd", "closed"})
    /\ Emit(it)
    /\ pe' = Append(pe, Len(pend) + 1)
    /\ IF ln < MaxLines
       THEN /\ ltyp' = nt /\ ln' = ln + 1 /\ ph' = "pre"
            /\ want' = Append([want EXCEPT ![Len(want)].fin = TRUE], [NoLine EXCEPT !.typ = nt])
       ELSE /\ ph' = "done" /\ want' = [want EXCEPT ![Len(want)].fin = TRUE] /\ UNCHANGED <<ln, ltyp>>
    /\ gs' = "free" /\ pt' = FALSE /\ ptxt' = <<>>

ProduceEtx(it) ==
    /\ it.k = "etx" /\ WithEtx /\ ph \in {"pre", "line", "tail"} /\ WellFormed(it, mode)
    /\ Emit(it)
    /\ pe' = Append(pe, Len(pend) + Len(it.b) + 1)      \* the Ctrl-C itself completes the unit
    /\ want' = [want EXCEPT ![Len(want)].res = "int", ![Len(want)].fin = TRUE]
    /\ ph' = "dead"
    /\ UNCHANGED <<ln, gs, pt, ptxt, ltyp>>

(* text in front of the marker; a stale marker of the expected type is only documented in    *)
(* front of a line of that type (that is what LastIndex is for)                               *)
ProduceTxt(it) ==
    /\ it.k = "txt" /\ ph = "pre" /\ cnt < MaxNoise
    /\ (ltyp # etyp => ~Contains(ptxt \o it.b, Marker(etyp)))
    /\ Emit(it)
    /\ pt' = TRUE /\ ptxt' = ptxt \o it.b
    /\ UNCHANGED <<ln, ph, gs, ltyp, want, pe>>

ProduceTmuxNoise(it) ==
    /\ mode = "tmux" /\ cnt < MaxNoise
    /\ \/ it.k = "wrap" /\ ph \in {"pre", "line", "tail"} /\ UNCHANGED ph
       \/ it.k = "st" /\ it.n = 0 /\ ph = "line" /\ ~InMarker /\ UNCHANGED ph
       \/ it.k = "st" /\ it.n > 0 /\ ph = "line" /\ ~InMarker /\ ph' = "tail"
    /\ Emit(it)
    /\ UNCHANGED <<ln, gs, pt, ptxt, ltyp, want, pe>>

ProduceWinNoise(it) ==
    /\ mode = "win" /\ it.k \in {"csi", "pad", "nl", "dup", "stray", "bang"}
    /\ cnt + Cost(it) <= MaxNoise
    /\ IF ph = "pre"
       THEN /\ IF pt THEN it.k = "pad" \/ IsPlainCsi(it)             \* after text: harmless noise only
                     ELSE it.k \in {"csi", "pad", "nl", "bang"}      \* before the first letter: anything
            /\ UNCHANGED gs
       ELSE /\ ph = "line" /\ WinGap(it) # "-" /\ gs' = WinGap(it)
    /\ Emit(it)
    /\ UNCHANGED <<ln, ph, pt, ptxt, ltyp, want, pe>>

Produce(it, nt) ==
    /\ WellFormed(it, mode)
    /\ \/ ProduceLet(it) \/ ProduceTerm(it, nt) \/ ProduceEtx(it) \/ ProduceTxt(it)
       \/ ProduceTmuxNoise(it) \/ ProduceWinNoise(it)
    /\ UNCHANGED <<mode, etyp, bvars, wvars, nout, lastOut, ok, okc, owed>>

-----------------------------------------------------------------------------
(* TRANSPORT: addBuffer of the first n pending bytes.                                         *)
Deliver(n) ==
    /\ n \in 1..Len(pend)
    /\ q' = Append(q, SubSeq(pend, 1, n))
    /\ pend' = RestOf(pend, n)
    /\ LET k == Cardinality({j \in 1..Len(pe) : pe[j] <= n}) IN
         /\ owed' = owed + k
         /\ pe' = [j \in 1..(Len(pe) - k) |-> pe[j + k] - n]
    /\ UNCHANGED <<mode, etyp, gvars, rest, nidx, readBuf, pc, wvars, nout, lastOut, ok, okc>>

-----------------------------------------------------------------------------
(* READERS.                                                                                   *)

(* transfer.go stripTmuxStatusLine *)
RECURSIVE Strip(_)
Strip(buf) ==
    LET b == IdxOf(buf, DCS, 0) IN
    IF b < 0 THEN buf
    ELSE LET m == IdxOf(buf, DCS, b + 3) IN
         IF m < 0 THEN SubSeq(buf, 1, b)
         ELSE LET e == IdxOf(buf, ST, m + 3) IN
              IF e < 0 THEN SubSeq(buf, 1, b)
              ELSE Strip(SubSeq(buf, 1, b) \o RestOf(buf, e + 2))

(* transfer.go recvLine: LastIndex("#"+type+":"), else the last '#' if not at index 0 *)
MarkerCut(line) ==
    LET i == LastIdxOf(line, Marker(etyp)) IN
    IF i >= 0 THEN RestOf(line, i)
    ELSE LET j == LastIdxOf(line, <<HASH>>) IN IF j > 0 THEN RestOf(line, j) ELSE line

RecvLine(line) == IF mode = "tmux" THEN Strip(MarkerCut(line)) ELSE MarkerCut(line)

(* transfer.go recvCheck on a returned line: <<type, payload>> or <<"colon">> *)
CheckOf(line) ==
    LET S == {i \in 1..Len(line) : line[i] = COLON} IN
    IF S = {} \/ SetMin(S) < 2 THEN [st |-> "colon", typ |-> <<>>, buf |-> <<>>]
    ELSE LET i == SetMin(S) IN [st |-> "ok", typ |-> SubSeq(line, 2, i - 1), buf |-> RestOf(line, i)]

Reading == pc \in {"wait", "bytes"}
Blocked == pc = "wait" /\ rest = <<>> /\ q = <<>>

(* readLine / readLineOnWindows entry: readBuf.Reset(), the flags are fresh locals *)
Start ==
    /\ pc = "idle" /\ nout < MaxLines
    /\ pc' = "wait" /\ readBuf' = <<>>
    /\ tb' = <<>> /\ ti' = 0 /\ hadNl' = FALSE
    /\ lastByte' = ESC /\ skipVT100' = FALSE /\ hasNewline' = FALSE /\ mayDuplicate' = FALSE
    /\ hasCursorHome' = FALSE /\ preHasCursorHome' = FALSE /\ acc' = FALSE
    /\ UNCHANGED <<mode, etyp, gvars, tvars, q, rest, nidx, ovars>>

(* return of recvLine; the verdict bits compare it with the oldest expectation *)
Finish(res, line) ==
    LET o == [res |-> res, line |-> IF res = "ok" THEN RecvLine(line) ELSE <<>>] IN
    /\ lastOut' = o /\ nout' = nout + 1 /\ owed' = owed - 1
    /\ pc' = IF res = "ok" THEN "idle" ELSE "dead"
    /\ IF want = <<>> THEN ok' = FALSE /\ okc' = okc /\ want' = want
       ELSE LET w == Head(want) IN
            /\ ok' = (ok /\ w.fin /\ o.res = w.res /\ (o.res = "ok" => o.line = w.line))
            /\ okc' = (okc /\ (w.res = "int" => o.res = "int"))
            /\ want' = IF w.fin THEN Tail(want) ELSE want
NoFinish == UNCHANGED <<nout, lastOut, ok, okc, owed, want, pc>>

(* nextBuffer(): the unread rest of the current chunk, else the next chunk of bufCh *)
HaveBuf == rest # <<>> \/ q # <<>>
FromCur == rest # <<>>
TurnBuf == IF FromCur THEN rest ELSE Head(q)
TurnBase == IF FromCur THEN nidx ELSE 0
FirstOf(buf, c) == LET S == {i \in 1..Len(buf) : buf[i] = c} IN IF S = {} THEN 0 ELSE SetMin(S)
Track(i) == IF "lfpeek" \in Quirks THEN i ELSE 0      \* nextIdx matters to the quirk only
pvars == <<ln, ph, gs, pt, ptxt, cnt, ltyp>>          \* producer state without `want`

(* one turn of readLine(mayHasJunk = true)'s loop *)
TmuxTurn ==
    /\ mode = "tmux" /\ pc = "wait" /\ HaveBuf
    /\ LET buf == TurnBuf
           i   == FirstOf(buf, LF)
           seg == IF i > 0 THEN SubSeq(buf, 1, i - 1) ELSE buf
           adv == IF i > 0 THEN i ELSE Len(buf)
           rb  == readBuf \o seg IN
       /\ q' = IF FromCur THEN q ELSE Tail(q)
       /\ rest' = RestOf(buf, adv) /\ nidx' = Track(TurnBase + adv)
       /\ IF HasByte(seg, ETX) THEN readBuf' = readBuf /\ Finish("int", <<>>)
          ELSE IF i = 0 THEN readBuf' = rb /\ NoFinish
          ELSE IF rb # <<>> /\ Last(rb) = CR
               THEN readBuf' = SubSeq(rb, 1, Len(rb) - 1) /\ NoFinish
               ELSE readBuf' = rb /\ Finish("ok", rb)
    /\ UNCHANGED <<mode, etyp, pvars, tvars, wvars>>

(* readLineOnWindows: nextBuffer(), the cut at '!' and the look-ahead for the LF behind it *)
WinTurnBegin ==
    /\ mode = "win" /\ pc = "wait" /\ HaveBuf
    /\ LET buf == TurnBuf
           i   == FirstOf(buf, BANG)
           ni  == TurnBase + i                                       \* b.nextIdx after the '!'
           lfBehind == IF "lfpeek" \in Quirks
                       THEN ni < Len(buf) /\ buf[ni + 1] = LF       \* as coded: buf[b.nextIdx]
                       ELSE i < Len(buf) /\ buf[i + 1] = LF         \* what is meant: the byte after '!'
           adv == IF i > 0 THEN i + (IF lfBehind THEN 1 ELSE 0) ELSE Len(buf)
       IN
       /\ q' = IF FromCur THEN q ELSE Tail(q)
       /\ rest' = RestOf(buf, adv) /\ nidx' = Track(TurnBase + adv)
       /\ tb' = IF i > 0 THEN SubSeq(buf, 1, i - 1) ELSE buf
       /\ hadNl' = (i > 0)
    /\ ti' = 0 /\ pc' = "bytes" /\ acc' = FALSE
    /\ UNCHANGED <<mode, etyp, gvars, tvars, readBuf, nout, lastOut, ok, okc, owed,
                   lastByte, skipVT100, hasNewline, mayDuplicate, hasCursorHome, preHasCursorHome>>

(* the body of `for i := 0; i < len(buf); i++` for one byte *)
WinByte ==
    /\ mode = "win" /\ pc = "bytes" /\ ti < Len(tb)
    /\ LET c == tb[ti + 1]
           hn == hasNewline \/ c = LF IN
       /\ ti' = ti + 1
       /\ IF c = ETX
          THEN /\ Finish("int", <<>>)
               /\ UNCHANGED <<readBuf, lastByte, skipVT100, hasNewline, mayDuplicate, hasCursorHome,
                              preHasCursorHome, acc>>
          ELSE /\ NoFinish
               /\ IF skipVT100
                  THEN /\ skipVT100' = ~IsAlpha(c)
                       /\ mayDuplicate' = (mayDuplicate \/ (c = CH /\ IsDigit(lastByte)))
                       /\ hasCursorHome' = (hasCursorHome \/ (lastByte = LB /\ c = CH))
                       /\ lastByte' = c /\ hasNewline' = hn /\ acc' = FALSE
                       /\ UNCHANGED <<readBuf, preHasCursorHome>>
                  ELSE IF c = ESC
                  THEN /\ skipVT100' = TRUE /\ lastByte' = c /\ hasNewline' = hn /\ acc' = FALSE
                       /\ UNCHANGED <<readBuf, mayDuplicate, hasCursorHome, preHasCursorHome>>
                  ELSE IF IsLetter(c)
                  THEN IF mayDuplicate /\ hn /\ readBuf # <<>> /\ (c = Last(readBuf) \/ preHasCursorHome)
                       THEN \* the duplicate rule: overwrite the last byte, `continue`
                            /\ readBuf' = [readBuf EXCEPT ![Len(readBuf)] = c]
                            /\ mayDuplicate' = FALSE /\ acc' = TRUE
                            /\ IF "dupnoreset" \in Quirks
                               THEN hasNewline' = hn /\ UNCHANGED <<hasCursorHome, preHasCursorHome>>
                               ELSE /\ hasNewline' = FALSE
                                    /\ preHasCursorHome' = hasCursorHome /\ hasCursorHome' = FALSE
                            /\ UNCHANGED <<lastByte, skipVT100>>
                       ELSE /\ readBuf' = Append(readBuf, c)
                            /\ mayDuplicate' = FALSE /\ acc' = TRUE
                            /\ preHasCursorHome' = hasCursorHome /\ hasCursorHome' = FALSE
                            /\ hasNewline' = FALSE
                            /\ UNCHANGED <<lastByte, skipVT100>>
                  ELSE /\ hasNewline' = hn /\ acc' = FALSE
                       /\ UNCHANGED <<readBuf, lastByte, skipVT100, mayDuplicate, hasCursorHome, preHasCursorHome>>
    /\ UNCHANGED <<mode, etyp, pvars, tvars, q, rest, nidx, tb, hadNl>>

(* `if newLineIdx >= 0 && b.readBuf.Len() > 0 && !skipVT100 { return }` *)
WinTurnEnd ==
    /\ mode = "win" /\ pc = "bytes" /\ ti = Len(tb)
    /\ IF hadNl /\ readBuf # <<>> /\ ~skipVT100
       THEN Finish("ok", readBuf)
       ELSE pc' = "wait" /\ UNCHANGED <<nout, lastOut, ok, okc, owed, want>>
    /\ acc' = FALSE
    /\ UNCHANGED <<mode, etyp, pvars, tvars, q, rest, nidx, readBuf, tb, ti, hadNl,
                   lastByte, skipVT100, hasNewline, mayDuplicate, hasCursorHome, preHasCursorHome>>

ReaderStep == Start \/ TmuxTurn \/ WinTurnBegin \/ WinByte \/ WinTurnEnd

-----------------------------------------------------------------------------
(* The finite item universe of the exhaustive configurations.                                 *)
Universe ==
    {Item("let", <<c>>) : c \in PayBytes \cup {HASH, COLON} \cup UNION {{t[i] : i \in 1..Len(t)} : t \in LineTypes}}
    \cup {Item("term", <<>>), Item("term", <<LF>>), Item("wrap", <<>>), Item("bang", <<>>), Item("etx", <<>>),
          Item("etx", <<ESC>>), Item("etx", <<ESC, LB>>), Item("etx", <<ESC, LB, 49, 59, 50>>)}
    \cup {Item("txt", b) : b \in TxtSet}
    \cup {StItem(s[1], s[2], s[3], s[4], s[5]) : s \in StSet}
    \cup {CsiItem(s[1], s[2]) : s \in CsiSet}
    \cup {Item("pad", <<c>>) : c \in PadBytes}
    \cup {Item("nl", b) : b \in NlSet}
    \cup {Item("dup", <<c>>) : c \in PayBytes \cup {HASH, COLON} \cup UNION {{t[i] : i \in 1..Len(t)} : t \in LineTypes}}
    \cup {Item("stray", <<c>>) : c \in PayBytes}

(* Results do not depend on when the reader runs (C03), so the schedule is canonical: the    *)
(* producer and the transport move only while the reader is parked in nextBuffer.            *)
Next ==
    \/ ReaderStep
    \/ Blocked /\ Len(pend) < MaxPend /\ \E it \in Universe :
            IF it.k = "term" /\ ln < MaxLines THEN \E nt \in LineTypes : Produce(it, nt) ELSE Produce(it, ExpType)
    \/ Blocked /\ \E n \in 1..Len(pend) : Deliver(n)

Spec == Init /\ [][Next]_vars

-----------------------------------------------------------------------------
(* Properties.                                                                                *)

TypeOK ==
    /\ ti \in 0..Len(tb) /\ owed >= 0 /\ nout \in 0..MaxLines
    /\ pc \in {"idle", "wait", "bytes", "dead"}
    /\ \A j \in 1..Len(pe) : pe[j] \in 1..Len(pend)

(* the line returned after marker cut and status strip is the line that was sent (checked    *)
(* by Finish against the oldest expectation not yet returned)                                 *)
Recovered == ok

(* a line carrying a Ctrl-C is never returned: the read fails with Interrupted               *)
CtrlCInterrupts == okc

(* a line (or a Ctrl-C) that has been delivered completely has been returned: the reader     *)
(* never sits on a complete line, never swallows a terminator or a Ctrl-C                    *)
Returned == (Blocked \/ pc = "dead") => owed = 0

(* no flag leaks: a read starts with fresh flags, and once a letter has been accepted the    *)
(* look-behind state of the gap in front of it is gone                                       *)
FlagsReset ==
    /\ (Reading /\ readBuf = <<>>) => ~preHasCursorHome
    /\ acc => ~hasNewline /\ ~mayDuplicate /\ ~hasCursorHome

-----------------------------------------------------------------------------
(* Constant definitions for the configurations (nested tuples cannot be written in a .cfg).  *)
MC_ExpType == <<84>>                               \* "T"
MC_LineTypes == {<<84>>, <<70>>}                   \* "T", "F"
MC_LineTypes1 == {<<84>>}
MC_TxtSet == {<<120>>, <<35>>, <<35, 84, 58>>}     \* x  #  #T:
MC_CsiSet == {<<<<>>, 109>>, <<<<53>>, 72>>, <<<<>>, 72>>, <<<<33>>, 112>>}   \* ESC[m  ESC[5H  ESC[H  ESC[!p
MC_Base64 == (48..57) \cup (65..90) \cup (97..122) \cup {43, 47, 61}      \* what encodeBytes / FormatInt emit
MC_NlSet == {<<13, 10>>, <<10>>}
MC_StSet == {<<<<>>, <<>>, <<>>, <<>>, 0>>, <<<<>>, <<>>, <<>>, <<>>, 3>>, <<<<>>, <<>>, <<>>, <<>>, 7>>,
             <<<<>>, <<>>, <<>>, <<2>>, 0>>}

MC_CsiSetBig == MC_CsiSet \cup {<<<<48, 49, 59, 51, 50>>, 109>>, <<<<>>, 75>>, <<<<50, 57>>, 67>>, <<<<63, 50, 53>>, 104>>,
                              <<<<50, 53, 59, 49, 49, 57>>, 72>>}       \* ESC[01;32m ESC[K ESC[29C ESC[?25h ESC[25;119H
MC_StSetBig == MC_StSet \cup {<<<<49, 115>>, <<27, 91, 63, 50, 53, 108>>, <<50, 115>>, <<>>, 0>>,
                             <<<<49, 115>>, <<27, 91, 53, 32, 113>>, <<50, 115>>, <<4, 9>>, 0>>,
                             <<<<49, 115>>, <<>>, <<50, 115>>, <<>>, 9>>}
=============================================================================
