SPECIFICATION TSpec
CONSTANTS
  CliChunks <- NoChunks
  SrvChunks <- NoChunks
  Confirm = TRUE
  Recheck = TRUE
  FlushFirst = TRUE
INVARIANTS TOrder TParkOnly TNothingLost
CONSTRAINT HW
POSTCONDITION Accepted
CHECK_DEADLOCK FALSE
