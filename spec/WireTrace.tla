----------------------------- MODULE WireTrace -----------------------------
(* Trace validation for Wire: consumes the ndjson events recorded by the Go driver c03     *)
(* (harness/c03_wire.go) from real trzszBuffer executions.  Events:                          *)
(*   reset | push{c} | begin{op,n,timed} | end{res,val,idx} | stop | quiescent               *)
(* Loop turns of the reader that do not return are silent steps (enabled only while the     *)
(* next event is an `end` or a `quiescent`).                                                 *)
EXTENDS Wire, Json, IOUtils, TLCExt

TraceLog == ndJsonDeserialize(IOEnv.VERIF_TRACE)

VARIABLE l
tvars == <<vars, l>>

Ev == TraceLog[l]
More == l <= Len(TraceLog)
IsEvent(e) == More /\ Ev.e = e /\ l' = l + 1

TInit == Init /\ l = 1

TReset == IsEvent("reset") /\ Reset

TPush == IsEvent("push") /\ Push(Ev.c)

TBegin == IsEvent("begin") /\ Start(Ev.op, Ev.n, Ev.timed)

TStop == IsEvent("stop") /\ stopTok' = TRUE
         /\ UNCHANGED <<fed, q, nextBuf, nextIdx, readBuf, pc, binN, timerArmed, timerFired, newTimer, pos, opStart, out>>

TFire == IsEvent("fire") /\ timerArmed /\ timerFired' = TRUE
         /\ UNCHANGED <<fed, q, nextBuf, nextIdx, readBuf, pc, binN, stopTok, timerArmed, newTimer, pos, opStart, out>>

TNewTimeout == IsEvent("newtimeout") /\ newTimer' = TRUE
         /\ UNCHANGED <<fed, q, nextBuf, nextIdx, readBuf, pc, binN, stopTok, timerArmed, timerFired, pos, opStart, out>>

(* a loop turn that does not return *)
TSilent == /\ More /\ Ev.e \in {"end", "quiescent"}
           /\ ReadIter /\ pc' = pc
           /\ UNCHANGED l

TEnd == /\ IsEvent("end")
        /\ ReadIter /\ pc' \in {"idle", "dead"}
        /\ LET o == out'[Len(out')] IN
             /\ o.res = Ev.res
             /\ (Ev.res = "ok" => o.val = Ev.val)
        /\ nextIdx' = Ev.idx

(* the driver saw the reader parked in nextBuffer's select with an empty channel *)
TQuiescent == /\ IsEvent("quiescent")
              /\ Reading /\ nextIdx >= Len(nextBuf) /\ q = <<>>
              /\ ~(stopTok \/ (timerArmed /\ timerFired))
              /\ UNCHANGED vars

TNext == TReset \/ TPush \/ TBegin \/ TStop \/ TFire \/ TNewTimeout \/ TSilent \/ TEnd \/ TQuiescent

TSpec == TInit /\ [][TNext]_tvars

(* high-water mark of consumed lines; TLCSet/TLCGet register 1, -workers 1 *)
HW == IF l > TLCGet(1) THEN TLCSet(1, l) ELSE TRUE
ASSUME TLCSet(1, 0)
Accepted == IF TLCGet(1) = Len(TraceLog) + 1 THEN TRUE
            ELSE PrintT("HW " \o ToString(TLCGet(1))) /\ FALSE
=============================================================================
