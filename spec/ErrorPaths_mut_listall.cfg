SPECIFICATION Spec
CONSTANTS
  Files = {1, 2}
  Texts = {3}
  Classes = {"stop", "remote"}
  MaxInject = 0
  MaxNoise = 0
  WithBg = FALSE
  WithDead = {}
  AsCoded = FALSE
  Mutant = "listall"
INVARIANTS TypeOK ToldAtMostOnce ToldUnlessPeerKnows KindMatchesTraceback ShownIsSent OnlyCreated TermResetOnce DrainBounded

CHECK_DEADLOCK FALSE
