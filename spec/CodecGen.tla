------------------------------ MODULE CodecGen ------------------------------
(* Test-case generator for Codec (model-based testing, spec -> implementation).  A history   *)
(* variable records the calls of a behaviour with the results the model expects; when the    *)
(* behaviour is complete (reader at EOF / error) it is printed as one JSON line for          *)
(* harness/c04_codec.go (driver c04_mbt):                                                    *)
(*   {tmode, table:[[byte,code]..], data, wire, steps:[                                      *)
(*      {a:"write", p, out} | {a:"inject", w} | {a:"read", cap} | {a:"fill", c} |            *)
(*      {a:"ret", res:"ok"|"eof"|"err", buf, fed} | {a:"whole", res, buf} ]}                 *)
(* The split of the escaped stream is the sequence of "fill" steps; the capacities are the   *)
(* "read" steps.                                                                             *)
EXTENDS Codec, Json, TLCExt

CONSTANT Sim     \* TRUE for -simulate: every choice is drawn at random instead of enumerated, so
                 \* that a step has a handful of successors and the behaviours are spread evenly

VARIABLES hist, done
gvars == <<vars, hist, done>>

Pick(S) == IF Sim /\ S # {} THEN {RandomElement(S)} ELSE S
PickTable == IF Sim THEN {RandomElement({BuiltinBase, BuiltinAll, RandomElement(GenTables)})} ELSE Tables
PickStr(S, n) == IF Sim /\ n > 0 THEN {[i \in 1..RandomElement(1..n) |-> RandomElement(S)]} ELSE Strs(S, n)

GInit == Init /\ hist = <<>> /\ done = FALSE

TMode(T) == IF T = BuiltinBase THEN "base" ELSE IF T = BuiltinAll THEN "all" ELSE "custom"
TSeq(T)  == SetToSortSeq({<<p[1], p[2]>> : p \in T}, LAMBDA a, b : a[1] < b[1])

Ret == [a |-> "ret", res |-> IF pc' = "eof" THEN "eof" ELSE IF pc' = "err" THEN "err" ELSE "ok",
        buf |-> IF pc' = "idle" THEN SubSeq(decoded', Len(decoded) + 1, Len(decoded')) ELSE <<>>,
        fed |-> fed']

GNext ==
    /\ ~done
    /\ \/ \E T \in PickTable : TableFromJSON(T, T) /\ UNCHANGED <<hist, done>>
       \/ \E p \in PickStr(Bytes, MaxSeg) :
             /\ Len(data) + Len(p) <= MaxLen /\ (\A i \in 1..Len(data) : data[i] \in Bytes)
             /\ WriterWrite(p, Escape(table, p))
             /\ hist' = Append(hist, [a |-> "write", p |-> p, out |-> Escape(table, p)]) /\ UNCHANGED done
       \/ \E b \in Pick((0..255) \ Bytes) : /\ data = <<>> /\ b \notin Bytes /\ WriterWrite(<<b>>, Escape(table, <<b>>))
             /\ hist' = Append(hist, [a |-> "write", p |-> <<b>>, out |-> Escape(table, <<b>>)]) /\ UNCHANGED done
       \/ WriterClose /\ UNCHANGED <<hist, done>>
       \/ \E w \in PickStr(Bytes, MaxRaw) : Inject(w) /\ hist' = Append(hist, [a |-> "inject", w |-> w]) /\ UNCHANGED done
       \/ \E c \in Pick(Caps \ {0}) : ReadStart(c) /\ hist' = Append(hist, [a |-> "read", cap |-> c]) /\ UNCHANGED done
       \/ /\ ReadDecode /\ UNCHANGED done
          /\ hist' = IF pc' = "fill" THEN hist ELSE Append(hist, Ret)
       \/ \E n \in Pick(1..(Len(wire) - fed)) :
             /\ ReadFill(SubSeq(wire, fed + 1, fed + n))
             /\ hist' = Append(hist, [a |-> "fill", c |-> SubSeq(wire, fed + 1, fed + n)]) /\ UNCHANGED done
       \/ ReadEOF /\ hist' = Append(hist, Ret) /\ UNCHANGED done
       \/ /\ UnescapeWhole /\ UNCHANGED done
          /\ hist' = Append(hist, [a |-> "whole", res |-> IF pc' = "eof" THEN "ok" ELSE errKind', buf |-> decoded'])
       \/ /\ pc \in {"eof", "err"} /\ done' = TRUE /\ UNCHANGED <<vars, hist>>

GSpec == GInit /\ [][GNext]_gvars

Export == done => PrintT("MBT " \o ToJson([tmode |-> TMode(table), table |-> TSeq(table), data |-> data,
                                            wire |-> wire, raw |-> (mode = "raw"), steps |-> hist]))
=============================================================================
