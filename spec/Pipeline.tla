------------------------------ MODULE Pipeline ------------------------------
(* Stage-level model of the sending pipeline of one file (pipeline.go sendFileDataV2): one    *)
(* process per goroutine, one action per blocking operation, bounded channels with their      *)
(* close flags, the shared cancellable context, the buffer-size-probing hand-shake between    *)
(* the encoder (sendDataWriter.Write) and the ack stage (pipelineRecvAck), and the main       *)
(* routine's select.  The peer is the environment: it acknowledges, or falls silent (then the *)
(* ack stage's read times out), the connection may fail on a write, the file read may fail.   *)
(*   stages: rd  pipelineReadData        md  pipelineCalculateMD5   enc pipelineEncodeData    *)
(*           snd pipelineSendData        ack pipelineRecvAck(+RecvFinalAck)   main            *)
EXTENDS Integers, Sequences, FiniteSets, TLC

CONSTANTS Blocks,        \* number of 32 KiB reads = number of chunks delivered (1 chunk per read)
          Cap,           \* capacity of fileData / md5Source / sendData / ack channels
          InitChunks,    \* the first InitChunks chunks are sent in the buffer-size-probing phase
          OldWaitGroup,  \* TRUE: the encoder waits on an uncancellable WaitGroup (code before the fix)
          Faults         \* subset of {"silent", "writeerr", "readerr"}

VARIABLES fileQ, fileClosed, md5Q, md5Closed, sendQ, sendClosed, ackQ, ackClosed,
          digest,        \* md5DigestChan: 0 empty, 1 holds the digest
          digClosed,
          succ,          \* ctx.succ (capacity 1): number of tokens
          cancelled, cause,
          initPhase,     \* transfer.bufInitPhase
          initTok,       \* fixed code: tokens in bufInitChan (0/1); old code: WaitGroup counter
          pc,            \* [stage -> label]
          nRead, nEnc, nSent, nAcked,
          wire,          \* DATA messages written and not yet acknowledged by the peer
          peerAcks,      \* acks the peer has written and the ack stage has not read yet
          finalAck,      \* the peer has written the final SUCC(step = size)
          silent,        \* the peer has fallen silent
          result         \* main: "none" | "ok" | "err"

vars == <<fileQ, fileClosed, md5Q, md5Closed, sendQ, sendClosed, ackQ, ackClosed, digest, digClosed, succ,
          cancelled, cause, initPhase, initTok, pc, nRead, nEnc, nSent, nAcked, wire, peerAcks, finalAck,
          silent, result>>

Stages == {"rd", "md", "enc", "snd", "ack", "main"}
Total == Blocks + 1                      \* chunks + the finish flag

Init ==
    /\ fileQ = 0 /\ fileClosed = FALSE /\ md5Q = 0 /\ md5Closed = FALSE
    /\ sendQ = 0 /\ sendClosed = FALSE /\ ackQ = 0 /\ ackClosed = FALSE
    /\ digest = 0 /\ digClosed = FALSE /\ succ = 0 /\ cancelled = FALSE /\ cause = "none"
    /\ initPhase = (InitChunks > 0) /\ initTok = 0
    /\ pc = [s \in Stages |-> CASE s = "rd" -> "file" [] s = "md" -> "loop" [] s = "enc" -> "loop"
                                [] s = "snd" -> "loop" [] s = "ack" -> "loop" [] s = "main" -> "select"]
    /\ nRead = 0 /\ nEnc = 0 /\ nSent = 0 /\ nAcked = 0 /\ wire = 0 /\ peerAcks = 0 /\ finalAck = FALSE
    /\ silent = FALSE /\ result = "none"

Cancel(c) == /\ cancelled' = TRUE /\ cause' = IF cancelled THEN cause ELSE c
Goto(s, l) == pc' = [pc EXCEPT ![s] = l]

(* ---------------- pipelineReadData ---------------- *)
RdFile ==      \* select { fileDataChan <- buf ; <-ctx.Done() }   (loop guard: step < size && ctx.Err() == nil)
    /\ pc["rd"] = "file"
    /\ IF nRead >= Blocks \/ cancelled
       THEN /\ Goto("rd", "done") /\ fileClosed' = TRUE /\ md5Closed' = TRUE
            /\ UNCHANGED <<fileQ, md5Q, sendQ, sendClosed, ackQ, ackClosed, digest, digClosed, succ, cancelled, cause,
                           initPhase, initTok, nRead, nEnc, nSent, nAcked, wire, peerAcks, finalAck, silent, result>>
       ELSE \/ /\ fileQ < Cap /\ fileQ' = fileQ + 1 /\ Goto("rd", "md5")
               /\ UNCHANGED <<fileClosed, md5Q, md5Closed, sendQ, sendClosed, ackQ, ackClosed, digest, digClosed, succ,
                              cancelled, cause, initPhase, initTok, nRead, nEnc, nSent, nAcked, wire, peerAcks,
                              finalAck, silent, result>>
            \/ /\ "readerr" \in Faults /\ Cancel("readerr") /\ Goto("rd", "done")
               /\ fileClosed' = TRUE /\ md5Closed' = TRUE
               /\ UNCHANGED <<fileQ, md5Q, sendQ, sendClosed, ackQ, ackClosed, digest, digClosed, succ, initPhase,
                              initTok, nRead, nEnc, nSent, nAcked, wire, peerAcks, finalAck, silent, result>>

RdMd5 ==       \* select { md5SourceChan <- buf ; <-ctx.Done() }
    /\ pc["rd"] = "md5"
    /\ \/ /\ md5Q < Cap /\ md5Q' = md5Q + 1 /\ nRead' = nRead + 1 /\ Goto("rd", "file")
          /\ UNCHANGED <<fileClosed, md5Closed>>
       \/ /\ cancelled /\ Goto("rd", "done") /\ fileClosed' = TRUE /\ md5Closed' = TRUE
          /\ UNCHANGED <<md5Q, nRead>>
    /\ UNCHANGED <<fileQ, sendQ, sendClosed, ackQ, ackClosed, digest, digClosed, succ, cancelled, cause, initPhase,
                   initTok, nEnc, nSent, nAcked, wire, peerAcks, finalAck, silent, result>>

(* ---------------- pipelineCalculateMD5 ---------------- *)
MdLoop ==      \* for buf := range md5SourceChan { ...; if ctx.Err() != nil { return } } ; digest
    /\ pc["md"] = "loop"
    /\ \/ /\ md5Q > 0 /\ md5Q' = md5Q - 1
          /\ IF cancelled THEN Goto("md", "done") /\ digClosed' = TRUE ELSE UNCHANGED <<pc, digClosed>>
          /\ UNCHANGED digest
       \/ /\ md5Q = 0 /\ md5Closed /\ Goto("md", "done") /\ digClosed' = TRUE
          /\ digest' = (IF cancelled THEN 0 ELSE 1) /\ UNCHANGED md5Q
    /\ UNCHANGED <<fileQ, fileClosed, md5Closed, sendQ, sendClosed, ackQ, ackClosed, succ, cancelled, cause, initPhase,
                   initTok, nRead, nEnc, nSent, nAcked, wire, peerAcks, finalAck, silent, result>>

(* ---------------- pipelineEncodeData / sendDataWriter ---------------- *)
EncLoop ==     \* for data := range fileDataChan : writeAll(writer, data) -> buffer full -> deliver
    /\ pc["enc"] = "loop"
    /\ \/ /\ fileQ > 0 /\ fileQ' = fileQ - 1 /\ Goto("enc", "deliver") /\ UNCHANGED <<initTok>>
       \/ /\ fileQ = 0 /\ fileClosed /\ Goto("enc", "close") /\ UNCHANGED <<fileQ, initTok>>
    /\ UNCHANGED <<fileClosed, md5Q, md5Closed, sendQ, sendClosed, ackQ, ackClosed, digest, digClosed, succ, cancelled,
                   cause, initPhase, nRead, nEnc, nSent, nAcked, wire, peerAcks, finalAck, silent, result>>

EncDeliver ==  \* [old: if bufInitPhase { wg.Add(1) }]  select { sendDataChan <- chunk ; <-ctx.Done() }
    /\ pc["enc"] = "deliver"
    /\ \/ /\ sendQ < Cap /\ sendQ' = sendQ + 1 /\ nEnc' = nEnc + 1
          /\ initTok' = IF OldWaitGroup /\ initPhase THEN initTok + 1 ELSE initTok
          /\ Goto("enc", IF initPhase THEN "wait" ELSE "loop")
          /\ UNCHANGED <<sendClosed, cancelled, cause>>
       \/ /\ cancelled /\ Goto("enc", "done") /\ sendClosed' = TRUE     \* write error -> cancel, deferred closes
          /\ UNCHANGED <<sendQ, nEnc, initTok, cancelled, cause>>
    /\ UNCHANGED <<fileQ, fileClosed, md5Q, md5Closed, ackQ, ackClosed, digest, digClosed, succ, initPhase, nRead, nSent,
                   nAcked, wire, peerAcks, finalAck, silent, result>>

EncWait ==     \* fixed: select { <-bufInitChan ; <-ctx.Done() }     old: if bufInitPhase { wg.Wait() }
    /\ pc["enc"] = "wait"
    /\ IF OldWaitGroup
       THEN /\ (initTok = 0 \/ ~initPhase) /\ Goto("enc", "loop") /\ UNCHANGED <<initTok, sendClosed>>
       ELSE \/ /\ initTok > 0 /\ initTok' = initTok - 1 /\ Goto("enc", "loop") /\ UNCHANGED sendClosed
            \/ /\ cancelled /\ Goto("enc", "done") /\ sendClosed' = TRUE /\ UNCHANGED initTok
    /\ UNCHANGED <<fileQ, fileClosed, md5Q, md5Closed, sendQ, ackQ, ackClosed, digest, digClosed, succ, cancelled, cause,
                   initPhase, nRead, nEnc, nSent, nAcked, wire, peerAcks, finalAck, silent, result>>

EncClose ==    \* writer.Close(): bufInitPhase = false; deliver the finish flag (select with ctx.Done); close(sendDataChan)
    /\ pc["enc"] = "close"
    /\ initPhase' = FALSE
    /\ \/ /\ sendQ < Cap /\ sendQ' = sendQ + 1 /\ nEnc' = nEnc + 1
       \/ /\ cancelled /\ UNCHANGED <<sendQ, nEnc>>
    /\ Goto("enc", "done") /\ sendClosed' = TRUE
    /\ UNCHANGED <<fileQ, fileClosed, md5Q, md5Closed, ackQ, ackClosed, digest, digClosed, succ, cancelled, cause, initTok,
                   nRead, nSent, nAcked, wire, peerAcks, finalAck, silent, result>>

(* ---------------- pipelineSendData ---------------- *)
SndLoop ==     \* for data := range sendDataChan { if ctx.Err() != nil { return }; sendDataV2 ... }
    /\ pc["snd"] = "loop"
    /\ \/ /\ sendQ > 0 /\ sendQ' = sendQ - 1
          /\ IF cancelled THEN Goto("snd", "done") /\ ackClosed' = TRUE /\ UNCHANGED <<wire, nSent, cause, cancelled>>
             ELSE \/ /\ wire' = wire + 1 /\ nSent' = nSent + 1 /\ Goto("snd", "ack") /\ UNCHANGED <<ackClosed, cancelled, cause>>
                  \/ /\ "writeerr" \in Faults /\ Cancel("writeerr") /\ Goto("snd", "done") /\ ackClosed' = TRUE
                     /\ UNCHANGED <<wire, nSent>>
       \/ /\ sendQ = 0 /\ sendClosed /\ Goto("snd", "done") /\ ackClosed' = TRUE
          /\ UNCHANGED <<sendQ, wire, nSent, cancelled, cause>>
    /\ UNCHANGED <<fileQ, fileClosed, md5Q, md5Closed, sendClosed, ackQ, digest, digClosed, succ, initPhase, initTok, nRead,
                   nEnc, nAcked, peerAcks, finalAck, silent, result>>

SndAck ==      \* select { ackChan <- ack ; <-ctx.Done() }
    /\ pc["snd"] = "ack"
    /\ \/ /\ ackQ < Cap /\ ackQ' = ackQ + 1 /\ Goto("snd", "loop") /\ UNCHANGED ackClosed
       \/ /\ cancelled /\ Goto("snd", "done") /\ ackClosed' = TRUE /\ UNCHANGED ackQ
    /\ UNCHANGED <<fileQ, fileClosed, md5Q, md5Closed, sendQ, sendClosed, digest, digClosed, succ, cancelled, cause,
                   initPhase, initTok, nRead, nEnc, nSent, nAcked, wire, peerAcks, finalAck, silent, result>>

(* ---------------- pipelineRecvAck + pipelineRecvFinalAck ---------------- *)
AckLoop ==     \* for ack := range ackChan
    /\ pc["ack"] = "loop"
    /\ \/ /\ ackQ > 0 /\ ackQ' = ackQ - 1 /\ Goto("ack", "read")
       \/ /\ ackQ = 0 /\ ackClosed /\ UNCHANGED ackQ
          /\ Goto("ack", IF cancelled THEN "done" ELSE "final")
    /\ UNCHANGED <<fileQ, fileClosed, md5Q, md5Closed, sendQ, sendClosed, ackClosed, digest, digClosed, succ, cancelled,
                   cause, initPhase, initTok, nRead, nEnc, nSent, nAcked, wire, peerAcks, finalAck, silent, result>>

AckRead ==     \* pipelineRecvCurrentAck: a line arrives, or the read times out (peer silent)
    /\ pc["ack"] = "read"
    /\ \/ /\ peerAcks > 0 /\ peerAcks' = peerAcks - 1 /\ nAcked' = nAcked + 1
          \* buffer-size decision; in the probing phase signal the encoder (old: wg.Done())
          /\ IF initPhase
             THEN /\ initTok' = IF OldWaitGroup THEN initTok - 1 ELSE 1
                  /\ initPhase' = (nAcked + 1 < InitChunks)
             ELSE UNCHANGED <<initTok, initPhase>>
          /\ Goto("ack", IF cancelled THEN "done" ELSE "loop")
          /\ UNCHANGED <<cancelled, cause>>
       \/ /\ peerAcks = 0 /\ silent /\ Cancel("timeout") /\ Goto("ack", "done")
          /\ UNCHANGED <<peerAcks, nAcked, initTok, initPhase>>
    /\ UNCHANGED <<fileQ, fileClosed, md5Q, md5Closed, sendQ, sendClosed, ackQ, ackClosed, digest, digClosed, succ, nRead,
                   nEnc, nSent, wire, finalAck, silent, result>>

AckFinal ==    \* pipelineRecvFinalAck: for ctx.Err() == nil { recv; if step == size { succ <- ; break } }
    /\ pc["ack"] = "final"
    /\ IF cancelled THEN Goto("ack", "done") /\ UNCHANGED <<succ, cancelled, cause, finalAck>>
       ELSE \/ /\ finalAck /\ finalAck' = FALSE /\ succ < 1 /\ succ' = succ + 1 /\ Goto("ack", "done") /\ UNCHANGED <<cancelled, cause>>
            \/ /\ ~finalAck /\ silent /\ Cancel("timeout") /\ Goto("ack", "done") /\ UNCHANGED <<succ, finalAck>>
    /\ UNCHANGED <<fileQ, fileClosed, md5Q, md5Closed, sendQ, sendClosed, ackQ, ackClosed, digest, digClosed, initPhase,
                   initTok, nRead, nEnc, nSent, nAcked, wire, peerAcks, silent, result>>

(* ---------------- main routine ---------------- *)
MainSelect ==  \* select { <-ctx.succ: return <-md5DigestChan ; <-ctx.Done(): return cause }
    /\ pc["main"] = "select"
    /\ \/ /\ succ > 0 /\ succ' = succ - 1 /\ Goto("main", "digest") /\ UNCHANGED <<result, cancelled, cause>>
       \/ /\ cancelled /\ result' = "err" /\ Goto("main", "done") /\ UNCHANGED <<succ, cancelled, cause>>
    /\ UNCHANGED <<fileQ, fileClosed, md5Q, md5Closed, sendQ, sendClosed, ackQ, ackClosed, digest, digClosed, initPhase,
                   initTok, nRead, nEnc, nSent, nAcked, wire, peerAcks, finalAck, silent>>

MainDigest ==  \* <-md5DigestChan (value or closed), then the deferred cancel(nil)
    /\ pc["main"] = "digest"
    /\ (digest > 0 \/ digClosed)
    /\ result' = "ok" /\ Goto("main", "done") /\ cancelled' = TRUE /\ UNCHANGED cause
    /\ digest' = 0
    /\ UNCHANGED <<fileQ, fileClosed, md5Q, md5Closed, sendQ, sendClosed, ackQ, ackClosed, digClosed, succ, initPhase,
                   initTok, nRead, nEnc, nSent, nAcked, wire, peerAcks, finalAck, silent>>

(* ---------------- the peer ---------------- *)
PeerAck ==     \* the receiver acknowledges the oldest DATA on the wire; after the finish flag, the final ack
    /\ ~silent /\ wire > 0
    /\ wire' = wire - 1 /\ peerAcks' = peerAcks + 1
    /\ finalAck' = (finalAck \/ (nSent = Total /\ wire = 1))
    /\ UNCHANGED <<fileQ, fileClosed, md5Q, md5Closed, sendQ, sendClosed, ackQ, ackClosed, digest, digClosed, succ,
                   cancelled, cause, initPhase, initTok, pc, nRead, nEnc, nSent, nAcked, silent, result>>

PeerSilent ==
    /\ "silent" \in Faults /\ ~silent /\ silent' = TRUE
    /\ UNCHANGED <<fileQ, fileClosed, md5Q, md5Closed, sendQ, sendClosed, ackQ, ackClosed, digest, digClosed, succ,
                   cancelled, cause, initPhase, initTok, pc, nRead, nEnc, nSent, nAcked, wire, peerAcks, finalAck, result>>

StageStep == RdFile \/ RdMd5 \/ MdLoop \/ EncLoop \/ EncDeliver \/ EncWait \/ EncClose \/ SndLoop \/ SndAck
             \/ AckLoop \/ AckRead \/ AckFinal \/ MainSelect \/ MainDigest
Next == StageStep \/ PeerAck \/ PeerSilent

Spec == Init /\ [][Next]_vars /\ WF_vars(StageStep) /\ WF_vars(PeerAck)

-----------------------------------------------------------------------------
AllDone == \A s \in Stages : pc[s] = "done"

(* C11: the main routine returns and no worker is left, whatever fails *)
Termination == <>[]AllDone
(* the main routine reports success only if everything was sent and acknowledged *)
OkMeansComplete == result = "ok" => (nSent = Total /\ nAcked = Total /\ cause = "none")
(* without faults the file goes through *)
CleanOk == (AllDone /\ ~silent /\ cause = "none") => result = "ok"
TypeOK == /\ fileQ \in 0..Cap /\ md5Q \in 0..Cap /\ sendQ \in 0..Cap /\ ackQ \in 0..Cap /\ succ \in 0..1
          /\ (~OldWaitGroup => initTok \in 0..1)
=============================================================================
