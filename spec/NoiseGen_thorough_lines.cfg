SPECIFICATION GSpec
CONSTANTS
  GenChunk = "whole"
  Modes = {"win"}
  ExpType <- MC_ExpType
  LineTypes <- MC_LineTypes1
  PayBytes = {97, 98}
  MaxPay = 1
  MaxLines = 2
  MaxNoise = 2
  MaxPend = 0
  TxtSet <- MC_TxtSet
  CsiSet <- MC_CsiSet
  PadBytes = {32}
  NlSet <- MC_NlSet
  StSet <- MC_StSet
  WithEtx = FALSE
  Quirks = {}
INVARIANTS Export Recovered CtrlCInterrupts Returned
CHECK_DEADLOCK FALSE
