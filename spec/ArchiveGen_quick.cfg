SPECIFICATION GSpec
CONSTANTS
  MaxEntries = 2
  HdrLens = {1, 2}
  Sizes = {0, 1, 2}
  ReadSizes = {1, 2, 3}
  MaxWrite = 10
  MaxResize = 1
  WithGrow = FALSE
  Pipelined = FALSE
  UniformReads = TRUE
INVARIANTS Export Reconstructed AnnouncedIsProduced HeaderNeverInPayload OneOpenFile ShrinkIsError
CHECK_DEADLOCK FALSE
