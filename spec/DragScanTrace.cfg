SPECIFICATION TSpec
CONSTANTS
  OSes = {}
  AlphaLinux = {}
  AlphaMac = {}
  AlphaWin = {}
  MaxSyms = 0
  RootLen = 12
  FSNames = {}
  Quirks = {"MinLen", "MacRel", "MacTail"}
INVARIANTS TypeOK AllOrNothing NoDragLeavesInputUntouched CursorMonotone HasDirIff DragHasFiles NoDragNoFiles
           IgnoreMeansMarksOnly IsWinMeansWinHead DeadBranches
CONSTRAINT HW
POSTCONDITION Accepted
CHECK_DEADLOCK FALSE
