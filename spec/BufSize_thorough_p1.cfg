\* protocol 1
SPECIFICATION Spec
CONSTANTS
  Floor = 1024
  P1Start = 1024
  InitSize = 10240
  HardCap = 1073741824
  BoundFloor = 1048576
  SendCap = 1
  AckCap = 1
  MaxBufs = {1024, 1025, 4096, 10240, 1048576, 1073741823, 1073741824}
  Modes = {"bin", "b64"}
  Protos = {1}
  Secs = {2, 3, 20}
  MaxChunks = 1
  P1MaxChunks = 22
  MaxFiles = 3
  MaxPauses = 0
  StartSizes = {}
  Variant = "coded"
INVARIANTS TypeOK SizeInRange ChunksInRange NeverRejectedByReceiver NothingQueuedIsRejected ProbeEndsOnce
  TokenPaired EncoderNotStuck OneChunkWhileProbing DoubleOnlyWhenAllowed ShrinkOnlyWhenSlow
  SuspendedAfterPause ProbeEndedBy
PROPERTIES Termination
CHECK_DEADLOCK TRUE
