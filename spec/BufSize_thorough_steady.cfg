\* after the probing: pieces, a pause and the full count-down of the ignore count; capacities 1
SPECIFICATION Spec
CONSTANTS
  Floor = 1024
  P1Start = 1024
  InitSize = 10240
  HardCap = 1073741824
  BoundFloor = 1048576
  SendCap = 1
  AckCap = 1
  MaxBufs = {40960}
  Modes = {"bin"}
  Protos = {4}
  Secs = {2, 20}
  MaxChunks = 2
  P1MaxChunks = 1
  MaxFiles = 1
  MaxPauses = 1
  StartSizes = {40960}
  Variant = "coded"
INVARIANTS TypeOK SizeInRange ChunksInRange NeverRejectedByReceiver NothingQueuedIsRejected ProbeEndsOnce
  TokenPaired EncoderNotStuck OneChunkWhileProbing DoubleOnlyWhenAllowed ShrinkOnlyWhenSlow
  SuspendedAfterPause ProbeEndedBy
CHECK_DEADLOCK TRUE
