----------------------------- MODULE BufSizeGen -----------------------------
(* Spec -> implementation for BufSize.  Exports, once each,                                     *)
(*   sent   every (configuration, block) pair the model's sender writes in some behaviour:     *)
(*          n bytes as chunked plus x bytes added by escaping afterwards (protocol 1), with    *)
(*          the model's verdict acc = RecvAccepts (TRUE everywhere: NeverRejectedByReceiver)   *)
(*   probe  points of the receiver's bound function around its edge for every configuration    *)
(* harness/x01_bufsize.go (x01_gen) asks the real checkBinarySize for every pair, materialises *)
(* worst-case blocks through the real escapeData and runs the real encoder                     *)
(* (escape writer -> sendDataWriter) at the exported sizes.                                    *)
(* Run with -workers 1 (the set of pairs already printed lives in TLC register 2).             *)
EXTENDS BufSize, Json, TLCExt

Pair(kind, c, n, x) ==
    [kind |-> kind, max |-> c.max, mode |-> c.mode, proto |-> c.proto, n |-> n, x |-> x,
     acc |-> RecvAccepts(c, n, x)]

ASSUME TLCSet(2, {})

Export ==
    LET p == Pair("sent", cfg, last.ann, last.ext) IN
      (last.act \in SendActs /\ p \notin TLCGet(2)) =>
          /\ TLCSet(2, TLCGet(2) \cup {p})
          /\ PrintT("MBT " \o ToJson(p))

(* the edge of the bound: 2 * B as B + B (2 * 2^30 is not a TLC integer) *)
ProbePoints(c) ==
    LET b == RecvHalfBound([max |-> c.max, rmax |-> c.max, mode |-> c.mode, proto |-> c.proto]) IN
      {<<0, 0>>, <<1, 0>>, <<b, 0>>, <<b, b - 1>>, <<b, b>>, <<b + 1, b>>, <<b + 1, b + 1>>, <<b - 1, b>>}

ASSUME \A c \in Cfgs : \A p \in ProbePoints(c) :
          PrintT("MBT " \o ToJson(Pair("probe", [max |-> c.max, rmax |-> c.max, mode |-> c.mode, proto |-> c.proto], p[1], p[2])))
=============================================================================
