SPECIFICATION Spec
CONSTANTS
  Alphabet = {97, 10, 13, 3, 35, 58}
  MaxLen = 5
  MaxChunk = 5
  MaxOps = 3
  BinSizes = {0, 1, 2}
  WithStop = FALSE
  WithTimer = FALSE
INVARIANTS TypeOK CursorOK SegIndep NoWait PartialOK
CHECK_DEADLOCK FALSE
