SPECIFICATION Spec
CONSTANTS
  N = 3
  StrayScripts = {"right", "wrong", "silent"}
  Outcomes = {"good", "refuse", "noreply"}
  Rendezvous = TRUE
  MaxData = 0
  Pumps = FALSE
INVARIANTS TypeOK AtMostOneAdopted AdoptedAuthenticated NoAnswerToStrangers OnlyAdoptedFeeds FallbackWorks AgreeConsistent NoLateAdoption
PROPERTIES InbandIgnoredAfterAgree
CHECK_DEADLOCK FALSE
