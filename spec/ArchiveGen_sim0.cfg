SPECIFICATION GSpec
CONSTANTS
  MaxEntries = 4
  HdrLens = {1, 2, 3}
  Sizes = {0, 1, 2, 3}
  ReadSizes = {1, 2, 3, 4}
  MaxWrite = 28
  MaxResize = 0
  WithGrow = FALSE
  Pipelined = TRUE
  UniformReads = FALSE
INVARIANTS Export Reconstructed AnnouncedIsProduced HeaderNeverInPayload OneOpenFile ShrinkIsError
CHECK_DEADLOCK FALSE
