SPECIFICATION Spec
CONSTANTS
  Floor = 1024
  P1Start = 1024
  InitSize = 10240
  HardCap = 1073741824
  BoundFloor = 1048576
  SendCap = 2
  AckCap = 2
  MaxBufs = {1024, 4096, 10240, 40960, 1073741824}
  Modes = {"bin", "b64"}
  Protos = {1, 2, 4}
  Secs = {2, 3, 20}
  MaxChunks = 4
  P1MaxChunks = 21
  MaxFiles = 2
  MaxPauses = 1
  Variant = "coded"
INVARIANTS TypeOK SizeInRange ChunksInRange NeverRejectedByReceiver NothingQueuedIsRejected ProbeEndsOnce
  TokenPaired EncoderNotStuck OneChunkWhileProbing DoubleOnlyWhenAllowed ShrinkOnlyWhenSlow
  SuspendedAfterPause ProbeEndedBy
PROPERTIES Termination
CHECK_DEADLOCK TRUE
