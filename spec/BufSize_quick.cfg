\* probing phase of a new transfer, every -B class (below / at / above the initial 10240, 1G), one pause; real constants, channel capacities 2
SPECIFICATION Spec
CONSTANTS
  Floor = 1024
  P1Start = 1024
  InitSize = 10240
  HardCap = 1073741824
  BoundFloor = 1048576
  SendCap = 2
  AckCap = 2
  MaxBufs = {4096, 40960, 1073741824}
  Modes = {"bin"}
  Protos = {4}
  Secs = {2, 20}
  MaxChunks = 2
  P1MaxChunks = 1
  MaxFiles = 1
  MaxPauses = 1
  StartSizes = {}
  Variant = "coded"
INVARIANTS TypeOK SizeInRange ChunksInRange NeverRejectedByReceiver NothingQueuedIsRejected ProbeEndsOnce
  TokenPaired EncoderNotStuck OneChunkWhileProbing DoubleOnlyWhenAllowed ShrinkOnlyWhenSlow
  SuspendedAfterPause ProbeEndedBy
CHECK_DEADLOCK TRUE
