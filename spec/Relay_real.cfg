SPECIFICATION Spec
CONSTANTS
  CliChunks <- Cli1
  SrvChunks <- Srv1
  Confirm = TRUE
  Recheck = TRUE
  FlushFirst = TRUE
INVARIANTS Order NothingLost ParkOnlyWhileHandshaking JunkIsBeforeLine
PROPERTIES Progress
CHECK_DEADLOCK FALSE
