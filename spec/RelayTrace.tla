----------------------------- MODULE RelayTrace -----------------------------
(* Trace validation for Relay: recorded executions of a real TrzszRelay (harness/c13_relay.go)  *)
(* with seeded random delays at the hook points.  Events:                                       *)
(*   reset{confirm}  feed{side,u}  hook{p,a}  deliver{to,u}  quiet                              *)
(* feed = the relay's Read returned the chunk; hook = vhook point inside relay.go (emitted at   *)
(* the linearisation point, under the lock where there is one); deliver = what a writer got.    *)
(* The worker's sends have no hook: they are silent steps.  Tokens: bytes >= 128 are unique     *)
(* payload bytes, -1 ACT line, -2 CFG line, -3 trigger line, -4 end marker line, -5 FAIL line,   *)
(* -6 / -7 undecodable ACT / CFG line; items of a second transfer through the same relay: x - 10.*)
EXTENDS Relay, Json, IOUtils, TLCExt

TraceLog == ndJsonDeserialize(IOEnv.VERIF_TRACE)
NoChunks == <<>>

VARIABLES l, dS, dC,    \* dS/dC: how much of sin/cout the writers have delivered so far
          ldI, ldO      \* the load hook of the chunk in hand has been seen (In / Out)
tvars == <<vars, l, dS, dC, ldI, ldO>>

Ev == TraceLog[l]
More == l <= Len(TraceLog)
IsEvent(e) == More /\ Ev.e = e /\ l' = l + 1
IsHook(p) == IsEvent("hook") /\ Ev.p = p
StatusOf(a) == CASE a = 0 -> "S" [] a = 1 -> "H" [] a = 2 -> "T"
KeepT == UNCHANGED <<dS, dC, ldI, ldO>>

TInit == Init /\ l = 1 /\ dS = 0 /\ dC = 0 /\ ldI = TRUE /\ ldO = TRUE

TReset ==
    /\ IsEvent("reset")
    /\ status' = "S" /\ lock' = "free" /\ inQ' = <<>> /\ outQ' = <<>> /\ inRest' = <<>> /\ outRest' = <<>>
    /\ sin' = <<>> /\ cout' = <<>> /\ junk' = {} /\ fedC' = <<>> /\ fedS' = <<>> /\ nIn' = 0 /\ nOut' = 0
    /\ pcI' = "read" /\ bufI' = <<>> /\ stI' = "S" /\ pcO' = "read" /\ bufO' = <<>> /\ stO' = "S" /\ pcW' = "off"
    /\ wtok' = 0 /\ werr' = FALSE
    /\ confirm' = Ev.confirm /\ dS' = 0 /\ dC' = 0 /\ ldI' = TRUE /\ ldO' = TRUE

TFeed == /\ IsEvent("feed") /\ UNCHANGED <<dS, dC>>
         /\ IF Ev.side = "c" THEN InRead(Ev.u) /\ ldI' = FALSE /\ ldO' = ldO
                           ELSE OutRead(Ev.u) /\ ldO' = FALSE /\ ldI' = ldI

(* an atomic load is not at a lock-protected point: it happened somewhere between the feed event and  *)
(* its hook, so the load itself is a silent step (TStoreSilent) and the hook only confirms its value   *)
TInLoad == /\ IsHook("relay.in.load") /\ ~ldI /\ pcI \in {"lock", "fwd"} /\ stI = StatusOf(Ev.a[1])
           /\ ldI' = TRUE /\ UNCHANGED <<vars, dS, dC, ldO>>
TOutLoad == /\ IsHook("relay.out.load") /\ ~ldO /\ pcO \in {"lock", "fwd"} /\ stO = StatusOf(Ev.a[1])
            /\ ldO' = TRUE /\ UNCHANGED <<vars, dS, dC, ldI>>

(* the hook does not say which reader parked: whichever holds the lock.  The hook is emitted     *)
(* inside the critical section, after the re-load: the re-load (InLock / OutLock) is a silent  *)
(* step, the hook confirms the value it read and performs the rest of the section              *)
TParkDone == /\ IsHook("relay.park.done") /\ KeepT
             /\ \/ (ldI /\ InPark /\ pcI' = "read") \/ (ldO /\ OutPark /\ pcO' = "read")
TParkSkip == /\ IsHook("relay.park.skip") /\ KeepT
             /\ \/ (ldI /\ InPark /\ pcI' = "fwd" /\ stI = StatusOf(Ev.a[1]))
                \/ (ldO /\ OutPark /\ pcO' = "fwd" /\ stO = StatusOf(Ev.a[1]))

TInFwd == IsHook("relay.in.fwd") /\ ldI /\ InFwd /\ stI = StatusOf(Ev.a[1]) /\ KeepT
TOutFwd == IsHook("relay.out.fwd") /\ ldO /\ OutFwd /\ stO = StatusOf(Ev.a[1]) /\ KeepT
TOutTrigger == IsHook("relay.out.trigger") /\ OutTrigger /\ KeepT

(* atomic stores and CAS are not at a lock-protected point: the hook after them may be recorded  *)
(* later than another goroutine's load that already saw the new value, so they are silent steps  *)
(* and their hooks only confirm that they have happened                                           *)
TStoreSilent == /\ More /\ UNCHANGED l /\ KeepT
                /\ \/ OutStoreH \/ InMark \/ OutMark \/ WkStore \/ InLoad \/ OutLoad
                   \/ (ldI /\ InLock) \/ (ldO /\ OutLock)     \* Lock + re-load inside addHandshakeBuffer
TReset2 == IsHook("relay.reset") /\ KeepT /\ UNCHANGED vars

(* recvAction / recvConfig returned (with a line, or with an error for an undecodable one) *)
THsAct == IsHook("relay.hs.act") /\ KeepT /\ pcW \in {"sendAct", "errC"} /\ K(wtok) \in {ACT, BADACT} /\ UNCHANGED vars
THsCfg == IsHook("relay.hs.cfg") /\ KeepT /\ pcW \in {"sendCfg", "errC"} /\ K(wtok) \in {CFG, BADCFG} /\ UNCHANGED vars
(* the worker's line reads and sends are not hooked one by one: silent steps *)
TWkSilent == /\ More /\ UNCHANGED l /\ KeepT
             /\ \/ WkRecvAct \/ WkRecvCfg
                \/ (WkSendAct /\ ~(Ev.e = "hook" /\ Ev.p = "relay.hs.act"))
                \/ (WkSendCfg /\ ~(Ev.e = "hook" /\ Ev.p = "relay.hs.cfg"))
                \/ ((WkErrC \/ WkErrS) /\ ~(Ev.e = "hook" /\ Ev.p \in {"relay.hs.act", "relay.hs.cfg"}))

TFlushLock == IsHook("relay.flush.lock") /\ KeepT /\ WkFlushLock
TFlushStore == IsHook("relay.flush.store") /\ KeepT /\ pcW = "store" /\ UNCHANGED vars
TFlushDone == IsHook("relay.flush.done") /\ KeepT /\ WkUnlock

(* a writer received bytes: they must be the next undelivered tokens of the model's stream *)
TDeliver ==
    /\ IsEvent("deliver") /\ UNCHANGED <<vars, ldI, ldO>>
    /\ IF Ev.to = "s"
       THEN /\ dS + Len(Ev.u) <= Len(sin) /\ SubSeq(sin, dS + 1, dS + Len(Ev.u)) = Ev.u
            /\ dS' = dS + Len(Ev.u) /\ dC' = dC
       ELSE /\ dC + Len(Ev.u) <= Len(cout) /\ SubSeq(cout, dC + 1, dC + Len(Ev.u)) = Ev.u
            /\ dC' = dC + Len(Ev.u) /\ dS' = dS

(* the driver saw everything it fed come out (or waited 5 s): the relay must be idle and *)
(* everything except the recorded junk delivered                                         *)
TQuiet == /\ IsEvent("quiet") /\ KeepT /\ UNCHANGED vars
          /\ Idle /\ dS = Len(sin) /\ dC = Len(cout)

TNext == TReset \/ TFeed \/ TInLoad \/ TOutLoad \/ TParkDone \/ TParkSkip \/ TInFwd \/ TOutFwd \/ TOutTrigger
         \/ TReset2 \/ TStoreSilent \/ THsAct \/ THsCfg \/ TWkSilent \/ TFlushLock \/ TFlushStore \/ TFlushDone
         \/ TDeliver \/ TQuiet
TSpec == TInit /\ [][TNext]_tvars

-----------------------------------------------------------------------------
(* the properties of Relay evaluated at every state of the recorded execution *)
TOrder == Order
TParkOnly == ParkOnlyWhileHandshaking
(* nothing lost, judged when the driver declared the run quiet *)
TNothingLost ==
    (More /\ Ev.e = "quiet" /\ Idle) =>
        /\ \A i \in 1..Len(fedC) : fedC[i] \in junk \/ Has(sin, fedC[i])
        /\ \A i \in 1..Len(fedS) : fedS[i] \in junk \/ Has(cout, fedS[i])
        /\ inQ = <<>> /\ outQ = <<>> /\ inRest = <<>> /\ outRest = <<>>

HW == IF l > TLCGet(1) THEN TLCSet(1, l) ELSE TRUE
ASSUME TLCSet(1, 0)
Accepted == IF TLCGet(1) = Len(TraceLog) + 1 THEN TRUE
            ELSE PrintT("HW " \o ToString(TLCGet(1))) /\ FALSE
=============================================================================
