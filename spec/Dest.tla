-------------------------------- MODULE Dest --------------------------------
(* The destination directory of a receive (C07, C09; also used by C08/C10).                  *)
(* Mirrors, one action per function of the Go code:                                           *)
(*   recvFileName / recvFileNameV3 (decode a NAME)      RecvPlainName, RecvJsonName           *)
(*   archiveFileWriter.Write (decode an entry header)   ArchiveEntry                          *)
(*   getNewName + fileNameMap                           GetNewName                            *)
(*   doCreateDirectory (parent, directory entry)        Mkdir                                 *)
(*   doCreateFile / newArchiveWriter                    OpenCreate                            *)
(*   recvFileData* -> file.Write                        Write                                 *)
(*   deleteCreatedFiles                                 DeleteCreated                         *)
(*   every error return                                 Refuse                                *)
(* A path is <<up, down>>: `up` levels above the destination directory, then the components  *)
(* `down`; Chain names the destination and its ancestors (Chain[Depth] = the destination).   *)
(* A peer-supplied name is a sequence of elements; an element is the sequence of atoms that   *)
(* the text of the element splits into at the path separator ("q/r" = <<"q","r">>, the       *)
(* absolute "/r" = <<"","r">>); Join is the lexical cleaning filepath.Join performs.         *)
(* Validate = "required": the design the property demands (names with an element that is     *)
(* empty, ".", "..", contains a separator or is absolute are refused where they are decoded).*)
(* Validate = "ascoded": what the code did when the check was written (only: the list is     *)
(* not empty); used to let TLC export escaping names as test cases (DestGen).                *)
EXTENDS Integers, Sequences, FiniteSets, TLC

CONSTANTS
    MaxSuffix,      \* fresh names: name, name.0 .. name.MaxSuffix  (999 in the code)
    Validate,       \* "required" | "ascoded"
    Chain,          \* <<ancestor names ..., destination name>>
    Pres,           \* set of initial contents of the destination: functions path -> [t, c]
    Sources,        \* set of source lists (what an honest sender announces)
    HostileNames,   \* set of names substituted for the last announced entry ({} = honest peer)
    HostileVar,     \* set of [hp, hd]: path-id offset and is_dir flag claimed by the hostile entry
    Cfgs,           \* set of [overwrite, directory, proto, role, stopdel]
    Rounds          \* the same sources are received this many times into the same destination

VARIABLES
    cfg,        \* configuration of this receive
    plan,       \* what is announced in each round (sequence of entries)
    pre,        \* the world when the round started: path -> [t, c]
    fs,         \* the world now: path -> [t, c, touched]
    incoming,   \* entries still to be announced
    cur,        \* the entry being created and how far it got
    nameMap,    \* path id -> set of local top-level names chosen for it (a singleton when correct)
    created,    \* createdFiles: paths this receive created, in order
    reported,   \* local names reported to the peer / shown to the user, in order
    outside,    \* paths created, opened for writing, truncated or removed that are not inside the destination
    phase,      \* "init" | "recv" | "ok" | "failed" | "deleted"
    round,
    exhausted   \* a fresh-name search found every candidate taken

vars == <<cfg, plan, pre, fs, incoming, cur, nameMap, created, reported, outside, phase, round, exhausted>>

-----------------------------------------------------------------------------
(* paths *)
Depth == Len(Chain)
DestP == <<0, <<>>>>
Front(s) == SubSeq(s, 1, Len(s) - 1)
Last(s) == s[Len(s)]
Inside(p) == p[1] = 0 /\ p[2] # <<>>
Parent(p) == IF p[2] # <<>> THEN <<p[1], Front(p[2])>>
             ELSE <<(IF p[1] < Depth THEN p[1] + 1 ELSE Depth), <<>>>>
Step(p, a) ==
    IF a = "" \/ a = "." THEN p
    ELSE IF a = ".." THEN Parent(p)
    ELSE IF p[1] > 0 /\ p[2] = <<>> /\ a = Chain[Depth - p[1] + 1] THEN <<p[1] - 1, <<>>>>
    ELSE <<p[1], Append(p[2], a)>>
RECURSIVE CleanFrom(_, _)
CleanFrom(p, atoms) == IF atoms = <<>> THEN p ELSE CleanFrom(Step(p, Head(atoms)), Tail(atoms))
RECURSIVE Flatten(_)
Flatten(name) == IF name = <<>> THEN <<>> ELSE Head(name) \o Flatten(Tail(name))
Join(p, name) == CleanFrom(p, Flatten(name))      \* filepath.Join(p, elements...)

IsUnder(q, p) == \/ q[1] = p[1] /\ Len(q[2]) > Len(p[2]) /\ SubSeq(q[2], 1, Len(p[2])) = p[2]
                 \/ p[2] = <<>> /\ q[1] < p[1]
ProperAnc(p) == {<<p[1], SubSeq(p[2], 1, k)>> : k \in 0..(Len(p[2]) - 1)}

(* names *)
LONG == "LONG"          \* stands for an atom longer than 255 bytes
ElemKind(e) ==
    IF Len(e) > 1 THEN (IF e[1] = "" THEN "absolute" ELSE "separator")
    ELSE IF e[1] = ".." THEN "dotdot" ELSE IF e[1] = "" THEN "empty" ELSE IF e[1] = "." THEN "dot"
    ELSE IF e[1] = LONG THEN "long" ELSE "plain"
HostileElem(e) == ElemKind(e) \in {"absolute", "separator", "dotdot", "empty", "dot"}
HostileName(n) == \E i \in 1..Len(n) : HostileElem(n[i])
HasLong(p) == \E i \in 1..Len(p[2]) : p[2][i] = LONG
ElemLong(e) == \E i \in 1..Len(e) : e[i] = LONG
Suffixed(e, i) == [e EXCEPT ![Len(e)] = @ \o "." \o ToString(i)]
Cands(e) == <<e>> \o [i \in 1..(MaxSuffix + 1) |-> Suffixed(e, i - 1)]
CandSet(e) == {e} \cup {Suffixed(e, i) : i \in 0..MaxSuffix}
IsCand(n, e) == n = e \/ \E i \in 0..MaxSuffix : n = Suffixed(e, i)

(* the file system as the code sees it *)
StatRes(f, p) ==
    IF HasLong(p) THEN "toolong"
    ELSE IF p \in DOMAIN f THEN "exists"
    ELSE IF \E q \in ProperAnc(p) : q \in DOMAIN f /\ f[q].t = "file" THEN "enotdir"
    ELSE "enoent"
OpenErr(f, p) ==        \* os.OpenFile(p, O_RDWR|O_CREATE[|O_TRUNC])
    LET s == StatRes(f, p) IN
    IF s = "exists" THEN (IF f[p].t = "dir" THEN "eisdir" ELSE "ok")
    ELSE IF s = "enoent" THEN (IF StatRes(f, Parent(p)) = "exists" /\ f[Parent(p)].t = "dir" THEN "ok" ELSE "enoent")
    ELSE s
DirErr(f, p) ==         \* doCreateDirectory(p)
    LET s == StatRes(f, p) IN
    IF s = "exists" THEN (IF f[p].t = "dir" THEN "ok" ELSE "notdir")
    ELSE IF s = "enoent" THEN "ok" ELSE s
Free(f, e) == StatRes(f, Join(DestP, <<e>>)) = "enoent"     \* os.IsNotExist(os.Stat(...))
FirstFree(f, e) ==
    LET c == Cands(e)
        idx == {i \in 1..Len(c) : Free(f, c[i])}
    IN IF idx = {} THEN <<>> ELSE c[CHOOSE i \in idx : \A j \in idx : i <= j]

(* effects on the world  w = [fs, created, outside]; shared with DestTrace *)
Extend(f, p, v) == [q \in DOMAIN f \cup {p} |-> IF q = p THEN v ELSE f[q]]
MarkTouched(f, p) == IF p \in DOMAIN f /\ Inside(p) THEN [f EXCEPT ![p].touched = TRUE] ELSE f
Out(o, ps) == o \cup {p \in ps : ~Inside(p)}

EffOpen(w, p, trunc) ==
    LET existed == p \in DOMAIN w.fs
        newc == IF existed /\ ~trunc THEN w.fs[p].c ELSE "empty"
        f1 == Extend(w.fs, p, [t |-> "file", c |-> newc, touched |-> TRUE])
    IN [fs |-> IF existed THEN f1 ELSE MarkTouched(f1, Parent(p)),
        created |-> Append(w.created, p), outside |-> Out(w.outside, {p})]

EffMkdirAll(w, p) ==
    IF p \in DOMAIN w.fs THEN w
    ELSE LET missing == {q \in ProperAnc(p) \cup {p} : q \notin DOMAIN w.fs}
             f1 == [q \in DOMAIN w.fs \cup missing |->
                        IF q \in missing THEN [t |-> "dir", c |-> "", touched |-> TRUE] ELSE w.fs[q]]
             top == CHOOSE q \in missing : \A r \in missing : Len(q[2]) <= Len(r[2])
         IN [fs |-> MarkTouched(f1, Parent(top)), created |-> Append(w.created, p),
             outside |-> Out(w.outside, missing)]

EffRemoveAll(w, p) ==
    IF p \notin DOMAIN w.fs THEN w
    ELSE LET gone == {q \in DOMAIN w.fs : q = p \/ IsUnder(q, p)}
             f1 == [q \in DOMAIN w.fs \ gone |-> w.fs[q]]
         IN [fs |-> MarkTouched(f1, Parent(p)), created |-> w.created, outside |-> Out(w.outside, gone)]

EffWrite(w, p, c) ==
    [w EXCEPT !.fs = [@ EXCEPT ![p] = [t |-> "file", c |-> c, touched |-> TRUE]], !.outside = Out(@, {p})]

RECURSIVE RemoveEach(_, _)
RemoveEach(w, ps) == IF ps = <<>> THEN w ELSE RemoveEach(EffRemoveAll(w, Head(ps)), Tail(ps))

World == [fs |-> fs, created |-> created, outside |-> outside]
SetWorld(w) == fs' = w.fs /\ created' = w.created /\ outside' = w.outside

-----------------------------------------------------------------------------
(* what an honest sender announces for a source list under a configuration *)
PlainSite(c) == c.proto < 3 /\ ~c.directory
ArchiveMode(c) == c.proto = 4 /\ ~c.overwrite /\ c.directory
Ent(site, s) == [site |-> site, pid |-> s.pid, rel |-> s.rel, dir |-> s.dir, arch |-> FALSE, c |-> s.c, subs |-> <<>>]
RECURSIVE Group(_, _)
Group(src, acc) ==      \* archiveSourceFiles: the first entry of a path id carries the others
    IF src = <<>> THEN acc
    ELSE LET s == Head(src) IN
         IF acc # <<>> /\ Last(acc).pid = s.pid
         THEN Group(Tail(src), [acc EXCEPT ![Len(acc)] = [@ EXCEPT !.arch = TRUE, !.subs = Append(@, Ent("archive", s))]])
         ELSE Group(Tail(src), Append(acc, Ent("json", s)))
Announce(src, c) ==
    IF PlainSite(c) THEN [i \in 1..Len(src) |-> [Ent("plain", src[i]) EXCEPT !.rel = <<Last(src[i].rel)>>]]
    ELSE IF ArchiveMode(c) THEN Group(src, <<>>)
    ELSE [i \in 1..Len(src) |-> Ent("json", src[i])]
(* the hostile peer replaces the name (and path id, type) of the last entry it announces *)
Forge(e, h, v) == [e EXCEPT !.rel = (IF e.site = "plain" THEN <<Last(h)>> ELSE h), !.pid = @ + v.hp, !.dir = v.hd]
Subst(es, h, v) ==
    IF h = <<>> THEN es
    ELSE LET k == Len(es) IN
         IF es[k].subs # <<>>
         THEN [es EXCEPT ![k] = [@ EXCEPT !.subs = [@ EXCEPT ![Len(@)] = Forge(@, h, v)]]]
         ELSE [es EXCEPT ![k] = Forge(@, h, v)]

NoCur == [st |-> "idle"]
WorldOf(p) == [q \in DOMAIN p |-> [t |-> p[q].t, c |-> p[q].c, touched |-> FALSE]]
Strip(f) == [q \in DOMAIN f |-> [t |-> f[q].t, c |-> f[q].c]]

Init ==
    /\ cfg \in Cfgs
    /\ \E src \in Sources :
         /\ (\E i \in 1..Len(src) : src[i].dir) => cfg.directory        \* "Is a directory" otherwise
         /\ plan = Announce(src, cfg)
    /\ pre = <<>> /\ fs = <<>>
    /\ incoming = plan
    /\ cur = NoCur /\ nameMap = <<>> /\ created = <<>> /\ reported = <<>> /\ outside = {}
    /\ phase = "init" /\ round = 1 /\ exhausted = FALSE

(* what is at (and around) the destination when the receive starts, and, with a hostile    *)
(* peer, the name it puts in place of the last one                                          *)
Populate ==
    /\ phase = "init"
    /\ pre' \in Pres
    /\ fs' = WorldOf(pre')
    /\ \E h \in (IF HostileNames = {} THEN {<<>>} ELSE HostileNames), v \in HostileVar :
         /\ (h # <<>> /\ PlainSite(cfg)) => (Len(h) = 1 /\ v.hp = 0 /\ ~v.hd)
         /\ (h = <<>>) => (v.hp = 0 /\ ~v.hd)
         /\ plan' = Subst(plan, h, v)
    /\ incoming' = plan'
    /\ phase' = "recv"
    /\ UNCHANGED <<cfg, cur, nameMap, created, reported, outside, round, exhausted>>

-----------------------------------------------------------------------------
Receiving == phase = "recv"

(* every error return of the receive path: nothing more is created *)
Refuse ==
    /\ phase' = "failed" /\ cur' = NoCur
    /\ UNCHANGED <<cfg, plan, pre, fs, nameMap, created, reported, outside, round>>

Accept(e) ==
    /\ cur' = [st |-> "named", e |-> e]
    /\ UNCHANGED <<cfg, plan, pre, fs, nameMap, created, reported, outside, phase, round, exhausted>>

Decoded(e) ==
    IF Len(e.rel) < 1 \/ (Validate = "required" /\ HostileName(e.rel))
    THEN Refuse /\ UNCHANGED exhausted
    ELSE Accept(e)
NextIs(site) == Receiving /\ cur.st = "idle" /\ incoming # <<>> /\ Head(incoming).site = site

(* recvFileName, not directory mode: the payload of NAME is the file name itself *)
RecvPlainName ==
    /\ NextIs("plain")
    /\ incoming' = Tail(incoming)
    /\ Decoded(Head(incoming))

(* recvFileName (directory mode) / recvFileNameV3: unmarshalSourceFile of the NAME payload *)
RecvJsonName ==
    /\ NextIs("json")
    /\ incoming' = Tail(incoming)
    /\ Decoded(Head(incoming))

(* archiveFileWriter.Write: unmarshalSourceFile of an entry header inside the DATA stream *)
ArchiveEntry ==
    /\ NextIs("archive")
    /\ incoming' = Tail(incoming)
    /\ Decoded(Head(incoming))

(* createFile / createDirOrFile, first part: the local top-level name *)
GetNewName ==
    /\ Receiving /\ cur.st = "named"
    /\ LET e == cur.e
           first == e.rel[1]
           mapped == e.site # "plain" /\ e.pid \in DOMAIN nameMap
           local == IF cfg.overwrite THEN first
                    ELSE IF mapped THEN (CHOOSE n \in nameMap[e.pid] : TRUE)
                    ELSE IF ElemLong(first) THEN <<>>          \* "File name too long"
                    ELSE FirstFree(fs, first)
       IN IF local = <<>>
          THEN /\ Refuse
               /\ exhausted' = (exhausted \/ ~ElemLong(first))
               /\ UNCHANGED incoming
          ELSE /\ cur' = [st |-> "local", e |-> e, local |-> local]
               /\ nameMap' = IF cfg.overwrite \/ mapped THEN nameMap
                             ELSE [q \in DOMAIN nameMap \cup {e.pid} |-> IF q = e.pid THEN {local} ELSE nameMap[q]]
               /\ UNCHANGED <<cfg, plan, pre, fs, incoming, created, reported, outside, phase, round, exhausted>>

(* createDirOrFile, second part: the directory that holds the entry *)
Mkdir ==
    /\ Receiving /\ cur.st = "local"
    /\ LET e == cur.e
           n == Len(e.rel)
           p == Join(DestP, <<cur.local>> \o SubSeq(e.rel, 2, n - 1))
       IN IF n > 1
          THEN IF DirErr(fs, p) # "ok" THEN Refuse /\ UNCHANGED <<incoming, exhausted>>
               ELSE /\ SetWorld(EffMkdirAll(World, p))
                    /\ cur' = [st |-> "parent", e |-> e, local |-> cur.local, full |-> Join(p, <<e.rel[n]>>)]
                    /\ UNCHANGED <<cfg, plan, pre, incoming, nameMap, reported, phase, round, exhausted>>
          ELSE /\ cur' = [st |-> "parent", e |-> e, local |-> cur.local, full |-> Join(DestP, <<cur.local>>)]
               /\ UNCHANGED <<cfg, plan, pre, fs, incoming, nameMap, created, reported, outside, phase, round, exhausted>>

Report(e, local) == IF e.site = "archive" \/ \E i \in 1..Len(reported) : reported[i] = local
                    THEN reported ELSE Append(reported, local)

(* doCreateFile / doCreateDirectory / newArchiveWriter on the full path *)
OpenCreate ==
    /\ Receiving /\ cur.st = "parent"
    /\ LET e == cur.e
           trunc == ~(e.site = "json" /\ cfg.proto >= 3)
       IN IF e.arch \/ e.dir
          THEN IF (e.arch /\ ~e.dir) \/ DirErr(fs, cur.full) # "ok"
               THEN Refuse /\ UNCHANGED <<incoming, exhausted>>
               ELSE /\ SetWorld(EffMkdirAll(World, cur.full))
                    /\ incoming' = (IF e.arch THEN e.subs ELSE <<>>) \o incoming
                    /\ reported' = Report(e, cur.local)
                    /\ cur' = NoCur
                    /\ UNCHANGED <<cfg, plan, pre, nameMap, phase, round, exhausted>>
          ELSE IF OpenErr(fs, cur.full) # "ok"
               THEN Refuse /\ UNCHANGED <<incoming, exhausted>>
               ELSE /\ SetWorld(EffOpen(World, cur.full, trunc))
                    /\ reported' = Report(e, cur.local)
                    /\ cur' = [st |-> "open", e |-> e, local |-> cur.local, full |-> cur.full]
                    /\ UNCHANGED <<cfg, plan, pre, incoming, nameMap, phase, round, exhausted>>

Write ==
    /\ Receiving /\ cur.st = "open"
    /\ SetWorld(EffWrite(World, cur.full, cur.e.c))
    /\ cur' = NoCur
    /\ UNCHANGED <<cfg, plan, pre, incoming, nameMap, reported, phase, round, exhausted>>

Finish ==
    /\ Receiving /\ cur.st = "idle" /\ incoming = <<>>
    /\ phase' = "ok"
    /\ UNCHANGED <<cfg, plan, pre, fs, incoming, cur, nameMap, created, reported, outside, round, exhausted>>

(* the user stops and asks for the files of this transfer to be removed *)
DeleteCreated ==
    /\ Receiving /\ cfg.stopdel
    /\ SetWorld(RemoveEach(World, created))
    /\ phase' = "deleted" /\ cur' = NoCur
    /\ UNCHANGED <<cfg, plan, pre, incoming, nameMap, reported, round, exhausted>>

(* the same sources once more into the same destination *)
NextRound ==
    /\ phase = "ok" /\ round < Rounds
    /\ round' = round + 1 /\ phase' = "recv"
    /\ pre' = Strip(fs) /\ fs' = WorldOf(Strip(fs))
    /\ incoming' = plan /\ cur' = NoCur /\ nameMap' = <<>> /\ created' = <<>> /\ reported' = <<>>
    /\ UNCHANGED <<cfg, plan, outside, exhausted>>

Next == Populate \/ RecvPlainName \/ RecvJsonName \/ ArchiveEntry \/ GetNewName \/ Mkdir \/ OpenCreate \/ Write
        \/ Finish \/ DeleteCreated \/ NextRound

Spec == Init /\ [][Next]_vars

-----------------------------------------------------------------------------
(* properties; every operator below is evaluated by TLC on the design and by DestTrace on   *)
(* the state reconstructed from what a real receive did                                      *)
Range(s) == {s[i] : i \in 1..Len(s)}
TopNames(ps) == {<<p[2][1]>> : p \in {q \in ps : Inside(q)}}
UsedNames == UNION {nameMap[q] : q \in DOMAIN nameMap}
PlanTop(q) == LET i == CHOOSE i \in 1..Len(plan) : plan[i].pid = q IN plan[i].rel[1]

TypeOK ==
    /\ phase \in {"init", "recv", "ok", "failed", "deleted"}
    /\ cur.st \in {"idle", "named", "local", "parent", "open"}
    /\ \A p \in DOMAIN fs : fs[p].t \in {"file", "dir"}
    /\ \A p \in Range(created) : p[1] \in 0..Depth

(* C07 *)
Untouched ==
    ~cfg.overwrite => \A p \in DOMAIN pre :
        /\ p \in DOMAIN fs
        /\ fs[p].t = pre[p].t /\ fs[p].c = pre[p].c /\ ~fs[p].touched

FreshTopLevel ==
    ~cfg.overwrite => \A q \in DOMAIN nameMap : \A n \in nameMap[q] :
        /\ (\E i \in 1..Len(plan) : plan[i].pid = q) => IsCand(n, PlanTop(q))
        /\ Join(DestP, <<n>>) \notin DOMAIN pre
        /\ \A r \in DOMAIN nameMap \ {q} : n \notin nameMap[r]

OneNamePerPath ==
    ~cfg.overwrite =>
        /\ \A q \in DOMAIN nameMap : Cardinality(nameMap[q]) <= 1
        /\ TopNames(Range(created)) \subseteq UsedNames

ReportedAreUsed ==
    (~cfg.overwrite /\ phase = "ok") =>
        /\ Range(reported) = UsedNames
        /\ Range(reported) = TopNames(Range(created))
        /\ \A n \in Range(reported) : Join(DestP, <<n>>) \in DOMAIN fs

(* every entry of a path id lies below the one name chosen for it, with the type and content sent *)
RECURSIVE AllEntries(_)
AllEntries(es) == IF es = <<>> THEN {} ELSE {Head(es)} \cup AllEntries(Head(es).subs) \cup AllEntries(Tail(es))
WholeUnderOne ==
    (~cfg.overwrite /\ phase = "ok") => \A e \in AllEntries(plan) :
        /\ e.pid \in DOMAIN nameMap
        /\ \A n \in nameMap[e.pid] :
             LET p == Join(DestP, <<n>> \o Tail(e.rel)) IN
             /\ p \in DOMAIN fs
             /\ fs[p].t = (IF e.dir THEN "dir" ELSE "file")
             /\ ~e.dir => fs[p].c = e.c

NoFreshNameFails == exhausted => phase \in {"recv", "failed"}

(* C09 *)
Confined == outside = {}

-----------------------------------------------------------------------------
(* model values for the configurations (referenced from the .cfg files as CONST <- Def) *)
E(s) == <<s>>
ChainDef == <<"l1", "l2", "l3", "sb", "dst">>
Levels == {<<k, <<>>>> : k \in 0..Len(ChainDef)}
File(c) == [t |-> "file", c |-> c]
Dir == [t |-> "dir", c |-> ""]
BaseWorld == [p \in Levels |-> Dir]
Merge(f, g) == [p \in DOMAIN f \cup DOMAIN g |-> IF p \in DOMAIN g THEN g[p] ELSE f[p]]

(* C07: every top-level name of the universe is absent, a file, an empty directory or a     *)
(* directory with a file and a sub-directory below it                                        *)
Opt(name, o) ==
    LET p == <<0, <<name>>>> IN
    IF o = "file" THEN (p :> File("old-" \o name))
    ELSE IF o = "dir" THEN (p :> Dir)
    ELSE IF o = "dirx" THEN (p :> Dir) @@ (<<0, <<name, "x">>>> :> File("old-" \o name \o "-x")) @@ (<<0, <<name, "s">>>> :> Dir)
    ELSE <<>>
RECURSIVE PreSets(_, _)
PreSets(names, opts) ==
    IF names = <<>> THEN {BaseWorld}
    ELSE {Merge(w, Opt(Head(names), o)) : w \in PreSets(Tail(names), opts), o \in opts}

C07NamesQuick == <<"a", "a.0", "a.1", "d", "d.0">>
C07NamesThorough == <<"a", "a.0", "a.1", "b", "d", "d.0">>
C07PresQuick == PreSets(C07NamesQuick, {"none", "file", "dirx"})
C07PresThorough == PreSets(C07NamesThorough, {"none", "file", "dir", "dirx"})

S(pid, rel, dir, c) == [pid |-> pid, rel |-> rel, dir |-> dir, c |-> c]
SrcFileA == <<S(0, <<E("a")>>, FALSE, "new-a")>>
SrcTwoA == <<S(0, <<E("a")>>, FALSE, "new-a"), S(1, <<E("a")>>, FALSE, "new-a2")>>
SrcFileAB == <<S(0, <<E("a")>>, FALSE, "new-a"), S(1, <<E("b")>>, FALSE, "new-b")>>
SrcDirD == <<S(0, <<E("d")>>, TRUE, ""), S(0, <<E("d"), E("x")>>, FALSE, "new-dx"),
             S(0, <<E("d"), E("s")>>, TRUE, ""), S(0, <<E("d"), E("s"), E("y")>>, FALSE, "new-dsy")>>
SrcDirA == <<S(0, <<E("a")>>, TRUE, ""), S(0, <<E("a"), E("x")>>, FALSE, "new-ax")>>
SrcTwoD == <<S(0, <<E("d")>>, TRUE, ""), S(0, <<E("d"), E("x")>>, FALSE, "new-dx"),
             S(1, <<E("d")>>, TRUE, ""), S(1, <<E("d"), E("y")>>, FALSE, "new-dy")>>
SrcDirAndFile == <<S(0, <<E("d")>>, TRUE, ""), S(0, <<E("d"), E("x")>>, FALSE, "new-dx"),
                   S(1, <<E("a")>>, FALSE, "new-a")>>
SrcEmptyDir == <<S(0, <<E("d")>>, TRUE, "")>>
C07SourcesQuick == {SrcFileA, SrcTwoA, SrcDirD, SrcDirA, SrcTwoD}
C07SourcesThorough == {SrcFileA, SrcTwoA, SrcFileAB, SrcDirD, SrcDirA, SrcTwoD, SrcDirAndFile, SrcEmptyDir}
C07Cfgs == {[overwrite |-> FALSE, directory |-> d, proto |-> p, role |-> "V", stopdel |-> FALSE] :
                d \in BOOLEAN, p \in 1..4}
NoVar == {[hp |-> 0, hd |-> FALSE]}

(* C09: the destination holds x (a file) and sub (a directory); next to it, one level up,   *)
(* a canary file and a canary directory with a file                                          *)
C09World == BaseWorld @@ (<<0, <<"x">>>> :> File("old-x")) @@ (<<0, <<"sub">>>> :> Dir)
            @@ (<<1, <<"canary">>>> :> File("canary")) @@ (<<1, <<"cdir">>>> :> Dir)
            @@ (<<1, <<"cdir", "keep">>>> :> File("keep"))
C09Pres == {C09World}
C09SrcFile == <<S(0, <<E("f")>>, FALSE, "evil")>>
C09SrcDir == <<S(0, <<E("d")>>, TRUE, ""), S(0, <<E("d"), E("f")>>, FALSE, "evil")>>
C09Sources == {C09SrcFile, C09SrcDir}
C09Cfgs == {[overwrite |-> o, directory |-> d, proto |-> p, role |-> r, stopdel |-> s] :
                o \in BOOLEAN, d \in BOOLEAN, p \in 1..4, r \in {"C", "V"}, s \in BOOLEAN}
C09GenCfgs == {c \in C09Cfgs : ~c.stopdel /\ c.role = "V"}
C09Var == {[hp |-> hp, hd |-> hd] : hp \in {0, 1}, hd \in BOOLEAN}
RECURSIVE NamesUpTo(_, _)
NamesUpTo(elems, n) == IF n = 0 THEN {<<>>} ELSE LET s == NamesUpTo(elems, n - 1) IN
                          s \cup {Append(m, e) : m \in {k \in s : Len(k) = n - 1}, e \in elems}
ElemsQuick == {E("x"), E("canary"), E(".."), E(""), E("."), <<"..", "r">>, <<"", "abs", "r">>, E(LONG)}
ElemsThorough == ElemsQuick \cup {E("dst"), <<"q", "r">>, <<"q", "..", "..", "r">>, <<"", "..", "r">>}
C09NamesQuick == (NamesUpTo(ElemsQuick, 2) \ {<<>>})
                 \cup {<<E("x"), E(".."), e>> : e \in ElemsQuick} \cup {<<E(".."), E(".."), e>> : e \in ElemsQuick}
                 \cup {<<E("x"), E(".."), E(".."), E("canary")>>, <<E("x"), E(".."), E(".."), E("y")>>}
C09NamesThorough == (NamesUpTo(ElemsThorough, 3) \ {<<>>})
                 \cup {<<E("x"), E(".."), E(".."), E("canary")>>, <<E("x"), E(".."), E(".."), E("y")>>}
=============================================================================
