------------------------------ MODULE DestTrace ------------------------------
(* Trace validation for Dest: the state of Dest is rebuilt from what a real receive did and  *)
(* Dest's own invariants are evaluated on it.  Events (harness/c07_dest.go), per run:         *)
(*   reset{overwrite,directory,proto,role,stopdel,samepre}   samepre: pre as in the run before *)
(*   src{entries:[{site,pid,rel,dir,c}]}      what the sender announces (rel: elements as atoms)*)
(*   pre{paths:[{up,p,t,c}]}                  snapshot of the sandbox before the receive       *)
(*   name{site,pid,rel,ok,chosen}             a NAME on the wire and the local name replied    *)
(*   made{up,p,t,c} changed{up,p,t,c} gone{up,p}   snapshot difference after the receive       *)
(*                                            (created / content, type or mtime differs / removed)*)
(*   reported{names}                          the names shown to the user                      *)
(*   ret{res}                                 ok | failed | deleted (the receiver's outcome)   *)
(* The effects are applied as observed (the code cannot be hooked from outside): made ->     *)
(* the path is added to fs and created; changed -> fs[p] is replaced and marked touched;      *)
(* gone -> removed; each adds to `outside` when the path is not inside the destination.       *)
EXTENDS Dest, Json, IOUtils, TLCExt

TraceLog == ndJsonDeserialize(IOEnv.VERIF_TRACE)

VARIABLE l
tvars == <<vars, l>>

Ev == TraceLog[l]
More == l <= Len(TraceLog)
IsEvent(e) == More /\ Ev.e = e /\ l' = l + 1

Cfg0 == [overwrite |-> FALSE, directory |-> FALSE, proto |-> 4, role |-> "V", stopdel |-> FALSE]

TInit ==
    /\ cfg = Cfg0 /\ plan = <<>> /\ pre = <<>> /\ fs = <<>> /\ incoming = <<>> /\ cur = NoCur
    /\ nameMap = <<>> /\ created = <<>> /\ reported = <<>> /\ outside = {} /\ phase = "recv"
    /\ round = 1 /\ exhausted = FALSE /\ l = 1

TReset ==
    /\ IsEvent("reset")
    /\ cfg' = [overwrite |-> Ev.overwrite, directory |-> Ev.directory, proto |-> Ev.proto, role |-> Ev.role,
               stopdel |-> Ev.stopdel]
    /\ plan' = <<>> /\ nameMap' = <<>> /\ created' = <<>> /\ reported' = <<>>
    /\ pre' = (IF Ev.samepre THEN pre ELSE <<>>)       \* same sandbox content as in the previous run
    /\ fs' = WorldOf(pre')
    /\ outside' = {} /\ phase' = "recv" /\ exhausted' = FALSE
    /\ UNCHANGED <<incoming, cur, round>>

TSrc ==
    /\ IsEvent("src") /\ phase = "recv"
    /\ plan' = [i \in 1..Len(Ev.entries) |->
                   [site |-> Ev.entries[i].site, pid |-> Ev.entries[i].pid, rel |-> Ev.entries[i].rel,
                    dir |-> Ev.entries[i].dir, arch |-> FALSE, c |-> Ev.entries[i].c, subs |-> <<>>]]
    /\ UNCHANGED <<cfg, pre, fs, incoming, cur, nameMap, created, reported, outside, phase, round, exhausted>>

TPre ==
    /\ IsEvent("pre") /\ phase = "recv"
    /\ LET ps == Ev.paths
           idx(p) == CHOOSE i \in 1..Len(ps) : <<ps[i].up, ps[i].p>> = p
       IN pre' = [p \in {<<ps[i].up, ps[i].p>> : i \in 1..Len(ps)} |-> [t |-> ps[idx(p)].t, c |-> ps[idx(p)].c]]
    /\ fs' = WorldOf(pre')
    /\ UNCHANGED <<cfg, plan, incoming, cur, nameMap, created, reported, outside, phase, round, exhausted>>

(* every candidate of the fresh-name search is taken: by something that was there before or *)
(* by a name this receive already chose                                                      *)
AllTaken(first) == \A c \in CandSet(first) : ~Free(fs, c) \/ c \in UsedNames

TName ==
    /\ IsEvent("name") /\ phase = "recv"
    /\ LET mapped == Ev.site # "plain" /\ Ev.pid \in DOMAIN nameMap IN
       /\ nameMap' = IF Ev.ok
                     THEN [q \in DOMAIN nameMap \cup {Ev.pid} |->
                              IF q = Ev.pid THEN (IF mapped THEN nameMap[q] ELSE {}) \cup {Ev.chosen} ELSE nameMap[q]]
                     ELSE nameMap
       /\ exhausted' = (exhausted \/ (~cfg.overwrite /\ ~mapped /\ Len(Ev.rel) >= 1 /\ ~HostileName(Ev.rel)
                                      /\ ~ElemLong(Ev.rel[1]) /\ AllTaken(Ev.rel[1])))
    /\ UNCHANGED <<cfg, plan, pre, fs, incoming, cur, created, reported, outside, phase, round>>

TMade ==
    /\ IsEvent("made") /\ phase = "recv"
    /\ LET p == <<Ev.up, Ev.p>> IN
       /\ fs' = Extend(fs, p, [t |-> Ev.t, c |-> Ev.c, touched |-> TRUE])
       /\ created' = Append(created, p)
       /\ outside' = Out(outside, {p})
    /\ UNCHANGED <<cfg, plan, pre, incoming, cur, nameMap, reported, phase, round, exhausted>>

TChanged ==
    /\ IsEvent("changed") /\ phase = "recv"
    /\ LET p == <<Ev.up, Ev.p>> IN
       /\ p \in DOMAIN fs
       /\ fs' = [fs EXCEPT ![p] = [t |-> Ev.t, c |-> Ev.c, touched |-> TRUE]]
       /\ outside' = Out(outside, {p})
    /\ UNCHANGED <<cfg, plan, pre, incoming, cur, nameMap, created, reported, phase, round, exhausted>>

TGone ==
    /\ IsEvent("gone") /\ phase = "recv"
    /\ LET p == <<Ev.up, Ev.p>> IN
       /\ p \in DOMAIN fs
       /\ fs' = [q \in DOMAIN fs \ {p} |-> fs[q]]
       /\ outside' = Out(outside, {p})
    /\ UNCHANGED <<cfg, plan, pre, incoming, cur, nameMap, created, reported, phase, round, exhausted>>

TReported ==
    /\ IsEvent("reported") /\ phase = "recv"
    /\ reported' = Ev.names
    /\ UNCHANGED <<cfg, plan, pre, fs, incoming, cur, nameMap, created, outside, phase, round, exhausted>>

TRet ==
    /\ IsEvent("ret") /\ phase = "recv"
    /\ Ev.res \in {"ok", "failed", "deleted"}
    /\ phase' = Ev.res
    /\ UNCHANGED <<cfg, plan, pre, fs, incoming, cur, nameMap, created, reported, outside, round, exhausted>>

TNext == TReset \/ TSrc \/ TPre \/ TName \/ TMade \/ TChanged \/ TGone \/ TReported \/ TRet
TSpec == TInit /\ [][TNext]_tvars

HW == IF l > TLCGet(1) THEN TLCSet(1, l) ELSE TRUE
ASSUME TLCSet(1, 0)
Accepted == IF TLCGet(1) = Len(TraceLog) + 1 THEN TRUE
            ELSE PrintT("HW " \o ToString(TLCGet(1))) /\ FALSE
=============================================================================
