---------------------------- MODULE DetectorGen ----------------------------
(* Test-case generator for Detector (model-based testing, spec -> implementation).           *)
(* A behaviour is one session: role and Windows switch chosen at Init, then a sequence of     *)
(* chunks; for every chunk the history records the tokens (control-mode framing spelled out   *)
(* as CtlPrefix tokens in front of every trigger-ish token) and what the specification        *)
(* expects: fires?, the fields of the transfer started, how many ids are remembered; the      *)
(* remembered ids themselves are exported at the end.  harness/c06_detector.go (c06_mbt)      *)
(* renders the tokens with seeded concrete parameters and replays them into a real            *)
(* trzszDetector and a real TrzszFilter.                                                      *)
(*  GSpec   : every chunk of the alphabet (exhaustive, BFS, small constants)                  *)
(*  RSpec   : chunks drawn with RandomElement (for -simulate: rich alphabets, long histories) *)
(* Inputs on which the property does not decide the outcome are not generated (Decided).      *)
EXTENDS Detector, Json, TLCExt

Ts200 == 1..200

VARIABLES hist, done
gvars == <<vars, hist, done>>

(* not decided by the property text, hence never demanded:                                    *)
(*  - control-mode framing + tunnel connector + advertised port 0 (":0" is what the servers   *)
(*    print when they could not listen)                                                       *)
(* decided by the property, but checked separately (c06_tv, class "lookahead") because the    *)
(* byte distance matters: a finished-marker right behind a trigger line shorter than the      *)
(* look-ahead (absent / short id)                                                             *)
NearFinAfterShort(c) ==
    LET i == LastOcc(c.toks) IN
    /\ i > 0 /\ c.toks[i].t = "trig" /\ c.toks[i].shape \in {"none", "short"}
    /\ \E j \in (i + 1)..Len(c.toks) : c.toks[j].t = "fin" /\ c.toks[j].place = "near"

Decided(c, tun) ==
    /\ ~(Framed(c) /\ tun /\ LastOcc(c.toks) > 0 /\ c.toks[LastOcc(c.toks)].t = "trig"
         /\ c.toks[LastOcc(c.toks)].port = 0)
    /\ ~NearFinAfterShort(c)

CtlTok(kind) == [t |-> "ctl", kind |-> kind]
RECURSIVE Flat(_, _)
Flat(ctl, toks) ==
    IF toks = <<>> THEN <<>>
    ELSE LET h == Head(toks) IN
         (IF ctl # "none" /\ h.t \in {"trig", "part"} THEN <<CtlTok(ctl), h>> ELSE <<h>>) \o Flat(ctl, Tail(toks))

Expect(c, tun) ==
    LET o == Out(c, tun) IN
    [ctl |-> c.ctl, tun |-> tun, toks |-> Flat(c.ctl, c.toks),
     fired |-> o.fired, mode |-> o.mode, ver |-> o.ver, ts |-> o.ts, sfx |-> o.sfx, port |-> o.port,
     why |-> o.why, memlen |-> Len(o.mem)]

GInit == Init /\ hist = <<>> /\ done = FALSE

GStep(c, tun) ==
    /\ Decided(c, tun)
    /\ Step(c, tun)
    /\ hist' = Append(hist, Expect(c, tun))
    /\ UNCHANGED done

Finish == /\ n > 0 /\ done' = TRUE /\ UNCHANGED <<vars, hist>>

GNext ==
    /\ ~done
    /\ \/ (\E c \in Chunks, tun \in BOOLEAN : GStep(c, tun))
       \/ Finish

GSpec == GInit /\ [][GNext]_gvars

(* random chunks: one successor per step (RandomElement is bound through singleton sets so    *)
(* that each draw is made once)                                                                *)
RNext ==
    /\ ~done
    /\ IF n >= MaxChunks THEN Finish
       ELSE \E k \in {RandomElement(1..MaxToks)}, f \in {RandomElement(CtlKinds)}, tun \in {RandomElement(BOOLEAN)} :
            \E t1 \in {RandomElement(Tokens)}, t2 \in {RandomElement(Tokens)},
               t3 \in {RandomElement(Tokens)}, t4 \in {RandomElement(Tokens)} :
               LET c == [ctl |-> f, toks |-> SubSeq(<<t1, t2, t3, t4>>, 1, k)] IN
               IF Decided(c, tun) THEN GStep(c, tun) ELSE UNCHANGED gvars

RSpec == GInit /\ [][RNext]_gvars

Export == done => PrintT("MBT " \o ToJson([role |-> role, win |-> win, steps |-> hist, mem |-> mem]))
=============================================================================
