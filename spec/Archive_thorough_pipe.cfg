SPECIFICATION Spec
CONSTANTS
  MaxEntries = 2
  HdrLens = {1, 2, 3}
  Sizes = {0, 1, 2, 3}
  ReadSizes = {1, 2, 3, 4}
  MaxWrite = 14
  MaxResize = 1
  WithGrow = TRUE
  Pipelined = TRUE
INVARIANTS TypeOK AnnouncedIsProduced ProducedIsCanonical HeaderNeverInPayload OneOpenFile
           ShrinkIsError WrittenIsPrefix Reconstructed
CHECK_DEADLOCK FALSE
