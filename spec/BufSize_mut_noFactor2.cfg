\* receiver bound without the factor 2: protocol 1 escapes after chunking
SPECIFICATION Spec
CONSTANTS
  Floor = 1024
  P1Start = 1024
  InitSize = 10240
  HardCap = 1073741824
  BoundFloor = 1048576
  SendCap = 1
  AckCap = 1
  MaxBufs = {4194304}
  Modes = {"bin"}
  Protos = {1}
  Secs = {2}
  MaxChunks = 1
  P1MaxChunks = 13
  MaxFiles = 1
  MaxPauses = 0
  StartSizes = {}
  Variant = "noFactor2"
INVARIANTS TypeOK SizeInRange ChunksInRange NeverRejectedByReceiver NothingQueuedIsRejected ProbeEndsOnce
  TokenPaired EncoderNotStuck OneChunkWhileProbing DoubleOnlyWhenAllowed ShrinkOnlyWhenSlow
  SuspendedAfterPause ProbeEndedBy
CHECK_DEADLOCK TRUE
