SPECIFICATION Spec
CONSTANTS
  CliChunks <- CliFb
  SrvChunks <- SrvFb
  Pairs <- P1
  PairRound <- R9
  CliTun <- CT1
  SrvTun <- ST1
  Confirm <- Yes1
  ParkRule = "real"
  FlushRoute = "real"
  UseCAS = TRUE
  ClearTC = TRUE
  SpinOnError = TRUE
  SrvErrEOF = FALSE
  Window = FALSE
  LateOK = FALSE
  Closing = FALSE
INVARIANTS TunnelOrder TunnelNotInband InbandIgnoredWhileTunnel InbandOrder AtMostOneTunnelRelay BoundIsCurrent
  TunnelNothingLost InbandNothingLost TunnelNoJunk LoserClosed ResetClean ParkOnlyWhileHandshaking
PROPERTIES Progress
CHECK_DEADLOCK FALSE
