------------------------------- MODULE Filter -------------------------------
(* trzsz/filter.go as a set of processes around two byte pumps (property C05: the wrapper *)
(* is transparent whenever no transfer / zmodem session / drag upload is in progress).     *)
(*                                                                                          *)
(*   OutPump   wrapOutput: one loop turn = OutRead (serverOut.Read returns a chunk),        *)
(*             OutToTransfer | OutScan (the `filter.transfer.Load()` decision),             *)
(*             OutForward (trace logger, zmodem session, OSC52, detector, interrupting,     *)
(*             skipUploadCommand, detectZmodem, writeAll - in the code's order), OutLoop    *)
(*   InPump    wrapInput/sendInput: InRead, InSend (promptPipe, transfer, zmodem, drag,     *)
(*             writeAll - in the code's order), InLoop                                      *)
(*   Handler   the goroutine started by `go filter.handleTrzsz()`: HRefuse (chooser         *)
(*             cancelled -> sendAction(false)), HChooseFail, HCAS (CompareAndSwap(nil,t)),  *)
(*             HEnd(how), HExit (the deferred CompareAndSwap(t,nil)); StopAPI               *)
(*             (StopTransferringFiles), PromptEnd (confirmStopTransfer's goroutine)         *)
(*   ZSession  zmodemTransfer flags: active -> stopped -> cleaned, dropped by OutForward    *)
(*   Drag      addDragFiles/uploadDragFiles: pending -> interrupting -> command -> idle     *)
(*   Main      trzsz.go: ChildExits(code), WrapperReturns                                   *)
(*                                                                                          *)
(* The pumps decide on FLAGS (transferPtr, zs, interrupting, skipCmd, logging, prompt);     *)
(* the property is stated on SESSIONS (hpc, zs, drag).  Every finished turn leaves an entry *)
(* [chunk, image, idle, expected]: `idle` is the property's antecedent evaluated on the     *)
(* session state at the moment of the decision, `expected` the image the property demands.  *)
EXTENDS Integers, Sequences, FiniteSets, TLC

CONSTANTS MaxOut, MaxIn,       \* chunks fed per direction
          MaxXfer, MaxZ, MaxDrag, \* triggers / zmodem headers / drops fed
          FeedOut, FeedIn,     \* chunk kinds the environment feeds
          OptSets,             \* option sets explored
          ExitCodes,           \* exit codes of the wrapped command
          EchoAssumed          \* the server's tty echoes the drag upload command (environment assumption)

NULL == "null"
NoExit == -1      \* "has not exited" (exit codes are integers)
AllOpts == [drag : BOOLEAN, zmodem : BOOLEAN, osc52 : BOOLEAN, tlog : BOOLEAN]

(* Output kinds.  Inert kinds are bytes "short of a genuine trigger": random binary, escape  *)
(* sequences, near-miss triggers, zmodem-like fragments, OSC52 pieces, near-miss trace-log   *)
(* markers, protocol lines and last words of a server whose client has already gone.         *)
InertOut == {"plain", "near", "zmlike", "osc52", "neartl", "proto", "srvmsg"}
OutKinds == InertOut \cup {"cmdlike",     \* text equal to the drag upload command ("trz")
                           "zmcancel",    \* genuine zmodem header together with a cancel sequence: no session
                           "zmhdr",       \* genuine zmodem header
                           "tlmark", "tlmarkoff", \* <ENABLE_/DISABLE_TRZSZ_TRACE_LOG>
                           "trig"}        \* genuine trigger
InKinds  == {"plain", "ctrlc", "pathnon", "pathex"}
Hows     == {"success", "fail", "cancel", "refused"}

VARIABLES opts,
          transferPtr, hpc, stopReq, prompt,
          zs,
          drag, dragging, interrupting, skipCmd,
          logging,
          pcOut, curOut, pcIn, curIn,
          nOut, nIn, nTrig, nZ, nDrag,
          lastOut, lastIn, history,
          childExit, wrapExit, lastWords

(* `history` holds the outcome of the handler that exited last ("none" before the first): the   *)
(* sequences of outcomes are the paths of the state graph, not part of the state.              *)
hvars == <<transferPtr, hpc, stopReq, prompt>>
dvars == <<drag, dragging, interrupting, skipCmd>>
svars == <<logging>>
ovars == <<pcOut, curOut, nOut, lastOut>>
ivars == <<pcIn, curIn, nIn, lastIn>>
cvars == <<nTrig, nZ, nDrag>>
mvars == <<childExit, wrapExit, lastWords>>
vars == <<opts, hvars, zs, dvars, svars, ovars, ivars, cvars, history, mvars>>

Img(pre, body, post) == [pre |-> pre, body |-> body, post |-> post]
NoImg == Img(FALSE, "none", FALSE)
NoChunk == [k |-> "none", id |-> 0]
NoEntry == [id |-> 0, img |-> NoImg, ok |-> TRUE]

-----------------------------------------------------------------------------
(* Sessions: the property's antecedent.                                                      *)
OutSessionIdle == hpc = "none" /\ zs \in {"none", "cleaned"} /\ drag = "idle"
InSessionIdle  == hpc = "none" /\ zs \in {"none", "cleaned"}
FullyIdle      == hpc = "none" /\ zs = "none" /\ drag = "idle" /\ prompt = "none"
ModePass       == /\ hpc = "none" /\ transferPtr = NULL /\ prompt = "none"
                  /\ zs \in {"none", "cleaned"} /\ drag = "idle"

(* What the property demands for an output chunk of kind k while no session is active.  The  *)
(* documented exceptions: a genuine trigger is shown rewritten (body "other", C06), the      *)
(* trace-log switch is replaced by a message when the option is on, a genuine zmodem header  *)
(* starts a session (cursor hidden after it, C19), and the first chunk after a zmodem        *)
(* session has been cleaned up is preceded by show-cursor.                                   *)
Switches(k) == \/ k = "tlmark" /\ opts.tlog /\ ~logging
               \/ k = "tlmarkoff" /\ opts.tlog /\ logging
ExpOut(k) == Img(zs = "cleaned",
                 IF k = "trig" \/ Switches(k) THEN "other" ELSE "same",
                 k = "zmhdr" /\ opts.zmodem)

-----------------------------------------------------------------------------
Init ==
    /\ opts \in OptSets
    /\ transferPtr = NULL /\ hpc = "none" /\ stopReq = FALSE /\ prompt = "none"
    /\ zs = "none"
    /\ drag = "idle" /\ dragging = FALSE /\ interrupting = FALSE /\ skipCmd = FALSE
    /\ logging = FALSE
    /\ pcOut = "read" /\ curOut = NoChunk /\ pcIn = "read" /\ curIn = NoChunk
    /\ nOut = 0 /\ nIn = 0 /\ nTrig = 0 /\ nZ = 0 /\ nDrag = 0
    /\ lastOut = NoEntry /\ lastIn = NoEntry /\ history = "none"
    /\ childExit = NoExit /\ wrapExit = NoExit /\ lastWords = TRUE

(* a fresh filter with option set o (used by the trace spec to start the next recorded run) *)
Reset(o) ==
    /\ opts' = o
    /\ transferPtr' = NULL /\ hpc' = "none" /\ stopReq' = FALSE /\ prompt' = "none"
    /\ zs' = "none"
    /\ drag' = "idle" /\ dragging' = FALSE /\ interrupting' = FALSE /\ skipCmd' = FALSE
    /\ logging' = FALSE
    /\ pcOut' = "read" /\ curOut' = NoChunk /\ pcIn' = "read" /\ curIn' = NoChunk
    /\ nOut' = 0 /\ nIn' = 0 /\ nTrig' = 0 /\ nZ' = 0 /\ nDrag' = 0
    /\ lastOut' = NoEntry /\ lastIn' = NoEntry /\ history' = "none"
    /\ childExit' = NoExit /\ wrapExit' = NoExit /\ lastWords' = TRUE

-----------------------------------------------------------------------------
(* OutPump = wrapOutput                                                                      *)

OutRead(c) ==
    /\ pcOut = "read"
    /\ pcOut' = "dispatch" /\ curOut' = c
    /\ nTrig' = IF c.k = "trig" THEN nTrig + 1 ELSE nTrig
    /\ nOut' = IF c.k = "trig" \/ (c.k = "zmhdr" /\ opts.zmodem) THEN nOut ELSE nOut + 1
    /\ UNCHANGED <<opts, hvars, zs, dvars, svars, lastOut, ivars, nZ, nDrag, history, mvars>>

(* the entry of a finished turn: ok = (no session active => the image is the one demanded) *)
OutEntry(img, exp) == [id |-> curOut.id, img |-> img, ok |-> (OutSessionIdle => img = exp)]

(* `if transfer := filter.transfer.Load(); transfer != nil { transfer.addReceivedData(buf) }` *)
OutToTransfer ==
    /\ pcOut = "dispatch" /\ transferPtr # NULL
    /\ lastOut' = OutEntry(NoImg, ExpOut(curOut.k))
    /\ pcOut' = "done"
    /\ UNCHANGED <<opts, hvars, zs, dvars, svars, curOut, nOut, ivars, cvars, history, mvars>>

OutScan ==
    /\ pcOut = "dispatch" /\ transferPtr = NULL
    /\ pcOut' = "forward"
    /\ UNCHANGED <<opts, hvars, zs, dvars, svars, curOut, nOut, lastOut, ivars, cvars, history, mvars>>

(* The rest of the loop turn, in the code's order.                                           *)
OutForward ==
    /\ pcOut = "forward"
    /\ pcOut' = "done"
    /\ LET k   == curOut.k
           exp == ExpOut(k)
           sw  == Switches(k)
           (* zmodem session branch: swallowed by the session, or the session is dropped *)
           swallowedByZ == opts.zmodem /\ (zs = "stopped" \/ (zs = "active" /\ k # "zmcancel"))
           droppedZ     == opts.zmodem /\ (zs = "cleaned" \/ (zs = "active" /\ k = "zmcancel"))
           pre          == droppedZ
           zs1          == IF droppedZ THEN "none" ELSE zs
       IN
       /\ logging' = IF sw THEN ~logging ELSE logging
       /\ IF swallowedByZ
          THEN /\ lastOut' = OutEntry(NoImg, exp)
               /\ UNCHANGED <<zs, hpc, skipCmd, nZ>>
          ELSE (* detectOSC52 only looks (clipboard); it never changes what is forwarded *)
               /\ IF k = "trig"
                  THEN (* detector fires: shown locally, `go filter.handleTrzsz()` *)
                       /\ lastOut' = OutEntry(Img(pre, "other", FALSE), exp)
                       /\ hpc' = "spawned" /\ zs' = zs1
                       /\ UNCHANGED <<skipCmd, nZ>>
                  ELSE IF interrupting
                  THEN /\ lastOut' = OutEntry(Img(pre, "none", FALSE), exp)
                       /\ zs' = zs1 /\ UNCHANGED <<hpc, skipCmd, nZ>>
                  ELSE IF skipCmd /\ k = "cmdlike"
                  THEN /\ skipCmd' = FALSE
                       /\ lastOut' = OutEntry(Img(pre, "crlf", FALSE), exp)
                       /\ zs' = zs1 /\ UNCHANGED <<hpc, nZ>>
                  ELSE /\ skipCmd' = FALSE
                       /\ UNCHANGED hpc
                       /\ IF opts.zmodem /\ k = "zmhdr" /\ zs1 = "none"
                          THEN /\ zs' = "active" /\ nZ' = nZ + 1
                               /\ lastOut' = OutEntry(Img(pre, IF sw THEN "other" ELSE "same", TRUE), exp)
                          ELSE /\ zs' = zs1 /\ nZ' = nZ
                               /\ lastOut' = OutEntry(Img(pre, IF sw THEN "other" ELSE "same", FALSE), exp)
    /\ UNCHANGED <<opts, transferPtr, stopReq, prompt, drag, dragging, interrupting,
                   curOut, nOut, ivars, nTrig, nDrag, history, mvars>>

OutLoop ==       \* the pump calls Read again: the turn is over
    /\ pcOut = "done" /\ pcOut' = "read"
    /\ lastOut' = NoEntry /\ curOut' = NoChunk
    /\ UNCHANGED <<opts, hvars, zs, dvars, svars, nOut, ivars, cvars, history, mvars>>

-----------------------------------------------------------------------------
(* InPump = wrapInput / sendInput                                                            *)

InRead(c) ==
    /\ pcIn = "read"
    /\ pcIn' = "send" /\ curIn' = c
    /\ nIn' = IF c.k = "pathex" /\ opts.drag THEN nIn ELSE nIn + 1
    /\ UNCHANGED <<opts, hvars, zs, dvars, svars, ovars, lastIn, cvars, history, mvars>>

(* towards the server: unmodified; with drag detection a list of existing paths may be taken *)
InEntry(img) == [id |-> curIn.id, img |-> img,
                 ok |-> (InSessionIdle => \/ img = Img(FALSE, "same", FALSE)
                                          \/ curIn.k = "pathex" /\ opts.drag /\ img = NoImg)]

InSend ==
    /\ pcIn = "send"
    /\ pcIn' = "done"
    /\ LET k == curIn.k IN
       IF prompt # "none"
       THEN (* transformPromptInput: keys go to the stop prompt *)
            /\ lastIn' = InEntry(NoImg)
            /\ IF prompt = "open" /\ k = "ctrlc" THEN prompt' = "stop"
               ELSE IF prompt = "open" /\ k = "plain" THEN prompt' \in {"open", "stop", "cont"}
               ELSE prompt' = prompt
            /\ UNCHANGED <<zs, drag, dragging, nDrag>>
       ELSE IF transferPtr # NULL
       THEN (* only Ctrl-C means something during a transfer: confirmStopTransfer *)
            /\ lastIn' = InEntry(NoImg)
            /\ prompt' = IF k = "ctrlc" THEN "open" ELSE prompt
            /\ UNCHANGED <<zs, drag, dragging, nDrag>>
       ELSE IF opts.zmodem /\ zs \in {"active", "stopped"}
       THEN (* zmodem.isTransferringFiles(): swallowed; Ctrl-C stops the session (cancel sequence sent) *)
            /\ lastIn' = InEntry(IF k = "ctrlc" /\ zs = "active" THEN Img(FALSE, "other", FALSE) ELSE NoImg)
            /\ zs' = IF k = "ctrlc" THEN "stopped" ELSE zs
            /\ UNCHANGED <<prompt, drag, dragging, nDrag>>
       ELSE IF opts.drag /\ k = "pathex"
       THEN (* detectDragFiles: entirely a list of existing paths -> addDragFiles, not sent *)
            /\ lastIn' = InEntry(NoImg)
            /\ dragging' = TRUE /\ nDrag' = nDrag + 1
            /\ drag' = IF drag = "idle" THEN "pending" ELSE drag
            /\ UNCHANGED <<prompt, zs>>
       ELSE /\ lastIn' = InEntry(Img(FALSE, "same", FALSE))
            /\ dragging' = IF opts.drag THEN FALSE ELSE dragging    \* resetDragFiles
            /\ UNCHANGED <<prompt, zs, drag, nDrag>>
    /\ UNCHANGED <<opts, transferPtr, hpc, stopReq, interrupting, skipCmd, svars, ovars,
                   curIn, nIn, nTrig, nZ, history, mvars>>

InLoop ==
    /\ pcIn = "done" /\ pcIn' = "read"
    /\ lastIn' = NoEntry /\ curIn' = NoChunk
    /\ UNCHANGED <<opts, hvars, zs, dvars, svars, ovars, nIn, cvars, history, mvars>>

-----------------------------------------------------------------------------
(* Handler = handleTrzsz and its worker goroutine                                            *)

HRefuse ==       \* chooser cancelled: sendAction(false); the pointer is never set
    /\ hpc = "spawned"
    /\ hpc' = "ending" /\ history' = "refused"
    /\ UNCHANGED <<opts, transferPtr, stopReq, prompt, zs, dvars, svars, ovars, ivars, cvars, mvars>>

HChooseFail ==   \* chooser / path check fails before the pointer is set
    /\ hpc = "spawned"
    /\ hpc' = "ending" /\ history' = "fail"
    /\ UNCHANGED <<opts, transferPtr, stopReq, prompt, zs, dvars, svars, ovars, ivars, cvars, mvars>>

HCAS ==          \* filter.transfer.CompareAndSwap(nil, transfer); dragged files are taken over
    /\ hpc = "spawned" /\ transferPtr = NULL
    /\ transferPtr' = "t" /\ hpc' = "active"
    /\ dragging' \in (IF dragging THEN {TRUE, FALSE} ELSE {FALSE})
    /\ UNCHANGED <<opts, stopReq, prompt, zs, drag, interrupting, skipCmd, svars, ovars, ivars, cvars, history, mvars>>

HEnd(how) ==     \* uploadFiles / downloadFiles return (clientExit, clientError)
    /\ hpc = "active" /\ how \in {"success", "fail", "cancel"}
    /\ how = "cancel" => stopReq
    /\ hpc' = "ending" /\ history' = how
    /\ UNCHANGED <<opts, transferPtr, stopReq, prompt, zs, dvars, svars, ovars, ivars, cvars, mvars>>

HExit ==         \* `defer filter.transfer.CompareAndSwap(transfer, nil)`; nothing of the session may outlive it
    /\ hpc = "ending"
    /\ transferPtr' = NULL /\ hpc' = "none" /\ stopReq' = FALSE /\ prompt' = "none"
    /\ UNCHANGED <<opts, zs, dvars, svars, ovars, ivars, cvars, history, mvars>>

StopAPI ==       \* filter.StopTransferringFiles
    /\ transferPtr # NULL /\ ~stopReq
    /\ stopReq' = TRUE
    /\ UNCHANGED <<opts, transferPtr, hpc, prompt, zs, dvars, svars, ovars, ivars, cvars, history, mvars>>

PromptEnd ==     \* prompt.Run() returned: stop / resume, promptPipe.Store(nil)
    /\ prompt \in {"stop", "cont"}
    /\ prompt' = "none"
    /\ stopReq' = IF prompt = "stop" /\ transferPtr # NULL THEN TRUE ELSE stopReq
    /\ UNCHANGED <<opts, transferPtr, hpc, zs, dvars, svars, ovars, ivars, cvars, history, mvars>>

-----------------------------------------------------------------------------
(* ZSession                                                                                  *)
ZStop ==         \* helper cannot be launched / exits / error: stopped := true
    /\ zs = "active" /\ zs' = "stopped"
    /\ UNCHANGED <<opts, hvars, dvars, svars, ovars, ivars, cvars, history, mvars>>

ZCleanup ==      \* cleanup timer: cleaned := true, "\r" to the server
    /\ zs = "stopped" /\ zs' = "cleaned"
    /\ UNCHANGED <<opts, hvars, dvars, svars, ovars, ivars, cvars, history, mvars>>

-----------------------------------------------------------------------------
(* Drag = uploadDragFiles goroutine                                                          *)
DragAbort ==     \* `if !filter.dragging.Load() { return }`
    /\ drag = "pending" /\ ~dragging /\ drag' = "idle"
    /\ UNCHANGED <<opts, hvars, zs, dragging, interrupting, skipCmd, svars, ovars, ivars, cvars, history, mvars>>

DragInterrupt == \* interrupting := true; Ctrl-C to the server
    /\ drag = "pending" /\ dragging
    /\ drag' = "interrupting" /\ interrupting' = TRUE
    /\ UNCHANGED <<opts, hvars, zs, dragging, skipCmd, svars, ovars, ivars, cvars, history, mvars>>

DragCommand ==   \* interrupting := false; skipUploadCommand := true; "trz\r" to the server
    /\ drag = "interrupting"
    /\ drag' = "command" /\ interrupting' = FALSE /\ skipCmd' = TRUE
    /\ UNCHANGED <<opts, hvars, zs, dragging, svars, ovars, ivars, cvars, history, mvars>>

DragReset ==     \* 3 s later: resetDragFiles
    /\ drag = "command"
    /\ EchoAssumed => ~skipCmd
    /\ drag' = "idle" /\ dragging' = FALSE
    /\ UNCHANGED <<opts, hvars, zs, interrupting, skipCmd, svars, ovars, ivars, cvars, history, mvars>>

(* environment: the tty echo of the typed command *)
EchoArrives ==
    /\ EchoAssumed /\ drag = "command" /\ skipCmd
    /\ childExit = NoExit /\ pcOut = "read"
    /\ curOut' = [k |-> "cmdlike", id |-> 0] /\ pcOut' = "dispatch"     \* not counted against the budget
    /\ UNCHANGED <<opts, hvars, zs, dvars, svars, nOut, lastOut, ivars, cvars, history, mvars>>

-----------------------------------------------------------------------------
(* Main = TrzszMain: `pty.Wait(); return pty.ExitCode()`                                     *)
ChildExits(code) ==
    /\ childExit = NoExit /\ FullyIdle /\ pcIn = "read" /\ pcOut = "read"
    /\ childExit' = code
    /\ UNCHANGED <<opts, hvars, zs, dvars, svars, ovars, ivars, cvars, history, wrapExit, lastWords>>

WrapperReturns ==   \* everything the child said has been forwarded, its status is passed on
    /\ childExit # NoExit /\ wrapExit = NoExit /\ pcOut = "read"
    /\ wrapExit' = childExit
    /\ UNCHANGED <<opts, hvars, zs, dvars, svars, ovars, ivars, cvars, history, childExit, lastWords>>

-----------------------------------------------------------------------------
(* budgets: MaxOut / MaxIn probes, MaxXfer triggers, MaxZ zmodem headers, MaxDrag drops *)
FeedOutOK(k) ==
    /\ childExit = NoExit
    /\ IF k = "trig" THEN hpc = "none" /\ nTrig < MaxXfer
       ELSE IF k = "zmhdr" /\ opts.zmodem THEN nZ < MaxZ
       ELSE nOut < MaxOut
FeedInOK(k) ==
    /\ childExit = NoExit
    /\ IF k = "pathex" /\ opts.drag THEN nDrag < MaxDrag ELSE nIn < MaxIn

Pumps == OutToTransfer \/ OutScan \/ OutForward \/ OutLoop \/ InSend \/ InLoop
Handler == HRefuse \/ HChooseFail \/ HCAS \/ (\E how \in Hows : HEnd(how)) \/ HExit \/ PromptEnd
Sessions == ZStop \/ ZCleanup \/ DragAbort \/ DragInterrupt \/ DragCommand \/ DragReset \/ EchoArrives

Next ==
    \/ \E k \in FeedOut : FeedOutOK(k) /\ OutRead([k |-> k, id |-> 0])
    \/ \E k \in FeedIn : FeedInOK(k) /\ InRead([k |-> k, id |-> 0])
    \/ Pumps \/ Handler \/ StopAPI \/ Sessions
    \/ \E c \in ExitCodes : ChildExits(c)
    \/ WrapperReturns

Spec == Init /\ [][Next]_vars
FairSpec == Spec /\ WF_vars(Pumps) /\ WF_vars(Handler) /\ WF_vars(Sessions) /\ WF_vars(WrapperReturns)

-----------------------------------------------------------------------------
(* Properties (C05)                                                                          *)

TypeOK ==
    /\ opts \in AllOpts
    /\ transferPtr \in {NULL, "t"} /\ hpc \in {"none", "spawned", "active", "ending"}
    /\ prompt \in {"none", "open", "stop", "cont"}
    /\ zs \in {"none", "active", "stopped", "cleaned"}
    /\ drag \in {"idle", "pending", "interrupting", "command"}
    /\ pcOut \in {"read", "dispatch", "forward", "done"} /\ pcIn \in {"read", "send", "done"}
    /\ zs # "none" => opts.zmodem
    /\ drag # "idle" => opts.drag

(* While no session claims it, the chunk that comes out is the chunk fed: unmodified, once,   *)
(* in order (a pump finishes chunk i before it takes chunk i+1: the entry belongs to curOut). *)
PassThroughOut == lastOut.ok /\ (pcOut = "done" => lastOut.id = curOut.id)

(* Same towards the server; with drag detection a list of existing paths may be taken.       *)
PassThroughIn == lastIn.ok /\ (pcIn = "done" => lastIn.id = curIn.id)

PtrClearedOnEveryExit == hpc \in {"none", "spawned"} => transferPtr = NULL

NoStuckFlags == drag = "idle" => (~interrupting /\ ~skipCmd)

PromptOnlyInTransfer == prompt # "none" => hpc # "none"

ExitPassed == wrapExit # NoExit => wrapExit = childExit
LastWordsDelivered == lastWords

HistoryOK == history \in Hows \cup {"none"}

(* under fairness of the pumps, the handler and the session timers the filter always comes back *)
Live == []<>ModePass

=============================================================================
