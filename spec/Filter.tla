------------------------------- MODULE Filter -------------------------------
(* trzsz/filter.go as a set of processes around two byte pumps (property C05: the wrapper *)
(* is transparent whenever no transfer / zmodem session / drag upload is in progress).     *)
(*                                                                                          *)
(*   OutPump   wrapOutput, one loop turn = OutRead (serverOut.Read returns a chunk) then    *)
(*             OutToTransfer (`filter.transfer.Load() != nil`) or OutForward (trace logger, *)
(*             zmodem session, OSC52, detector, interrupting, skipUploadCommand,            *)
(*             detectZmodem, writeAll - in the code's order)                                *)
(*   InPump    wrapInput/sendInput: InRead, then InSend (promptPipe, transfer, zmodem,      *)
(*             drag, writeAll - in the code's order)                                        *)
(*   Handler   the goroutine started by `go filter.handleTrzsz()`: HRefuse (chooser         *)
(*             cancelled -> sendAction(false)), HChooseFail, HCAS (CompareAndSwap(nil,t)),  *)
(*             HEnd(how), HExit (the deferred CompareAndSwap(t,nil)); StopAPI               *)
(*             (StopTransferringFiles), PromptEnd (confirmStopTransfer's goroutine)         *)
(*   ZSession  zmodemTransfer flags: active -> stopped -> cleaned, dropped by OutForward    *)
(*   Drag      addDragFiles/uploadDragFiles: pending -> interrupting -> command -> idle     *)
(*   Main      trzsz.go: ChildExits(code), WrapperReturns                                   *)
(*                                                                                          *)
(* The pumps decide on FLAGS (transferPtr, zs, interrupting, skipCmd, logging, prompt);     *)
(* the property is stated on SESSIONS (hpc, zs, drag).  OutImage / InImage is what a pump   *)
(* makes of its chunk in the current state, ExpOut what the property demands; outOK / inOK  *)
(* record whether every finished turn that fell into a session-free moment delivered the    *)
(* demanded image (they stay TRUE unless the property is violated).                         *)
EXTENDS Integers, Sequences, FiniteSets, TLC

CONSTANTS MaxOut, MaxIn,          \* probe chunks fed per direction
          MaxXfer, MaxZ, MaxDrag, \* triggers / genuine zmodem headers / drops fed
          FeedOut, FeedIn,        \* chunk kinds the environment feeds
          OptSets,                \* option sets explored
          ExitCodes,              \* exit codes of the wrapped command
          EchoAssumed             \* the server's tty echoes the drag upload command (environment assumption)

NULL == "null"
NoExit == -1      \* "has not exited" (exit codes are integers)
AllOpts == [drag : BOOLEAN, zmodem : BOOLEAN, osc52 : BOOLEAN, tlog : BOOLEAN]
Osc52On == {o \in AllOpts : o.osc52}

(* Output kinds.  Inert kinds are bytes "short of a genuine trigger": random binary, escape  *)
(* sequences, near-miss triggers, zmodem-like fragments, OSC52 pieces, near-miss trace-log   *)
(* markers, protocol lines and last words of a server whose client has already gone.         *)
InertOut == {"plain", "near", "zmlike", "osc52", "neartl", "proto", "srvmsg"}
OutKinds == InertOut \cup {"cmdlike",     \* text equal to the drag upload command ("trz")
                           "zmcancel",    \* genuine zmodem header together with a cancel sequence: no session
                           "zmhdr",       \* genuine zmodem header
                           "tlmark", "tlmarkoff", \* <ENABLE_/DISABLE_TRZSZ_TRACE_LOG>
                           "trig"}        \* genuine trigger
InKinds  == {"plain", "ctrlc", "pathnon", "pathex"}
Hows     == {"success", "fail", "cancel", "refused"}

VARIABLES opts,
          transferPtr, hpc, stopReq, prompt,
          zs,
          drag, dragging, interrupting, skipCmd,
          logging,
          pcOut, curOut, pcIn, curIn,
          nOut, nIn, nTrig, nZ, nDrag,
          outOK, inOK,
          childExit, wrapExit, lastWords

hvars == <<transferPtr, hpc, stopReq, prompt>>
dvars == <<drag, dragging, interrupting, skipCmd>>
ovars == <<pcOut, curOut, outOK>>
ivars == <<pcIn, curIn, inOK>>
cvars == <<nOut, nIn, nTrig, nZ, nDrag>>
mvars == <<childExit, wrapExit, lastWords>>
vars == <<opts, hvars, zs, dvars, logging, ovars, ivars, cvars, mvars>>

Img(pre, body, post) == [pre |-> pre, body |-> body, post |-> post]
NoImg == Img(FALSE, "none", FALSE)
Same == Img(FALSE, "same", FALSE)
NoChunk == [k |-> "none", id |-> 0]

-----------------------------------------------------------------------------
(* Sessions: the property's antecedent.                                                      *)
OutSessionIdle == hpc = "none" /\ zs \in {"none", "cleaned"} /\ drag = "idle"
InSessionIdle  == hpc = "none" /\ zs \in {"none", "cleaned"}
FullyIdle      == hpc = "none" /\ zs = "none" /\ drag = "idle" /\ prompt = "none"
ModePass       == /\ hpc = "none" /\ transferPtr = NULL /\ prompt = "none"
                  /\ zs \in {"none", "cleaned"} /\ drag = "idle"

(* What the property demands for an output chunk of kind k while no session is active.  The  *)
(* documented exceptions: a genuine trigger is shown rewritten (body "other", C06), the      *)
(* trace-log switch is replaced by a message when the option is on, a genuine zmodem header  *)
(* starts a session (cursor hidden after it, C19), and the first chunk after a zmodem        *)
(* session has been cleaned up is preceded by show-cursor.                                   *)
Switches(k) == \/ k = "tlmark" /\ opts.tlog /\ ~logging
               \/ k = "tlmarkoff" /\ opts.tlog /\ logging
ExpOut(k) == Img(zs = "cleaned",
                 IF k = "trig" \/ Switches(k) THEN "other" ELSE "same",
                 k = "zmhdr" /\ opts.zmodem)

(* What the property demands towards the server: unmodified; with drag detection an input   *)
(* that is entirely a list of existing paths may be taken instead.                          *)
InAllowed(k, img) == img = Same \/ (k = "pathex" /\ opts.drag /\ img = NoImg)

-----------------------------------------------------------------------------
(* What the pumps make of the current chunk, decided on the flags.                           *)
ZSwallows == opts.zmodem /\ (zs = "stopped" \/ (zs = "active" /\ curOut.k # "zmcancel"))
ZDrops    == opts.zmodem /\ (zs = "cleaned" \/ (zs = "active" /\ curOut.k = "zmcancel"))
ZAfter    == IF ZDrops THEN "none" ELSE zs
StartsZ   == opts.zmodem /\ curOut.k = "zmhdr" /\ ZAfter = "none"

OutImage ==
    IF transferPtr # NULL \/ ZSwallows THEN NoImg              \* handed to the transfer / to the session
    ELSE IF curOut.k = "trig" THEN Img(ZDrops, "other", FALSE)   \* shown locally (rewritten)
    ELSE IF interrupting THEN Img(ZDrops, "none", FALSE)
    ELSE IF skipCmd /\ curOut.k = "cmdlike" THEN Img(ZDrops, "crlf", FALSE)
    ELSE Img(ZDrops, IF Switches(curOut.k) THEN "other" ELSE "same", StartsZ)

InImage ==
    IF prompt # "none" \/ transferPtr # NULL THEN NoImg
    ELSE IF opts.zmodem /\ zs \in {"active", "stopped"}
         THEN (IF curIn.k = "ctrlc" /\ zs = "active" THEN Img(FALSE, "other", FALSE) ELSE NoImg)
    ELSE IF opts.drag /\ curIn.k = "pathex" THEN NoImg
    ELSE Same

-----------------------------------------------------------------------------
Init ==
    /\ opts \in OptSets
    /\ transferPtr = NULL /\ hpc = "none" /\ stopReq = FALSE /\ prompt = "none"
    /\ zs = "none"
    /\ drag = "idle" /\ dragging = FALSE /\ interrupting = FALSE /\ skipCmd = FALSE
    /\ logging = FALSE
    /\ pcOut = "read" /\ curOut = NoChunk /\ pcIn = "read" /\ curIn = NoChunk
    /\ nOut = 0 /\ nIn = 0 /\ nTrig = 0 /\ nZ = 0 /\ nDrag = 0
    /\ outOK = TRUE /\ inOK = TRUE
    /\ childExit = NoExit /\ wrapExit = NoExit /\ lastWords = TRUE

(* a fresh filter with option set o (used by the trace spec to start the next recorded run) *)
Reset(o) ==
    /\ opts' = o
    /\ transferPtr' = NULL /\ hpc' = "none" /\ stopReq' = FALSE /\ prompt' = "none"
    /\ zs' = "none"
    /\ drag' = "idle" /\ dragging' = FALSE /\ interrupting' = FALSE /\ skipCmd' = FALSE
    /\ logging' = FALSE
    /\ pcOut' = "read" /\ curOut' = NoChunk /\ pcIn' = "read" /\ curIn' = NoChunk
    /\ nOut' = 0 /\ nIn' = 0 /\ nTrig' = 0 /\ nZ' = 0 /\ nDrag' = 0
    /\ outOK' = TRUE /\ inOK' = TRUE
    /\ childExit' = NoExit /\ wrapExit' = NoExit /\ lastWords' = TRUE

-----------------------------------------------------------------------------
(* OutPump = wrapOutput                                                                      *)

OutRead(c) ==
    /\ pcOut = "read"
    /\ pcOut' = "scan" /\ curOut' = c
    /\ nTrig' = IF c.k = "trig" THEN nTrig + 1 ELSE nTrig
    /\ nOut' = IF c.k = "trig" \/ (c.k = "zmhdr" /\ opts.zmodem) THEN nOut ELSE nOut + 1
    /\ UNCHANGED <<opts, hvars, zs, dvars, logging, outOK, ivars, nIn, nZ, nDrag, mvars>>

OutTurnEnds ==   \* the verdict on this turn, then the pump calls Read again
    /\ pcOut' = "read" /\ curOut' = NoChunk
    /\ outOK' = (outOK /\ (OutSessionIdle => OutImage = ExpOut(curOut.k)))

(* `if transfer := filter.transfer.Load(); transfer != nil { transfer.addReceivedData(buf) }` *)
OutToTransfer ==
    /\ pcOut = "scan" /\ transferPtr # NULL
    /\ OutTurnEnds
    /\ UNCHANGED <<opts, hvars, zs, dvars, logging, ivars, cvars, mvars>>

(* The rest of the loop turn, in the code's order.                                           *)
OutForward ==
    /\ pcOut = "scan" /\ transferPtr = NULL
    /\ OutTurnEnds
    /\ logging' = (IF Switches(curOut.k) THEN ~logging ELSE logging)     \* writeTraceLog
    /\ IF ZSwallows
       THEN UNCHANGED <<zs, hpc, skipCmd, nZ>>                          \* zmodem.handleServerOutput took it
       ELSE IF curOut.k = "trig"
       THEN /\ hpc' = "spawned" /\ zs' = ZAfter                         \* detector fires: `go filter.handleTrzsz()`
            /\ UNCHANGED <<skipCmd, nZ>>
       ELSE IF interrupting
       THEN zs' = ZAfter /\ UNCHANGED <<hpc, skipCmd, nZ>>               \* dropped
       ELSE /\ skipCmd' = FALSE /\ UNCHANGED hpc                         \* skipUploadCommand is one-shot
            /\ IF StartsZ /\ ~(skipCmd /\ curOut.k = "cmdlike")
               THEN zs' = "active" /\ nZ' = nZ + 1                      \* detectZmodem: session begins
               ELSE zs' = ZAfter /\ nZ' = nZ
    /\ UNCHANGED <<opts, transferPtr, stopReq, prompt, drag, dragging, interrupting, ivars,
                   nOut, nIn, nTrig, nDrag, mvars>>

-----------------------------------------------------------------------------
(* InPump = wrapInput / sendInput                                                            *)

InRead(c) ==
    /\ pcIn = "read"
    /\ pcIn' = "send" /\ curIn' = c
    /\ nIn' = IF c.k = "pathex" /\ opts.drag THEN nIn ELSE nIn + 1
    /\ UNCHANGED <<opts, hvars, zs, dvars, logging, ovars, inOK, nOut, nTrig, nZ, nDrag, mvars>>

InSend ==
    /\ pcIn = "send"
    /\ pcIn' = "read" /\ curIn' = NoChunk
    /\ inOK' = (inOK /\ (InSessionIdle => InAllowed(curIn.k, InImage)))
    /\ LET k == curIn.k IN
       IF prompt # "none"
       THEN (* transformPromptInput: keys go to the stop prompt *)
            /\ IF prompt = "open" /\ k = "ctrlc" THEN prompt' = "stop"
               ELSE IF prompt = "open" /\ k = "plain" THEN prompt' \in {"open", "stop", "cont"}
               ELSE prompt' = prompt
            /\ UNCHANGED <<zs, drag, dragging, nDrag>>
       ELSE IF transferPtr # NULL
       THEN (* only Ctrl-C means something during a transfer: confirmStopTransfer *)
            /\ prompt' = (IF k = "ctrlc" THEN "open" ELSE prompt)
            /\ UNCHANGED <<zs, drag, dragging, nDrag>>
       ELSE IF opts.zmodem /\ zs \in {"active", "stopped"}
       THEN (* zmodem.isTransferringFiles(): swallowed; Ctrl-C stops the session *)
            /\ zs' = (IF k = "ctrlc" THEN "stopped" ELSE zs)
            /\ UNCHANGED <<prompt, drag, dragging, nDrag>>
       ELSE IF opts.drag /\ k = "pathex"
       THEN (* detectDragFiles: entirely a list of existing paths -> addDragFiles, not sent *)
            /\ dragging' = TRUE /\ nDrag' = nDrag + 1
            /\ drag' = (IF drag = "idle" THEN "pending" ELSE drag)
            /\ UNCHANGED <<prompt, zs>>
       ELSE /\ dragging' = (IF opts.drag THEN FALSE ELSE dragging)    \* resetDragFiles
            /\ UNCHANGED <<prompt, zs, drag, nDrag>>
    /\ UNCHANGED <<opts, transferPtr, hpc, stopReq, interrupting, skipCmd, logging, ovars,
                   nOut, nIn, nTrig, nZ, mvars>>

-----------------------------------------------------------------------------
(* Handler = handleTrzsz and its worker goroutine                                            *)

HRefuse ==       \* chooser cancelled: sendAction(false); the pointer is never set
    /\ hpc = "spawned" /\ hpc' = "ending"
    /\ UNCHANGED <<opts, transferPtr, stopReq, prompt, zs, dvars, logging, ovars, ivars, cvars, mvars>>

HChooseFail ==   \* chooser / path check fails before the pointer is set
    /\ hpc = "spawned" /\ hpc' = "ending"
    /\ UNCHANGED <<opts, transferPtr, stopReq, prompt, zs, dvars, logging, ovars, ivars, cvars, mvars>>

HCAS ==          \* filter.transfer.CompareAndSwap(nil, transfer); dragged files are taken over
    /\ hpc = "spawned" /\ transferPtr = NULL
    /\ transferPtr' = "t" /\ hpc' = "active"
    /\ dragging' \in (IF dragging THEN {TRUE, FALSE} ELSE {FALSE})
    /\ UNCHANGED <<opts, stopReq, prompt, zs, drag, interrupting, skipCmd, logging, ovars, ivars, cvars, mvars>>

HEnd(how) ==     \* uploadFiles / downloadFiles return (clientExit, clientError)
    /\ hpc = "active" /\ how \in {"success", "fail", "cancel"}
    /\ how = "cancel" => stopReq
    /\ hpc' = "ending"
    /\ UNCHANGED <<opts, transferPtr, stopReq, prompt, zs, dvars, logging, ovars, ivars, cvars, mvars>>

HExit ==         \* `defer filter.transfer.CompareAndSwap(transfer, nil)`; nothing of the session may outlive it
    /\ hpc = "ending"
    /\ transferPtr' = NULL /\ hpc' = "none" /\ stopReq' = FALSE /\ prompt' = "none"
    /\ UNCHANGED <<opts, zs, dvars, logging, ovars, ivars, cvars, mvars>>

StopAPI ==       \* filter.StopTransferringFiles
    /\ transferPtr # NULL /\ ~stopReq
    /\ stopReq' = TRUE
    /\ UNCHANGED <<opts, transferPtr, hpc, prompt, zs, dvars, logging, ovars, ivars, cvars, mvars>>

PromptEnd ==     \* prompt.Run() returned: stop / resume, promptPipe.Store(nil)
    /\ prompt \in {"stop", "cont"}
    /\ prompt' = "none"
    /\ stopReq' = (IF prompt = "stop" /\ transferPtr # NULL THEN TRUE ELSE stopReq)
    /\ UNCHANGED <<opts, transferPtr, hpc, zs, dvars, logging, ovars, ivars, cvars, mvars>>

-----------------------------------------------------------------------------
(* ZSession                                                                                  *)
ZStop ==         \* helper cannot be launched / exits / error: stopped := true
    /\ zs = "active" /\ zs' = "stopped"
    /\ UNCHANGED <<opts, hvars, dvars, logging, ovars, ivars, cvars, mvars>>

ZCleanup ==      \* cleanup timer: cleaned := true, "\r" to the server
    /\ zs = "stopped" /\ zs' = "cleaned"
    /\ UNCHANGED <<opts, hvars, dvars, logging, ovars, ivars, cvars, mvars>>

-----------------------------------------------------------------------------
(* Drag = uploadDragFiles goroutine                                                          *)
DragAbort ==     \* `if !filter.dragging.Load() { return }`
    /\ drag = "pending" /\ ~dragging /\ drag' = "idle"
    /\ UNCHANGED <<opts, hvars, zs, dragging, interrupting, skipCmd, logging, ovars, ivars, cvars, mvars>>

DragInterrupt == \* interrupting := true; Ctrl-C to the server
    /\ drag = "pending" /\ dragging
    /\ drag' = "interrupting" /\ interrupting' = TRUE
    /\ UNCHANGED <<opts, hvars, zs, dragging, skipCmd, logging, ovars, ivars, cvars, mvars>>

DragCommand ==   \* interrupting := false; skipUploadCommand := true; "trz\r" to the server
    /\ drag = "interrupting"
    /\ drag' = "command" /\ interrupting' = FALSE /\ skipCmd' = TRUE
    /\ UNCHANGED <<opts, hvars, zs, dragging, logging, ovars, ivars, cvars, mvars>>

DragReset ==     \* 3 s later: resetDragFiles; skipUploadCommand := false (an echo that never came is not waited for)
    /\ drag = "command"
    /\ EchoAssumed => ~skipCmd
    /\ drag' = "idle" /\ dragging' = FALSE /\ skipCmd' = FALSE
    /\ UNCHANGED <<opts, hvars, zs, interrupting, logging, ovars, ivars, cvars, mvars>>

(* environment: the tty echo of the typed command (not counted against the probe budget) *)
EchoArrives ==
    /\ EchoAssumed /\ drag = "command" /\ skipCmd
    /\ childExit = NoExit /\ pcOut = "read"
    /\ curOut' = [k |-> "cmdlike", id |-> 0] /\ pcOut' = "scan"
    /\ UNCHANGED <<opts, hvars, zs, dvars, logging, outOK, ivars, cvars, mvars>>

-----------------------------------------------------------------------------
(* Main = TrzszMain: `pty.Wait(); return pty.ExitCode()`                                     *)
ChildExits(code) ==
    /\ childExit = NoExit /\ FullyIdle /\ pcIn = "read" /\ pcOut = "read"
    /\ childExit' = code
    /\ UNCHANGED <<opts, hvars, zs, dvars, logging, ovars, ivars, cvars, wrapExit, lastWords>>

WrapperReturns ==   \* everything the child said has been forwarded, its status is passed on
    /\ childExit # NoExit /\ wrapExit = NoExit /\ pcOut = "read"
    /\ wrapExit' = childExit
    /\ UNCHANGED <<opts, hvars, zs, dvars, logging, ovars, ivars, cvars, childExit, lastWords>>

-----------------------------------------------------------------------------
(* budgets: MaxOut / MaxIn probes, MaxXfer triggers, MaxZ zmodem headers, MaxDrag drops *)
FeedOutOK(k) ==
    /\ childExit = NoExit
    /\ IF k = "trig" THEN hpc = "none" /\ nTrig < MaxXfer
       ELSE IF k = "zmhdr" /\ opts.zmodem THEN nZ < MaxZ
       ELSE nOut < MaxOut
FeedInOK(k) ==
    /\ childExit = NoExit
    /\ IF k = "pathex" /\ opts.drag THEN nDrag < MaxDrag ELSE nIn < MaxIn

Pumps == OutToTransfer \/ OutForward \/ InSend
Handler == HRefuse \/ HChooseFail \/ HCAS \/ (\E how \in Hows : HEnd(how)) \/ HExit \/ PromptEnd
Sessions == ZStop \/ ZCleanup \/ DragAbort \/ DragInterrupt \/ DragCommand \/ DragReset \/ EchoArrives

Next ==
    \/ \E k \in FeedOut : FeedOutOK(k) /\ OutRead([k |-> k, id |-> 0])
    \/ \E k \in FeedIn : FeedInOK(k) /\ InRead([k |-> k, id |-> 0])
    \/ Pumps \/ Handler \/ StopAPI \/ Sessions
    \/ \E c \in ExitCodes : ChildExits(c)
    \/ WrapperReturns

Spec == Init /\ [][Next]_vars
(* every goroutine / timer keeps running (weak fairness per action); the environment owes nothing *)
(* except the echo *)
FairSpec ==
    /\ Spec
    /\ WF_vars(OutToTransfer) /\ WF_vars(OutForward) /\ WF_vars(InSend)
    /\ WF_vars(HRefuse \/ HChooseFail \/ HCAS) /\ WF_vars(\E how \in Hows : HEnd(how)) /\ WF_vars(HExit) /\ WF_vars(PromptEnd)
    /\ WF_vars(ZStop) /\ WF_vars(ZCleanup)
    /\ WF_vars(DragAbort) /\ WF_vars(DragInterrupt) /\ WF_vars(DragCommand) /\ WF_vars(DragReset) /\ WF_vars(EchoArrives)
    /\ WF_vars(WrapperReturns)

-----------------------------------------------------------------------------
(* Properties (C05)                                                                          *)

TypeOK ==
    /\ opts \in AllOpts
    /\ transferPtr \in {NULL, "t"} /\ hpc \in {"none", "spawned", "active", "ending"}
    /\ prompt \in {"none", "open", "stop", "cont"}
    /\ zs \in {"none", "active", "stopped", "cleaned"}
    /\ drag \in {"idle", "pending", "interrupting", "command"}
    /\ pcOut \in {"read", "scan"} /\ pcIn \in {"read", "send"}
    /\ zs # "none" => opts.zmodem
    /\ drag # "idle" => opts.drag

(* While no session claims it, the chunk that comes out is the chunk fed: unmodified, exactly *)
(* once, in order (a pump finishes chunk i before it takes chunk i+1).                        *)
PassThroughOut == outOK

(* Same towards the server; with drag detection a list of existing paths may be taken.       *)
PassThroughIn == inOK

PtrClearedOnEveryExit == hpc \in {"none", "spawned"} => transferPtr = NULL

NoStuckFlags == drag = "idle" => (~interrupting /\ ~skipCmd)

PromptOnlyInTransfer == prompt # "none" => hpc # "none"

ExitPassed == wrapExit # NoExit => wrapExit = childExit
LastWordsDelivered == lastWords

(* under fairness of the pumps, the handler and the session timers the filter always comes back *)
Live == []<>ModePass

=============================================================================
