------------------------------ MODULE BufSize ------------------------------
(* X01 - the adaptive buffer size of the sending side and the receiver's acceptance bound.     *)
(*                                                                                              *)
(* Code anchors (trzsz/):                                                                       *)
(*   transfer.go  newTransfer            bufferSize := 10240, bufInitPhase := true,             *)
(*                                       bufInitChan (capacity 1)                               *)
(*   pipeline.go  sendDataWriter.Write   the encoder: a buffer of capacity `cap`; when full:    *)
(*                                       load bufInitPhase, deliver the chunk to sendDataChan   *)
(*                                       (capacity 5), wait on bufInitChan if the phase was     *)
(*                                       on, then cap := bufferSize                             *)
(*                sendDataWriter.Close   bufInitPhase := false; deliver the rest; deliver the   *)
(*                                       empty finish flag                                      *)
(*                pipelineSendData       receive a chunk; load bufferSize; len <= size: one DATA*)
(*                                       message, else pieces of the *current* bufferSize;      *)
(*                                       after each message push (begin, length) on ackChan     *)
(*                                       (capacity kAckChanBufferSize = 5)                      *)
(*                pipelineRecvAck        take an entry from ackChan, read the acknowledgement:  *)
(*                                       pause seen -> ignore count := 7;                       *)
(*                                       if count <= 0 or probing: double / end probing /       *)
(*                                       shrink, else count--                                   *)
(*   transfer.go  sendFileData           protocol 1: its own size, 1024 at the start of every   *)
(*                                       file, doubling under the same test, back to 1024 after *)
(*                                       a slow chunk; the block is escaped *after* chunking    *)
(*   transfer.go  checkBinarySize        receiver: 0 <= n <= max(2*min(MaxBufSize,1G), 2M)      *)
(*                                                                                              *)
(* One action per branch of that code.  The data are abstract: the encoder produces full        *)
(* chunks until EndOfData(r) leaves a rest of r bytes.  Time is abstract: the environment       *)
(* gives every acknowledgement a class (fast: < 500 ms, mid, slow: >= 2 s with k whole          *)
(* seconds).  The receiver is its bound function: every DATA size written is judged by          *)
(* RecvAccepts at the moment it is written (NeverRejectedByReceiver).                           *)
(* BufSizeTrace re-uses these actions with the values recorded from real transfers,             *)
(* BufSizeGen exports (configuration, size) pairs for the real checkBinarySize / escapeData.    *)
EXTENDS Integers, Sequences, FiniteSets, TLC

CONSTANTS
    Floor,        \* 1024   smallest size the shrink rule may store (pipeline.go)
    P1Start,      \* 1024   protocol 1: size at the start of a file and after a slow chunk
    InitSize,     \* 10240  bufferSize of a new transfer
    HardCap,      \* 2^30   checkBinarySize: min(MaxBufSize, 1G)
    BoundFloor,   \* 2^20   checkBinarySize: the bound is never below 2 * BoundFloor (2 MiB)
    SendCap,      \* 5      capacity of sendDataChan
    AckCap,       \* 5      kAckChanBufferSize; a seen pause suspends adaptation for AckCap + 2 acks
    MaxBufs,      \* negotiated MaxBufSize values (-B) explored
    Modes,        \* subset of {"bin", "b64"}
    Protos,       \* subset of 1..4   (1: sendFileData, 2..4: the pipeline; pause needs >= 3)
    Secs,         \* whole seconds a slow acknowledgement may have taken (each >= 2)
    MaxChunks,    \* model bound: full chunks the encoder produces per file (pipeline)
    P1MaxChunks,  \* model bound: full chunks per file (protocol 1)
    MaxFiles,     \* model bound: files per transfer
    MaxPauses,    \* model bound: pauses per transfer
    StartSizes,   \* model: besides a new transfer (InitSize, probing) a run may start like a later
                  \* file of a transfer: probing over, the size left at one of these values
    Variant       \* "coded" | "noMaxTest" | "noFactor2" | "noFloor"  (design-level mutants)

VARIABLES
    cfg,      \* [max, rmax, mode, proto]: negotiated configuration (max: sender's, rmax: receiver's view)
    st,       \* "gap" (between files) | "file" | "done"
    size,     \* transfer.bufferSize
    phase,    \* transfer.bufInitPhase
    tok,      \* tokens in transfer.bufInitChan (0 | 1)
    enc,      \* encoder: [pc, cap, ph, n, tail]
    sendq,    \* sendDataChan: lengths of the chunks queued
    snd,      \* pipelineSendData: [pc, left, n]
    ackq,     \* ackChan: lengths awaiting their acknowledgement
    acur,     \* pipelineRecvAck: [pc, len]: the entry taken from ackChan whose acknowledgement is awaited
    ignore,   \* ignoreChunkTimeCount
    armed,    \* a pause happened that an acknowledgement may still see
    p1,       \* protocol 1 loop: [pc, bs, len, n, fin]
    cnt,      \* [file, pauses, ends]: files begun in this run, pauses, number of times the probing phase ended
    last      \* the last sending / adapting / phase-ending action with the values it used (for the
              \* step invariants); NoLast after every other action

vars == <<cfg, st, size, phase, tok, enc, sendq, snd, ackq, acur, ignore, armed, p1, cnt, last>>

Min2(a, b) == IF a < b THEN a ELSE b
Max2(a, b) == IF a > b THEN a ELSE b

(* min(2 * x, m) without ever forming a number above m *)
Dbl(x, m) == IF x >= m - x THEN m ELSE x + x

Cfgs == [max : MaxBufs, mode : Modes, proto : Protos]

Pipe == cfg.proto >= 2

-----------------------------------------------------------------------------
(* The receiver.  A binary block of n + x bytes (n: payload as chunked, x: bytes added by      *)
(* escaping after chunking, 0 <= x <= n) is accepted iff n + x <= 2 * B.  Written with halves  *)
(* so that 2 * 2^30 never has to be represented (TLC integers are 32 bit).                      *)
HalfUp(n, x) == (n \div 2) + (x \div 2) + (((n % 2) + (x % 2) + 1) \div 2)

RecvHalfBound(c) == Max2(Min2(c.rmax, HardCap), BoundFloor)

RecvAccepts(c, n, x) ==
    IF c.mode = "b64" THEN TRUE                       \* a line; recvCheckV2 / recvBinary have no bound
    ELSE /\ n >= 0 /\ x >= 0
         /\ IF Variant = "noFactor2"     \* the bound without the factor 2: n + x <= max(min(MaxBufSize, 1G), 2M)
            THEN LET b == Max2(Min2(c.rmax, HardCap), 2 * BoundFloor) IN n <= b /\ x <= b - n
            ELSE HalfUp(n, x) <= RecvHalfBound(c)

(* What escaping after chunking can add to a block of n bytes (protocol 1, binary mode).        *)
Expand(c, n) == IF c.mode = "bin" THEN {0, n \div 2, n} ELSE {0}

-----------------------------------------------------------------------------
NoLast == [act |-> "none", len |-> 0, t |-> "none", k |-> 0, before |-> 0, after |-> 0,
           ann |-> 0, ext |-> 0, ph0 |-> FALSE, ph1 |-> FALSE, ig0 |-> 0]

Did(a) == [NoLast EXCEPT !.act = a, !.before = size, !.after = size, !.ph0 = phase, !.ph1 = phase, !.ig0 = ignore]

EncIdle == [pc |-> "idle", cap |-> 0, ph |-> FALSE, n |-> 0, tail |-> 0]
SndIdle == [pc |-> "loop", left |-> 0, n |-> 0]
AckIdle == [pc |-> "loop", len |-> 0]
P1Off   == [pc |-> "off", bs |-> P1Start, len |-> 0, n |-> 0, fin |-> FALSE]

InitWith(c, s, ph) ==
    /\ cfg = c
    /\ st = "gap" /\ size = s /\ phase = ph /\ tok = 0
    /\ enc = EncIdle /\ sendq = <<>> /\ snd = SndIdle /\ ackq = <<>> /\ acur = AckIdle
    /\ ignore = 0 /\ armed = FALSE /\ p1 = P1Off
    /\ cnt = [file |-> 0, pauses |-> 0, ends |-> IF ph THEN 0 ELSE 1]
    /\ last = NoLast

(* the same as an explicit assignment (a new run in a trace file) *)
ResetWith(c, s, ph) ==
    /\ cfg' = c
    /\ st' = "gap" /\ size' = s /\ phase' = ph /\ tok' = 0
    /\ enc' = EncIdle /\ sendq' = <<>> /\ snd' = SndIdle /\ ackq' = <<>> /\ acur' = AckIdle
    /\ ignore' = 0 /\ armed' = FALSE /\ p1' = P1Off
    /\ cnt' = [file |-> 0, pauses |-> 0, ends |-> IF ph THEN 0 ELSE 1]
    /\ last' = NoLast

Init == \E c \in Cfgs :
          LET r == [max |-> c.max, rmax |-> c.max, mode |-> c.mode, proto |-> c.proto] IN
            \/ InitWith(r, InitSize, TRUE)
            \/ \E s \in StartSizes : /\ c.proto >= 2 /\ s >= Floor /\ s <= Max2(c.max, InitSize)
                                      /\ InitWith(r, s, FALSE)

-----------------------------------------------------------------------------
(* sendFiles: the next file.  Protocol >= 2: sendFileDataV2 starts fresh goroutines and        *)
(* channels; newSendDataWriter loads bufferSize; ignoreChunkTimeCount is a fresh local 0.       *)
(* bufferSize, bufInitPhase and bufInitChan belong to the transfer and persist.                 *)
BeginFile ==
    /\ st = "gap" /\ st' = "file"
    /\ cnt' = [cnt EXCEPT !.file = @ + 1]
    /\ IF Pipe
       THEN /\ enc' = [pc |-> "fill", cap |-> size, ph |-> FALSE, n |-> 0, tail |-> 0]
            /\ snd' = SndIdle /\ sendq' = <<>> /\ ackq' = <<>> /\ acur' = AckIdle /\ ignore' = 0
            /\ UNCHANGED p1
       ELSE /\ p1' = [pc |-> "send", bs |-> P1Start, len |-> 0, n |-> 0, fin |-> FALSE]
            /\ UNCHANGED <<enc, snd, sendq, ackq, acur, ignore>>
    /\ last' = NoLast
    /\ UNCHANGED <<cfg, size, phase, tok, armed>>

(* ---------------- the encoder: sendDataWriter.Write / Close ---------------- *)
EncFull ==        \* the buffer is full: bufInitPhase := b.transfer.bufInitPhase.Load()
    /\ st = "file" /\ Pipe /\ enc.pc = "fill"
    /\ enc' = [enc EXCEPT !.pc = "deliver", !.ph = phase]
    /\ last' = NoLast
    /\ UNCHANGED <<cfg, st, size, phase, tok, sendq, snd, ackq, acur, ignore, armed, p1, cnt>>

EncDeliver ==     \* select { sendDataChan <- chunk }
    /\ st = "file" /\ Pipe /\ enc.pc = "deliver" /\ Len(sendq) < SendCap
    /\ sendq' = Append(sendq, enc.cap)
    /\ enc' = [enc EXCEPT !.pc = IF enc.ph THEN "wait" ELSE "renew", !.n = @ + 1]
    /\ last' = NoLast
    /\ UNCHANGED <<cfg, st, size, phase, tok, snd, ackq, acur, ignore, armed, p1, cnt>>

EncWait ==        \* if bufInitPhase { <-bufInitChan }
    /\ st = "file" /\ Pipe /\ enc.pc = "wait" /\ tok = 1
    /\ tok' = 0
    /\ enc' = [enc EXCEPT !.pc = "renew"]
    /\ last' = NoLast
    /\ UNCHANGED <<cfg, st, size, phase, sendq, snd, ackq, acur, ignore, armed, p1, cnt>>

EncRenew ==       \* b.bufSize = bufferSize.Load(); new buffer of that capacity
    /\ st = "file" /\ Pipe /\ enc.pc = "renew"
    /\ enc' = [enc EXCEPT !.pc = "fill", !.cap = size]
    /\ last' = NoLast
    /\ UNCHANGED <<cfg, st, size, phase, tok, sendq, snd, ackq, acur, ignore, armed, p1, cnt>>

(* the probing phase ends here if it is still on: bufInitPhase.Store(false) *)
EndOfData(r) ==   \* Close(): r bytes are left in the buffer (0 <= r < cap)
    /\ st = "file" /\ Pipe /\ enc.pc = "fill" /\ r >= 0 /\ r < enc.cap
    /\ phase' = FALSE
    /\ cnt' = [cnt EXCEPT !.ends = IF phase THEN @ + 1 ELSE @]
    /\ enc' = [enc EXCEPT !.pc = IF r > 0 THEN "tail" ELSE "flag", !.tail = r]
    /\ last' = [Did("EndOfData") EXCEPT !.len = r, !.ph1 = FALSE]
    /\ UNCHANGED <<cfg, st, size, tok, sendq, snd, ackq, acur, ignore, armed, p1>>

EncTail ==        \* deliver(the rest)
    /\ st = "file" /\ Pipe /\ enc.pc = "tail" /\ Len(sendq) < SendCap
    /\ sendq' = Append(sendq, enc.tail)
    /\ enc' = [enc EXCEPT !.pc = "flag"]
    /\ last' = NoLast
    /\ UNCHANGED <<cfg, st, size, phase, tok, snd, ackq, acur, ignore, armed, p1, cnt>>

EncFlag ==        \* deliver([]byte{}): the finish flag; then close(sendDataChan)
    /\ st = "file" /\ Pipe /\ enc.pc = "flag" /\ Len(sendq) < SendCap
    /\ sendq' = Append(sendq, 0)
    /\ enc' = [enc EXCEPT !.pc = "done"]
    /\ last' = NoLast
    /\ UNCHANGED <<cfg, st, size, phase, tok, snd, ackq, acur, ignore, armed, p1, cnt>>

(* ---------------- pipelineSendData ---------------- *)
SndRecv ==        \* for data := range sendDataChan
    /\ st = "file" /\ Pipe /\ snd.pc = "loop" /\ sendq # <<>>
    /\ snd' = [pc |-> "taken", left |-> Head(sendq), n |-> 0]
    /\ sendq' = Tail(sendq)
    /\ last' = NoLast
    /\ UNCHANGED <<cfg, st, size, phase, tok, enc, ackq, acur, ignore, armed, p1, cnt>>

(* The receive and the load are two steps: the receive makes room in sendDataChan, so the      *)
(* encoder may deliver and load its next capacity (and an acknowledgement may store a new      *)
(* size) between them.  (Found by trace validation under CPU load: ten chunks cut at the old   *)
(* size were sent after a shrink, one more than an atomic receive-and-load allows.)            *)
SndTake ==        \* bufSize := bufferSize.Load(); len(data.data) <= bufSize: whole, else split
    /\ st = "file" /\ Pipe /\ snd.pc = "taken"
    /\ snd' = IF snd.left <= size THEN [pc |-> "whole", left |-> 0, n |-> snd.left]
                                  ELSE [pc |-> "split", left |-> snd.left, n |-> 0]
    /\ last' = NoLast
    /\ UNCHANGED <<cfg, st, size, phase, tok, enc, sendq, ackq, acur, ignore, armed, p1, cnt>>

SendChunk ==      \* deliver(data.buffer, len, true): one DATA message with the whole chunk
    /\ st = "file" /\ Pipe /\ snd.pc = "whole"
    /\ snd' = [snd EXCEPT !.pc = "push"]
    /\ last' = [Did("SendChunk") EXCEPT !.len = snd.n, !.ann = snd.n]
    /\ UNCHANGED <<cfg, st, size, phase, tok, enc, sendq, ackq, acur, ignore, armed, p1, cnt>>

SndLoadPiece ==   \* bufSize := bufferSize.Load(); if bufSize > left { bufSize = left }
    /\ st = "file" /\ Pipe /\ snd.pc = "split"
    /\ snd' = [snd EXCEPT !.pc = "piece", !.n = Min2(size, snd.left)]
    /\ last' = NoLast
    /\ UNCHANGED <<cfg, st, size, phase, tok, enc, sendq, ackq, acur, ignore, armed, p1, cnt>>

SendPiece ==      \* deliver(data.data[index:nextIdx], bufSize, false)
    /\ st = "file" /\ Pipe /\ snd.pc = "piece"
    /\ snd' = [snd EXCEPT !.pc = "push", !.left = @ - snd.n]
    /\ last' = [Did("SendPiece") EXCEPT !.len = snd.n, !.ann = snd.n]
    /\ UNCHANGED <<cfg, st, size, phase, tok, enc, sendq, ackq, acur, ignore, armed, p1, cnt>>

SndAckPush ==     \* select { ackChan <- trzszAck{begin, length} }
    /\ st = "file" /\ Pipe /\ snd.pc = "push" /\ Len(ackq) < AckCap
    /\ ackq' = Append(ackq, snd.n)
    /\ snd' = [snd EXCEPT !.pc = IF snd.left > 0 THEN "split" ELSE "loop", !.n = 0]
    /\ last' = NoLast
    /\ UNCHANGED <<cfg, st, size, phase, tok, enc, sendq, acur, ignore, armed, p1, cnt>>

(* ---------------- pipelineRecvAck ---------------- *)
Classes == {"fast", "mid", "slow"}
KOf(t) == IF t = "slow" THEN Secs ELSE {0}

Adapting == ignore <= 0 \/ phase

DoubleCond(len, t) ==
    /\ len = size /\ t = "fast"
    /\ (Variant = "noMaxTest" \/ size < cfg.max)

Shrunk(k) == IF Variant = "noFloor" THEN size \div k ELSE Max2(size \div k, Floor)

(* bufInitDone(): non-blocking send on bufInitChan *)
Signal == IF phase THEN 1 ELSE tok

AckTake ==        \* for ack := range ackChan
    /\ st = "file" /\ Pipe /\ acur.pc = "loop" /\ ackq # <<>>
    /\ acur' = [pc |-> "got", len |-> Head(ackq)]
    /\ ackq' = Tail(ackq)
    /\ last' = NoLast
    /\ UNCHANGED <<cfg, st, size, phase, tok, enc, sendq, snd, ignore, armed, p1, cnt>>

Got == st = "file" /\ Pipe /\ acur.pc = "got"

AckFast(t, k) ==  \* length == bufSize && chunkTime < 500ms && bufSize < MaxBufSize: double
    /\ Got /\ Adapting
    /\ DoubleCond(acur.len, t)
    /\ size' = Dbl(size, cfg.max)
    /\ tok' = Signal
    /\ acur' = AckIdle
    /\ last' = [Did("AckFast") EXCEPT !.len = acur.len, !.t = t, !.k = k, !.after = Dbl(size, cfg.max)]
    /\ UNCHANGED <<cfg, st, phase, enc, sendq, snd, ackq, ignore, armed, p1, cnt>>

(* else branch, first half: a probing phase that is still on ends (ProbeDone) *)
ProbeDone ==
    /\ phase' = FALSE
    /\ tok' = Signal
    /\ cnt' = [cnt EXCEPT !.ends = IF phase THEN @ + 1 ELSE @]

AckSlow(t, k) ==  \* chunkTime >= 2s && length <= bufSize: size / seconds, not below 1024
    /\ Got /\ Adapting
    /\ ~DoubleCond(acur.len, t)
    /\ t = "slow" /\ acur.len <= size
    /\ ProbeDone
    /\ size' = Shrunk(k)
    /\ acur' = AckIdle
    /\ last' = [Did("AckSlow") EXCEPT !.len = acur.len, !.t = t, !.k = k, !.after = Shrunk(k), !.ph1 = FALSE]
    /\ UNCHANGED <<cfg, st, enc, sendq, snd, ackq, ignore, armed, p1>>

AckMiddle(t, k) ==  \* neither doubling nor shrinking
    /\ Got /\ Adapting
    /\ ~DoubleCond(acur.len, t)
    /\ ~(t = "slow" /\ acur.len <= size)
    /\ ProbeDone
    /\ acur' = AckIdle
    /\ last' = [Did("AckMiddle") EXCEPT !.len = acur.len, !.t = t, !.k = k, !.ph1 = FALSE]
    /\ UNCHANGED <<cfg, st, size, enc, sendq, snd, ackq, ignore, armed, p1>>

AckIgnored ==     \* ignoreChunkTimeCount > 0 and not probing: count--
    /\ Got /\ ~Adapting
    /\ ignore' = ignore - 1
    /\ acur' = AckIdle
    /\ last' = [Did("AckIgnored") EXCEPT !.len = acur.len]
    /\ UNCHANGED <<cfg, st, size, phase, tok, enc, sendq, snd, ackq, armed, p1, cnt>>

(* recvCheckV2 reports `pause` together with the acknowledgement it returns *)
PauseSeen ==
    /\ Got /\ cfg.proto >= 3 /\ armed
    /\ ignore' = AckCap + 2
    /\ armed' = FALSE
    /\ last' = NoLast
    /\ UNCHANGED <<cfg, st, size, phase, tok, enc, sendq, snd, ackq, acur, p1, cnt>>

Pause ==          \* environment: pauseTransferringFiles() ... resumeTransferringFiles()
    /\ st = "file" /\ cfg.proto >= 3
    /\ armed' = TRUE
    /\ cnt' = [cnt EXCEPT !.pauses = @ + 1]
    /\ last' = NoLast
    /\ UNCHANGED <<cfg, st, size, phase, tok, enc, sendq, snd, ackq, acur, ignore, p1>>

(* ---------------- protocol 1: sendFileData ---------------- *)
P1Send(len, x, fin) ==   \* read min(bufSize, rest) bytes; sendData: escape, then announce
    /\ st = "file" /\ ~Pipe /\ p1.pc = "send"
    /\ len >= 1 /\ len <= p1.bs
    /\ p1' = [p1 EXCEPT !.pc = "ack", !.len = len, !.fin = fin, !.n = IF len = p1.bs THEN @ + 1 ELSE @]
    /\ last' = [Did("P1Send") EXCEPT !.len = len, !.ann = len, !.ext = x, !.before = p1.bs, !.after = p1.bs]
    /\ UNCHANGED <<cfg, st, size, phase, tok, enc, sendq, snd, ackq, acur, ignore, armed, cnt>>

P1DoubleCond(t) == p1.len = p1.bs /\ t = "fast" /\ (Variant = "noMaxTest" \/ p1.bs < cfg.max)

P1Next == IF p1.fin THEN "end" ELSE "send"

P1AckFast(t, k) ==
    /\ st = "file" /\ ~Pipe /\ p1.pc = "ack" /\ P1DoubleCond(t)
    /\ p1' = [p1 EXCEPT !.pc = P1Next, !.bs = Dbl(p1.bs, cfg.max)]
    /\ last' = [Did("P1AckFast") EXCEPT !.len = p1.len, !.t = t, !.k = k, !.before = p1.bs, !.after = Dbl(p1.bs, cfg.max)]
    /\ UNCHANGED <<cfg, st, size, phase, tok, enc, sendq, snd, ackq, acur, ignore, armed, cnt>>

P1AckReset(t, k) ==  \* chunkTime >= 2s && bufSize > 1024: back to 1024
    /\ st = "file" /\ ~Pipe /\ p1.pc = "ack" /\ ~P1DoubleCond(t)
    /\ t = "slow" /\ p1.bs > P1Start
    /\ p1' = [p1 EXCEPT !.pc = P1Next, !.bs = P1Start]
    /\ last' = [Did("P1AckReset") EXCEPT !.len = p1.len, !.t = t, !.k = k, !.before = p1.bs, !.after = P1Start]
    /\ UNCHANGED <<cfg, st, size, phase, tok, enc, sendq, snd, ackq, acur, ignore, armed, cnt>>

P1AckKeep(t, k) ==
    /\ st = "file" /\ ~Pipe /\ p1.pc = "ack" /\ ~P1DoubleCond(t)
    /\ ~(t = "slow" /\ p1.bs > P1Start)
    /\ p1' = [p1 EXCEPT !.pc = P1Next]
    /\ last' = [Did("P1AckKeep") EXCEPT !.len = p1.len, !.t = t, !.k = k, !.before = p1.bs, !.after = p1.bs]
    /\ UNCHANGED <<cfg, st, size, phase, tok, enc, sendq, snd, ackq, acur, ignore, armed, cnt>>

P1Empty ==        \* a file of size 0: the loop body never runs
    /\ st = "file" /\ ~Pipe /\ p1.pc = "send" /\ p1.n = 0 /\ p1.len = 0
    /\ p1' = [p1 EXCEPT !.pc = "end"]
    /\ last' = NoLast
    /\ UNCHANGED <<cfg, st, size, phase, tok, enc, sendq, snd, ackq, acur, ignore, armed, cnt>>

(* ---------------- end of a file, end of the transfer ---------------- *)
Drained == IF Pipe THEN enc.pc = "done" /\ sendq = <<>> /\ snd.pc = "loop" /\ ackq = <<>> /\ acur.pc = "loop"
                   ELSE p1.pc = "end"

FileDone ==       \* pipelineRecvFinalAck ... sendFileMD5
    /\ st = "file" /\ Drained
    /\ st' = "gap"
    /\ last' = NoLast
    /\ UNCHANGED <<cfg, size, phase, tok, enc, sendq, snd, ackq, acur, ignore, armed, p1, cnt>>

Finish ==
    /\ st = "gap" /\ cnt.file >= 1
    /\ st' = "done"
    /\ last' = NoLast
    /\ UNCHANGED <<cfg, size, phase, tok, enc, sendq, snd, ackq, acur, ignore, armed, p1, cnt>>

Done == st = "done" /\ UNCHANGED vars

-----------------------------------------------------------------------------
(* The model's environment: bounded data, every class for every acknowledgement. *)
Tails(c) == {r \in {0, c - 1} : r >= 0 /\ r < c}

MEncFull == enc.n < MaxChunks /\ EncFull
MEndOfData == \E r \in Tails(enc.cap) : EndOfData(r)
MBeginFile == cnt.file < MaxFiles /\ BeginFile
MPause == cnt.pauses < MaxPauses /\ Pause
MAckFast == \E t \in Classes : \E k \in KOf(t) : AckFast(t, k)
MAckSlow == \E t \in Classes : \E k \in KOf(t) : AckSlow(t, k)
MAckMiddle == \E t \in Classes : \E k \in KOf(t) : AckMiddle(t, k)
MP1Send == \/ /\ p1.n < P1MaxChunks
              /\ \E x \in Expand(cfg, p1.bs) : \E fin \in BOOLEAN : P1Send(p1.bs, x, fin)
           \/ \E r \in (Tails(p1.bs) \ {0}) : \E x \in Expand(cfg, r) : P1Send(r, x, TRUE)
MP1AckFast == \E t \in Classes : \E k \in KOf(t) : P1AckFast(t, k)
MP1AckReset == \E t \in Classes : \E k \in KOf(t) : P1AckReset(t, k)
MP1AckKeep == \E t \in Classes : \E k \in KOf(t) : P1AckKeep(t, k)

Step ==
    \/ MBeginFile \/ MEncFull \/ EncDeliver \/ EncWait \/ EncRenew \/ MEndOfData \/ EncTail \/ EncFlag
    \/ SndRecv \/ SndTake \/ SendChunk \/ SndLoadPiece \/ SendPiece \/ SndAckPush
    \/ AckTake \/ MAckFast \/ MAckSlow \/ MAckMiddle \/ AckIgnored \/ PauseSeen \/ MPause
    \/ MP1Send \/ MP1AckFast \/ MP1AckReset \/ MP1AckKeep \/ P1Empty
    \/ FileDone \/ Finish

Next == Step \/ Done

Spec == Init /\ [][Next]_vars /\ WF_vars(Step)

-----------------------------------------------------------------------------
Strs == {"none", "fast", "mid", "slow"}

TypeOK ==
    /\ cfg.mode \in {"bin", "b64"} /\ cfg.proto \in 1..4 /\ cfg.max \in Int /\ cfg.rmax \in Int
    /\ st \in {"gap", "file", "done"}
    /\ size \in Int /\ phase \in BOOLEAN /\ tok \in {0, 1}
    /\ enc.pc \in {"idle", "fill", "deliver", "wait", "renew", "tail", "flag", "done"}
    /\ enc.cap \in Int /\ enc.ph \in BOOLEAN /\ enc.n \in Nat /\ enc.tail \in Nat
    /\ Len(sendq) <= SendCap /\ Len(ackq) <= AckCap
    /\ snd.pc \in {"loop", "taken", "whole", "split", "piece", "push"} /\ snd.left \in Nat /\ snd.n \in Nat
    /\ acur.pc \in {"loop", "got"} /\ acur.len \in Nat
    /\ ignore \in 0..(AckCap + 2) /\ armed \in BOOLEAN
    /\ p1.pc \in {"off", "send", "ack", "end"} /\ p1.bs \in Int /\ p1.fin \in BOOLEAN
    /\ last.t \in Strs

(* the adaptive size never leaves [Floor, max(MaxBufSize, InitSize)]: a new transfer starts at *)
(* InitSize whatever was negotiated, growth stops at MaxBufSize, shrinking at Floor            *)
SizeInRange ==
    /\ size >= Floor /\ size <= Max2(cfg.max, InitSize)
    /\ p1.bs >= P1Start /\ p1.bs <= Max2(cfg.max, P1Start)

(* the strict reading of -B ("max buffer chunk size"): never above the negotiated value        *)
SizeWithinNegotiated == size <= cfg.max /\ p1.bs <= cfg.max

(* every chunk anywhere in the pipeline was cut at a size that was in range *)
ChunksInRange ==
    /\ enc.cap <= Max2(cfg.max, InitSize)
    /\ \A i \in 1..Len(sendq) : sendq[i] <= Max2(cfg.max, InitSize)
    /\ snd.left <= Max2(cfg.max, InitSize) /\ snd.n <= Max2(cfg.max, InitSize)

SendActs == {"SendChunk", "SendPiece", "P1Send"}

(* no history of the sender's size produces a block that the receiver's bound rejects *)
NeverRejectedByReceiver == last.act \in SendActs => RecvAccepts(cfg, last.ann, last.ext)

(* ... nor can one that is still on its way *)
NothingQueuedIsRejected ==
    /\ \A i \in 1..Len(sendq) : RecvAccepts(cfg, sendq[i], 0)
    /\ RecvAccepts(cfg, snd.n, 0) /\ RecvAccepts(cfg, snd.left, 0)
    /\ (enc.pc # "idle" => RecvAccepts(cfg, enc.cap, 0))
    /\ (~Pipe => RecvAccepts(cfg, p1.bs, p1.bs))

(* the probing phase ends exactly once: phase is on iff it has never ended, it never comes back *)
ProbeEndsOnce ==
    /\ cnt.ends \in {0, 1}
    /\ phase <=> (cnt.ends = 0)
    /\ (st = "done" /\ Pipe) => cnt.ends = 1
    /\ (st = "gap" /\ Pipe /\ cnt.file >= 1) => ~phase

(* a token is only ever in the channel while the encoder waits for it, and the encoder only     *)
(* waits while the chunk it delivered is still on its way or its token is there                 *)
InFlight == Len(sendq) + Len(ackq) + (IF snd.pc = "loop" THEN 0 ELSE 1) + (IF acur.pc = "loop" THEN 0 ELSE 1)
TokenPaired == tok = 1 => enc.pc = "wait"
EncoderNotStuck == enc.pc = "wait" => (tok = 1 \/ InFlight > 0)
OneChunkWhileProbing == (phase /\ enc.pc \in {"fill", "deliver", "renew"}) => InFlight = 0

(* the size grows only by the doubling branch, under its three conditions, to min(2*size, max) *)
DoubleOnlyWhenAllowed ==
    last.after > last.before =>
        /\ last.act \in {"AckFast", "P1AckFast"}
        /\ last.t = "fast" /\ last.len = last.before /\ last.before < cfg.max
        /\ last.after = Dbl(last.before, cfg.max)
        /\ (last.act = "AckFast" => (last.ig0 <= 0 \/ last.ph0))

(* it shrinks only after a slow chunk: pipeline to size / seconds, not below Floor;            *)
(* protocol 1 back to its start value                                                           *)
ShrinkOnlyWhenSlow ==
    last.after < last.before =>
        /\ last.act \in {"AckSlow", "P1AckReset"}
        /\ last.t = "slow" /\ last.k >= 2
        /\ (last.act = "AckSlow" =>
               /\ last.len <= last.before
               /\ last.after = Max2(last.before \div last.k, Floor)
               /\ (last.ig0 <= 0 \/ last.ph0))
        /\ (last.act = "P1AckReset" => last.after = P1Start /\ last.before > P1Start)

(* while the count set by a pause is positive and the probing is over nothing adapts *)
SuspendedAfterPause ==
    last.act \in {"AckFast", "AckSlow", "AckMiddle"} => (last.ig0 <= 0 \/ last.ph0)

(* a probing phase can only be ended by the first acknowledgement that does not double or by    *)
(* the end of the data                                                                          *)
ProbeEndedBy ==
    (last.ph0 /\ ~last.ph1) => last.act \in {"AckSlow", "AckMiddle", "EndOfData"}

(* the transfer of every file completes: the encoder is never left waiting for a token *)
Termination == <>(st = "done")
=============================================================================
