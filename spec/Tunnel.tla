------------------------------- MODULE Tunnel -------------------------------
(* C17: the direct ("tunnel") connection of one transfer.                                    *)
(*                                                                                           *)
(* Server side   trzsz/transfer.go acceptOnTunnel (called by trz.go / tsz.go):               *)
(*   accept loop   AAccept   listener.Accept() returns the next queued connection            *)
(*                 AAcceptErr  Accept fails because the listener is closed: loop returns      *)
(*                 ACheck    `if t.tunnelConn.Load() != nil { conn.Close(); return }` else    *)
(*                           spawn the handler; the loop's `defer listener.Close()`          *)
(*   handler(i)    HRead     conn.Read(100 bytes) + comparison with clientHello: equal ->    *)
(*                           go on, anything else (or EOF) -> conn.Close(), no answer        *)
(*                 HReply    conn.Write(serverHello)   (HReplyFail: the write fails)         *)
(*                 HCas      tunnelConn.CompareAndSwap(nil,&conn); winner: wrapTransferInput *)
(*                 HCloseListener   the winner's listener.Close()                            *)
(*                 SPump     wrapTransferInput(t, conn, true): bytes of the adopted          *)
(*                           connection reach the buffer (addReceivedData(buf, true))        *)
(* Client side   connectToTunnel (called by filter.go handleTrzsz with the trigger's id/port)*)
(*   connector goroutine:  CDial/CReturn  connector(port) (nil = refused)                    *)
(*                 CWrite    conn.Write(clientHello); CCheck2 the `|| timeout` test after it  *)
(*                 CRead     conn.Read + comparison with serverHello + `|| timeout`;         *)
(*                           connChan <- conn | nil                                          *)
(*   outer goroutine:      SelectConn   `case conn := <-connChan` (Store + wrapTransferInput)*)
(*                 TimerFires   `case <-time.After(time.Second): timeout = true`             *)
(*   SendAction    sendAction: tunnelInitWG.Wait(); tunnel := tunnelConn.Load() != nil       *)
(*   CCleanup      cleanup(): the adopted connection is closed when the transfer is over     *)
(*   SRecvAction   recvAction on the server: tunnelConnected = action.TunnelConnected        *)
(*   InbandS/InbandC  addReceivedData(buf, false): dropped once tunnelConnected              *)
(* Environment: Arrive, DialerWrite, DialerClose (connection attempts with scripts),         *)
(*   Proxy* (what travels between the client's connection and the server's listener).        *)
(*                                                                                           *)
(* Connection 1 is the one the client's own connector produces; 2..N are strangers.          *)
(* Time is abstracted: the one-second timer may fire at any moment while the select waits.   *)
EXTENDS Integers, Sequences, FiniteSets, TLC

CONSTANTS N,             \* connections 1..N
          StrayScripts,  \* scripts the strangers 2..N may follow
          Outcomes,      \* connector outcomes explored
          Rendezvous,    \* TRUE: a Write completes only when the peer Reads (net.Pipe);
                         \* FALSE: writes are buffered and may be coalesced by one Read (TCP)
          MaxData,       \* data chunks a dialer may send after its script
          Pumps          \* BOOLEAN: explore the in-band / tunnel data pumps (InbandS, InbandC, CPump)

Conns  == 1..N
Strays == 2..N

(* what a dialer writes, one element per Write *)
ScriptChunks(s) ==
    CASE s = "right"   -> <<"hello">>              \* the exact greeting
      [] s = "genuine" -> <<"hello">>              \* written by the client itself (CWrite)
      [] s = "wrong"   -> <<"wrong">>              \* something else altogether
      [] s = "wrongid" -> <<"wrongid">>            \* right prefix, other id / port
      [] s = "long"    -> <<"long">>               \* greeting followed by more bytes in the same write
      [] s = "split"   -> <<"half1", "half2">>     \* greeting cut in two writes
      [] s = "flood"   -> <<"flood">>              \* > 100 protocol-looking bytes
      [] s = "silent"  -> <<>>                     \* connects and says nothing
      [] OTHER         -> <<>>                     \* "absent"

(* what one Read returned (sequence of the chunks it took) is the greeting *)
IsHello(r) == r = <<"hello">> \/ r = <<"half1", "half2">>

VARIABLES
    script,     \* [Conns -> script]
    outcome,    \* connector outcome of this run
    hpc,        \* [Conns -> none | refused | queued | read | reply | cas | closeL | won | lost | closed]
    first,      \* [Conns -> what the handler's Read returned] (<<>> = has not read)
    replied,    \* [Conns -> BOOLEAN] serverHello was written to the connection
    unread,     \* [Conns -> chunks written by the dialer and not read by the server]
    wn,         \* [Conns -> number of writes the dialer has made]
    dclosed,    \* [Conns -> BOOLEAN] the dialer closed its end
    backlog,    \* connections waiting in the listener's queue
    apc,        \* accept loop: accept | check | exited
    acur,       \* the connection Accept just returned
    lopen,      \* listener open
    tunnelS,    \* server's t.tunnelConn (0 = nil)
    wrappedS,   \* connections the server runs wrapTransferInput(.., true) on
    cpc,        \* connector goroutine: connector | write | wcheck | read | exit
    creply,     \* what the client's Read will return: none | hello | other
    pclosed,    \* the client's end of connection 1 was closed by the other side
    chan,       \* connChan: empty | nil | conn
    timeout,    \* the `timeout` flag
    selpc,      \* outer goroutine: select | done
    tunnelC,    \* client's t.tunnelConn (0 or 1)
    cclosed,    \* the client closed connection 1
    act,        \* none | tunnel | inband   (ACT sent, with "tunnel": true/false)
    sActSeen,   \* server's recvAction returned
    sAgreed, cAgreed,   \* t.tunnelConnected on either side
    fedS, fedC  \* sources whose bytes reached the buffer (0 = in-band, i = connection i)

srv  == <<hpc, first, replied, unread, wn, dclosed, backlog, apc, acur, lopen, tunnelS, wrappedS>>
cli  == <<cpc, creply, pclosed, chan, timeout, selpc, tunnelC, cclosed>>
agr  == <<act, sActSeen, sAgreed, cAgreed>>
obs  == <<fedS, fedC>>
cfgv == <<script, outcome>>
vars == <<cfgv, srv, cli, agr, obs>>

-----------------------------------------------------------------------------
InitWith(sc, oc) ==
    /\ script = sc /\ outcome = oc
    /\ hpc = [i \in Conns |-> "none"] /\ first = [i \in Conns |-> <<>>]
    /\ replied = [i \in Conns |-> FALSE] /\ unread = [i \in Conns |-> <<>>]
    /\ wn = [i \in Conns |-> 0] /\ dclosed = [i \in Conns |-> FALSE]
    /\ backlog = <<>> /\ apc = "accept" /\ acur = 0 /\ lopen = TRUE /\ tunnelS = 0 /\ wrappedS = {}
    /\ cpc = "connector" /\ creply = "none" /\ pclosed = FALSE /\ chan = "empty" /\ timeout = FALSE /\ selpc = "select"
    /\ tunnelC = 0 /\ cclosed = FALSE
    /\ act = "none" /\ sActSeen = FALSE /\ sAgreed = FALSE /\ cAgreed = FALSE
    /\ fedS = {} /\ fedC = {}

Scripts1(oc) == IF oc = "good" THEN "genuine" ELSE "absent"

Init == \E oc \in Outcomes : \E ss \in [Strays -> StrayScripts] :
            InitWith([i \in Conns |-> IF i = 1 THEN Scripts1(oc) ELSE ss[i]], oc)

(* used by the trace spec to start the next recorded run *)
Reset(sc, oc) ==
    /\ script' = sc /\ outcome' = oc
    /\ hpc' = [i \in Conns |-> "none"] /\ first' = [i \in Conns |-> <<>>]
    /\ replied' = [i \in Conns |-> FALSE] /\ unread' = [i \in Conns |-> <<>>]
    /\ wn' = [i \in Conns |-> 0] /\ dclosed' = [i \in Conns |-> FALSE]
    /\ backlog' = <<>> /\ apc' = "accept" /\ acur' = 0 /\ lopen' = TRUE /\ tunnelS' = 0 /\ wrappedS' = {}
    /\ cpc' = "connector" /\ creply' = "none" /\ pclosed' = FALSE /\ chan' = "empty" /\ timeout' = FALSE /\ selpc' = "select"
    /\ tunnelC' = 0 /\ cclosed' = FALSE
    /\ act' = "none" /\ sActSeen' = FALSE /\ sAgreed' = FALSE /\ cAgreed' = FALSE
    /\ fedS' = {} /\ fedC' = {}

InBacklog(i) == \E k \in 1..Len(backlog) : backlog[k] = i

(* closing the listener resets what is still queued *)
ListenerClosed(h) == [j \in Conns |-> IF InBacklog(j) THEN "closed" ELSE h[j]]

-----------------------------------------------------------------------------
(* Environment: connection attempts                                                          *)

Arrive(i) ==
    /\ hpc[i] = "none" /\ script[i] # "absent"
    /\ IF lopen THEN /\ hpc' = [hpc EXCEPT ![i] = "queued"] /\ backlog' = Append(backlog, i)
                ELSE /\ hpc' = [hpc EXCEPT ![i] = "refused"] /\ UNCHANGED backlog
    /\ UNCHANGED <<cfgv, first, replied, unread, wn, dclosed, apc, acur, lopen, tunnelS, wrappedS, cli, agr, obs>>

NextChunk(i) == LET sc == ScriptChunks(script[i]) IN IF wn[i] < Len(sc) THEN sc[wn[i] + 1] ELSE "data"

(* one Write of chunk c on connection i.  On a rendezvous transport a chunk nobody read     *)
(* (the previous Write failed or ran into its deadline) is gone.  A Write on a connection    *)
(* the server closed delivers nothing.                                                       *)
DialerWrite(i, c) ==
    /\ hpc[i] \notin {"none", "refused"} /\ ~dclosed[i]
    /\ wn' = [wn EXCEPT ![i] = @ + 1]
    /\ unread' = [unread EXCEPT ![i] = IF hpc[i] = "closed" THEN <<>>
                                       ELSE IF Rendezvous THEN <<c>> ELSE Append(@, c)]
    /\ UNCHANGED <<cfgv, hpc, first, replied, dclosed, backlog, apc, acur, lopen, tunnelS, wrappedS, cli, agr, obs>>

DialerClose(i) ==
    /\ hpc[i] \notin {"none", "refused"} /\ ~dclosed[i]
    /\ dclosed' = [dclosed EXCEPT ![i] = TRUE]
    /\ unread' = [unread EXCEPT ![i] = IF Rendezvous THEN <<>> ELSE @]
    /\ UNCHANGED <<cfgv, hpc, first, replied, wn, backlog, apc, acur, lopen, tunnelS, wrappedS, cli, agr, obs>>

-----------------------------------------------------------------------------
(* Server: accept loop                                                                       *)

AAcceptOf(i) ==
    /\ apc = "accept" /\ lopen /\ InBacklog(i)
    /\ (Rendezvous => i = Head(backlog))
    /\ acur' = i /\ backlog' = SelectSeq(backlog, LAMBDA j : j # i) /\ apc' = "check"
    /\ hpc' = [hpc EXCEPT ![i] = "accepted"]
    /\ UNCHANGED <<cfgv, first, replied, unread, wn, dclosed, lopen, tunnelS, wrappedS, cli, agr, obs>>

AAccept == \E i \in Conns : AAcceptOf(i)

AAcceptErr ==
    /\ apc = "accept" /\ ~lopen
    /\ apc' = "exited"
    /\ UNCHANGED <<cfgv, hpc, first, replied, unread, wn, dclosed, backlog, acur, lopen, tunnelS, wrappedS, cli, agr, obs>>

ACheck ==
    /\ apc = "check"
    /\ IF tunnelS # 0
       THEN /\ apc' = "exited" /\ lopen' = FALSE /\ backlog' = <<>>
            /\ hpc' = [ListenerClosed(hpc) EXCEPT ![acur] = "closed"]
       ELSE /\ apc' = "accept" /\ hpc' = [hpc EXCEPT ![acur] = "read"]
            /\ UNCHANGED <<lopen, backlog>>
    /\ UNCHANGED <<cfgv, first, replied, unread, wn, dclosed, acur, tunnelS, wrappedS, cli, agr, obs>>

(* Server: handler of connection i                                                           *)

(* On a stream transport one Read may return fewer chunks than have been written (k of them); *)
(* with a rendezvous transport it returns the one chunk of the pending Write.                 *)
HReadK(i, k) ==
    /\ hpc[i] = "read"
    /\ IF unread[i] # <<>>
       THEN /\ k \in 1..Len(unread[i])
            /\ first' = [first EXCEPT ![i] = SubSeq(unread[i], 1, k)]
            /\ hpc' = [hpc EXCEPT ![i] = IF IsHello(SubSeq(unread[i], 1, k)) THEN "reply" ELSE "closed"]
       ELSE /\ dclosed[i] /\ k = 0
            /\ first' = [first EXCEPT ![i] = <<"eof">>]
            /\ hpc' = [hpc EXCEPT ![i] = "closed"]
    /\ unread' = [unread EXCEPT ![i] = <<>>]
    /\ UNCHANGED <<cfgv, replied, wn, dclosed, backlog, apc, acur, lopen, tunnelS, wrappedS, cli, agr, obs>>

HRead(i) == \E k \in 0..Len(unread[i]) : (Rendezvous => k = Len(unread[i])) /\ HReadK(i, k)

(* (the Write may complete although the dialer is closing: both outcomes are possible then) *)
HReply(i) ==
    /\ hpc[i] = "reply"
    /\ replied' = [replied EXCEPT ![i] = TRUE]
    /\ hpc' = [hpc EXCEPT ![i] = "cas"]
    /\ UNCHANGED <<cfgv, first, unread, wn, dclosed, backlog, apc, acur, lopen, tunnelS, wrappedS, cli, agr, obs>>

HReplyFail(i) ==
    /\ hpc[i] = "reply" /\ dclosed[i]
    /\ hpc' = [hpc EXCEPT ![i] = "closed"]
    /\ UNCHANGED <<cfgv, first, replied, unread, wn, dclosed, backlog, apc, acur, lopen, tunnelS, wrappedS, cli, agr, obs>>

HCas(i) ==
    /\ hpc[i] = "cas"
    /\ IF tunnelS = 0
       THEN /\ tunnelS' = i /\ wrappedS' = wrappedS \cup {i} /\ hpc' = [hpc EXCEPT ![i] = "closeL"]
       ELSE /\ hpc' = [hpc EXCEPT ![i] = "lost"] /\ UNCHANGED <<tunnelS, wrappedS>>
    /\ UNCHANGED <<cfgv, first, replied, unread, wn, dclosed, backlog, apc, acur, lopen, cli, agr, obs>>

HCloseListener(i) ==
    /\ hpc[i] = "closeL"
    /\ lopen' = FALSE /\ backlog' = <<>>
    /\ hpc' = [ListenerClosed(hpc) EXCEPT ![i] = "won"]
    /\ UNCHANGED <<cfgv, first, replied, unread, wn, dclosed, apc, acur, tunnelS, wrappedS, cli, agr, obs>>

SPump(i) ==
    /\ i \in wrappedS /\ unread[i] # <<>>
    /\ fedS' = fedS \cup {i}
    /\ unread' = [unread EXCEPT ![i] = <<>>]
    /\ UNCHANGED <<cfgv, hpc, first, replied, wn, dclosed, backlog, apc, acur, lopen, tunnelS, wrappedS, cli, agr, fedC>>

-----------------------------------------------------------------------------
(* Client: connector goroutine                                                               *)

CloseConn1 == /\ cclosed' = TRUE
              /\ dclosed' = [dclosed EXCEPT ![1] = (outcome = "good")]
              /\ UNCHANGED unread

(* inside connector(port): dial the server's listener *)
CDial ==
    /\ cpc = "connector" /\ outcome = "good" /\ hpc[1] = "none"
    /\ IF lopen THEN /\ hpc' = [hpc EXCEPT ![1] = "queued"] /\ backlog' = Append(backlog, 1)
                ELSE /\ hpc' = [hpc EXCEPT ![1] = "refused"] /\ UNCHANGED backlog
    /\ UNCHANGED <<cfgv, first, replied, unread, wn, dclosed, apc, acur, lopen, tunnelS, wrappedS, cli, agr, obs>>

(* connector(port) returns; `if conn == nil`, `if timeout` *)
CReturn ==
    /\ cpc = "connector" /\ (outcome = "good" => hpc[1] # "none")
    /\ IF outcome = "refuse" \/ hpc[1] = "refused"
       THEN /\ chan' = "nil" /\ cpc' = "exit" /\ UNCHANGED <<cclosed, dclosed, unread>>
       ELSE IF timeout
            THEN /\ chan' = "nil" /\ cpc' = "exit" /\ CloseConn1
            ELSE /\ cpc' = "write" /\ UNCHANGED <<chan, cclosed, dclosed, unread>>
    /\ UNCHANGED <<cfgv, hpc, first, replied, wn, backlog, apc, acur, lopen, tunnelS, wrappedS,
                   creply, pclosed, timeout, selpc, tunnelC, agr, obs>>

(* conn.Write(clientHello) completes (c = what was written, as seen by the other end) *)
CWrite(c) ==
    /\ cpc = "write" /\ outcome \in {"good", "badreply", "noreply"}
    /\ Rendezvous => ~pclosed
    /\ wn' = [wn EXCEPT ![1] = @ + 1]
    /\ cpc' = "wcheck"
    /\ unread' = [unread EXCEPT ![1] = IF outcome # "good" \/ hpc[1] = "closed" THEN <<>>
                                       ELSE IF Rendezvous THEN <<c>> ELSE Append(@, c)]
    /\ UNCHANGED <<cfgv, hpc, first, replied, dclosed, backlog, apc, acur, lopen, tunnelS, wrappedS,
                   creply, pclosed, chan, timeout, selpc, tunnelC, cclosed, agr, obs>>

(* `if err != nil || timeout` after the Write *)
CCheck2 ==
    /\ cpc = "wcheck"
    /\ IF timeout
       THEN /\ chan' = "nil" /\ cpc' = "exit" /\ CloseConn1
       ELSE /\ cpc' = "read" /\ UNCHANGED <<chan, cclosed, dclosed, unread>>
    /\ UNCHANGED <<cfgv, hpc, first, replied, wn, backlog, apc, acur, lopen, tunnelS, wrappedS,
                   creply, pclosed, timeout, selpc, tunnelC, agr, obs>>

(* the Write fails: dead connection, or the other side already closed it *)
CWriteErr ==
    /\ cpc = "write" /\ (outcome = "dead" \/ pclosed)
    /\ chan' = "nil" /\ cpc' = "exit" /\ CloseConn1
    /\ UNCHANGED <<cfgv, hpc, first, replied, wn, backlog, apc, acur, lopen, tunnelS, wrappedS,
                   creply, pclosed, timeout, selpc, tunnelC, agr, obs>>

(* what arrives at the client's end of connection 1 *)
ProxyReply ==
    /\ creply = "none" /\ ~pclosed /\ outcome = "good" /\ replied[1]
    /\ creply' = "hello"
    /\ UNCHANGED <<cfgv, srv, cpc, pclosed, chan, timeout, selpc, tunnelC, cclosed, agr, obs>>

(* the server closed connection 1 and the client's end learns of it *)
ProxyEof ==
    /\ ~pclosed /\ outcome = "good" /\ hpc[1] = "closed"
    /\ pclosed' = TRUE
    /\ UNCHANGED <<cfgv, srv, cpc, creply, chan, timeout, selpc, tunnelC, cclosed, agr, obs>>

RogueReply ==
    /\ creply = "none" /\ outcome = "badreply" /\ cpc # "connector" /\ wn[1] > 0
    /\ creply' = "other"
    /\ UNCHANGED <<cfgv, srv, cpc, pclosed, chan, timeout, selpc, tunnelC, cclosed, agr, obs>>

(* conn.Read returns; `if err != nil || string(buf[:n]) != serverHello || timeout`           *)
CRead ==
    /\ cpc = "read" /\ (creply # "none" \/ pclosed)
    /\ cpc' = "exit"
    /\ IF creply = "hello" /\ ~timeout
       THEN /\ chan' = "conn" /\ UNCHANGED <<cclosed, dclosed, unread>>
       ELSE /\ chan' = "nil" /\ CloseConn1
    /\ UNCHANGED <<cfgv, hpc, first, replied, wn, backlog, apc, acur, lopen, tunnelS, wrappedS,
                   creply, pclosed, timeout, selpc, tunnelC, agr, obs>>

(* Client: outer goroutine                                                                   *)

SelectConn ==
    /\ selpc = "select" /\ chan # "empty"
    /\ selpc' = "done"
    /\ tunnelC' = IF chan = "conn" THEN 1 ELSE 0
    /\ UNCHANGED <<cfgv, srv, cpc, creply, pclosed, chan, timeout, cclosed, agr, obs>>

TimerFires ==
    /\ selpc = "select"
    /\ selpc' = "done" /\ timeout' = TRUE
    /\ UNCHANGED <<cfgv, srv, cpc, creply, pclosed, chan, tunnelC, cclosed, agr, obs>>

(* cleanup() at the end of the transfer closes the adopted connection *)
CCleanup ==
    /\ tunnelC = 1 /\ act # "none" /\ ~cclosed
    /\ CloseConn1
    /\ UNCHANGED <<cfgv, hpc, first, replied, wn, backlog, apc, acur, lopen, tunnelS, wrappedS,
                   cpc, creply, pclosed, chan, timeout, selpc, tunnelC, agr, obs>>

(* wrapTransferInput(t, conn, true) on the client: bytes of the adopted connection *)
CPump ==
    /\ tunnelC = 1
    /\ fedC' = fedC \cup {1}
    /\ UNCHANGED <<cfgv, srv, cli, agr, fedS>>

-----------------------------------------------------------------------------
(* Agreement                                                                                 *)

SendAction ==
    /\ selpc = "done" /\ act = "none"
    /\ act' = IF tunnelC # 0 THEN "tunnel" ELSE "inband"
    /\ cAgreed' = (tunnelC # 0)
    /\ UNCHANGED <<cfgv, srv, cli, sActSeen, sAgreed, obs>>

(* the ACT line reaches the server's buffer in-band, or over connection 1 if the server pumps it *)
SRecvAction ==
    /\ act # "none" /\ ~sActSeen
    /\ act = "inband" \/ 1 \in wrappedS
    /\ sActSeen' = TRUE
    /\ sAgreed' = (act = "tunnel")
    /\ UNCHANGED <<cfgv, srv, cli, act, cAgreed, obs>>

(* addReceivedData(buf, false) *)
InbandS ==
    /\ IF sAgreed THEN UNCHANGED obs
                  ELSE fedS' = fedS \cup {0} /\ UNCHANGED fedC
    /\ UNCHANGED <<cfgv, srv, cli, agr>>

InbandC ==
    /\ IF cAgreed THEN UNCHANGED obs
                  ELSE fedC' = fedC \cup {0} /\ UNCHANGED fedS
    /\ UNCHANGED <<cfgv, srv, cli, agr>>

-----------------------------------------------------------------------------
(* a stranger writes the next chunk of its script, then protocol-looking data *)
StrayWrite(i) ==
    /\ wn[i] < Len(ScriptChunks(script[i])) + MaxData
    /\ (Rendezvous => unread[i] = <<>>)
    /\ DialerWrite(i, NextChunk(i))

PumpC   == Pumps /\ CPump
PumpInS == Pumps /\ InbandS
PumpInC == Pumps /\ InbandC

Next ==
    \/ \E i \in Strays : Arrive(i)
    \/ \E i \in Strays : StrayWrite(i)
    \/ \E i \in Strays : DialerClose(i)
    \/ AAccept \/ AAcceptErr \/ ACheck
    \/ \E i \in Conns : HRead(i) \/ HReply(i) \/ HReplyFail(i) \/ HCas(i) \/ HCloseListener(i) \/ SPump(i)
    \/ CDial \/ CReturn \/ CWrite("hello") \/ CCheck2 \/ CWriteErr \/ ProxyReply \/ ProxyEof \/ RogueReply \/ CRead
    \/ SelectConn \/ TimerFires \/ CCleanup
    \/ SendAction \/ SRecvAction
    \/ PumpC \/ PumpInS \/ PumpInC

Spec == Init /\ [][Next]_vars

-----------------------------------------------------------------------------
(* Properties (C17)                                                                          *)

TypeOK ==
    /\ tunnelS \in 0..N /\ tunnelC \in {0, 1}
    /\ apc \in {"accept", "check", "exited"} /\ cpc \in {"connector", "write", "wcheck", "read", "exit"}
    /\ chan \in {"empty", "nil", "conn"} /\ act \in {"none", "tunnel", "inband"}
    /\ \A i \in Conns : hpc[i] \in {"none", "refused", "queued", "accepted", "read", "reply", "cas", "closeL",
                                     "won", "lost", "closed"}

(* at most one connection is ever adopted, on either side *)
AtMostOneAdopted ==
    /\ Cardinality(wrappedS) <= 1
    /\ (tunnelS # 0 => wrappedS = {tunnelS})
    /\ (tunnelS = 0 => wrappedS = {})

(* adopted => the first read on it was exactly the greeting of this transfer *)
AdoptedAuthenticated ==
    /\ \A i \in wrappedS : IsHello(first[i])
    /\ (tunnelC = 1 => creply = "hello" /\ replied[1])

(* anything else is closed without an answer *)
NoAnswerToStrangers ==
    \A i \in Conns :
        /\ replied[i] => IsHello(first[i])
        /\ (first[i] # <<>> /\ ~IsHello(first[i])) => (hpc[i] = "closed" /\ ~replied[i])

(* bytes of any connection other than the adopted one never reach the transfer *)
OnlyAdoptedFeeds ==
    /\ fedS \subseteq (wrappedS \cup {0})
    /\ fedC \subseteq ((IF tunnelC = 1 THEN {1} ELSE {}) \cup {0})

(* once tunnelConnected, in-band bytes are ignored: no step taken while a side has agreed     *)
(* adds the in-band source to that side's buffer (action property)                           *)
InbandIgnoredStep ==
    /\ (sAgreed /\ 0 \notin fedS) => 0 \notin fedS'
    /\ (cAgreed /\ 0 \notin fedC) => 0 \notin fedC'
InbandIgnoredAfterAgree == [][InbandIgnoredStep]_vars

(* the action says "tunnel" only for an adopted, authenticated connection; with no adoption   *)
(* it says in-band and the server can always take it in-band                                  *)
FallbackWorks ==
    /\ (act # "none" /\ tunnelC = 0) => act = "inband"
    /\ act = "tunnel" => (tunnelC = 1 /\ replied[1])
    /\ (act = "inband" /\ ~sActSeen) => ENABLED SRecvAction
    /\ (act = "inband" /\ sActSeen) => ~sAgreed

(* both ends use the same connection when they agree *)
AgreeConsistent == sAgreed => (cAgreed /\ tunnelS = 1 /\ tunnelC = 1)

(* after the time-out nothing is adopted any more *)
NoLateAdoption == (timeout /\ selpc = "done") => tunnelC = 0

(* The complete transfer must succeed with identical files unless a stranger that knew the    *)
(* greeting was adopted by the server (the property promises nothing then).                   *)
MustSucceed == wrappedS \subseteq {1}
=============================================================================
