SPECIFICATION Spec
CONSTANTS
  Files = {}
  Texts = {3}
  Classes = {"io", "remote"}
  MaxInject = 0
  MaxNoise = 1
  WithBg = FALSE
  WithDead = {}
  AsCoded = FALSE
  Mutant = "flood"
INVARIANTS TypeOK ToldAtMostOnce ToldUnlessPeerKnows KindMatchesTraceback ShownIsSent OnlyCreated TermResetOnce DrainBounded

CHECK_DEADLOCK FALSE
