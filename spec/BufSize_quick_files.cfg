\* two files: the size persists, probing does not restart; liveness (the encoder never waits for ever)
SPECIFICATION Spec
CONSTANTS
  Floor = 1024
  P1Start = 1024
  InitSize = 10240
  HardCap = 1073741824
  BoundFloor = 1048576
  SendCap = 2
  AckCap = 2
  MaxBufs = {40960}
  Modes = {"bin"}
  Protos = {4}
  Secs = {2}
  MaxChunks = 1
  P1MaxChunks = 1
  MaxFiles = 2
  MaxPauses = 0
  StartSizes = {}
  Variant = "coded"
INVARIANTS TypeOK SizeInRange ChunksInRange NeverRejectedByReceiver NothingQueuedIsRejected ProbeEndsOnce
  TokenPaired EncoderNotStuck OneChunkWhileProbing DoubleOnlyWhenAllowed ShrinkOnlyWhenSlow
  SuspendedAfterPause ProbeEndedBy
PROPERTIES Termination
CHECK_DEADLOCK TRUE
