---------------------------- MODULE TunnelTrace ----------------------------
(* Trace validation for Tunnel: consumes the ndjson events recorded by harness/c17_tunnel.go  *)
(* from real acceptOnTunnel / connectToTunnel / sendAction / recvAction / addReceivedData     *)
(* executions (fake listener with net.Pipe ends: Rendezvous = TRUE; loopback TCP: FALSE).      *)
(* Events (i = connection, 1 = the client's own):                                             *)
(*   reset{scripts,outcome}                                                                   *)
(*   arrive{i,ok}          the dialer's connect succeeded / was refused                       *)
(*   accept{i}             the fake listener's Accept returns connection i                    *)
(*   lclose                listener.Close() called for the first time (fake listener)         *)
(*   w{i,cls}              dialer i starts one Write of a chunk of class cls                  *)
(*   close{i}              dialer i closes its end                                            *)
(*   got{i,what}           what dialer i read: reply (exactly the server greeting) | closed |  *)
(*                         open (nothing within the deadline, after `end`) | other            *)
(*   cdial{ok} cret{res} cwrite{cls} creply{cls} peof   connection 1, seen from the harness   *)
(*                         proxy between the client's connection and the listener             *)
(*   cclose                the client closed connection 1                                     *)
(*   sread{i,hello} sreply{i} cread{cls}   (TCP only) seen by the recording connections that  *)
(*                         the harness' wrapping listener / connector hand out: the handler's  *)
(*                         first Read, its Write of the greeting, the client's first Read     *)
(*   act{tunnel}           the ACT line the client wrote (its "tunnel" field)                 *)
(*   sact{tunnel}          recvAction returned on the server (action.TunnelConnected)         *)
(*   inb{side}             the harness feeds in-band garbage to a side that has agreed        *)
(*   fed{side,src}         marked bytes of source src (0 = in-band) reached that side's buffer*)
(*   ign{side}             in-band garbage was dropped by that side                           *)
(*   ret{role,ok}  fs{same}  the complete transfer that ran afterwards                        *)
(*   end                   everything has settled; final observations follow                  *)
(* The code's own steps that the harness cannot see are silent.                               *)
EXTENDS Tunnel, Json, IOUtils, TLCExt

TraceLog == ndJsonDeserialize(IOEnv.VERIF_TRACE)

CONSTANT Blind   \* TRUE: the listening side is not observable (relay): its steps are silent

VARIABLE l
tvars == <<vars, l>>

Ev == TraceLog[l]
More == l <= Len(TraceLog)
IsEvent(e) == More /\ Ev.e = e /\ l' = l + 1

TInit == InitWith([i \in Conns |-> "absent"], "refuse") /\ l = 1

Pad(s) == [i \in Conns |-> IF i <= Len(s) THEN s[i] ELSE "absent"]
TReset == IsEvent("reset") /\ Reset(Pad(Ev.scripts), Ev.outcome)

(* fake listener: the arrival is decided and logged in one critical section.  TCP: the event   *)
(* is logged some time after the kernel completed (or refused) the connection, so the arrival *)
(* itself is a silent step and the event only states its result.                              *)
TArrive == /\ IsEvent("arrive") /\ Ev.i \in Strays
           /\ IF Rendezvous
              THEN Arrive(Ev.i) /\ (Ev.ok <=> lopen)
              ELSE /\ (Ev.ok => hpc[Ev.i] \notin {"none", "refused"})
                   /\ (~Ev.ok => hpc[Ev.i] = "refused")
                   /\ UNCHANGED vars

(* TCP: Close() of the real listener and a concurrent Accept are not ordered by the log: an   *)
(* Accept the kernel completed just before the close may be logged after `lclose`; it is then  *)
(* taken silently just before `lclose` and the event only confirms it.                         *)
TAccept == /\ IsEvent("accept")
           /\ \/ AAcceptOf(Ev.i)
              \/ (~Rendezvous /\ ~lopen /\ hpc[Ev.i] \notin {"none", "refused", "queued"} /\ UNCHANGED vars)

(* whoever closed the listener: from here on it is closed and what was queued is reset *)
TLClose == /\ IsEvent("lclose")
           /\ lopen' = FALSE /\ backlog' = <<>> /\ hpc' = ListenerClosed(hpc)
           /\ UNCHANGED <<cfgv, first, replied, unread, wn, dclosed, apc, acur, tunnelS, wrappedS, cli, agr, obs>>

(* a relay stops listening when it goes back to stand-by (not observable from outside) *)
EnvClose == /\ lopen' = FALSE /\ backlog' = <<>> /\ hpc' = ListenerClosed(hpc)
            /\ UNCHANGED <<cfgv, first, replied, unread, wn, dclosed, apc, acur, tunnelS, wrappedS, cli, agr, obs>>

TW == IsEvent("w") /\ Ev.i \in Strays /\ DialerWrite(Ev.i, Ev.cls)

TClose == IsEvent("close") /\ Ev.i \in Strays /\ DialerClose(Ev.i)

(* what a dialer read.  reply: the handler's Write completes now, or completed before.        *)
(* closed: never a violation by itself.  open: the handler cannot have been given anything    *)
(* it has not acted upon.  other: no behaviour of the spec.                                   *)
TGot == /\ IsEvent("got")
        /\ \/ /\ Ev.what = "reply"
              /\ HReply(Ev.i) \/ (replied[Ev.i] /\ UNCHANGED vars)
           \/ /\ Ev.what = "closed" /\ UNCHANGED vars
           \/ /\ Ev.what = "open"
              /\ hpc[Ev.i] \notin {"closed", "accepted"}
              /\ ~(hpc[Ev.i] = "read" /\ (unread[Ev.i] # <<>> \/ dclosed[Ev.i]))
              /\ UNCHANGED vars

TCDial == /\ IsEvent("cdial")
          /\ IF Rendezvous
             THEN CDial /\ (Ev.ok <=> lopen)
             ELSE /\ (Ev.ok => hpc[1] \notin {"none", "refused"})
                  /\ (~Ev.ok => hpc[1] = "refused")
                  /\ UNCHANGED vars
TCRet == /\ IsEvent("cret") /\ CReturn
         /\ (Ev.res = "nil") <=> (outcome = "refuse" \/ hpc[1] = "refused")
TCWrite == IsEvent("cwrite") /\ CWrite(Ev.cls)
TCReply == IsEvent("creply") /\ ((Ev.cls = "hello" /\ ProxyReply) \/ (Ev.cls = "other" /\ RogueReply))
TPEof == IsEvent("peof") /\ ProxyEof
TCClose == IsEvent("cclose") /\ ((cclosed /\ UNCHANGED vars) \/ CCleanup)

TAct == /\ IsEvent("act")
        /\ \/ SendAction /\ act' = (IF Ev.tunnel THEN "tunnel" ELSE "inband")
           \/ act = (IF Ev.tunnel THEN "tunnel" ELSE "inband") /\ UNCHANGED vars

TSAct == IsEvent("sact") /\ SRecvAction /\ (Ev.tunnel <=> act = "tunnel")

TInb == /\ IsEvent("inb")
        /\ \/ Ev.side = "S" /\ sAgreed /\ InbandS
           \/ Ev.side = "C" /\ cAgreed /\ InbandC

TIgn == /\ IsEvent("ign")
        /\ \/ Ev.side = "S" /\ sAgreed
           \/ Ev.side = "C" /\ cAgreed
        /\ UNCHANGED vars

TFed == /\ IsEvent("fed")
        /\ \/ /\ Ev.side = "S" /\ Ev.src = 0 /\ ~sAgreed /\ InbandS
           \/ /\ Ev.side = "C" /\ Ev.src = 0 /\ ~cAgreed /\ InbandC
           \/ /\ Ev.side = "S" /\ Ev.src \in Conns
              /\ SPump(Ev.src) \/ (Ev.src \in fedS /\ Ev.src \in wrappedS /\ UNCHANGED vars)
           \/ /\ Ev.side = "C" /\ Ev.src = 1 /\ CPump

TRet == IsEvent("ret") /\ (MustSucceed => Ev.ok) /\ UNCHANGED vars
TFs  == IsEvent("fs") /\ (MustSucceed => Ev.same) /\ UNCHANGED vars
TEnd == IsEvent("end") /\ UNCHANGED vars

(* TCP: the recording connection handed out by the wrapping listener saw the handler's first  *)
(* Read return (hello: it was exactly the greeting) / its Write of the server greeting begin;  *)
(* the recording connection returned by the connector saw the client's first Read return.      *)
TSRead == /\ IsEvent("sread") /\ ~Rendezvous
          /\ HRead(Ev.i) /\ (Ev.hello <=> hpc'[Ev.i] = "reply")
TSReply == IsEvent("sreply") /\ ~Rendezvous /\ HReply(Ev.i)
TCRead == /\ IsEvent("cread") /\ ~Rendezvous
          /\ CRead /\ (Ev.cls = "hello" <=> creply = "hello")

(* steps of the code the harness does not see.  On TCP the kernel completes a connect some    *)
(* time before the harness logs it, and delivers the reply / the close to the client's end on  *)
(* its own: these steps are taken just before the event that shows them.                       *)
NextIs(e) == More /\ Ev.e = e
(* the next event shows that the listener has stopped listening *)
ClosingNext == NextIs("lclose") \/ (More /\ Ev.e \in {"arrive", "cdial"} /\ ~Ev.ok)
TSilent ==
    /\ More /\ UNCHANGED l
    /\ \/ ACheck \/ AAcceptErr
       \/ \E i \in Conns : HReplyFail(i) \/ HCas(i) \/ HCloseListener(i)
       \/ (Rendezvous /\ \E i \in Conns : HRead(i))
       \/ CCheck2 \/ CWriteErr \/ SelectConn \/ TimerFires \/ SendAction
       \/ (Rendezvous /\ CRead)
       \/ (~Rendezvous /\ \E i \in Strays : /\ (ClosingNext \/ (Ev.e \in {"arrive", "accept"} /\ Ev.i = i))
                                              /\ Arrive(i))
       \/ (~Rendezvous /\ ClosingNext /\ AAccept)
       \/ (~Rendezvous /\ (ClosingNext \/ NextIs("cdial") \/ (NextIs("accept") /\ Ev.i = 1)) /\ CDial)
       \/ (~Rendezvous /\ NextIs("cread") /\ (ProxyReply \/ ProxyEof))
       \/ (Blind /\ (AAccept \/ CDial \/ (\E i \in Strays : Arrive(i)) \/ \E i \in Conns : HRead(i) \/ HReply(i)))
       \/ (Blind /\ lopen /\ Ev.e \in {"arrive", "cdial"} /\ ~Ev.ok /\ EnvClose)

TNext == TReset \/ TArrive \/ TAccept \/ TLClose \/ TW \/ TClose \/ TGot
         \/ TCDial \/ TCRet \/ TCWrite \/ TCReply \/ TPEof \/ TCClose
         \/ TSRead \/ TSReply \/ TCRead
         \/ TAct \/ TSAct \/ TInb \/ TIgn \/ TFed \/ TRet \/ TFs \/ TEnd \/ TSilent

TSpec == TInit /\ [][TNext]_tvars

(* high-water mark of consumed lines; TLCSet/TLCGet register 1, -workers 1 *)
HW == IF l > TLCGet(1) THEN TLCSet(1, l) ELSE TRUE
ASSUME TLCSet(1, 0)
Accepted == IF TLCGet(1) = Len(TraceLog) + 1 THEN TRUE
            ELSE PrintT("HW " \o ToString(TLCGet(1))) /\ FALSE
=============================================================================
