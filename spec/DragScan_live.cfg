SPECIFICATION Spec
CONSTANTS
  OSes = {"linux", "macos", "win"}
  AlphaLinux = {"R", "SL", "a", "SP", "SQ"}
  AlphaMac = {"R", "SL", "a", "SP", "BS"}
  AlphaWin = {"WC", "MC", "a", "SP", "DQ", "SQ"}
  MaxSyms = 4
  RootLen = 3
  FSNames = {"L1", "W1"}
  Quirks = {"MinLen", "MacRel", "MacTail"}
PROPERTIES Termination
CHECK_DEADLOCK TRUE
