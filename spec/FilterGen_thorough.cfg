SPECIFICATION GSpec
CONSTANTS
  MaxOut = 99
  MaxIn = 99
  MaxXfer = 99
  MaxZ = 99
  MaxDrag = 99
  FeedOut = {}
  FeedIn = {}
  OptSets <- AllOpts
  ExitCodes = {}
  EchoAssumed = TRUE
  MaxHist = 2
  NProbes = 2
  GenOut = {"plain", "near", "cmdlike", "zmlike", "zmcancel", "zmhdr", "osc52", "neartl", "tlmark"}
  GenIn = {"plain", "ctrlc", "pathnon", "pathex"}
INVARIANTS Export PassThroughOut PassThroughIn PtrClearedOnEveryExit NoStuckFlags
CHECK_DEADLOCK FALSE
