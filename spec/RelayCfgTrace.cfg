SPECIFICATION TSpec
CONSTANTS
  ProtoSet = {0, 1, 2, 3, 4, 5, 9}
  MaxProto = 4
INVARIANTS TNoBinaryWithoutTunnel TProtocolClamped TOnlyAdds TNewlineAsDirect TActOnlyNarrows
CONSTRAINT HW
POSTCONDITION Accepted
CHECK_DEADLOCK FALSE
