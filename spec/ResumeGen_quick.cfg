SPECIFICATION Spec
CONSTANTS
  B = 3
  MaxBlocks = 2
  Protocols = {2, 3, 4}
  AllPatterns = FALSE
  AsCoded = TRUE
INVARIANTS Export FinalEqualsSrc SkippedNeverExceedsProven
CHECK_DEADLOCK FALSE
