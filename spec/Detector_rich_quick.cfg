SPECIFICATION Spec
CONSTANTS
  MaxMem = 2
  PruneN = 1
  MaxChunks = 2
  MaxToks = 2
  Roles = {"client", "relay", "relaytmux"}
  WinVals = {TRUE, FALSE}
  Modes = {"R"}
  Vers = {"new"}
  Ports <- PortsSmall
  Shapes = {"none", "short", "s00", "s10", "s20", "d15", "p11"}
  TsSet = {1}
  PartKinds = {"inmarker", "marker", "ver2", "badmode", "gover"}
  Markers = {"Saved", "CFG"}
  Places = {"near", "far"}
  CtlKinds = {"none", "out", "ext", "fake"}
  WithJunk = TRUE
INVARIANTS TypeOK AtMostOnePerChunk FieldsAsAdvertised ShownFormInert RelayFormStillRecognised ReplaySuppressed RecentRemembered ScrollbackSuppressed FreshIdFires
CHECK_DEADLOCK FALSE
