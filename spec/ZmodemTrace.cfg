SPECIFICATION TSpec
CONSTANTS
  Ups = {TRUE, FALSE}
  Starts = {"ok", "nopath", "nochoice"}
  Vetoes = {"none", "can", "cno"}
  MaxHdr = 1000
  MaxSrv = 1000
  MaxHout = 1000
  MaxCtrlC = 1000
  MaxText = 1000
  InitBeforePublish = TRUE
  ErrArms = {TRUE, FALSE}
INVARIANTS TypeOK VetoedHeaderStartsNothing CancelSentToWaiter ActiveHasHelper CursorBack
CONSTRAINT HW
POSTCONDITION Accepted
CHECK_DEADLOCK FALSE
