------------------------------ MODULE DragScan ------------------------------
(* X02 part A: trzsz/drag.go, the byte-level scanners that Filter.tla abstracts to "the    *)
(* chunk is / is not a list of existing paths" (chunk kinds pathex / pathnon).              *)
(*                                                                                          *)
(* One action per loop turn / branch of the Go code:                                        *)
(*   detectDragFiles        PasteNone PasteStrip PasteOnly Dispatch* OtherOS                *)
(*   detectDragFilesOnLinux LinuxGuardFail LinuxGuardOk  (loop: LoopTurn LoopEnd)           *)
(*   nextLinuxPath / nextWinPath / nextMsysPath / nextCygPath                                *)
(*                          NextShort NextQuoted NextPlain NextOther, the bytes.IndexByte   *)
(*                          loop ScanMiss ScanHit ScanEnd, then QuotedNoClose               *)
(*                          QuotedBadFollow QuotedOk PlainNoSpaceFail PlainWhole PlainOk    *)
(*   detectFilePath         StatOk StatFail                                                 *)
(*   detectDragFilesOnMacOS MacGuardFail MacGuardOk MacSpaceOk MacSpaceFail MacEscape       *)
(*                          MacByte MacEndClean MacEndDirty                                 *)
(*   detectDragFilesOnWindows WinShort WinLostQuoteHit WinStyle WinNoStyle                  *)
(* A byte is a model value named after what the scanners look at (SP BS SQ DQ SL CO ...,    *)
(* the letters that occur in "/cygdrive/", an upper-case drive letter).  The file system is *)
(* a function from paths (byte sequences) to "file" / "dir" / "other" with the kernel's     *)
(* treatment of repeated and trailing slashes.  Inputs are built from SYMBOLS: a symbol is  *)
(* a byte or a macro for a byte string ("R": the root directory under which the test files  *)
(* live, RootLen bytes; "Y": /cygdrive; "PS"/"PE": bracketed-paste marks).                  *)
(*                                                                                          *)
(* The REFERENCE (what a drag is meant to be) is declarative: a chunk is a drag iff it can  *)
(* be cut at spaces into well-formed tokens each of which names an existing file or         *)
(* directory; RefTokens says which.  Where the code evidently deviates from that reading    *)
(* the deviation has a name in Quirks; AllOrNothing is checked for Quirks = AsCoded, the    *)
(* generator exports both verdicts so that each deviation is shown on the real code.        *)
EXTENDS Integers, Sequences, FiniteSets, TLC, SequencesExt

CONSTANTS OSes,                         \* subset of {"linux", "macos", "win", "other"}
          AlphaLinux, AlphaMac, AlphaWin, \* symbols the inputs are built from, per scanner
          MaxSyms,                      \* all inputs of at most MaxSyms symbols
          RootLen,                      \* byte length of the root macro "R"
          FSNames,                      \* file systems explored (see FS)
          Quirks                        \* named deviations the reference takes over from the code

SP == "SP"   BS == "BS"   SQ == "SQ"   DQ == "DQ"   SL == "SL"   CO == "CO"
CR == "CR"   ESC == "ESC" LB == "LB"   TI == "TI"   OT == "OT"
Lower == {"a", "b", "c", "d", "e", "g", "i", "r", "v", "y", "z"}
Upper == {"C", "D"}
CygP == <<SL, "c", "y", "g", "d", "r", "i", "v", "e">>          \* /cygdrive
PasteS == <<ESC, LB, "2", "0", "0", TI>>
PasteE == <<ESC, LB, "2", "0", "1", TI>>
Paste20 == <<ESC, LB, "2", "0">>
RootP == <<SL>> \o [i \in 1..(RootLen - 1) |-> "z"]

AsCoded == {"MinLen", "MacRel", "MacTail"}

Expand(s) == CASE s = "R" -> RootP [] s = "Y" -> CygP [] s = "PS" -> PasteS [] s = "PE" -> PasteE
               [] s = "P2" -> Paste20
               [] s = "WC" -> <<"C", CO, BS>> [] s = "MC" -> <<SL, "c", SL>> [] s = "YC" -> CygP \o <<SL, "c", SL>>
               [] s = "RA" -> RootP \o <<SL, "a">> [] s = "RD" -> RootP \o <<SL, "d">>
               [] OTHER -> <<s>>
RECURSIVE ExpandSeq(_)
ExpandSeq(ss) == IF ss = <<>> THEN <<>> ELSE Expand(Head(ss)) \o ExpandSeq(Tail(ss))

-----------------------------------------------------------------------------
(* File systems.  L*: absolute paths under the root (and the real "/"), one entry relative  *)
(* to the working directory.  W*: names relative to the working directory (what a Windows   *)
(* path is for os.Stat on the machine the binding runs on).                                  *)
P(a, b) == a \o b
FS(n) ==
  CASE n = "L0" -> (<<SL>> :> "dir")
    [] n = "L1" -> (<<SL>> :> "dir") @@ (RootP :> "dir") @@ (P(RootP, <<SL, "a">>) :> "file")
                   @@ (P(RootP, <<SL, "a", SP, "a">>) :> "file") @@ (P(RootP, <<SL, "d">>) :> "dir")
                   @@ (P(RootP, <<SL, "b">>) :> "other") @@ (<<"a">> :> "file")
                   @@ (P(RootP, <<SL, "a", BS>>) :> "file") @@ (P(RootP, <<SL, "a", SQ, "a">>) :> "file")
    [] n = "W0" -> (<<SL>> :> "dir")
    [] n = "W1" -> (<<SL>> :> "dir") @@ (<<"C", CO, BS, "a">> :> "file") @@ (<<"C", CO, BS>> :> "dir")
                   @@ (<<"C", CO, BS, "a", SP, "a">> :> "file") @@ (<<"c", CO, BS, "a">> :> "file")
                   @@ (<<"c", CO, BS>> :> "dir") @@ (<<"c", CO, BS, "a", SP, "a">> :> "file")
                   @@ (<<"C", CO, BS, "a", "a">> :> "file") @@ (<<"c", CO, BS, "d", BS, "a">> :> "file")

RECURSIVE Collapse(_)
Collapse(p) == IF Len(p) < 2 THEN p
               ELSE IF p[1] = SL /\ p[2] = SL THEN Collapse(Tail(p))
               ELSE <<p[1]>> \o Collapse(Tail(p))
(* os.Stat(p): "none" = error *)
Kind(fs, p) ==
    IF p = <<>> THEN "none"
    ELSE LET c == Collapse(p)
             t == IF Len(c) > 1 /\ c[Len(c)] = SL THEN SubSeq(c, 1, Len(c) - 1) ELSE c
         IN IF t \in DOMAIN fs THEN (IF c # t /\ fs[t] # "dir" THEN "none" ELSE fs[t]) ELSE "none"
PathOK(fs, p) == Kind(fs, p) \in {"file", "dir"}      \* detectFilePath

-----------------------------------------------------------------------------
VARIABLES os, fsn, chunk,     \* the case: platform, file system, the bytes read from the user
          buf,                \* detectDragFiles' working slice (after the bracketed-paste marks are removed)
          pc, style, idx, turns,
          quoted, hay, k, found,   \* nextXxxPath and its bytes.IndexByte loop
          path, adv,
          pathBuf,            \* macOS
          files, hasDir, res

vars == <<os, fsn, chunk, buf, pc, style, idx, turns, quoted, hay, k, found, path, adv, pathBuf, files, hasDir, res>>

NoRes == [drag |-> FALSE, files |-> <<>>, hasDir |-> FALSE, ignore |-> FALSE, isWin |-> FALSE, forward |-> <<>>]
Len0 == Len(buf)
Rest == SubSeq(buf, idx + 1, Len(buf))            \* buf[idx:]
At(s, j) == s[j + 1]                               \* 0-based, as in the Go code

AlphaOf(o) == CASE o = "linux" -> AlphaLinux [] o = "macos" -> AlphaMac [] o = "win" -> AlphaWin [] OTHER -> AlphaLinux
FSOf(o) == IF o = "win" THEN {n \in FSNames : n \in {"W0", "W1"}} ELSE {n \in FSNames : n \in {"L0", "L1"}}
SymSeqs(A, n) == UNION {[1..m -> A] : m \in 0..n}

Start(o, f, c) ==
    /\ os = o /\ fsn = f /\ chunk = c /\ buf = c
    /\ pc = "start" /\ style = "none" /\ idx = 0 /\ turns = 0
    /\ quoted = FALSE /\ hay = <<>> /\ k = 0 /\ found = FALSE
    /\ path = <<>> /\ adv = 0 /\ pathBuf = <<>> /\ files = <<>> /\ hasDir = FALSE /\ res = NoRes

Init == \E o \in OSes : \E f \in FSOf(o) : \E ss \in SymSeqs(AlphaOf(o), MaxSyms) : Start(o, f, ExpandSeq(ss))

(* the same as an assignment (for the trace / generator modules) *)
Load(o, f, c) ==
    /\ os' = o /\ fsn' = f /\ chunk' = c /\ buf' = c
    /\ pc' = "start" /\ style' = "none" /\ idx' = 0 /\ turns' = 0
    /\ quoted' = FALSE /\ hay' = <<>> /\ k' = 0 /\ found' = FALSE
    /\ path' = <<>> /\ adv' = 0 /\ pathBuf' = <<>> /\ files' = <<>> /\ hasDir' = FALSE /\ res' = NoRes

(* return from detectDragFiles; what sendInput then writes to the server is res.forward *)
Finish(drag, fl, hd, ign, win) ==
    /\ pc' = "done"
    /\ res' = [drag |-> drag, files |-> fl, hasDir |-> hd, ignore |-> ign, isWin |-> win,
               forward |-> IF drag THEN <<>> ELSE chunk]
Nil == Finish(FALSE, <<>>, FALSE, FALSE, FALSE)
NilStyle == Finish(FALSE, <<>>, FALSE, FALSE, style = "win")      \* `return nil, false, false, isWinPath`

-----------------------------------------------------------------------------
(* detectDragFiles                                                                           *)
HasSub(s, pat) == \E i \in 1..(Len(s) - Len(pat) + 1) : SubSeq(s, i, i + Len(pat) - 1) = pat
RECURSIVE RemoveAll(_, _)        \* bytes.ReplaceAll(s, pat, "")
RemoveAll(s, pat) ==
    IF Len(s) < Len(pat) THEN s
    ELSE IF SubSeq(s, 1, Len(pat)) = pat THEN RemoveAll(SubSeq(s, Len(pat) + 1, Len(s)), pat)
    ELSE <<s[1]>> \o RemoveAll(Tail(s), pat)
Stripped(s) == RemoveAll(RemoveAll(s, PasteS), PasteE)
HasPaste == Len(buf) > 5 /\ HasSub(buf, Paste20)

PasteNone  == pc = "start" /\ ~HasPaste /\ pc' = "os"
              /\ UNCHANGED <<os, fsn, chunk, buf, style, idx, turns, quoted, hay, k, found, path, adv, pathBuf, files, hasDir, res>>
PasteStrip == pc = "start" /\ HasPaste /\ Stripped(buf) # <<>> /\ buf' = Stripped(buf) /\ pc' = "os"
              /\ UNCHANGED <<os, fsn, chunk, style, idx, turns, quoted, hay, k, found, path, adv, pathBuf, files, hasDir, res>>
PasteOnly  == pc = "start" /\ HasPaste /\ Stripped(buf) = <<>> /\ Finish(FALSE, <<>>, FALSE, TRUE, FALSE)
              /\ UNCHANGED <<os, fsn, chunk, buf, style, idx, turns, quoted, hay, k, found, path, adv, pathBuf, files, hasDir>>
Dispatch(o, to) == pc = "os" /\ os = o /\ pc' = to
              /\ UNCHANGED <<os, fsn, chunk, buf, style, idx, turns, quoted, hay, k, found, path, adv, pathBuf, files, hasDir, res>>
DispatchLinux == Dispatch("linux", "lxguard")
DispatchMac   == Dispatch("macos", "macguard")
DispatchWin   == Dispatch("win", "winguard")
OtherOS == pc = "os" /\ os \notin {"linux", "macos", "win"} /\ Nil
              /\ UNCHANGED <<os, fsn, chunk, buf, style, idx, turns, quoted, hay, k, found, path, adv, pathBuf, files, hasDir>>

uAll == <<os, fsn, chunk, buf>>

-----------------------------------------------------------------------------
(* detectDragFilesOnLinux                                                                    *)
LinuxGuard == Len0 >= 3 /\ ((At(buf, 0) = SQ /\ At(buf, 1) = SL) \/ At(buf, 0) = SL) /\ At(buf, Len0 - 1) = SP
LinuxGuardFail == pc = "lxguard" /\ ~LinuxGuard /\ Nil
                  /\ UNCHANGED <<uAll, style, idx, turns, quoted, hay, k, found, path, adv, pathBuf, files, hasDir>>
LinuxGuardOk   == pc = "lxguard" /\ LinuxGuard /\ style' = "lx" /\ pc' = "loop"
                  /\ UNCHANGED <<uAll, idx, turns, quoted, hay, k, found, path, adv, pathBuf, files, hasDir, res>>

(* `for idx := 0; idx < length; idx += i` of the Linux and the Windows scanner               *)
LoopTurn == pc = "loop" /\ idx < Len0 /\ pc' = "next" /\ turns' = turns + 1
            /\ UNCHANGED <<uAll, style, idx, quoted, hay, k, found, path, adv, pathBuf, files, hasDir, res>>
LoopEnd  == pc = "loop" /\ idx >= Len0 /\ Finish(TRUE, files, hasDir, FALSE, FALSE)
            /\ UNCHANGED <<uAll, style, idx, turns, quoted, hay, k, found, path, adv, pathBuf, files, hasDir>>

-----------------------------------------------------------------------------
(* nextLinuxPath / nextWinPath / nextMsysPath / nextCygPath: the same shape, differing in    *)
(* the head test, the quote character, the test after the closing quote, what a token        *)
(* without a space is, and the conversion of the path.                                        *)
MinTok(st) == CASE st = "lx" -> 3 [] st = "cyg" -> 13 [] OTHER -> 4
QuoteOf(st) == IF st = "win" THEN DQ ELSE SQ
IsPre(r, p) == Len(r) >= Len(p) /\ SubSeq(r, 1, Len(p)) = p
AtP(r, j) == IF j < Len(r) THEN r[j + 1] ELSE "NONE"     \* total (the Go code tests the length first)
HeadQuoted(st, r) ==
    CASE st = "lx"   -> AtP(r, 0) = SQ /\ AtP(r, 1) = SL
      [] st = "win"  -> AtP(r, 0) = DQ /\ AtP(r, 1) \in Upper /\ AtP(r, 2) = CO /\ AtP(r, 3) = BS
      [] st = "msys" -> AtP(r, 0) = SQ /\ AtP(r, 1) = SL /\ AtP(r, 2) \in Lower /\ AtP(r, 3) = SL
      [] st = "cyg"  -> IsPre(r, <<SQ>> \o CygP \o <<SL>>) /\ AtP(r, 11) \in Lower /\ AtP(r, 12) = SL
HeadPlain(st, r) ==
    CASE st = "lx"   -> AtP(r, 0) = SL
      [] st = "win"  -> AtP(r, 0) \in Upper /\ AtP(r, 1) = CO /\ AtP(r, 2) = BS
      [] st = "msys" -> AtP(r, 0) = SL /\ AtP(r, 1) \in Lower /\ AtP(r, 2) = SL
      [] st = "cyg"  -> IsPre(r, CygP \o <<SL>>) /\ AtP(r, 10) \in Lower /\ AtP(r, 11) = SL
(* unixPathToWinPath *)
U2W(b) == <<At(b, 1), CO>> \o [j \in 1..(Len(b) - 2) |-> IF b[j + 2] = SL THEN BS ELSE b[j + 2]]
(* the path of a token body b (quotes and separator removed) *)
Conv(st, b) == CASE st \in {"lx", "win"} -> b [] st = "msys" -> U2W(b) [] st = "cyg" -> U2W(SubSeq(b, 10, Len(b)))

uNext == <<uAll, style, idx, turns, pathBuf, files, hasDir>>
NextShort  == pc = "next" /\ Len(Rest) < MinTok(style) /\ NilStyle
              /\ UNCHANGED <<uNext, quoted, hay, k, found, path, adv>>
NextQuoted == pc = "next" /\ Len(Rest) >= MinTok(style) /\ HeadQuoted(style, Rest)
              /\ quoted' = TRUE /\ hay' = Tail(Rest) /\ k' = 0 /\ pc' = "scan"      \* bytes.IndexByte(buf[1:], quote)
              /\ UNCHANGED <<uNext, found, path, adv, res>>
NextPlain  == pc = "next" /\ Len(Rest) >= MinTok(style) /\ ~HeadQuoted(style, Rest) /\ HeadPlain(style, Rest)
              /\ quoted' = FALSE /\ hay' = Rest /\ k' = 0 /\ pc' = "scan"           \* bytes.IndexByte(buf, ' ')
              /\ UNCHANGED <<uNext, found, path, adv, res>>
NextOther  == pc = "next" /\ Len(Rest) >= MinTok(style) /\ ~HeadQuoted(style, Rest) /\ ~HeadPlain(style, Rest) /\ NilStyle
              /\ UNCHANGED <<uNext, quoted, hay, k, found, path, adv>>

Target == IF quoted THEN QuoteOf(style) ELSE SP
ScanMiss == pc = "scan" /\ k < Len(hay) /\ At(hay, k) # Target /\ k' = k + 1
            /\ UNCHANGED <<uNext, quoted, hay, found, path, adv, pc, res>>
ScanHit  == pc = "scan" /\ k < Len(hay) /\ At(hay, k) = Target /\ found' = TRUE /\ pc' = "cut"
            /\ UNCHANGED <<uNext, quoted, hay, k, path, adv, res>>
ScanEnd  == pc = "scan" /\ k >= Len(hay) /\ found' = FALSE /\ pc' = "cut"
            /\ UNCHANGED <<uNext, quoted, hay, k, path, adv, res>>

Ix == k + 1                                        \* `idx++`: position of the closing quote in buf
BadFollow == IF style = "lx" THEN Ix + 1 >= Len(Rest) \/ At(Rest, Ix + 1) # SP
             ELSE Ix + 1 < Len(Rest) /\ At(Rest, Ix + 1) # SP
QuotedNoClose   == pc = "cut" /\ quoted /\ ~found /\ NilStyle
                   /\ UNCHANGED <<uNext, quoted, hay, k, found, path, adv>>
QuotedBadFollow == pc = "cut" /\ quoted /\ found /\ BadFollow /\ NilStyle
                   /\ UNCHANGED <<uNext, quoted, hay, k, found, path, adv>>
QuotedOk        == pc = "cut" /\ quoted /\ found /\ ~BadFollow
                   /\ path' = Conv(style, SubSeq(Rest, 2, Ix)) /\ adv' = Ix + 2 /\ pc' = "stat"
                   /\ UNCHANGED <<uNext, quoted, hay, k, found, res>>
PlainNoSpaceFail == pc = "cut" /\ ~quoted /\ ~found /\ style = "lx" /\ NilStyle
                   /\ UNCHANGED <<uNext, quoted, hay, k, found, path, adv>>
PlainWhole      == pc = "cut" /\ ~quoted /\ ~found /\ style # "lx"            \* `return string(buf), length`
                   /\ path' = Conv(style, Rest) /\ adv' = Len(Rest) /\ pc' = "stat"
                   /\ UNCHANGED <<uNext, quoted, hay, k, found, res>>
PlainOk         == pc = "cut" /\ ~quoted /\ found
                   /\ path' = Conv(style, SubSeq(Rest, 1, k)) /\ adv' = k + 1 /\ pc' = "stat"
                   /\ UNCHANGED <<uNext, quoted, hay, k, found, res>>

(* detectFilePath, then `idx += i`                                                           *)
StatOk   == pc = "stat" /\ PathOK(FS(fsn), path)
            /\ files' = Append(files, path) /\ hasDir' = (hasDir \/ Kind(FS(fsn), path) = "dir")
            /\ idx' = idx + adv /\ pc' = "loop"
            /\ UNCHANGED <<uAll, style, turns, quoted, hay, k, found, path, adv, pathBuf, res>>
StatFail == pc = "stat" /\ ~PathOK(FS(fsn), path) /\ NilStyle
            /\ UNCHANGED <<uAll, style, idx, turns, quoted, hay, k, found, path, adv, pathBuf, files, hasDir>>

-----------------------------------------------------------------------------
(* detectDragFilesOnMacOS (not Warp: isWarpTerminal() is a constant of the build)            *)
MacGuard == Len0 >= 3 /\ At(buf, 0) = SL /\ At(buf, Len0 - 1) = SP /\ At(buf, Len0 - 2) # BS
MacGuardFail == pc = "macguard" /\ ~MacGuard /\ Nil
                /\ UNCHANGED <<uAll, style, idx, turns, quoted, hay, k, found, path, adv, pathBuf, files, hasDir>>
MacGuardOk   == pc = "macguard" /\ MacGuard /\ style' = "mac" /\ pc' = "macloop"
                /\ UNCHANGED <<uAll, idx, turns, quoted, hay, k, found, path, adv, pathBuf, files, hasDir, res>>
uMac == <<uAll, style, quoted, hay, k, found, path, adv>>
MacSpaceOk   == pc = "macloop" /\ idx < Len0 /\ At(buf, idx) = SP /\ PathOK(FS(fsn), pathBuf)
                /\ files' = Append(files, pathBuf) /\ hasDir' = (hasDir \/ Kind(FS(fsn), pathBuf) = "dir")
                /\ pathBuf' = <<>> /\ idx' = idx + 1 /\ turns' = turns + 1
                /\ UNCHANGED <<uMac, pc, res>>
MacSpaceFail == pc = "macloop" /\ idx < Len0 /\ At(buf, idx) = SP /\ ~PathOK(FS(fsn), pathBuf) /\ Nil
                /\ UNCHANGED <<uMac, idx, turns, pathBuf, files, hasDir>>
MacEscape    == pc = "macloop" /\ idx < Len0 /\ At(buf, idx) = BS
                /\ pathBuf' = (IF idx + 1 < Len0 THEN Append(pathBuf, At(buf, idx + 1)) ELSE pathBuf)
                /\ idx' = idx + 2 /\ turns' = turns + 1
                /\ UNCHANGED <<uMac, pc, files, hasDir, res>>
MacByte      == pc = "macloop" /\ idx < Len0 /\ At(buf, idx) \notin {SP, BS}
                /\ pathBuf' = Append(pathBuf, At(buf, idx)) /\ idx' = idx + 1 /\ turns' = turns + 1
                /\ UNCHANGED <<uMac, pc, files, hasDir, res>>
MacEndClean  == pc = "macloop" /\ idx >= Len0 /\ pathBuf = <<>> /\ Finish(TRUE, files, hasDir, FALSE, FALSE)
                /\ UNCHANGED <<uMac, idx, turns, pathBuf, files, hasDir>>
MacEndDirty  == pc = "macloop" /\ idx >= Len0 /\ pathBuf # <<>> /\ Nil
                /\ UNCHANGED <<uMac, idx, turns, pathBuf, files, hasDir>>

-----------------------------------------------------------------------------
(* detectDragFilesOnWindows                                                                  *)
LostQuote(b) == /\ Len(b) >= 4 /\ b[Len(b)] = DQ /\ HeadPlain("win", b)
                /\ \A j \in 1..(Len(b) - 1) : b[j] # DQ
StyleOf(b) == IF HeadQuoted("win", b) \/ HeadPlain("win", b) THEN "win"
              ELSE IF HeadQuoted("msys", b) \/ HeadPlain("msys", b) THEN "msys"
              ELSE IF (Len(b) > 13 /\ HeadQuoted("cyg", b)) \/ (Len(b) > 12 /\ HeadPlain("cyg", b)) THEN "cyg"
              ELSE "none"
LostHit == LostQuote(buf) /\ PathOK(FS(fsn), SubSeq(buf, 1, Len0 - 1))
uWin == <<uAll, idx, turns, quoted, hay, k, found, path, adv, pathBuf>>
WinShort        == pc = "winguard" /\ Len0 < 4 /\ Nil /\ UNCHANGED <<uWin, style, files, hasDir>>
WinLostQuoteHit == pc = "winguard" /\ Len0 >= 4 /\ LostHit
                   /\ LET p == SubSeq(buf, 1, Len0 - 1) IN
                        /\ Finish(TRUE, <<p>>, Kind(FS(fsn), p) = "dir", FALSE, FALSE)
                        /\ files' = <<p>> /\ hasDir' = (Kind(FS(fsn), p) = "dir")
                   /\ UNCHANGED <<uWin, style>>
WinStyle        == pc = "winguard" /\ Len0 >= 4 /\ ~LostHit /\ StyleOf(buf) # "none"
                   /\ style' = StyleOf(buf) /\ pc' = "loop" /\ UNCHANGED <<uWin, files, hasDir, res>>
WinNoStyle      == pc = "winguard" /\ Len0 >= 4 /\ ~LostHit /\ StyleOf(buf) = "none" /\ Nil
                   /\ UNCHANGED <<uWin, style, files, hasDir>>

-----------------------------------------------------------------------------
Done == pc = "done" /\ UNCHANGED vars        \* the call has returned

Step == \/ PasteNone \/ PasteStrip \/ PasteOnly \/ DispatchLinux \/ DispatchMac \/ DispatchWin \/ OtherOS
        \/ LinuxGuardFail \/ LinuxGuardOk \/ LoopTurn \/ LoopEnd
        \/ NextShort \/ NextQuoted \/ NextPlain \/ NextOther \/ ScanMiss \/ ScanHit \/ ScanEnd
        \/ QuotedNoClose \/ QuotedBadFollow \/ QuotedOk \/ PlainNoSpaceFail \/ PlainWhole \/ PlainOk
        \/ StatOk \/ StatFail
        \/ MacGuardFail \/ MacGuardOk \/ MacSpaceOk \/ MacSpaceFail \/ MacEscape \/ MacByte \/ MacEndClean \/ MacEndDirty
        \/ WinShort \/ WinLostQuoteHit \/ WinStyle \/ WinNoStyle
Next == Step \/ Done
Spec == Init /\ [][Next]_vars /\ WF_vars(Step)

-----------------------------------------------------------------------------
(* The reference: what a drag is, stated on the chunk, not by running the machine.           *)
SpacesOf(b) == {i \in 1..Len(b) : b[i] = SP}
SegsOf(b, cuts) == LET cs == SetToSortSeq(cuts, <) IN
                   [j \in 1..Len(cs) |-> SubSeq(b, (IF j = 1 THEN 1 ELSE cs[j - 1] + 1), cs[j])]
NoByte(s, x) == \A j \in 1..Len(s) : s[j] # x
Q(q) == q \in Quirks

(* token body -> path, <<>> when the body is not a well-formed token of that style *)
TokPath(st, body) ==
    LET n == Len(body) q == QuoteOf(st) IN
    IF n >= 3 /\ body[1] = q /\ body[n] = q /\ NoByte(SubSeq(body, 2, n - 1), q) /\ HeadPlain(st, SubSeq(body, 2, n - 1))
       THEN Conv(st, SubSeq(body, 2, n - 1))
    ELSE IF n >= 1 /\ HeadPlain(st, body) /\ NoByte(body, SP)
       THEN Conv(st, body)
    ELSE <<>>

(* Linux: every token is followed by a space.  Windows styles: the last one need not be.     *)
(* cuts = the spaces that separate; the j-th token lies between two consecutive cuts.         *)
CutSeq(st, b, cuts) == SetToSortSeq(IF st = "lx" THEN cuts ELSE cuts \cup {Len(b)}, <)
LoOf(st, b, cuts, j) == IF j = 1 THEN 1 ELSE CutSeq(st, b, cuts)[j - 1] + 1
Body(st, b, cuts, j) == LET hi == CutSeq(st, b, cuts)[j] lo == LoOf(st, b, cuts, j) IN
                        IF hi \in cuts THEN SubSeq(b, lo, hi - 1) ELSE SubSeq(b, lo, hi)
RefCuts(st, b) ==
    {cuts \in SUBSET SpacesOf(b) :
        /\ Len(b) > 0 /\ (st = "lx" => Len(b) \in cuts)
        /\ \A j \in 1..Len(CutSeq(st, b, cuts)) :
              /\ TokPath(st, Body(st, b, cuts, j)) # <<>>
              \* quirk MinLen: nextXxxPath gives up when fewer than 3 / 4 / 13 bytes remain
              /\ Q("MinLen") => Len(b) - LoOf(st, b, cuts, j) + 1 >= MinTok(st)}
RefPaths(st, b, cuts) == [j \in 1..Len(CutSeq(st, b, cuts)) |-> TokPath(st, Body(st, b, cuts, j))]

(* macOS: tokens end at unescaped spaces, a backslash escapes the byte after it               *)
BsRun(b, i) == CHOOSE n \in 0..(i - 1) : (\A j \in (i - n)..(i - 1) : b[j] = BS) /\ (i - n - 1 < 1 \/ b[i - n - 1] # BS)
Escaped(b, i) == BsRun(b, i) % 2 = 1
MacSeps(b) == {i \in 1..Len(b) : b[i] = SP /\ ~Escaped(b, i)}
Unescape(s) == LET keep == {i \in 1..Len(s) : ~(s[i] = BS /\ ~Escaped(s, i))} IN
               [j \in 1..Cardinality(keep) |-> s[SetToSortSeq(keep, <)[j]]]
MacPaths(b) == LET segs == SegsOf(b, MacSeps(b)) IN
               [j \in 1..Len(segs) |-> Unescape(SubSeq(segs[j], 1, Len(segs[j]) - 1))]
MacWellFormed(b) == /\ Len(b) >= 1 /\ b[1] = SL /\ Len(b) \in MacSeps(b)
                    /\ (Q("MinLen") => Len(b) >= 3)
                    /\ (Q("MacTail") => b[Len(b) - 1] # BS)
                    /\ (~Q("MacRel") => \A j \in 1..Len(MacPaths(b)) : MacPaths(b)[j] # <<>> /\ MacPaths(b)[j][1] = SL)

AllExist(fs, ps) == \A j \in 1..Len(ps) : PathOK(fs, ps[j])

(* [drag, files] the reference assigns to buffer b on platform o *)
RefOf(o, fs, b) ==
    IF o = "linux" THEN
        LET cs == RefCuts("lx", b) IN
        IF \E c \in cs : AllExist(fs, RefPaths("lx", b, c))
        THEN [drag |-> TRUE, files |-> RefPaths("lx", b, CHOOSE c \in cs : AllExist(fs, RefPaths("lx", b, c)))]
        ELSE [drag |-> FALSE, files |-> <<>>]
    ELSE IF o = "macos" THEN
        IF MacWellFormed(b) /\ AllExist(fs, MacPaths(b)) THEN [drag |-> TRUE, files |-> MacPaths(b)]
        ELSE [drag |-> FALSE, files |-> <<>>]
    ELSE IF o = "win" THEN
        IF LostQuote(b) /\ PathOK(fs, SubSeq(b, 1, Len(b) - 1)) THEN [drag |-> TRUE, files |-> <<SubSeq(b, 1, Len(b) - 1)>>]
        ELSE LET st == StyleOf(b)
                 cs == IF st = "none" THEN {} ELSE RefCuts(st, b) IN
             IF \E c \in cs : AllExist(fs, RefPaths(st, b, c))
             THEN [drag |-> TRUE, files |-> RefPaths(st, b, CHOOSE c \in cs : AllExist(fs, RefPaths(st, b, c)))]
             ELSE [drag |-> FALSE, files |-> <<>>]
    ELSE [drag |-> FALSE, files |-> <<>>]

(* the buffer the reference is applied to: the chunk without the bracketed-paste marks       *)
RefBuf(c) == IF Len(c) > 5 /\ HasSub(c, Paste20) THEN Stripped(c) ELSE c
Ref == RefOf(os, FS(fsn), RefBuf(chunk))
RefUnique == os \in {"linux", "win"} /\ pc = "done" =>
                 LET st == IF os = "linux" THEN "lx" ELSE StyleOf(RefBuf(chunk)) IN
                 st # "none" => Cardinality(RefCuts(st, RefBuf(chunk))) <= 1

-----------------------------------------------------------------------------
(* Properties                                                                                *)
TypeOK == /\ pc \in {"start", "os", "lxguard", "macguard", "winguard", "loop", "next", "scan", "cut", "stat", "macloop", "done"}
          /\ idx \in 0..(Len(buf) + 1) /\ k \in 0..Len(hay)

(* (1) a drag is reported only if every token of the chunk is an existing path, and the list *)
(*     is the reference tokenisation                                                          *)
AllOrNothing == pc = "done" => /\ res.drag = Ref.drag
                                /\ res.drag => res.files = Ref.files
(* (2) not a drag: what goes to the server is the chunk, byte for byte; a drag: nothing      *)
NoDragLeavesInputUntouched == pc = "done" => res.forward = (IF res.drag THEN <<>> ELSE chunk)
(* (3) every loop turn consumes at least one byte and the cursor stays inside the buffer     *)
(*     (one past the end after a closing quote that is the last byte)                         *)
CursorMonotone == /\ pc = "stat" => adv >= 1 /\ idx + adv <= Len0 + 1
                  /\ turns <= Len0
                  /\ pc = "stat" /\ idx + adv = Len0 + 1 => quoted /\ style # "lx"
CursorStep == [][idx' >= idx /\ (turns' > turns /\ style = "mac" => idx' > idx) /\ (pc = "stat" /\ pc' = "loop" => idx' > idx)]_vars
Termination == <>(pc = "done")
(* two defensive branches of the code can never be taken (the guards exclude them): the      *)
(* actions PlainNoSpaceFail (Linux) and MacEndDirty must not fire                              *)
DeadBranches == /\ (pc = "cut" /\ ~quoted /\ ~found => style # "lx")
                /\ (pc = "macloop" /\ idx >= Len0 => pathBuf = <<>>)
(* (4) *)
HasDirIff == pc = "done" /\ res.drag => (res.hasDir <=> \E j \in 1..Len(res.files) : Kind(FS(fsn), res.files[j]) = "dir")
(* (5) *)
DragHasFiles == pc = "done" /\ res.drag => /\ Len(res.files) >= 1 /\ AllExist(FS(fsn), res.files)
                                           /\ ~res.ignore /\ ~res.isWin
NoDragNoFiles == pc = "done" /\ ~res.drag => res.files = <<>> /\ ~res.hasDir
(* `ignore`: the chunk consists of bracketed-paste marks only - it is forwarded, but does    *)
(* not end a drag that is being collected                                                     *)
IgnoreMeansMarksOnly == pc = "done" => (res.ignore <=> (Len(chunk) > 5 /\ HasSub(chunk, Paste20) /\ Stripped(chunk) = <<>>))
(* isWinPath: "looks like the beginning of a Windows path list, wait for the rest"            *)
IsWinMeansWinHead == pc = "done" /\ res.isWin => os = "win" /\ ~res.drag /\ StyleOf(buf) = "win"
(* the absolute-path intent: every reported path is absolute (starts a drive on Windows)      *)
AbsoluteOnly == pc = "done" /\ res.drag /\ ~Q("MacRel") =>
                   \A j \in 1..Len(res.files) : IF os = "win" THEN res.files[j][2] = CO ELSE res.files[j][1] = SL
=============================================================================
