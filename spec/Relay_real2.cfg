SPECIFICATION Spec
CONSTANTS
  CliChunks <- Cli2
  SrvChunks <- Srv2
  Confirm = TRUE
  Recheck = TRUE
  FlushFirst = TRUE
INVARIANTS Order NothingLost ParkOnlyWhileHandshaking JunkIsBeforeLine
PROPERTIES Progress
CHECK_DEADLOCK FALSE
