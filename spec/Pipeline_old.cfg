SPECIFICATION Spec
CONSTANTS
  Blocks = 3
  Cap = 1
  InitChunks = 2
  OldWaitGroup = TRUE
  Faults = {"silent", "writeerr", "readerr"}
INVARIANTS OkMeansComplete CleanOk
PROPERTIES Termination
CHECK_DEADLOCK FALSE
