------------------------------- MODULE Wire -------------------------------
(* trzsz/buffer.go: trzszBuffer (bufCh, nextBuf/nextIdx cursor, readBuf) with its three     *)
(* readers readLine(strict), readLine(mayHasJunk) and readBinary(n), the stop token and     *)
(* the per-read timer with the replaceable newTimeout (setNewTimeout, used by resume).      *)
(* One action per critical section of the Go code:                                          *)
(*   Push(c)        addBuffer(c)                 (transport delivers one read)               *)
(*   Start(op, n)   readLine/readBinary entry    (readBuf.Reset, timers armed)               *)
(*   ReadIter       one turn of the for-loop: nextBuffer() + cut + Ctrl-C test + append +    *)
(*                  return-or-continue                                                       *)
(*   Stop           stopBuffer()                 (non-blocking send on stopCh)               *)
(*   TimerFire      the read's timer expires                                                 *)
(*   SetNewTimeout  setNewTimeout(fresh timer)                                               *)
(*   Drain          drainBuffer()                                                            *)
(* The reference (RefOp) is defined on the concatenated stream `fed` only.                   *)
EXTENDS Integers, Sequences, SequencesExt, FiniteSets, TLC

CONSTANTS Alphabet,    \* bytes Push may deliver
          MaxLen,      \* bound on Len(fed)
          MaxChunk,    \* bound on the size of one pushed chunk
          MaxOps,      \* bound on the number of reads started
          BinSizes,    \* sizes used for readBinary
          WithStop,    \* BOOLEAN: Stop action enabled
          WithTimer    \* BOOLEAN: timer actions enabled

LF  == 10
CR  == 13
ETX == 3

VARIABLES fed, q, nextBuf, nextIdx, readBuf, pc, binN,
          stopTok, timerArmed, timerFired, newTimer,
          pos, opStart, out

vars == <<fed, q, nextBuf, nextIdx, readBuf, pc, binN, stopTok, timerArmed, timerFired, newTimer,
          pos, opStart, out>>

Reading == pc \in {"line", "junk", "bin"}

Flat(ss) == FoldLeft(LAMBDA acc, c : acc \o c, <<>>, ss)
RestOf(s, i) == SubSeq(s, i + 1, Len(s))          \* s without its first i elements
Has(s, b) == \E i \in 1..Len(s) : s[i] = b
FirstIdx(s, b, from) ==                            \* least i > from with s[i] = b, else 0
    IF \E i \in (from + 1)..Len(s) : s[i] = b
    THEN CHOOSE i \in (from + 1)..Len(s) : s[i] = b /\ \A j \in (from + 1)..(i - 1) : s[j] # b
    ELSE 0

-----------------------------------------------------------------------------
(* Reference semantics on the whole stream s, reading from offset p (bytes consumed).       *)
(* Result: [st |-> "ok", val, np]  complete item, np = offset after it                      *)
(*         [st |-> "int"]          Ctrl-C inside the item (or inside what has arrived of it) *)
(*         [st |-> "wait"]         item not complete yet and no Ctrl-C seen                 *)

RECURSIVE RefJunk(_, _, _)
RefJunk(s, p, acc) ==
    LET i == FirstIdx(s, LF, p) IN
    IF i = 0 THEN (IF Has(RestOf(s, p), ETX) THEN [st |-> "int"] ELSE [st |-> "wait"])
    ELSE LET seg == SubSeq(s, p + 1, i - 1)
             a2  == acc \o seg IN
         IF Has(seg, ETX) THEN [st |-> "int"]
         ELSE IF a2 # <<>> /\ a2[Len(a2)] = CR THEN RefJunk(s, i, SubSeq(a2, 1, Len(a2) - 1))
         ELSE [st |-> "ok", val |-> a2, np |-> i]

RefLine(s, p) ==
    LET i == FirstIdx(s, LF, p) IN
    IF i = 0 THEN (IF Has(RestOf(s, p), ETX) THEN [st |-> "int"] ELSE [st |-> "wait"])
    ELSE LET seg == SubSeq(s, p + 1, i - 1) IN
         IF Has(seg, ETX) THEN [st |-> "int"] ELSE [st |-> "ok", val |-> seg, np |-> i]

RefBin(s, p, n) ==
    IF Len(s) - p >= n THEN [st |-> "ok", val |-> SubSeq(s, p + 1, p + n), np |-> p + n]
    ELSE [st |-> "wait"]

RefOp(s, p, op, n) ==
    CASE op = "line" -> RefLine(s, p)
      [] op = "junk" -> RefJunk(s, p, <<>>)
      [] op = "bin"  -> RefBin(s, p, n)

-----------------------------------------------------------------------------
Init ==
    /\ fed = <<>> /\ q = <<>> /\ nextBuf = <<>> /\ nextIdx = 0 /\ readBuf = <<>>
    /\ pc = "idle" /\ binN = 0
    /\ stopTok = FALSE /\ timerArmed = FALSE /\ timerFired = FALSE /\ newTimer = FALSE
    /\ pos = 0 /\ opStart = 0 /\ out = <<>>

(* used by the trace spec to start the next recorded run *)
Reset ==
    /\ fed' = <<>> /\ q' = <<>> /\ nextBuf' = <<>> /\ nextIdx' = 0 /\ readBuf' = <<>>
    /\ pc' = "idle" /\ binN' = 0
    /\ stopTok' = FALSE /\ timerArmed' = FALSE /\ timerFired' = FALSE /\ newTimer' = FALSE
    /\ pos' = 0 /\ opStart' = 0 /\ out' = <<>>

Push(c) ==
    /\ c # <<>>
    /\ fed' = fed \o c
    /\ q' = Append(q, c)
    /\ UNCHANGED <<nextBuf, nextIdx, readBuf, pc, binN, stopTok, timerArmed, timerFired, newTimer,
                   pos, opStart, out>>

(* readLine / readBinary entry.  timed = a non-nil timeout channel was passed.               *)
Start(op, n, timed) ==
    /\ pc = "idle"
    /\ pc' = op /\ binN' = n
    /\ readBuf' = <<>>
    /\ timerArmed' = timed /\ timerFired' = FALSE /\ newTimer' = FALSE
    /\ opStart' = pos
    /\ UNCHANGED <<fed, q, nextBuf, nextIdx, stopTok, pos, out>>

Finish(res, val) ==
    /\ out' = Append(out, [op |-> pc, n |-> binN, at |-> opStart, res |-> res, val |-> val])
    /\ pc' = IF res = "ok" THEN "idle" ELSE "dead"

(* readBinary(0): the loop body never runs.                                                   *)
BinZero ==
    /\ pc = "bin" /\ binN = 0
    /\ Finish("ok", <<>>)
    /\ UNCHANGED <<fed, q, nextBuf, nextIdx, readBuf, binN, stopTok, timerArmed, timerFired, newTimer,
                   pos, opStart>>

(* The part of ReadIter after nextBuffer() handed out `buf` (the unread rest of a chunk);    *)
(* nb/ni are the cursor values nextBuffer left behind.                                       *)
Process(buf, nb, ni, q2) ==
    /\ q' = q2 /\ nextBuf' = nb
    /\ UNCHANGED <<fed, binN, stopTok, timerArmed, timerFired, newTimer, opStart>>
    /\ IF pc = "bin"
       THEN LET left == binN - Len(readBuf)
                take == IF Len(buf) > left THEN left ELSE Len(buf)
                rb   == readBuf \o SubSeq(buf, 1, take) IN
            /\ nextIdx' = ni + take /\ pos' = pos + take /\ readBuf' = rb
            /\ IF Len(rb) >= binN THEN Finish("ok", rb) ELSE UNCHANGED <<out, pc>>
       ELSE LET i    == FirstIdx(buf, LF, 0)
                seg  == IF i > 0 THEN SubSeq(buf, 1, i - 1) ELSE buf
                adv  == IF i > 0 THEN i ELSE Len(buf)
                rb   == readBuf \o seg IN
            /\ nextIdx' = ni + adv /\ pos' = pos + adv
            /\ IF Has(seg, ETX)
               THEN readBuf' = readBuf /\ Finish("int", <<>>)
               ELSE IF i = 0
                    THEN readBuf' = rb /\ UNCHANGED <<out, pc>>
                    ELSE IF pc = "junk" /\ rb # <<>> /\ rb[Len(rb)] = CR
                         THEN readBuf' = SubSeq(rb, 1, Len(rb) - 1) /\ UNCHANGED <<out, pc>>
                         ELSE readBuf' = rb /\ Finish("ok", rb)

(* nextBuffer() returns the unread rest of the current chunk without looking at channels.    *)
IterCurrent ==
    /\ Reading /\ ~(pc = "bin" /\ binN = 0)
    /\ nextIdx < Len(nextBuf)
    /\ Process(RestOf(nextBuf, nextIdx), nextBuf, nextIdx, q)

(* nextBuffer() takes the next chunk from bufCh (select may pick this arm whenever ready).    *)
IterTake ==
    /\ Reading /\ ~(pc = "bin" /\ binN = 0)
    /\ nextIdx >= Len(nextBuf)
    /\ q # <<>>
    /\ Process(Head(q), Head(q), 0, Tail(q))

(* select picks the stop arm: the token is consumed, the read fails.                          *)
IterStopped ==
    /\ Reading /\ ~(pc = "bin" /\ binN = 0)
    /\ nextIdx >= Len(nextBuf)
    /\ stopTok
    /\ stopTok' = FALSE
    /\ Finish("stopped", <<>>)
    /\ UNCHANGED <<fed, q, nextBuf, nextIdx, readBuf, binN, timerArmed, timerFired, newTimer, pos, opStart>>

(* select picks the timeout arm.  With a newTimeout installed the read carries on with it.   *)
IterTimeout ==
    /\ Reading /\ ~(pc = "bin" /\ binN = 0)
    /\ nextIdx >= Len(nextBuf)
    /\ timerArmed /\ timerFired
    /\ IF newTimer
       THEN /\ newTimer' = FALSE /\ timerFired' = FALSE
            /\ UNCHANGED <<fed, q, nextBuf, nextIdx, readBuf, pc, binN, stopTok, timerArmed, pos, opStart, out>>
       ELSE /\ Finish("timeout", <<>>)
            /\ UNCHANGED <<fed, q, nextBuf, nextIdx, readBuf, binN, stopTok, timerArmed, timerFired, newTimer,
                           pos, opStart>>

ReadIter == BinZero \/ IterCurrent \/ IterTake \/ IterStopped \/ IterTimeout

Stop ==
    /\ WithStop
    /\ stopTok' = TRUE
    /\ UNCHANGED <<fed, q, nextBuf, nextIdx, readBuf, pc, binN, timerArmed, timerFired, newTimer, pos, opStart, out>>

TimerFire ==
    /\ WithTimer /\ Reading /\ timerArmed /\ ~timerFired
    /\ timerFired' = TRUE
    /\ UNCHANGED <<fed, q, nextBuf, nextIdx, readBuf, pc, binN, stopTok, timerArmed, newTimer, pos, opStart, out>>

SetNewTimeout ==
    /\ WithTimer /\ Reading /\ ~newTimer
    /\ newTimer' = TRUE
    /\ UNCHANGED <<fed, q, nextBuf, nextIdx, readBuf, pc, binN, stopTok, timerArmed, timerFired, pos, opStart, out>>

Chunks == UNION {[1..k -> Alphabet] : k \in 1..MaxChunk}

Next ==
    \/ \E c \in Chunks : Len(fed) + Len(c) <= MaxLen /\ Push(c)
    \/ \E op \in {"line", "junk"} : Len(out) < MaxOps /\ Start(op, 0, WithTimer)
    \/ \E n \in BinSizes : Len(out) < MaxOps /\ Start("bin", n, WithTimer)
    \/ ReadIter
    \/ Stop
    \/ TimerFire
    \/ SetNewTimeout

Spec == Init /\ [][Next]_vars

-----------------------------------------------------------------------------
(* Properties (C03).                                                                         *)

TypeOK ==
    /\ nextIdx \in 0..Len(nextBuf)
    /\ pos \in 0..Len(fed)
    /\ pc \in {"idle", "line", "junk", "bin", "dead"}

(* Nothing lost, duplicated or reordered: what is still unread is exactly the rest of fed.   *)
CursorOK == RestOf(fed, pos) = RestOf(nextBuf, nextIdx) \o Flat(q)

(* Every completed read returned what the reference extracts from the concatenated bytes,    *)
(* from the offset where the previous one ended -- whatever the segmentation was.            *)
SegIndep ==
    \A k \in 1..Len(out) :
        LET o == out[k]
            r == RefOp(fed, o.at, o.op, o.n) IN
        /\ o.at = (IF k = 1 THEN 0 ELSE RefOp(fed, out[k - 1].at, out[k - 1].op, out[k - 1].n).np)
        /\ o.res = "ok"  => r.st = "ok" /\ r.val = o.val
        /\ o.res = "int" => r.st = "int"
        /\ o.res \in {"stopped", "timeout"} => k = Len(out)
        /\ o.res # "ok" => k = Len(out) /\ pc = "dead"

(* A complete item that has already arrived is delivered without waiting for more input:     *)
(* a reader with nothing left to look at has an incomplete, Ctrl-C-free item in front of it. *)
NoWait ==
    (Reading /\ nextIdx >= Len(nextBuf) /\ q = <<>> /\ ~(pc = "bin" /\ binN = 0))
        => RefOp(fed, opStart, pc, binN).st = "wait"

(* Progress of the current read is consistent with the reference.                            *)
PartialOK ==
    (Reading /\ ~(pc = "bin" /\ binN = 0)) => LET r == RefOp(SubSeq(fed, 1, pos), opStart, pc, binN) IN r.st = "wait"

=============================================================================
