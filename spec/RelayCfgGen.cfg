SPECIFICATION Spec
CONSTANTS
  ProtoSet = {0, 2, 4, 9}
  MaxProto = 4
INVARIANTS NoBinaryWithoutTunnel ProtocolClamped OnlyAdds NewlineAsDirect ActOnlyNarrows Export
CHECK_DEADLOCK FALSE
