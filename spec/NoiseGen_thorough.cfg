SPECIFICATION GSpec
CONSTANTS
  GenChunk = "whole"
  Modes = {"tmux", "win"}
  ExpType <- MC_ExpType
  LineTypes <- MC_LineTypes
  PayBytes = {97, 98}
  MaxPay = 2
  MaxLines = 1
  MaxNoise = 2
  MaxPend = 0
  TxtSet <- MC_TxtSet
  CsiSet <- MC_CsiSet
  PadBytes = {32}
  NlSet <- MC_NlSet
  StSet <- MC_StSet
  WithEtx = TRUE
  Quirks = {}
INVARIANTS Export Recovered CtrlCInterrupts Returned
CHECK_DEADLOCK FALSE
