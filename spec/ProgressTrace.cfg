SPECIFICATION TSpec
CONSTANTS
  ColsSet = {}
  PaneSet = {}
  CountSet = {}
  NameKinds = {}
  NameWidths = {}
  HeavyKinds = {}
  HeavyWidths = {}
  TSet = {}
  SSet = {}
  ESet = {}
  SizeKinds = {}
  StepKinds = {}
  PreKinds = {}
  DtSet = {}
  Acts = {}
  MaxCalls = 0
INVARIANTS TypeOK Fits PctRange PctMonotone BarCellsInRange NameOnlyShortened NameImpliesBar
CONSTRAINT HW
POSTCONDITION Accepted
CHECK_DEADLOCK FALSE
