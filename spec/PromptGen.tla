----------------------------- MODULE PromptGen -----------------------------
(* Test-case generator for Prompt (spec -> implementation): every stream x chunking of the  *)
(* configuration is printed with what the transducer writes to the prompt per chunk (out),   *)
(* the chunking-independent reading of the whole stream (ref) and whether the chunking is    *)
(* key-aligned; harness/x02_dragprompt.go (x02_keys) replays the chunks into the real        *)
(* transformPromptInput.                                                                      *)
EXTENDS Prompt, Json, TLCExt
GSpec == Init /\ [][FALSE]_vars
Export == PrintT("MBT " \o ToJson([chunks |-> chunks0,
                                   out |-> [i \in 1..Len(chunks0) |-> Translate(chunks0[i])],
                                   ref |-> RefTranslate(Flat(chunks0)), aligned |-> KeyAligned(chunks0),
                                   ctrlc |-> [i \in 1..Len(chunks0) |-> IsCtrlC(chunks0[i])]]))
=============================================================================
