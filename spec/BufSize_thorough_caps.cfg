\* after the probing with channel capacities 3 (at most 4 items flow per file in this model, so 3 is the largest capacity that still blocks)
SPECIFICATION Spec
CONSTANTS
  Floor = 1024
  P1Start = 1024
  InitSize = 10240
  HardCap = 1073741824
  BoundFloor = 1048576
  SendCap = 3
  AckCap = 3
  MaxBufs = {40960}
  Modes = {"bin"}
  Protos = {4}
  Secs = {2}
  MaxChunks = 2
  P1MaxChunks = 1
  MaxFiles = 1
  MaxPauses = 0
  StartSizes = {40960}
  Variant = "coded"
INVARIANTS TypeOK SizeInRange ChunksInRange NeverRejectedByReceiver NothingQueuedIsRejected ProbeEndsOnce
  TokenPaired EncoderNotStuck OneChunkWhileProbing DoubleOnlyWhenAllowed ShrinkOnlyWhenSlow
  SuspendedAfterPause ProbeEndedBy
CHECK_DEADLOCK TRUE
